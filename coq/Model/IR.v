(* Model of the query-plan IR (src/ir/mod.rs: IRNode, Predicate, IRExpression) and of its
   executable semantics on Differential Dataflow (src/code_generator/mod.rs:
   generate_collection_tuples and the generate_*_tuples / predicate_to_tuple_fn /
   eval_arith_runtime / evaluate_expression helpers), as a BAG denotation
       den  : ir -> db -> list tuple        (a list up to Permutation; multiplicities are DD diffs
                                             under the Counting semiring, i.e. `isize`)
       dens : ir -> db -> list tuple        (= dedup . den: what CodeGenerator::execute returns,
                                             because of the final distinct_core)
   Executable definitions only.  The correspondence den/dens vs CodeGenerator::execute is validated
   on every run by Checks/C05.v + harness/src/bin/c05.rs (and C03); it is not proved (DD is trusted).

   Modelling decisions (each one is what the generators respect and the evidence states):
   - the six `Column<Op>Const` predicates are one constructor [PConst op], likewise Str / Float /
     Columns<Op>; ColumnEqBool/NeBool are [PBool true/false];
   - `ArithExpr` variables are resolved through the predicate's var_map (an association list);
     ArithExpr::FloatConstant is not modelled; i64 overflow inside eval_arith_runtime (a panic in
     debug builds, wrap-around in release) is not modelled: arithmetic is exact on Z;
   - float comparisons: `(f - c).abs() < 1e-10` is modelled as IEEE equality, which is exact when
     both operands are NaN-free multiples of 2^-k with |x| < 2^40 (what the generators produce);
     Int64 -> f64 conversion is modelled exactly (round to nearest even);
   - AggregateFunction: Count, CountDistinct, Sum, Min, Max.  Avg and the ranking aggregates
     (TopK, TopKThreshold, WithinRadius) are not modelled.  Sum is the exact integer sum clamped to
     the i64 range; the code folds saturating_add over the group in tuple order, which differs only
     when a partial sum leaves the i64 range while the total does not.  Min/Max use the value order
     [vcmp], which is `impl Ord for Value` on NaN-free floats except that -0.0 < +0.0 strictly;
   - IRExpression: Column, Int/Float/String/Bool constants, Arithmetic Add/Sub/Mul/Mod on integer
     operands (exact; the code goes through f64, exact below 2^53).  Div, non-integer operands,
     VectorLiteral and FunctionCall are not modelled (arithmetic on them yields VNull here);
   - HnswScan denotes the empty collection, as in generate_collection_tuples. *)
From IL Require Export Model.Value.
Open Scope N_scope.

(* ------------------------------------------------------------------ syntax *)
Inductive cmpop := OEq | ONe | OLt | OLe | OGt | OGe.
Inductive aop := AAdd | ASub | AMul | ADiv | AMod.

(* crate::ast::ArithExpr *)
Inductive aexpr :=
| AConst (z : Z)
| AVar (name : N)
| ABin (op : aop) (l r : aexpr).

Definition varmap := list (N * nat).

(* crate::ir::Predicate *)
Inductive pred :=
| PConst (op : cmpop) (col : nat) (z : Z)
| PStr (op : cmpop) (col : nat) (s : list N)
| PBool (eq : bool) (col : nat) (b : bool)
| PFloat (op : cmpop) (col : nat) (bits : N)
| PCols (op : cmpop) (l r : nat)
| PColArith (col : nat) (op : cmpop) (e : aexpr) (vm : varmap)
| PArithConst (e : aexpr) (op : cmpop) (z : Z) (vm : varmap)
| PAnd (a b : pred)
| POr (a b : pred)
| PTrue
| PFalse.

Inductive eop := EAdd | ESub | EMul | EMod.

(* crate::ir::IRExpression (modelled fragment) *)
Inductive expr :=
| ECol (i : nat)
| EInt (z : Z)
| EFloat (bits : N)
| EStr (s : list N)
| EBool (b : bool)
| EArith (op : eop) (l r : expr).

Inductive aggfn := AgCount | AgCountDistinct | AgSum | AgMin | AgMax.

Definition schema := list N.      (* column names as ids; only lengths and equality matter *)

(* crate::ir::IRNode — the 12 constructors *)
Inductive ir :=
| Scan (rel : N) (sch : schema)
| Map (input : ir) (proj : list nat) (sch : schema)
| Filter (input : ir) (p : pred)
| Join (l r : ir) (lk rk : list nat) (sch : schema)
| Distinct (input : ir)
| Union (inputs : list ir)
| Aggregate (input : ir) (gb : list nat) (aggs : list (aggfn * nat)) (sch : schema)
| Antijoin (l r : ir) (lk rk : list nat) (sch : schema)
| Compute (input : ir) (exprs : list (N * expr))
| HnswScan (sch : schema)
| FlatMap (input : ir) (proj : list nat) (fp : option pred) (sch : schema)
| JoinFlatMap (l r : ir) (lk rk : list nat) (proj : list nat) (fp : option pred) (sch : schema).

Definition db := list (N * list tuple).

Fixpoint lookup_rel (d : db) (r : N) : list tuple :=
  match d with
  | [] => []
  | (r', ts) :: d' => if N.eqb r r' then ts else lookup_rel d' r
  end.

(* ------------------------------------------------------------------ tuples *)
(* Tuple::project / from_indices: out-of-range indices are skipped *)
Definition project (idxs : list nat) (t : tuple) : tuple :=
  flat_map (fun i => match nth_error t i with Some v => [v] | None => [] end) idxs.

(* Tuple::excluding_indices *)
Fixpoint excl_from (i : nat) (ex : list nat) (t : tuple) : tuple :=
  match t with
  | [] => []
  | v :: r => if existsb (Nat.eqb i) ex then excl_from (S i) ex r else v :: excl_from (S i) ex r
  end.
Definition excluding (ex : list nat) (t : tuple) : tuple := excl_from 0 ex t.

(* ------------------------------------------------------------------ numbers *)
(* i64 -> f64 (`as f64`): round to nearest, ties to even; result as IEEE bits *)
Definition f64_of_Z (z : Z) : N :=
  match z with
  | Z0 => 0
  | _ =>
    let sgn := if (z <? 0)%Z then N.shiftl 1 63 else 0 in
    let m := Z.abs_N z in
    let e := N.log2 m in
    let q :=
      if e <=? 52 then N.shiftl m (52 - e)
      else
        let sh := e - 52 in
        let q0 := N.shiftr m sh in
        let r := N.land m (N.ones sh) in
        let half := N.shiftl 1 (sh - 1) in
        if (half <? r) || ((r =? half) && N.odd q0) then q0 + 1 else q0 in
    (* q in [2^52, 2^53]; adding (q - 2^52) to the exponent field carries correctly when q = 2^53 *)
    sgn + N.shiftl (e + 1023) 52 + (q - N.shiftl 1 52)
  end.

(* f64 -> i64 (`as i64`): truncation toward zero, saturating; NaN -> 0.
   Value::to_i64 maps non-finite floats to 0 before the cast. *)
Definition i64_min : Z := (- 9223372036854775808)%Z.
Definition i64_max : Z := 9223372036854775807%Z.
Definition clamp_i64 (z : Z) : Z := Z.max i64_min (Z.min i64_max z).

Definition f64_to_i64_finite (b : N) : Z :=
  let ex := N.land (N.shiftr b 52) 2047 in
  let fr := N.land b (N.ones 52) in
  if ex =? 2047 then 0%Z
  else
    let m := if ex =? 0 then fr else fr + N.shiftl 1 52 in
    let e := if ex =? 0 then 1 else ex in
    (* value = m * 2^(e - 1075) *)
    let mag := if 1075 <=? e then N.shiftl m (e - 1075) else N.shiftr m (1075 - e) in
    clamp_i64 (if f64_sign b then (- Z.of_N mag)%Z else Z.of_N mag).

Definition as_i64 (v : value) : option Z :=
  match v with VI32 z | VI64 z | VTs z => Some z | _ => None end.
Definition as_f64 (v : value) : option N :=
  match v with VF64 b => Some b | VI32 z | VI64 z => Some (f64_of_Z z) | _ => None end.
Definition as_str (v : value) : option (list N) := match v with VStr s => Some s | _ => None end.
Definition as_bool (v : value) : option bool := match v with VBool b => Some b | _ => None end.
(* Value::to_i64 *)
Definition to_i64 (v : value) : Z :=
  match v with
  | VI32 z | VI64 z | VTs z => z
  | VF64 b => f64_to_i64_finite b
  | VBool b => if b then 1%Z else 0%Z
  | _ => 0%Z
  end.

Definition cmp_holds (op : cmpop) (c : comparison) : bool :=
  match op, c with
  | OEq, Eq => true | OEq, _ => false
  | ONe, Eq => false | ONe, _ => true
  | OLt, Lt => true | OLt, _ => false
  | OLe, Gt => false | OLe, _ => true
  | OGt, Gt => true | OGt, _ => false
  | OGe, Lt => false | OGe, _ => true
  end.

(* float comparison on bit patterns; every operator is false when an operand is NaN
   (including `!=`, which the code writes as `(f - c).abs() >= TOL`) *)
Definition fcmp_holds (op : cmpop) (a b : N) : bool :=
  match f64_partial_cmp a b with Some c => cmp_holds op c | None => false end.

Definition str_cmp (a b : list N) : comparison := lex_cmp N.compare a b.

(* ------------------------------------------------------------------ predicates *)
Fixpoint vm_get (vm : varmap) (x : N) : option nat :=
  match vm with
  | [] => None
  | (y, c) :: r => if N.eqb x y then Some c else vm_get r x
  end.

(* CodeGenerator::eval_arith_runtime *)
Fixpoint eval_arith (e : aexpr) (t : tuple) (vm : varmap) : option Z :=
  match e with
  | AConst z => Some z
  | AVar x => match vm_get vm x with
              | Some c => match nth_error t c with Some v => as_i64 v | None => None end
              | None => None
              end
  | ABin op l r =>
      match eval_arith l t vm, eval_arith r t vm with
      | Some a, Some b =>
          match op with
          | AAdd => Some (a + b)%Z
          | ASub => Some (a - b)%Z
          | AMul => Some (a * b)%Z
          | ADiv => if (b =? 0)%Z then None else Some (Z.quot a b)
          | AMod => if (b =? 0)%Z then None else Some (Z.rem a b)
          end
      | _, _ => None
      end
  end.

(* what a missing / wrongly typed column yields: `!=` forms answer true, all others false *)
Definition absent (op : cmpop) : bool := match op with ONe => true | _ => false end.

(* CodeGenerator::predicate_to_tuple_fn *)
Fixpoint eval_pred (p : pred) (t : tuple) : bool :=
  match p with
  | PConst op c z =>
      match nth_error t c with
      | Some v =>
          match as_i64 v with
          | Some i => cmp_holds op (Z.compare i z)
          | None => match as_f64 v with
                    | Some f => fcmp_holds op f (f64_of_Z z)
                    | None => absent op
                    end
          end
      | None => absent op
      end
  | PStr op c s =>
      match nth_error t c with
      | Some v => match as_str v with Some x => cmp_holds op (str_cmp x s) | None => absent op end
      | None => absent op
      end
  | PBool eq c b =>
      match nth_error t c with
      | Some v => match as_bool v with
                  | Some x => if eq then Bool.eqb x b else negb (Bool.eqb x b)
                  | None => negb eq
                  end
      | None => negb eq
      end
  | PFloat op c bits =>
      match nth_error t c with
      | Some v => match as_f64 v with Some f => fcmp_holds op f bits | None => absent op end
      | None => absent op
      end
  | PCols op l r =>
      match op with
      | OEq | ONe =>
          let same := match nth_error t l, nth_error t r with
                      | Some a, Some b => value_eqb a b
                      | None, None => true
                      | _, _ => false
                      end in
          if match op with OEq => true | _ => false end then same else negb same
      | _ =>
          match nth_error t l, nth_error t r with
          | Some a, Some b =>
              match as_i64 a, as_i64 b with
              | Some x, Some y => cmp_holds op (Z.compare x y)
              | _, _ => match as_f64 a, as_f64 b with
                        | Some x, Some y => fcmp_holds op x y
                        | _, _ => false
                        end
              end
          | _, _ => false
          end
      end
  | PColArith c op e vm =>
      match eval_arith e t vm with
      | None => false
      | Some a =>
          match nth_error t c with
          | None => false
          | Some v =>
              match as_i64 v with
              | Some i => cmp_holds op (Z.compare i a)
              | None => match as_f64 v with
                        | Some f => fcmp_holds op f (f64_of_Z a)
                        | None => false
                        end
              end
          end
      end
  | PArithConst e op z vm =>
      match eval_arith e t vm with
      | None => false
      | Some a => cmp_holds op (Z.compare a z)
      end
  | PAnd a b => eval_pred a t && eval_pred b t
  | POr a b => eval_pred a t || eval_pred b t
  | PTrue => true
  | PFalse => false
  end.

Definition eval_opred (fp : option pred) (t : tuple) : bool :=
  match fp with Some p => eval_pred p t | None => true end.

(* ------------------------------------------------------------------ expressions *)
Definition is_int (v : value) : option Z := match v with VI32 z | VI64 z => Some z | _ => None end.

(* CodeGenerator::evaluate_expression / evaluate_arithmetic (modelled fragment) *)
Fixpoint eval_expr (e : expr) (t : tuple) : value :=
  match e with
  | ECol i => match nth_error t i with Some v => v | None => VNull end
  | EInt z => VI64 z
  | EFloat b => VF64 b
  | EStr s => VStr s
  | EBool b => VBool b
  | EArith op l r =>
      match is_int (eval_expr l t), is_int (eval_expr r t) with
      | Some a, Some b =>
          match op with
          | EAdd => VI64 (a + b)%Z
          | ESub => VI64 (a - b)%Z
          | EMul => VI64 (a * b)%Z
          | EMod => if (b =? 0)%Z then VNull else VI64 (Z.rem a b)
          end
      | _, _ => VNull
      end
  end.

(* generate_compute_tuples: each expression sees the columns appended before it *)
Definition compute_tuple (es : list (N * expr)) (t : tuple) : tuple :=
  fold_left (fun cur ne => cur ++ [eval_expr (snd ne) cur]) es t.

(* ------------------------------------------------------------------ value order (Min / Max) *)
Definition venc (v : value) : list Z :=
  match v with
  | VNull => [0%Z]
  | VBool b => [1%Z; if b then 1%Z else 0%Z]
  | VI32 z => [2%Z; z]
  | VI64 z => [3%Z; z]
  | VF64 b => [4%Z; f64_total_key b; Z.of_N b]   (* last component: tie-break only for patterns >= 2^64 *)
  | VTs z => [5%Z; z]
  | VStr s => 6%Z :: map Z.of_N s
  | VVec bs => 7%Z :: Z.of_nat (length bs) :: map Z.of_N bs
  | VVec8 xs => 8%Z :: Z.of_nat (length xs) :: xs
  end.
Definition vcmp (a b : value) : comparison := lex_cmp Z.compare (venc a) (venc b).

Definition vmin2 (a b : value) : value := match vcmp a b with Gt => b | _ => a end.
Definition vmax2 (a b : value) : value := match vcmp a b with Lt => b | _ => a end.
Definition vfold (f : value -> value -> value) (l : list value) : value :=
  match l with [] => VNull | x :: r => fold_left f r x end.

(* ------------------------------------------------------------------ aggregation *)
Definition colvals (c : nat) (g : list tuple) : list value :=
  flat_map (fun t => match nth_error t c with Some v => [v] | None => [] end) g.

Definition zsum (l : list Z) : Z := fold_right Z.add 0%Z l.

(* one aggregate over the tuples of one group (with multiplicities) *)
Definition agg_one (f : aggfn) (c : nat) (g : list tuple) : value :=
  match f with
  | AgCount => VI64 (Z.of_nat (length g))
  | AgCountDistinct => VI64 (Z.of_nat (length (dedup_tuples (map (fun v => [v]) (colvals c g)))))
  | AgSum => VI64 (clamp_i64 (zsum (map to_i64 (colvals c g))))
  | AgMin => vfold vmin2 (colvals c g)
  | AgMax => vfold vmax2 (colvals c g)
  end.

(* generate_aggregate_tuples: key = project group_by; one output row per non-empty group *)
Definition den_agg (gb : list nat) (aggs : list (aggfn * nat)) (l : list tuple) : list tuple :=
  map (fun k => k ++ map (fun fc => agg_one (fst fc) (snd fc)
                                     (filter (fun t => tuple_eqb (project gb t) k) l)) aggs)
      (dedup_tuples (map (project gb) l)).

(* ------------------------------------------------------------------ joins *)
Definition is_nil {A} (l : list A) : bool := match l with [] => true | _ => false end.

(* generate_join_tuples: left columns ++ right NON-KEY columns; both key lists empty = cartesian
   product keeping every column *)
Definition den_join (lk rk : list nat) (L R : list tuple) : list tuple :=
  if is_nil lk && is_nil rk then
    flat_map (fun a => map (fun b => a ++ b) R) L
  else
    flat_map (fun a =>
      flat_map (fun b => if tuple_eqb (project lk a) (project rk b) then [a ++ excluding rk b] else [])
               R) L.

(* generate_antijoin_tuples: keep left tuples whose key is not among the right keys *)
Definition den_antijoin (lk rk : list nat) (L R : list tuple) : list tuple :=
  filter (fun a => negb (mem_tuple (project lk a) (map (project rk) R))) L.

(* FlatMap: projection, then the optional filter on the PROJECTED tuple *)
Definition den_flatmap (proj : list nat) (fp : option pred) (L : list tuple) : list tuple :=
  flat_map (fun t => let p := project proj t in if eval_opred fp p then [p] else []) L.

(* JoinFlatMap: key match, concat ALL columns of both sides, project, optional filter *)
Definition den_jfm (lk rk proj : list nat) (fp : option pred) (L R : list tuple) : list tuple :=
  flat_map (fun a =>
    flat_map (fun b =>
      if tuple_eqb (project lk a) (project rk b)
      then (let p := project proj (a ++ b) in if eval_opred fp p then [p] else [])
      else []) R) L.

(* ------------------------------------------------------------------ denotation *)
Fixpoint den (t : ir) (d : db) {struct t} : list tuple :=
  match t with
  | Scan r _ => lookup_rel d r
  | Map x proj _ => map (project proj) (den x d)
  | Filter x p => filter (eval_pred p) (den x d)
  | Join l r lk rk _ => den_join lk rk (den l d) (den r d)
  | Distinct x => dedup_tuples (den x d)
  | Union ts => flat_map (fun x => den x d) ts
  | Aggregate x gb aggs _ => den_agg gb aggs (den x d)
  | Antijoin l r lk rk _ => den_antijoin lk rk (den l d) (den r d)
  | Compute x es => map (compute_tuple es) (den x d)
  | HnswScan _ => []
  | FlatMap x proj fp _ => den_flatmap proj fp (den x d)
  | JoinFlatMap l r lk rk proj fp _ => den_jfm lk rk proj fp (den l d) (den r d)
  end.

Definition dens (t : ir) (d : db) : list tuple := dedup_tuples (den t d).

(* ------------------------------------------------------------------ schema width *)
Definition first_nonzero (ws : list nat) : nat :=
  match find (fun w => negb (Nat.eqb w 0)) ws with Some w => w | None => 0%nat end.

(* IRNode::output_schema().len() *)
Fixpoint width (t : ir) : nat :=
  match t with
  | Scan _ s => length s
  | Map _ _ s => length s
  | Filter x _ => width x
  | Join _ _ _ _ s => length s
  | Distinct x => width x
  | Union ts => first_nonzero (map width ts)      (* the first input that reports a schema *)
  | Aggregate _ _ _ s => length s
  | Antijoin _ _ _ _ s => length s
  | Compute x es => (width x + length es)%nat
  | HnswScan s => length s
  | FlatMap _ _ _ s => length s
  | JoinFlatMap _ _ _ _ _ _ s => length s
  end.

(* ------------------------------------------------------------------ set comparison helpers *)
Definition subset_tuples (a b : list tuple) : bool := forallb (fun t => mem_tuple t b) a.
Definition same_set (a b : list tuple) : bool := subset_tuples a b && subset_tuples b a.

(* multiplicity-aware comparison (bags) *)
Fixpoint count_tuple (t : tuple) (l : list tuple) : nat :=
  match l with [] => 0%nat | x :: r => ((if tuple_eqb t x then 1 else 0) + count_tuple t r)%nat end.
Definition same_bag (a b : list tuple) : bool :=
  Nat.eqb (length a) (length b) && forallb (fun t => Nat.eqb (count_tuple t a) (count_tuple t b)) a.
