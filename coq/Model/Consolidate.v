(* Model of `consolidate_to_current` (src/storage/persist/consolidate.rs): sort the updates by data with
   `Tuple::cmp` (slice::sort_by, stable), then merge ADJACENT updates whose data are `==`, summing diffs and
   dropping zero sums.  Its correctness is a consequence of C31 (total order consistent with ==).
   Executable definitions only. *)
From IL Require Export Model.Value Model.ValueOrd Model.WireSort.
Open Scope Z_scope.

Record update := mkUpd { u_data : tuple; u_time : N; u_diff : Z }.

Definition upd_cmp (a b : update) : comparison := tuple_cmp (u_data a) (u_data b).

Definition emit (cur : update) : list update := if u_diff cur =? 0 then [] else [cur].

(* the write_idx / read_idx loop, `cur` = updates[write_idx] *)
Fixpoint merge_adj (cur : update) (l : list update) : list update :=
  match l with
  | [] => emit cur
  | u :: r =>
      if tuple_eqb (u_data cur) (u_data u)
      then merge_adj (mkUpd (u_data cur) (u_time cur) (u_diff cur + u_diff u)) r
      else emit cur ++ merge_adj u r
  end.

Definition consolidate_to_current (l : list update) : list update :=
  match sort_by upd_cmp l with
  | [] => []
  | u :: r => merge_adj u r
  end.

(* specification: net multiplicity of a tuple in a list of updates *)
Fixpoint net (t : tuple) (l : list update) : Z :=
  match l with
  | [] => 0
  | u :: r => if tuple_eqb t (u_data u) then u_diff u + net t r else net t r
  end.

Definition upd_eqb (a b : update) : bool :=
  tuple_eqb (u_data a) (u_data b) && N.eqb (u_time a) (u_time b) && Z.eqb (u_diff a) (u_diff b).

(* executable oracle on an observed output: per-tuple sums preserved, no zero entries, no two entries
   with == data *)
Fixpoint nodup_data (l : list update) : bool :=
  match l with
  | [] => true
  | u :: r => negb (existsb (fun v => tuple_eqb (u_data u) (u_data v)) r) && nodup_data r
  end.

Definition consolidate_spec (input output : list update) : bool :=
  forallb (fun u => Z.eqb (net (u_data u) output) (net (u_data u) input)) (input ++ output) &&
  forallb (fun u => negb (u_diff u =? 0)) output &&
  nodup_data output.
