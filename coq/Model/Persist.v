(* Model/Persist.v — the DD-native persist layer as file-system micro-steps (C13).

   Stands for:  src/storage/persist/mod.rs  FilePersist::{new (load_shards, cleanup_orphaned_batches,
   replay_wal, drain), append, flush, compact, ensure_shard, save_shard_meta, write_batch},
   write_updates_parquet, sync_directory;  src/storage/persist/wal.rs  PersistWal::{ensure_writer,
   append_batch, read_all, remove_shard_entries, sync, cleanup_archives};
   src/storage/persist/consolidate.rs  consolidate, replay_to_current;
   src/storage_engine/mod.rs  StorageEngine::{new, insert_tuples_into, delete_tuples_from, save_all,
   compact_all, load_all_knowledge_graphs, load_knowledge_graph_from_persist, find_max_logical_time,
   save_knowledge_graphs_metadata};  src/storage/metadata.rs KnowledgeGraphsMetadata::save.

   One knowledge graph ("default"), relations/shards 0 and 1, tuples = one value.  Immediate
   durability mode, max_wal_size never reached.  [dsync] = whether the tree syncs the directory after
   every rename / unlink / creation in the persist directories (true = the repaired tree).
   Executable definitions only. *)
From Coq Require Import List NArith ZArith Bool Arith.
From IL Require Export Model.FS.
Import ListNotations.
Open Scope N_scope.

Record upd := mkUpd { ushard : N; uval : N; utime : N; udiff : Z }.

(* file contents: a WAL is a list of records; every other file is written whole and only parses when
   complete:  [PHead; body; PTail] *)
Inductive ptok :=
| PWal (u : upd)
| PHead | PTail
| PMeta (batches : list N) (upper : N)
| PBatch (us : list upd)
| PKgs.

(* directories *)
Definition D_WAL : N := 0.
Definition D_SHARDS : N := 1.
Definition D_BATCHES : N := 2.
Definition D_META : N := 3.
Definition f_wal : N := 0.
Definition f_walnew : N := 1.
Definition f_meta (s : N) : N := 2 * s.
Definition f_metatmp (s : N) : N := 2 * s + 1.
Definition f_batch (id : N) : N := 2 * id.
Definition f_batchtmp (id : N) : N := 2 * id + 1.

Definition NSHARD : nat := 2.

(* ------------------------------------------------------------------ pure parts *)
Definition whole (body : ptok) : list ptok := [PHead; body; PTail].
Definition parse_whole (l : list ptok) : option ptok :=
  match l with [PHead; b; PTail] => Some b | _ => None end.

(* PersistWal::read_all: complete records only (torn or foreign content is skipped) *)
Definition wal_entries (l : list ptok) : list upd :=
  flat_map (fun t => match t with PWal u => [u] | _ => [] end) l.

(* replay_to_current: a value is present iff the diffs at its highest time sum to a positive number *)
Fixpoint latest_upd (acc : list (N * (N * Z))) (u : upd) : list (N * (N * Z)) :=
  match acc with
  | [] => [(uval u, (utime u, udiff u))]
  | (v, (t, d)) :: r =>
      if N.eqb v (uval u)
      then (if N.ltb t (utime u) then (v, (utime u, udiff u)) :: r
            else if N.eqb t (utime u) then (v, (t, (d + udiff u)%Z)) :: r
            else (v, (t, d)) :: r)
      else (v, (t, d)) :: latest_upd r u
  end.
Fixpoint insert_sorted (x : N) (l : list N) : list N :=
  match l with
  | [] => [x]
  | y :: r => if N.ltb x y then x :: l else if N.eqb x y then l else y :: insert_sorted x r
  end.
Definition replay_to_current (us : list upd) : list N :=
  fold_left (fun acc e => if Z.ltb 0 (snd (snd e)) then insert_sorted (fst e) acc else acc)
            (fold_left latest_upd us []) [].

(* consolidate: sum diffs per (value, time), drop zero sums; sorted by (value, time) *)
Definition key_ltb (a b : upd) : bool :=
  N.ltb (uval a) (uval b) || (N.eqb (uval a) (uval b) && N.ltb (utime a) (utime b)).
Definition key_eqb (a b : upd) : bool := N.eqb (uval a) (uval b) && N.eqb (utime a) (utime b).
Fixpoint cons_insert (u : upd) (l : list upd) : list upd :=
  match l with
  | [] => [u]
  | x :: r => if key_eqb u x then mkUpd (ushard x) (uval x) (utime x) (udiff x + udiff u)%Z :: r
              else if key_ltb u x then u :: l else x :: cons_insert u r
  end.
Definition consolidate (us : list upd) : list upd :=
  filter (fun u => negb (Z.eqb (udiff u) 0)) (fold_left (fun acc u => cons_insert u acc) us []).

(* set semantics of the live relation *)
Fixpoint remove_val (x : N) (l : list N) : list N :=
  match l with [] => [] | y :: r => if N.eqb x y then r else y :: remove_val x r end.

(* ------------------------------------------------------------------ memory *)
Record shard_st := mkSh { known : bool; sbatches : list N; supper : N; sbuffer : list upd }.
Definition sh_empty : shard_st := mkSh false [] 0 [].

Record pmem := mkMem {
  shards : list shard_st;      (* indexed by shard number *)
  next_batch : N;
  clock : N;
  wal_open : bool;             (* PersistWal.writer is Some *)
  rels : list (list N)         (* live relation contents, sorted *)
}.

Record pstate := mkPs { pm : pmem; pf : fsys ptok }.

Definition get_sh (m : pmem) (s : N) : shard_st := nth (N.to_nat s) (shards m) sh_empty.
Fixpoint set_nth {X} (i : nat) (y : X) (l : list X) : list X :=
  match i, l with
  | _, [] => []
  | O, _ :: r => y :: r
  | S j, x :: r => x :: set_nth j y r
  end.
Definition set_sh (m : pmem) (s : N) (x : shard_st) : pmem :=
  mkMem (set_nth (N.to_nat s) x (shards m)) (next_batch m) (clock m) (wal_open m) (rels m).

Definition mem_init : pmem := mkMem (repeat sh_empty NSHARD) 1 1 false (repeat [] NSHARD).

(* ------------------------------------------------------------------ building blocks: (memory, steps) *)
Definition sync_dir (dsync : bool) (d : N) : list (mstep ptok) := if dsync then [MFsyncDir d] else [].

(* save_shard_meta *)
Definition meta_steps (dsync : bool) (s : N) (x : shard_st) : list (mstep ptok) :=
  [MCreate D_SHARDS (f_metatmp s); MWrite D_SHARDS (f_metatmp s) (whole (PMeta (sbatches x) (supper x)));
   MFsync D_SHARDS (f_metatmp s); MRename D_SHARDS (f_metatmp s) (f_meta s)] ++ sync_dir dsync D_SHARDS.

(* write_batch / write_updates_parquet *)
Definition batch_steps (dsync : bool) (id : N) (us : list upd) : list (mstep ptok) :=
  [MCreate D_BATCHES (f_batchtmp id); MWrite D_BATCHES (f_batchtmp id) (whole (PBatch us));
   MFsync D_BATCHES (f_batchtmp id); MRename D_BATCHES (f_batchtmp id) (f_batch id)] ++ sync_dir dsync D_BATCHES.

Definition wal_now (f : fsys ptok) : option (list upd) :=
  match d_read (f D_WAL) f_wal with Some l => Some (wal_entries l) | None => None end.

(* remove_shard_entries: rewrite the WAL without shard s (needs the current file system) *)
Definition wal_rewrite_steps (dsync : bool) (f : fsys ptok) (s : N) : list (mstep ptok) :=
  match wal_now f with
  | None => []
  | Some es =>
      let keep := filter (fun u => negb (N.eqb (ushard u) s)) es in
      match keep with
      | [] => [MUnlink D_WAL f_wal] ++ sync_dir dsync D_WAL
      | _ => [MCreate D_WAL f_walnew; MWrite D_WAL f_walnew (map PWal keep); MFsync D_WAL f_walnew;
              MRename D_WAL f_walnew f_wal] ++ sync_dir dsync D_WAL
      end
  end.

Definition batch_upper (us : list upd) : N := fold_left (fun a u => N.max a (utime u + 1)) us 0.

(* FilePersist::flush *)
Definition flush (dsync : bool) (st : pstate) (s : N) : pstate * list (mstep ptok) :=
  let x := get_sh (pm st) s in
  match sbuffer x with
  | [] => (st, [])
  | buf =>
      let id := next_batch (pm st) in
      let x' := mkSh true (sbatches x ++ [id]) (N.max (supper x) (batch_upper buf)) [] in
      let ms1 := batch_steps dsync id buf ++ meta_steps dsync s x' in
      let f1 := exec ms1 (pf st) in
      let ms2 := wal_rewrite_steps dsync f1 s in
      let m' := set_sh (mkMem (shards (pm st)) (id + 1) (clock (pm st)) false (rels (pm st))) s x' in
      (mkPs m' (exec ms2 f1), ms1 ++ ms2)
  end.

Fixpoint flush_list (dsync : bool) (st : pstate) (ss : list N) : pstate * list (mstep ptok) :=
  match ss with
  | [] => (st, [])
  | s :: r => let '(st1, ms1) := flush dsync st s in
              let '(st2, ms2) := flush_list dsync st1 r in (st2, ms1 ++ ms2)
  end.

(* batches of a shard as read from the (volatile) file system *)
Definition read_batch (f : fsys ptok) (id : N) : list upd :=
  match d_read (f D_BATCHES) (f_batch id) with
  | Some l => match parse_whole l with Some (PBatch us) => us | _ => [] end
  | None => []
  end.

(* FilePersist::compact (new_since = 0) *)
Definition compact (dsync : bool) (st : pstate) (s : N) : pstate * list (mstep ptok) :=
  let '(st1, ms1) := flush dsync st s in
  let x := get_sh (pm st1) s in
  if known x then
    let all := flat_map (read_batch (pf st1)) (sbatches x) in
    let filtered := consolidate all in
    let old := sbatches x in
    let id := next_batch (pm st1) in
    let '(nb, ms2, nid) := match filtered with
                           | [] => ([], [], id)
                           | _ => ([id], batch_steps dsync id filtered, id + 1)
                           end in
    let upper' := match filtered with [] => supper x | _ => N.max (supper x) (batch_upper filtered) end in
    let x' := mkSh true nb upper' [] in
    let ms3 := meta_steps dsync s x' in
    let ms4 := map (fun b => MUnlink D_BATCHES (f_batch b)) old ++
               match old with [] => [] | _ => [MFsyncDir D_BATCHES] end in
    let m' := set_sh (mkMem (shards (pm st1)) nid (clock (pm st1)) (wal_open (pm st1)) (rels (pm st1))) s x' in
    let ms := ms2 ++ ms3 ++ ms4 in
    (mkPs m' (exec ms (pf st1)), ms1 ++ ms)
  else (st1, ms1).

Fixpoint compact_list (dsync : bool) (st : pstate) (ss : list N) : pstate * list (mstep ptok) :=
  match ss with
  | [] => (st, [])
  | s :: r => let '(st1, ms1) := compact dsync st s in
              let '(st2, ms2) := compact_list dsync st1 r in (st2, ms1 ++ ms2)
  end.

(* persist.sync() + save_knowledge_graphs_metadata *)
Definition kgs_steps (m : pmem) : list (mstep ptok) :=
  (if wal_open m then [MFsync D_WAL f_wal] else []) ++
  [MCreate D_META 1; MWrite D_META 1 (whole PKgs); MFsync D_META 1; MRename D_META 1 0; MFsyncDir D_META].

(* ------------------------------------------------------------------ operations *)
Inductive pop :=
| PIns (rel : N) (vs : list N) | PDel (rel : N) (vs : list N)
| PSave (order : list N) | PCompact (order : list N) | PRestart (order : list N).

(* all shards in the given order first, then the remaining known ones *)
Definition all_shards (order : list N) : list N :=
  order ++ filter (fun s => negb (existsb (N.eqb s) order)) [0; 1].

Definition apply_live (ins : bool) (vs : list N) (l : list N) : list N :=
  fold_left (fun acc v => if ins then insert_sorted v acc else remove_val v acc) vs l.

Definition set_rel (m : pmem) (r : N) (l : list N) : pmem :=
  mkMem (shards m) (next_batch m) (clock m) (wal_open m) (set_nth (N.to_nat r) l (rels m)).
Definition with_clock (m : pmem) (c : N) (w : bool) : pmem := mkMem (shards m) (next_batch m) c w (rels m).

(* insert_tuples_into / delete_tuples_from *)
Definition write_op (dsync : bool) (bufsz : nat) (st : pstate) (ins : bool) (r : N) (vs : list N)
  : pstate * list (mstep ptok) :=
  match vs with
  | [] => (st, [])
  | _ =>
    if N.ltb r (N.of_nat NSHARD) then
      let t := clock (pm st) in
      let us := map (fun v => mkUpd r v t (if ins then 1 else (-1))%Z) vs in
      let x := get_sh (pm st) r in
      (* ensure_shard *)
      let ms0 := if known x then [] else meta_steps dsync r (mkSh true [] 0 []) in
      let f0 := exec ms0 (pf st) in
      (* WAL append *)
      let ms1 := (match d_read (f0 D_WAL) f_wal with
                  | None => [MCreate D_WAL f_wal] ++ sync_dir dsync D_WAL
                  | Some _ => []
                  end) ++ [MWrite D_WAL f_wal (map PWal us); MFsync D_WAL f_wal] in
      let f1 := exec ms1 f0 in
      let x1 := mkSh true (sbatches x) (N.max (supper x) (t + 1)) (sbuffer x ++ us) in
      let m1 := set_sh (with_clock (pm st) (t + 1) true) r x1 in
      let '(st2, ms2) := if Nat.leb bufsz (length (sbuffer x1)) then flush dsync (mkPs m1 f1) r
                         else (mkPs m1 f1, []) in
      let live := apply_live ins vs (nth (N.to_nat r) (rels (pm st2)) []) in
      (mkPs (set_rel (pm st2) r live) (pf st2), ms0 ++ ms1 ++ ms2)
    else (st, [])
  end.

(* ------------------------------------------------------------------ recovery = StorageEngine::new *)
Definition load_meta (f : fsys ptok) (s : N) : option (option (list N * N)) :=
  match d_read (f D_SHARDS) (f_meta s) with
  | None => Some None
  | Some l => match parse_whole l with
              | Some (PMeta bs up) => Some (Some (bs, up))
              | _ => None      (* unparsable metadata: FilePersist::new fails *)
              end
  end.

Definition batch_exists (f : fsys ptok) (id : N) : bool :=
  match d_read (f D_BATCHES) (f_batch id) with Some _ => true | None => false end.

(* names that may exist in batches/ : ids below [bound] *)
Fixpoint ids_below (n : nat) : list N :=
  match n with O => [] | S k => ids_below k ++ [N.of_nat k] end.

Definition recover_mem (dsync : bool) (f : fsys ptok) (order : list N) : option (pstate * list (mstep ptok)) :=
  match load_meta f 0, load_meta f 1 with
  | Some m0, Some m1 =>
      let mk := fun (mo : option (list N * N)) =>
                  match mo with
                  | Some (bs, up) => mkSh true (filter (batch_exists f) bs) up []
                  | None => sh_empty
                  end in
      let refd := (match m0 with Some (bs, _) => bs | None => [] end) ++
                  (match m1 with Some (bs, _) => bs | None => [] end) in
      let nb := fold_left (fun a b => N.max a (b + 1)) refd 1 in
      let sh0 := [mk m0; mk m1] in
      (* orphan cleanup: unreferenced batch files and left-over temp files, ascending *)
      let live := flat_map sbatches sh0 in
      let bound := N.to_nat (N.max nb (N.of_nat (next (f D_BATCHES)) + 1)) in
      let orphans :=
        flat_map (fun id =>
                    (if batch_exists f id && negb (existsb (N.eqb id) live) then [MUnlink D_BATCHES (f_batch id)] else []) ++
                    (match d_read (f D_BATCHES) (f_batchtmp id) with Some _ => [MUnlink D_BATCHES (f_batchtmp id)] | None => [] end))
                 (ids_below bound) in
      let ms0 := orphans ++ match orphans with [] => [] | _ => [MFsyncDir D_BATCHES] end in
      let f0 := exec ms0 f in
      (* WAL replay *)
      let es := match wal_now f0 with Some es => es | None => [] end in
      let add := fun (shs : list shard_st) (u : upd) =>
                   let x := nth (N.to_nat (ushard u)) shs sh_empty in
                   set_nth (N.to_nat (ushard u)) (mkSh true (sbatches x) (supper x) (sbuffer x ++ [u])) shs in
      let sh1 := fold_left add es sh0 in
      let m1' := mkMem sh1 nb 1 false (repeat [] NSHARD) in
      (* drain: flush every dirty shard *)
      let dirty := filter (fun s => match sbuffer (nth (N.to_nat s) sh1 sh_empty) with [] => false | _ => true end)
                          (all_shards order) in
      let '(st2, ms2) := match es with [] => (mkPs m1' f0, []) | _ => flush_list dsync (mkPs m1' f0) dirty end in
      (* cleanup_archives *)
      let ms3 := match d_read (pf st2 D_WAL) f_walnew with Some _ => [MUnlink D_WAL f_walnew] | None => [] end in
      let f3 := exec ms3 (pf st2) in
      (* load relations, set the clock *)
      let contents := fun s =>
        let x := get_sh (pm st2) s in
        replay_to_current (flat_map (read_batch f3) (sbatches x) ++ sbuffer x) in
      let clk := fold_left (fun a x => N.max a (supper x)) (shards (pm st2)) 0 + 1 in
      let m3 := mkMem (shards (pm st2)) (next_batch (pm st2)) clk false [contents 0; contents 1] in
      Some (mkPs m3 f3, ms0 ++ ms2 ++ ms3)
  | _, _ => None
  end.

Definition op_run (dsync : bool) (bufsz : nat) (st : pstate) (o : pop) : bool * pstate * list (mstep ptok) :=
  match o with
  | PIns r vs => let '(st', ms) := write_op dsync bufsz st true r vs in (true, st', ms)
  | PDel r vs => let '(st', ms) := write_op dsync bufsz st false r vs in (true, st', ms)
  | PSave order =>
      let ks := filter (fun s => known (get_sh (pm st) s)) (all_shards order) in
      let '(st1, ms1) := flush_list dsync st ks in
      let ms2 := kgs_steps (pm st1) in
      (true, mkPs (pm st1) (exec ms2 (pf st1)), ms1 ++ ms2)
  | PCompact order =>
      let ks := filter (fun s => known (get_sh (pm st) s)) (all_shards order) in
      let '(st1, ms1) := compact_list dsync st ks in
      let ms2 := kgs_steps (pm st1) in
      (true, mkPs (pm st1) (exec ms2 (pf st1)), ms1 ++ ms2)
  | PRestart order =>
      match recover_mem dsync (pf st) order with
      | Some (st', ms) => (true, st', ms)
      | None => (false, st, [])
      end
  end.

(* ------------------------------------------------------------------ crash points *)
Record ppoint := mkPp { ppfs : fsys ptok; ppold : list (list N); ppnew : list (list N); ppdone : bool;
                        ppop : option pop }.

Definition pop_points (st : pstate) (o : pop) (st' : pstate) (ms : list (mstep ptok)) : list ppoint :=
  map (fun j => mkPp (exec (firstn j ms) (pf st)) (rels (pm st)) (rels (pm st')) (Nat.eqb j (length ms)) (Some o))
      (seq 0 (S (length ms))).

Fixpoint ppoints (dsync : bool) (bufsz : nat) (st : pstate) (h : list pop) : list ppoint :=
  match h with
  | [] => [mkPp (pf st) (rels (pm st)) (rels (pm st)) true None]
  | o :: h' =>
      let '(_, st', ms) := op_run dsync bufsz st o in
      pop_points st o st' ms ++ ppoints dsync bufsz st' h'
  end.

Fixpoint prun (dsync : bool) (bufsz : nat) (st : pstate) (h : list pop) : list (bool * list (list N)) :=
  match h with
  | [] => []
  | o :: h' => let '(ok, st', _) := op_run dsync bufsz st o in (ok, rels (pm st')) :: prun dsync bufsz st' h'
  end.
Fixpoint ptrace (dsync : bool) (bufsz : nat) (st : pstate) (h : list pop) : list aev :=
  match h with
  | [] => []
  | o :: h' => let '(_, st', ms) := op_run dsync bufsz st o in
               map ev_of ms ++ EAck :: ptrace dsync bufsz st' h'
  end.

(* the store right after the first StorageEngine::new on an empty directory: the metadata file exists *)
Definition fs_init : fsys ptok :=
  exec [MCreate D_META 1; MWrite D_META 1 (whole PKgs); MFsync D_META 1; MRename D_META 1 0; MFsyncDir D_META] empty_fs.
Definition ps_init : pstate := mkPs mem_init fs_init.

(* what a crash at a point recovers to (contents of both relations), None = the store does not open *)
Definition precover (dsync : bool) (f : fsys ptok) : option (list (list N)) :=
  match recover_mem dsync f [] with
  | Some (st, _) => Some (rels (pm st))
  | None => None
  end.

(* ------------------------------------------------------------------ the specification (oracle) *)
Definition lN_eqb (a b : list N) : bool :=
  (fix go a b := match a, b with [], [] => true | x :: a', y :: b' => N.eqb x y && go a' b' | _, _ => false end) a b.
Definition rels_eqb (a b : list (list N)) : bool :=
  (fix go a b := match a, b with [], [] => true | x :: a', y :: b' => lN_eqb x y && go a' b' | _, _ => false end) a b.

(* the store reopens and holds the state before or after the operation in flight; a completed
   (acknowledged) operation is always reflected *)
Definition pallowed (p : ppoint) (r : option (list (list N))) : bool :=
  match r with
  | None => false
  | Some c => if ppdone p then rels_eqb c (ppnew p) else rels_eqb c (ppold p) || rels_eqb c (ppnew p)
  end.
