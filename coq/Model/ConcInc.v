(* C19 — model of the incremental (differential dataflow) shadow of one knowledge graph's base
   relations (src/storage_engine/mod.rs: insert_tuples_into / delete_tuples_from,
   KnowledgeGraph::insert_in_memory / delete_in_memory (shadow writes of the EFFECTIVE changes with
   the operation's logical time), with_kg_read; src/incremental.rs: IncrementalEngine::insert,
   delete, ensure_relation, advance_time, wait_until_caught_up, read_relation,
   read_relation_consistent and the worker loop: InputSession::update_at / advance_to, the
   arrangement cursor summing diffs).
   Relations and tuples are interned to numbers.  The arrangement is modelled by the sum of the
   diffs sent per (relation, tuple); a consistent read advances every input session to
   max_write_time + 1 and max_write_time is raised (fetch_max) before an update is sent, so every
   update sent so far lies below the advanced frontier and the read sums all of them.
   `update_at` below a session's current time panics in the worker thread: the worker is gone
   (`idead`) and every later command fails with "Worker disconnected".
   Atomic sections (one `istep` each) and the hook label the thread parks at afterwards:
     insert/delete: [checks; dropping guard; time := fetch_add(clock)]        -> 1 se:*:after_time
                    [log, buffer, release guard]                                -> 4 se:*:before_kg_lock
                    [KG write lock: set-semantics apply; shadow write of the new / actually deleted
                     tuples; notify; publish; return]                           -> next op
     consistent read (inside with_kg_read, i.e. holding the KG read lock):
                    [m := max_write_time; advance_time(m+1)]                    -> 5 inc:rrc:between_advance_and_wait
                    [wait_until_caught_up; read_relation; release the lock]     -> next op
   A write section is blocked while a reader is parked holding the KG read lock.
   Executable definitions only. *)
From Coq Require Export ZArith.
From IL Require Export Model.Conc.
Open Scope N_scope.

Definition ifact := (N * N)%type.                      (* relation, tuple *)
Definition ifact_eqb (a b : ifact) : bool := N.eqb (fst a) (fst b) && N.eqb (snd a) (snd b).
Definition memi (f : ifact) (l : list ifact) : bool := existsb (ifact_eqb f) l.

Inductive iop :=
| IIns (id rel : N) (ts : list N)
| IDel (id rel : N) (ts : list N)
| IRead (id rel : N).
Definition iop_id (o : iop) : N := match o with IIns i _ _ | IDel i _ _ | IRead i _ => i end.

Inductive ires :=
| IRIns (new dup : N) | IRDel (n : N) | IRErr | IRRead (xs : list N).

Record gI := mkGI {
  ilive : list ifact;              (* engine.input_tuples *)
  isnap : list ifact;              (* the published snapshot *)
  icnt : list (ifact * Z);         (* sum of the diffs sent to the worker per tuple *)
  ifronts : list (N * nat);        (* input sessions: relation -> current session time *)
  imaxw : nat;                     (* max_write_time *)
  icur : nat;                      (* current_time: the time of the last advance *)
  iclock : nat;                    (* StorageEngine::logical_time *)
  idead : bool;                    (* the worker thread has panicked *)
  ireaders : nat;                  (* readers parked holding the KG read lock *)
  ireads : list (N * list N * list ifact) }.   (* ghost: relation, read result, snapshot at that moment *)

Record lI := mkLI { ipc : nat; itodo : list iop; itime : nat; iresults : list (N * ires) }.
Definition iinit_l (p : list iop) : lI := mkLI 0 p 0 [].
Definition iinit_g : gI := mkGI [] [] [] [] 0 0 1 false 0 [].
Definition ifinish (l : lI) (rest : list iop) (id : N) (r : ires) : lI :=
  mkLI 0 rest (itime l) (iresults l ++ [(id, r)]).

Definition cnt_of (f : ifact) (c : list (ifact * Z)) : Z :=
  match find (fun e => ifact_eqb (fst e) f) c with Some e => snd e | None => 0%Z end.
Definition bump (f : ifact) (d : Z) (c : list (ifact * Z)) : list (ifact * Z) :=
  (f, (cnt_of f c + d)%Z) :: filter (fun e => negb (ifact_eqb (fst e) f)) c.
Definition front_of (r : N) (fr : list (N * nat)) : option nat :=
  match find (fun e => N.eqb (fst e) r) fr with Some e => Some (snd e) | None => None end.

(* the in-memory part of insert_in_memory / delete_in_memory, tuple by tuple; returns the new
   relation state and the list of effective changes (new tuples / actually deleted tuples) *)
Fixpoint ins_mem (rel : N) (ts : list N) (live : list ifact) (eff : list N) : list ifact * list N :=
  match ts with
  | [] => (live, eff)
  | x :: r => if memi (rel, x) live then ins_mem rel r live eff
              else ins_mem rel r (live ++ [(rel, x)]) (eff ++ [x])
  end.
Fixpoint del_mem (rel : N) (ts : list N) (live : list ifact) (eff : list N) : list ifact * list N :=
  match ts with
  | [] => (live, eff)
  | x :: r => if memi (rel, x) live
              then del_mem rel r (filter (fun f => negb (ifact_eqb f (rel, x))) live) (eff ++ [x])
              else del_mem rel r live eff
  end.

Definition bump_all (rel : N) (xs : list N) (d : Z) (c : list (ifact * Z)) : list (ifact * Z) :=
  fold_left (fun acc x => bump (rel, x) d acc) xs c.

(* the shadow write of the effective changes `eff` (non-empty) at logical time `t`:
   ensure_relation; max_write_time.fetch_max; InsertDelta; notify.  Returns (state, ok). *)
Definition shadow_write (fx : bool) (g : gI) (live' : list ifact) (rel : N) (eff : list N) (d : Z) (t0 : nat) : gI * bool :=
  (* with the fix a late update is stamped with the current session time *)
  let t := if fx then Nat.max t0 (icur g) else t0 in
  if idead g then
    (mkGI live' (isnap g) (icnt g) (ifronts g) (imaxw g) (icur g) (iclock g) true (ireaders g) (ireads g), false)
  else
    let fr := match front_of rel (ifronts g) with Some _ => ifronts g | None => ifronts g ++ [(rel, O)] end in
    let f := match front_of rel fr with Some n => n | None => O end in
    let mw := Nat.max (imaxw g) t in
    if Nat.ltb t f then
      (* update_at below the session's time: the worker panics *)
      (mkGI live' (isnap g) (icnt g) fr mw (icur g) (iclock g) true (ireaders g) (ireads g), false)
    else
      (mkGI live' live' (bump_all rel eff d (icnt g)) fr mw (icur g) (iclock g) false (ireaders g) (ireads g), true).

Fixpoint dedup_N (l : list N) : list N :=
  match l with
  | [] => []
  | x :: r => if existsb (N.eqb x) r then dedup_N r else x :: dedup_N r
  end.
(* read_relation: the keys of the arrangement whose summed diff is positive *)
Definition read_rel (rel : N) (c : list (ifact * Z)) : list N :=
  dedup_N (map (fun e => snd (fst e))
               (filter (fun e => N.eqb (fst (fst e)) rel && Z.ltb 0 (cnt_of (fst e) c)) c)).

(* `fx` = with the `fix:` commit in IncrementalEngine::insert/delete (write_time) *)
Definition istep (fx : bool) (t : nat) (l : lI) (g : gI) : lI * gI :=
  match itodo l with
  | [] => (l, g)
  | o :: rest =>
      match o with
      | IIns id rel ts | IDel id rel ts =>
          let ins := match o with IIns _ _ _ => true | _ => false end in
          match ipc l with
          | O => (mkLI 1 (itodo l) (iclock g) (iresults l),
                  mkGI (ilive g) (isnap g) (icnt g) (ifronts g) (imaxw g) (icur g) (S (iclock g)) (idead g)
                       (ireaders g) (ireads g))
          | 1%nat => (mkLI 2 (itodo l) (itime l) (iresults l), g)
          | _ =>
              match ireaders g with
              | S _ => (l, g)                        (* blocked on the KG write lock *)
              | O =>
                  let '(live', eff) := if ins then ins_mem rel ts (ilive g) [] else del_mem rel ts (ilive g) [] in
                  let ok_res := if ins
                                then IRIns (N.of_nat (length eff)) (N.of_nat (length ts) - N.of_nat (length eff))
                                else IRDel (N.of_nat (length (ilive g) - length live')) in
                  match eff with
                  | [] => (ifinish l rest id ok_res, g)     (* nothing changed: no shadow write, no publish *)
                  | _ =>
                      let '(g', ok) := shadow_write fx g live' rel eff (if ins then 1%Z else (-1)%Z) (itime l) in
                      (ifinish l rest id (if ok then ok_res else IRErr), g')
                  end
              end
          end
      | IRead id rel =>
          match ipc l with
          | O =>
              if idead g then (ifinish l rest id IRErr, g)
              else
                let target := S (imaxw g) in
                (mkLI 1 (itodo l) (itime l) (iresults l),
                 mkGI (ilive g) (isnap g) (icnt g) (map (fun e => (fst e, target)) (ifronts g)) (imaxw g) target
                      (iclock g) (idead g) (S (ireaders g)) (ireads g))
          | _ =>
              let g1 := mkGI (ilive g) (isnap g) (icnt g) (ifronts g) (imaxw g) (icur g) (iclock g) (idead g)
                             (pred (ireaders g)) (ireads g) in
              if idead g then (ifinish l rest id IRErr, g1)
              else
                let xs := read_rel rel (icnt g) in
                (ifinish l rest id (IRRead xs),
                 mkGI (ilive g) (isnap g) (icnt g) (ifronts g) (imaxw g) (icur g) (iclock g) (idead g)
                      (pred (ireaders g)) (ireads g ++ [(rel, xs, isnap g)]))
          end
      end
  end.

Definition ilabel (l : lI) : N :=
  match itodo l with
  | [] => 9
  | o :: _ =>
      match o, ipc l with
      | _, O => 0
      | (IIns _ _ _ | IDel _ _ _), 1%nat => 1
      | (IIns _ _ _ | IDel _ _ _), _ => 4
      | IRead _ _, _ => 5
      end
  end.

(* what a reader should get: the tuples of the relation in the snapshot *)
Definition rel_of (rel : N) (fs : list ifact) : list N :=
  map snd (filter (fun f => N.eqb (fst f) rel) fs).
Definition same_Ns (a b : list N) : bool :=
  Nat.eqb (length a) (length b)
  && forallb (fun x => existsb (N.eqb x) b) a && forallb (fun x => existsb (N.eqb x) a) b.
Definition same_ifacts (a b : list ifact) : bool :=
  Nat.eqb (length a) (length b)
  && forallb (fun f => memi f b) a && forallb (fun f => memi f a) b.
