(* Model of src/optimizer/mod.rs: Optimizer::optimize = ten rounds of apply_all_rules
   (eliminate_identity_maps, eliminate_always_true_filters, eliminate_always_false_filters,
   fuse_consecutive_maps, fuse_consecutive_filters, pushdown_filters, eliminate_empty_unions)
   followed by fuse_to_flatmap and fuse_to_join_flatmap.

   Every Rust pass is a bottom-up traversal: "rewrite the children of the node kinds this pass
   descends into, then apply one local rewrite at the node; every other node kind is returned
   untouched (`other => other`)".  The model writes that traversal once ([bu], parameterised by
   the set of node kinds the pass descends into) and one non-recursive local rewrite per rule.
   The masks are part of the model: e.g. the three elimination rules do NOT descend into
   Aggregate, and only the two fusion passes descend into FlatMap / JoinFlatMap.

   The fixpoint loop stops early when `ir_equals` reports no change; since a structural fixpoint
   is stable under further rounds and `ir_equals` answering true implies structural equality,
   the result is the same as running all ten rounds, which is what [optimize] does.

   pushdown_filters is modelled AFTER the repair (`fix:` commit): a predicate that only references
   join-output columns to the right of the left block is pushed to the right input with every
   column index mapped through the right side's NON-KEY column list when the join's declared
   schema is left ++ right non-key columns (what joins emit), shifted by the left width when the
   declared schema lists every right column, and not at all otherwise.
   [f_pushdown_old] is the original arithmetic (subtract the left width), kept for the
   refutation lemma.
   Executable definitions only. *)
From IL Require Export Model.IR.
Open Scope nat_scope.

Inductive kind :=
| KScan | KMap | KFilter | KJoin | KDistinct | KUnion | KAggregate | KAntijoin | KCompute
| KHnswScan | KFlatMap | KJoinFlatMap.

Definition kind_of (t : ir) : kind :=
  match t with
  | Scan _ _ => KScan | Map _ _ _ => KMap | Filter _ _ => KFilter | Join _ _ _ _ _ => KJoin
  | Distinct _ => KDistinct | Union _ => KUnion | Aggregate _ _ _ _ => KAggregate
  | Antijoin _ _ _ _ _ => KAntijoin | Compute _ _ => KCompute | HnswScan _ => KHnswScan
  | FlatMap _ _ _ _ => KFlatMap | JoinFlatMap _ _ _ _ _ _ _ => KJoinFlatMap
  end.

(* bottom-up traversal restricted to the node kinds in [m] *)
Fixpoint bu (m : kind -> bool) (f : ir -> ir) (t : ir) {struct t} : ir :=
  match t with
  | Scan _ _ => t
  | HnswScan _ => t
  | Map x p s => if m KMap then f (Map (bu m f x) p s) else t
  | Filter x p => if m KFilter then f (Filter (bu m f x) p) else t
  | Join l r lk rk s => if m KJoin then f (Join (bu m f l) (bu m f r) lk rk s) else t
  | Distinct x => if m KDistinct then f (Distinct (bu m f x)) else t
  | Union ts => if m KUnion then f (Union (map (bu m f) ts)) else t
  | Aggregate x gb aggs s => if m KAggregate then f (Aggregate (bu m f x) gb aggs s) else t
  | Antijoin l r lk rk s => if m KAntijoin then f (Antijoin (bu m f l) (bu m f r) lk rk s) else t
  | Compute x es => if m KCompute then f (Compute (bu m f x) es) else t
  | FlatMap x p fp s => if m KFlatMap then f (FlatMap (bu m f x) p fp s) else t
  | JoinFlatMap l r lk rk p fp s =>
      if m KJoinFlatMap then f (JoinFlatMap (bu m f l) (bu m f r) lk rk p fp s) else t
  end.

(* node kinds the passes descend into *)
Definition m_rules (k : kind) : bool :=       (* fuse maps / fuse filters / pushdown / empty unions *)
  match k with KScan | KHnswScan | KFlatMap | KJoinFlatMap => false | _ => true end.
Definition m_elim (k : kind) : bool :=        (* identity maps / always-true / always-false *)
  match k with KScan | KHnswScan | KFlatMap | KJoinFlatMap | KAggregate => false | _ => true end.
Definition m_fusion (k : kind) : bool :=      (* fuse_to_flatmap / fuse_to_join_flatmap *)
  match k with KScan | KHnswScan => false | _ => true end.

(* ------------------------------------------------------------------ local rewrites *)
Definition nat_list_eqb (a b : list nat) : bool := list_eqb Nat.eqb a b.

(* eliminate_identity_maps *)
Definition f_idmap (t : ir) : ir :=
  match t with
  | Map x p s =>
      if nat_list_eqb p (seq 0 (length p)) && Nat.eqb (length p) (width x) then x else t
  | _ => t
  end.

(* eliminate_always_true_filters *)
Definition f_true (t : ir) : ir :=
  match t with Filter x PTrue => x | _ => t end.

(* eliminate_always_false_filters *)
Definition f_false (t : ir) : ir :=
  match t with Filter _ PFalse => Union [] | _ => t end.

(* fuse_consecutive_maps: new_projection[i] = inner[outer[i]] *)
Definition f_fusemap (t : ir) : ir :=
  match t with
  | Map (Map x p1 _) p2 s2 => Map x (map (fun i => nth i p1 0) p2) s2
  | _ => t
  end.

(* fuse_consecutive_filters *)
Definition f_fusefilter (t : ir) : ir :=
  match t with
  | Filter (Filter x p1) p2 => Filter x (PAnd p1 p2)
  | _ => t
  end.

(* Optimizer::get_predicate_columns *)
Fixpoint pred_cols (p : pred) : list nat :=
  match p with
  | PConst _ c _ | PStr _ c _ | PBool _ c _ | PFloat _ c _ => [c]
  | PCols _ a b => [a; b]
  | PColArith c _ _ vm => c :: map snd vm
  | PArithConst _ _ _ vm => map snd vm
  | PAnd a b | POr a b => pred_cols a ++ pred_cols b
  | PTrue | PFalse => []
  end.

(* Optimizer::adjust_predicate_columns with an arbitrary index map *)
Fixpoint remap_pred (g : nat -> nat) (p : pred) : pred :=
  match p with
  | PConst op c z => PConst op (g c) z
  | PStr op c s => PStr op (g c) s
  | PBool e c b => PBool e (g c) b
  | PFloat op c x => PFloat op (g c) x
  | PCols op a b => PCols op (g a) (g b)
  | PColArith c op e vm => PColArith (g c) op e (map (fun nc => (fst nc, g (snd nc))) vm)
  | PArithConst e op z vm => PArithConst e op z (map (fun nc => (fst nc, g (snd nc))) vm)
  | PAnd a b => PAnd (remap_pred g a) (remap_pred g b)
  | POr a b => POr (remap_pred g a) (remap_pred g b)
  | PTrue => PTrue
  | PFalse => PFalse
  end.

Definition memb (c : nat) (l : list nat) : bool := existsb (Nat.eqb c) l.

(* columns of the right join input that survive into the join output, in order *)
Definition nonkey_cols (rw : nat) (rk : list nat) : list nat :=
  filter (fun c => negb (memb c rk)) (seq 0 rw).

(* pushdown_filters (repaired) *)
Definition f_pushdown (t : ir) : ir :=
  match t with
  | Filter (Join l r lk rk s) p =>
      let lc := width l in
      let cols := pred_cols p in
      let refs_left := existsb (fun c => c <? lc) cols in
      let refs_right := existsb (fun c => lc <=? c) cols in
      if refs_left && negb refs_right then Join (Filter l p) r lk rk s
      else if refs_right && negb refs_left then
        (* which right column a join-output index denotes is read off the declared schema:
           left ++ ALL right columns (plain shift) or left ++ right NON-KEY columns *)
        let nk := if lc + width r =? length s then seq 0 (width r)
                  else if lc + length (nonkey_cols (width r) rk) =? length s
                       then nonkey_cols (width r) rk
                       else [] in
        if forallb (fun c => c - lc <? length nk) cols
        then Join l (Filter r (remap_pred (fun c => nth (c - lc) nk 0) p)) lk rk s
        else t
      else t
  | _ => t
  end.

(* pushdown_filters as it was before the repair: `col - left_cols` *)
Definition f_pushdown_old (t : ir) : ir :=
  match t with
  | Filter (Join l r lk rk s) p =>
      let lc := width l in
      let cols := pred_cols p in
      let refs_left := existsb (fun c => c <? lc) cols in
      let refs_right := existsb (fun c => lc <=? c) cols in
      if refs_left && negb refs_right then Join (Filter l p) r lk rk s
      else if refs_right && negb refs_left then
        Join l (Filter r (remap_pred (fun c => c - lc) p)) lk rk s
      else t
  | _ => t
  end.

Definition is_empty_union (t : ir) : bool := match t with Union [] => true | _ => false end.

(* eliminate_empty_unions *)
Definition f_empty (t : ir) : ir :=
  match t with
  | Union ts =>
      match filter (fun x => negb (is_empty_union x)) ts with
      | [] => Union []
      | [x] => x
      | ne => Union ne
      end
  | Map x _ _ | Filter x _ | Distinct x | Compute x _ => if is_empty_union x then Union [] else t
  | Join l r _ _ _ => if is_empty_union l || is_empty_union r then Union [] else t
  | Antijoin l _ _ _ _ => if is_empty_union l then Union [] else t
  | _ => t
  end.

(* fuse_to_flatmap *)
Definition f_flatmap (t : ir) : ir :=
  match t with
  | Filter (Map x p s) q => FlatMap x p (Some q) s
  | _ => t
  end.

Fixpoint insert_nat (x : nat) (l : list nat) : list nat :=
  match l with
  | [] => [x]
  | y :: r => if x <=? y then x :: l else y :: insert_nat x r
  end.
Definition sort_nat (l : list nat) : list nat := fold_right insert_nat [] l.
(* Vec::dedup: drop consecutive repetitions *)
Fixpoint dedup_adj (l : list nat) : list nat :=
  match l with
  | [] => []
  | x :: r => match r with
              | [] => [x]
              | y :: _ => if x =? y then dedup_adj r else x :: dedup_adj r
              end
  end.

(* remap_projection_for_join_flatmap (after the repair: the sorted key list is deduplicated, so a
   right column that is the key of several left columns is skipped once) *)
Definition remap_jfm (lw : nat) (rk : list nat) (proj : list nat) : list nat :=
  let sk := dedup_adj (sort_nat rk) in
  map (fun idx =>
         if idx <? lw then idx
         else lw + fold_left (fun a k => if k <=? a then S a else a) sk (idx - lw)) proj.

(* fuse_to_join_flatmap *)
Definition f_jfm (t : ir) : ir :=
  match t with
  | Map (Join l r lk rk _) p s => JoinFlatMap l r lk rk (remap_jfm (width l) rk p) None s
  | FlatMap (Join l r lk rk _) p fp s => JoinFlatMap l r lk rk (remap_jfm (width l) rk p) fp s
  | _ => t
  end.

(* ------------------------------------------------------------------ passes *)
Definition eliminate_identity_maps := bu m_elim f_idmap.
Definition eliminate_always_true_filters := bu m_elim f_true.
Definition eliminate_always_false_filters := bu m_elim f_false.
Definition fuse_consecutive_maps := bu m_rules f_fusemap.
Definition fuse_consecutive_filters := bu m_rules f_fusefilter.
Definition pushdown_filters := bu m_rules f_pushdown.
Definition pushdown_filters_old := bu m_rules f_pushdown_old.
Definition eliminate_empty_unions := bu m_rules f_empty.
Definition fuse_to_flatmap := bu m_fusion f_flatmap.
Definition fuse_to_join_flatmap := bu m_fusion f_jfm.

Definition apply_all_rules (t : ir) : ir :=
  eliminate_empty_unions
    (pushdown_filters
       (fuse_consecutive_filters
          (fuse_consecutive_maps
             (eliminate_always_false_filters
                (eliminate_always_true_filters (eliminate_identity_maps t)))))).

Definition apply_all_rules_old (t : ir) : ir :=
  eliminate_empty_unions
    (pushdown_filters_old
       (fuse_consecutive_filters
          (fuse_consecutive_maps
             (eliminate_always_false_filters
                (eliminate_always_true_filters (eliminate_identity_maps t)))))).

Definition optimize (t : ir) : ir :=
  fuse_to_join_flatmap (fuse_to_flatmap (Nat.iter 10 apply_all_rules t)).
Definition optimize_old (t : ir) : ir :=
  fuse_to_join_flatmap (fuse_to_flatmap (Nat.iter 10 apply_all_rules_old t)).

(* ------------------------------------------------------------------ well-formedness *)
Fixpoint nodupb (l : list nat) : bool :=
  match l with [] => true | x :: r => negb (memb x r) && nodupb r end.

(* Well-formed relative to a database: schema lengths are the real tuple widths, projection and
   key indices are in range, join key lists have equal length, all inputs of a Union have the
   same width.  [novoid]: the tree contains neither `Union []` nor
   `Filter(_, False)` (the shapes on which a node's schema width is not its tuple width). *)
Fixpoint wfd (d : db) (t : ir) {struct t} : bool :=
  match t with
  | Scan r s => forallb (fun tu => length tu =? length s) (lookup_rel d r)
  | Map x p s => wfd d x && forallb (fun i => i <? width x) p && (length s =? length p)
  | Filter x p => wfd d x
  | Join l r lk rk s =>
      wfd d l && wfd d r && forallb (fun i => i <? width l) lk && forallb (fun i => i <? width r) rk
      && (length lk =? length rk)
      && (length s =? width l + length (nonkey_cols (width r) rk))
  | Distinct x => wfd d x
  | Union ts =>
      forallb (wfd d) ts
      && match ts with [] => true | x :: r => forallb (fun y => width y =? width x) r end
  | Aggregate x gb aggs s =>
      wfd d x && forallb (fun i => i <? width x) gb && (length s =? length gb + length aggs)
  | Antijoin l r lk rk s => wfd d l && wfd d r && (length s =? width l)
  | Compute x es => wfd d x
  | HnswScan _ => true
  | FlatMap x p fp s => wfd d x && forallb (fun i => i <? width x) p && (length s =? length p)
  | JoinFlatMap l r lk rk p fp s =>
      wfd d l && wfd d r && forallb (fun i => i <? width l + width r) p && (length s =? length p)
      && forallb (fun i => i <? width l) lk && forallb (fun i => i <? width r) rk
  end.

Definition is_false (p : pred) : bool := match p with PFalse => true | _ => false end.

Fixpoint novoid (t : ir) {struct t} : bool :=
  match t with
  | Scan _ _ | HnswScan _ => true
  | Filter x p => negb (is_false p) && novoid x
  | Map x _ _ | Distinct x | Aggregate x _ _ _ | Compute x _ | FlatMap x _ _ _ => novoid x
  | Join l r _ _ _ | Antijoin l r _ _ _ | JoinFlatMap l r _ _ _ _ _ => novoid l && novoid r
  | Union ts => negb (is_nil ts) && forallb novoid ts
  end.

(* ------------------------------------------------------------------ structural equality (for the tie) *)
Definition cmpop_eqb (a b : cmpop) : bool :=
  match a, b with
  | OEq, OEq | ONe, ONe | OLt, OLt | OLe, OLe | OGt, OGt | OGe, OGe => true | _, _ => false end.
Definition aop_eqb (a b : aop) : bool :=
  match a, b with
  | AAdd, AAdd | ASub, ASub | AMul, AMul | ADiv, ADiv | AMod, AMod => true | _, _ => false end.
Fixpoint aexpr_eqb (a b : aexpr) : bool :=
  match a, b with
  | AConst x, AConst y => Z.eqb x y
  | AVar x, AVar y => N.eqb x y
  | ABin o l r, ABin o' l' r' => aop_eqb o o' && aexpr_eqb l l' && aexpr_eqb r r'
  | _, _ => false
  end.
Definition varmap_eqb (a b : varmap) : bool :=
  list_eqb (fun x y => N.eqb (fst x) (fst y) && Nat.eqb (snd x) (snd y)) a b.
Fixpoint pred_eqb (a b : pred) : bool :=
  match a, b with
  | PConst o c z, PConst o' c' z' => cmpop_eqb o o' && Nat.eqb c c' && Z.eqb z z'
  | PStr o c s, PStr o' c' s' => cmpop_eqb o o' && Nat.eqb c c' && list_eqb N.eqb s s'
  | PBool e c x, PBool e' c' x' => Bool.eqb e e' && Nat.eqb c c' && Bool.eqb x x'
  | PFloat o c x, PFloat o' c' x' => cmpop_eqb o o' && Nat.eqb c c' && N.eqb x x'
  | PCols o x y, PCols o' x' y' => cmpop_eqb o o' && Nat.eqb x x' && Nat.eqb y y'
  | PColArith c o e vm, PColArith c' o' e' vm' =>
      Nat.eqb c c' && cmpop_eqb o o' && aexpr_eqb e e' && varmap_eqb vm vm'
  | PArithConst e o z vm, PArithConst e' o' z' vm' =>
      aexpr_eqb e e' && cmpop_eqb o o' && Z.eqb z z' && varmap_eqb vm vm'
  | PAnd x y, PAnd x' y' => pred_eqb x x' && pred_eqb y y'
  | POr x y, POr x' y' => pred_eqb x x' && pred_eqb y y'
  | PTrue, PTrue => true
  | PFalse, PFalse => true
  | _, _ => false
  end.
Definition opred_eqb (a b : option pred) : bool :=
  match a, b with Some x, Some y => pred_eqb x y | None, None => true | _, _ => false end.
Definition eop_eqb (a b : eop) : bool :=
  match a, b with EAdd, EAdd | ESub, ESub | EMul, EMul | EMod, EMod => true | _, _ => false end.
Fixpoint expr_eqb (a b : expr) : bool :=
  match a, b with
  | ECol x, ECol y => Nat.eqb x y
  | EInt x, EInt y => Z.eqb x y
  | EFloat x, EFloat y => N.eqb x y
  | EStr x, EStr y => list_eqb N.eqb x y
  | EBool x, EBool y => Bool.eqb x y
  | EArith o l r, EArith o' l' r' => eop_eqb o o' && expr_eqb l l' && expr_eqb r r'
  | _, _ => false
  end.
Definition aggfn_eqb (a b : aggfn) : bool :=
  match a, b with
  | AgCount, AgCount | AgCountDistinct, AgCountDistinct | AgSum, AgSum | AgMin, AgMin
  | AgMax, AgMax => true
  | _, _ => false
  end.
Definition schema_eqb (a b : schema) : bool := list_eqb N.eqb a b.

Fixpoint ir_eqb (a b : ir) {struct a} : bool :=
  match a, b with
  | Scan r s, Scan r' s' => N.eqb r r' && schema_eqb s s'
  | Map x p s, Map x' p' s' => ir_eqb x x' && nat_list_eqb p p' && schema_eqb s s'
  | Filter x p, Filter x' p' => ir_eqb x x' && pred_eqb p p'
  | Join l r lk rk s, Join l' r' lk' rk' s' =>
      ir_eqb l l' && ir_eqb r r' && nat_list_eqb lk lk' && nat_list_eqb rk rk' && schema_eqb s s'
  | Distinct x, Distinct x' => ir_eqb x x'
  | Union ts, Union ts' =>
      (fix go (l : list ir) (l' : list ir) {struct l} : bool :=
         match l, l' with
         | [], [] => true
         | x :: r, y :: r' => ir_eqb x y && go r r'
         | _, _ => false
         end) ts ts'
  | Aggregate x gb ag s, Aggregate x' gb' ag' s' =>
      ir_eqb x x' && nat_list_eqb gb gb'
      && list_eqb (fun u v => aggfn_eqb (fst u) (fst v) && Nat.eqb (snd u) (snd v)) ag ag'
      && schema_eqb s s'
  | Antijoin l r lk rk s, Antijoin l' r' lk' rk' s' =>
      ir_eqb l l' && ir_eqb r r' && nat_list_eqb lk lk' && nat_list_eqb rk rk' && schema_eqb s s'
  | Compute x es, Compute x' es' =>
      ir_eqb x x' && list_eqb (fun u v => N.eqb (fst u) (fst v) && expr_eqb (snd u) (snd v)) es es'
  | HnswScan s, HnswScan s' => schema_eqb s s'
  | FlatMap x p fp s, FlatMap x' p' fp' s' =>
      ir_eqb x x' && nat_list_eqb p p' && opred_eqb fp fp' && schema_eqb s s'
  | JoinFlatMap l r lk rk p fp s, JoinFlatMap l' r' lk' rk' p' fp' s' =>
      ir_eqb l l' && ir_eqb r r' && nat_list_eqb lk lk' && nat_list_eqb rk rk'
      && nat_list_eqb p p' && opred_eqb fp fp' && schema_eqb s s'
  | _, _ => false
  end.
