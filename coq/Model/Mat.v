(* Model for C18 — materialization and incremental maintenance (src/storage_engine/mod.rs
   KnowledgeGraph::{enable_incremental, insert_in_memory, delete_in_memory, register_rule,
   auto_materialize_rule, drop_rule, remove_rule_clause, materialize_derived_relation,
   publish_snapshot}; src/derived_relations.rs DerivedRelationsManager; src/rule_catalog.rs
   RuleCatalog::{register_rule, remove_rule_clause, drop}; src/storage_engine/snapshot.rs
   KnowledgeGraphSnapshot::{build_rule_prefix, execute_with_rules_tuples}).
   Executable definitions only.

   Part 1 is a small Datalog evaluator (the reference semantics): positive atoms, negated atoms,
   constants; a head is evaluated by a local least fixpoint of its own clauses over an environment
   that supplies the relations its bodies mention; heads that mention other heads are evaluated
   demand-driven with a dependency fuel (`val`).  For rule sets without mutual recursion and with
   fuel >= the number of heads this is the stratified least model.
   Part 2 is the storage-engine state machine with the DerivedRelationsManager book-keeping. *)
From IL Require Export Model.Value.
Open Scope N_scope.

Definition name := N.

(* ------------------------------------------------------------------ syntax *)
Inductive term := TVar (v : N) | TConst (c : value).
Record atom := mkAtom { arel : name; aargs : list term }.
Inductive lit := LPos (a : atom) | LNeg (a : atom).
Record clause := mkClause { chead : atom; cbody : list lit }.

Definition term_eqb (a b : term) : bool :=
  match a, b with
  | TVar x, TVar y => N.eqb x y
  | TConst x, TConst y => value_eqb x y
  | _, _ => false
  end.
Definition atom_eqb (a b : atom) : bool :=
  N.eqb (arel a) (arel b) && list_eqb term_eqb (aargs a) (aargs b).
Definition lit_eqb (a b : lit) : bool :=
  match a, b with
  | LPos x, LPos y => atom_eqb x y
  | LNeg x, LNeg y => atom_eqb x y
  | _, _ => false
  end.
Definition clause_eqb (a b : clause) : bool :=
  atom_eqb (chead a) (chead b) && list_eqb lit_eqb (cbody a) (cbody b).

Definition lit_rel (l : lit) : name := match l with LPos a => arel a | LNeg a => arel a end.
(* relations mentioned in the bodies of a clause list *)
Definition rels (cls : list clause) : list name :=
  flat_map (fun c => map lit_rel (cbody c)) cls.

Definition memN (x : N) (l : list N) : bool := existsb (N.eqb x) l.

(* ------------------------------------------------------------------ association lists *)
Fixpoint lookup {A} (m : list (N * A)) (k : N) : option A :=
  match m with
  | [] => None
  | (k', v) :: r => if N.eqb k k' then Some v else lookup r k
  end.
Fixpoint upd {A} (m : list (N * A)) (k : N) (v : A) : list (N * A) :=
  match m with
  | [] => [(k, v)]
  | (k', v') :: r => if N.eqb k k' then (k', v) :: r else (k', v') :: upd r k v
  end.
Fixpoint del {A} (m : list (N * A)) (k : N) : list (N * A) :=
  match m with
  | [] => []
  | (k', v') :: r => if N.eqb k k' then del r k else (k', v') :: del r k
  end.

Definition db := list (name * list tuple).
Definition get (d : db) (n : name) : list tuple :=
  match lookup d n with Some ts => ts | None => [] end.

(* ------------------------------------------------------------------ clause evaluation *)
Definition subst := list (N * value).

Definition match_term (s : subst) (t : term) (v : value) : option subst :=
  match t with
  | TConst c => if value_eqb c v then Some s else None
  | TVar x => match lookup s x with
              | Some w => if value_eqb w v then Some s else None
              | None => Some ((x, v) :: s)
              end
  end.
Fixpoint match_args (s : subst) (ts : list term) (vs : tuple) : option subst :=
  match ts, vs with
  | [], [] => Some s
  | t :: ts', v :: vs' => match match_term s t v with
                          | Some s' => match_args s' ts' vs'
                          | None => None
                          end
  | _, _ => None
  end.
Definition inst_term (s : subst) (t : term) : option value :=
  match t with TConst c => Some c | TVar x => lookup s x end.
Fixpoint inst_args (s : subst) (ts : list term) : option tuple :=
  match ts with
  | [] => Some []
  | t :: r => match inst_term s t, inst_args s r with
              | Some v, Some vs => Some (v :: vs)
              | _, _ => None
              end
  end.

Definition eval_pos (d : db) (a : atom) (ss : list subst) : list subst :=
  flat_map (fun s => flat_map (fun t => match match_args s (aargs a) t with
                                        | Some s' => [s'] | None => [] end)
                              (get d (arel a))) ss.
Definition eval_neg (d : db) (a : atom) (ss : list subst) : list subst :=
  filter (fun s => match inst_args s (aargs a) with
                   | Some t => negb (mem_tuple t (get d (arel a)))
                   | None => false
                   end) ss.
(* positive atoms bind first, negated atoms filter afterwards (safe rules) *)
Definition eval_body (d : db) (body : list lit) : list subst :=
  let ss := fold_left (fun ss l => match l with LPos a => eval_pos d a ss | LNeg _ => ss end) body [[]] in
  fold_left (fun ss l => match l with LNeg a => eval_neg d a ss | LPos _ => ss end) body ss.
Definition eval_clause (d : db) (c : clause) : list tuple :=
  flat_map (fun s => match inst_args s (aargs (chead c)) with Some t => [t] | None => [] end)
           (eval_body d (cbody c)).

(* append the tuples of `new` not yet present, keeping first occurrences *)
Fixpoint add_new (old new : list tuple) : list tuple :=
  match new with
  | [] => old
  | t :: r => if mem_tuple t old then add_new old r else add_new (old ++ [t]) r
  end.

Definition lfp_fuel : nat := 64.
Fixpoint lfp_iter (fuel : nat) (cls : list clause) (h : name) (d : db) : db :=
  match fuel with
  | O => d
  | S f =>
      let cur := get d h in
      let nxt := add_new cur (flat_map (eval_clause d) cls) in
      if Nat.eqb (length nxt) (length cur) then d else lfp_iter f cls h (upd d h nxt)
  end.

(* Local least fixpoint of the clauses `cls` (all with head `h`) over the environment `g`,
   which is consulted ONLY for `h` and the relations the bodies mention. *)
(* a relation defined by rules does not show stored facts of the same name: the engine's rule
   results shadow the input relation (observed on the real engine) *)
Definition shadow (cls : list clause) (h : name) (g : name -> list tuple) (n : name) : list tuple :=
  if N.eqb n h && negb (Nat.eqb (length cls) 0) then [] else g n.
Definition lfix_on (cls : list clause) (h : name) (g : name -> list tuple) : list tuple :=
  get (lfp_iter lfp_fuel cls h (map (fun n => (n, shadow cls h g n)) (h :: rels cls))) h.

(* ------------------------------------------------------------------ rule catalog *)
Definition catalog := list (name * list clause).
Definition clauses_of (c : catalog) (n : name) : list clause :=
  match lookup c n with Some cls => cls | None => [] end.
Definition is_head (c : catalog) (n : name) : bool :=
  match lookup c n with Some _ => true | None => false end.

(* a head whose bodies mention no OTHER head *)
Definition flat (c : catalog) (h : name) : bool :=
  forallb (fun d => N.eqb d h || negb (is_head c d)) (rels (clauses_of c h)).

(* Reference semantics: the relation `h` under catalog `c` over base facts `fs`. *)
Fixpoint val (fuel : nat) (c : catalog) (fs : db) (h : name) : list tuple :=
  match fuel with
  | O => if flat c h then lfix_on (clauses_of c h) h (get fs) else []
  | S f => lfix_on (clauses_of c h) h
             (fun d => if is_head c d && negb (N.eqb d h) then val f c fs d else get fs d)
  end.

(* ------------------------------------------------------------------ engine state *)
Record st := mkSt {
  facts : db;                                 (* KnowledgeGraph.engine.input_tuples *)
  cat : catalog;                              (* KnowledgeGraph.rule_catalog *)
  inc : bool;                                 (* KnowledgeGraph.incremental.is_some() *)
  mats : list (name * (list tuple * bool));   (* DerivedRelationsManager.materialized: tuples, valid *)
  b2d : list (name * list name);              (* DerivedRelationsManager.base_to_derived *)
  d2b : list (name * list name)               (* DerivedRelationsManager.derived_to_base *)
  (* derived_to_derived is never written by any code path: it is the empty map, so the cascade
     loop of compute_invalidation_set adds nothing *)
}.
Definition init : st := mkSt [] [] false [] [] [].

Definition getl (m : list (name * list name)) (k : name) : list name :=
  match lookup m k with Some l => l | None => [] end.
Definition valid (s : st) (n : name) : bool :=
  match lookup (mats s) n with Some (_, v) => v | None => false end.
Definition mat (s : st) (n : name) : list tuple :=
  match lookup (mats s) n with Some (ts, _) => ts | None => [] end.

(* Query evaluation on the published snapshot: valid materializations are appended to the input
   relations (publish_snapshot: `entry(rel).or_default().extend(tuples)`), rules whose head is
   validly materialized are left out of the rule prefix. *)
Fixpoint val_m (fuel : nat) (s : st) (h : name) : list tuple :=
  if valid s h then get (facts s) h ++ mat s h else
  match fuel with
  | O => if flat (cat s) h then lfix_on (clauses_of (cat s) h) h (get (facts s)) else []
  | S f => lfix_on (clauses_of (cat s) h) h
             (fun d => if valid s d then get (facts s) d ++ mat s d
                       else if is_head (cat s) d && negb (N.eqb d h) then val_m f s d
                       else get (facts s) d)
  end.

Definition qfuel (s : st) : nat := length (cat s).
Definition query_inc (s : st) (n : name) : list tuple := val_m (qfuel s) s n.
Definition query_fresh (s : st) (n : name) : list tuple := val (qfuel s) (cat s) (facts s) n.

(* ------------------------------------------------------------------ operations *)
Inductive op :=
| Insert (r : name) (ts : list tuple)        (* StorageEngine::insert_tuples_into *)
| Delete (r : name) (ts : list tuple)        (* StorageEngine::delete_tuples_from *)
| Register (n : name) (c : clause) (acc : bool)
    (* StorageEngine::register_rule_in; `acc` = RuleCatalog::register_rule accepted the clause
       (validation is an input of this model: any acceptance policy) *)
| RemoveClause (n : name) (i : nat)          (* StorageEngine::remove_rule_clause_in *)
| Drop (n : name)                            (* StorageEngine::drop_rule_in *)
| Enable                                     (* KnowledgeGraph::enable_incremental *)
| Materialize (n : name).
    (* KnowledgeGraph::materialize_derived_relation(n, <the engine's current answer for n>);
       the only way a materialization comes into existence in the pinned tree, because
       auto_materialize_rule always fails (see `step`) *)

Fixpoint dedupN (l : list N) : list N :=
  match l with [] => [] | x :: r => if memN x r then dedupN r else x :: dedupN r end.

Definition invalidate (targets : list name) (m : list (name * (list tuple * bool)))
  : list (name * (list tuple * bool)) :=
  map (fun e => match e with (n, (ts, v)) => (n, (ts, v && negb (memN n targets))) end) m.

Definition add_clause (cls : list clause) (c : clause) : list clause :=
  if existsb (clause_eqb c) cls then cls else cls ++ [c].

Fixpoint remove_nth {A} (i : nat) (l : list A) : list A :=
  match l, i with
  | [], _ => []
  | _ :: r, O => r
  | x :: r, S j => x :: remove_nth j r
  end.

Definition removeN (x : N) (l : list N) : list N := filter (fun y => negb (N.eqb x y)) l.

(* compile_rule_for_dd: the body relations of THE NEWLY REGISTERED CLAUSE, without the head *)
Definition clause_deps (n : name) (c : clause) : list name :=
  dedupN (removeN n (map lit_rel (cbody c))).

Definition step (s : st) (o : op) : st :=
  match o with
  | Insert r ts =>
      if is_head (cat s) r then s                       (* "Cannot insert into a view" *)
      else
        let old := get (facts s) r in
        let nxt := add_new old ts in
        let changed := negb (Nat.eqb (length nxt) (length old)) in
        mkSt (upd (facts s) r nxt) (cat s) (inc s)
             (if changed && inc s then invalidate (getl (b2d s) r) (mats s) else mats s)
             (b2d s) (d2b s)
  | Delete r ts =>
      let old := get (facts s) r in
      let nxt := filter (fun t => negb (mem_tuple t ts)) old in
      let changed := negb (Nat.eqb (length nxt) (length old)) in
      if changed then
        mkSt (upd (facts s) r nxt) (cat s) (inc s)
             (if inc s then invalidate (getl (b2d s) r) (mats s) else mats s)
             (b2d s) (d2b s)
      else s
  | Register n c acc =>
      if acc then
        let cat' := upd (cat s) n (add_clause (clauses_of (cat s) n) c) in
        if inc s then
          let deps := clause_deps n c in
          (* DerivedRelationsManager::register_rule: derived_to_base[n] := deps (overwrites),
             base_to_derived[d] += n.  auto_materialize_rule then runs the rule's clauses followed by
             the text `?n(V0,..)`, which IQLEngine::execute_tuples rejects as an unsafe rule, so the
             materialization map is left as it was. *)
          mkSt (facts s) cat' true (mats s)
               (fold_left (fun m d => upd m d (if memN n (getl m d) then getl m d else getl m d ++ [n])) deps (b2d s))
               (upd (d2b s) n deps)
        else mkSt (facts s) cat' false (mats s) (b2d s) (d2b s)
      else s
  | RemoveClause n i =>
      let cls := clauses_of (cat s) n in
      if is_head (cat s) n && Nat.ltb i (length cls) then
        let cls' := remove_nth i cls in
        mkSt (facts s) (match cls' with [] => del (cat s) n | _ => upd (cat s) n cls' end)
             (inc s) (mats s) (b2d s) (d2b s)
      else s
  | Drop n =>
      if is_head (cat s) n then
        if inc s then
          mkSt (facts s) (del (cat s) n) true (del (mats s) n)
               (fold_left (fun m b => upd m b (removeN n (getl m b))) (getl (d2b s) n) (b2d s))
               (del (d2b s) n)
        else mkSt (facts s) (del (cat s) n) false (mats s) (b2d s) (d2b s)
      else s
  | Enable => mkSt (facts s) (cat s) true (mats s) (b2d s) (d2b s)
  | Materialize n =>
      if inc s && is_head (cat s) n then
        mkSt (facts s) (cat s) true (upd (mats s) n (query_inc s n, true)) (b2d s) (d2b s)
      else s
  end.

Definition run (s : st) (h : list op) : st := fold_left step h s.

(* ------------------------------------------------------------------ known-finding classes
   Decidable on the history (evaluated along the run).  0 = none.
   1: a rule whose body mentions another DERIVED relation is (or becomes) materialized —
      base_to_derived only records direct body relations and derived_to_derived is never populated
   2: a rule's clauses change (clause added or removed) while its materialization is valid —
      neither path invalidates it
   3: a rule is materialized although some clause was registered before enable_incremental —
      its dependencies were never recorded
   4: a materialized head also has base facts of the same name (not produced by the generator) *)
Definition b2d_ok (s : st) (n : name) : bool :=
  forallb (fun d => N.eqb d n || memN n (getl (b2d s) d)) (rels (clauses_of (cat s) n)).
Definition mentions (s : st) (r n : name) : bool := memN n (rels (clauses_of (cat s) r)).

Definition hazard (s : st) (o : op) : N :=
  match o with
  | Materialize n =>
      if inc s && is_head (cat s) n then
        if negb (flat (cat s) n) then 1
        else if negb (b2d_ok s n) then 3
        else match get (facts s) n with [] => 0 | _ => 4 end
      else 0
  | Register n c true =>
      if valid s n then 2
      else if existsb (fun e => valid s (fst e) && mentions s (fst e) n) (mats s) then 1
      else 0
  | RemoveClause n i =>
      if valid s n && is_head (cat s) n && Nat.ltb i (length (clauses_of (cat s) n)) then 2 else 0
  | _ => 0
  end.

Fixpoint known_from (s : st) (h : list op) : N :=
  match h with
  | [] => 0
  | o :: r => match hazard s o with 0 => known_from (step s o) r | k => k end
  end.
Definition known_class (h : list op) : N := known_from init h.

Definition is_materialize (o : op) : bool := match o with Materialize _ => true | _ => false end.
Definition no_explicit_mat (h : list op) : bool := forallb (fun o => negb (is_materialize o)) h.
