(* C17 — model of the knowledge-graph namespace of the storage engine
   (src/storage_engine/mod.rs: create_knowledge_graph, prepare/finish_drop_knowledge_graph,
   insert_tuples_into, delete_tuples_from, register_rule_in, list_knowledge_graphs,
   load_all_knowledge_graphs / load_knowledge_graph_from_persist; src/storage/persist/mod.rs:
   ensure_shard, append, delete_shard, list_shards).
   Names are strings (lists of code points) because the defects are about names: shards are
   called `kg:rel`, the KG of a shard is rediscovered at start-up as the text before the first ':',
   a KG's shards are those whose name starts with `kg:`, and a KG's catalogs live in the
   directory `data_dir/kg` next to the engine's own `persist` and `metadata` directories.
   Tuples are interned to numbers.  The disk is modelled by its recovered content (a set per
   shard, after `replay_to_current`); ghost fields (incarnation tags, pending drops, unsaved map
   changes, guard holders) are used by the theorems only.
   Atomic sections (one `kstep` each) and the hook label the thread parks at afterwards:
     insert: [view check under KG read lock]                         -> 1 se:insert:after_view_check
             [take dropping read guard; tombstone check; existence re-check (fix);
              time; ensure_shard; WAL append; buffer push]            -> 3 se:insert:after_persist
             [release guard]                                          -> 4 se:insert:before_kg_lock
             [KG lookup; KG write lock: apply, publish; return]       -> next op
     delete: [existence/arity check; guard; tombstone check; existence re-check (fix);
              persist]                                                -> 5 se:delete:after_persist
             [release guard]                                          -> 6 se:delete:before_kg_lock
             [KG lookup; apply; return]                               -> next op
     drop:   [default/current/existence checks]                       -> 10 se:drop:after_exists_check
             [tombstone insert (dropping write lock)]                 -> 11 se:drop:after_tombstone
             [DashMap remove]                                         -> 12 se:drop:after_map_remove
             [save knowledge_graphs.json]                             -> 13 se:drop:finish_entry
             [delete every shard whose name starts with `kg:`]        -> 14 se:drop:after_shards_deleted
             [remove_dir_all(data_dir/kg)]                            -> 15 se:drop:before_tombstone_remove
             [tombstone remove (dropping write lock); return]         -> next op
     create: [name validation; tombstone check]                       -> 20 se:create:after_dropping_check
             [DashMap entry: vacant -> mkdir, new KG (loads catalogs found in the directory);
              save knowledge_graphs.json; return]                     -> next op
     rule, observe: one section each.
   A section that needs the dropping WRITE lock is blocked (the thread stutters) while some thread
   is parked holding the read guard.  Executable definitions only. *)
From IL Require Export Model.Conc.
Open Scope N_scope.

Definition name := list N.
Fixpoint name_eqb (a b : name) : bool :=
  match a, b with
  | [], [] => true
  | x :: a', y :: b' => N.eqb x y && name_eqb a' b'
  | _, _ => false
  end.
Definition colon : N := 58.
Fixpoint starts_with (p s : name) : bool :=
  match p, s with
  | [], _ => true
  | x :: p', y :: s' => N.eqb x y && starts_with p' s'
  | _ :: _, [] => false
  end.
Fixpoint strip (p s : name) : name :=
  match p, s with
  | [], _ => s
  | _ :: p', _ :: s' => strip p' s'
  | _ :: _, [] => []
  end.
(* `shard.split(':').next()` *)
Fixpoint kg_part (s : name) : name :=
  match s with
  | [] => []
  | c :: r => if N.eqb c colon then [] else c :: kg_part r
  end.
Definition shard_name (k rel : name) : name := k ++ colon :: rel.
Definition kg_prefix (k : name) : name := k ++ [colon].
Definition has_colon (k : name) : bool := existsb (N.eqb colon) k.
Definition mem_name (k : name) (l : list name) : bool := existsb (name_eqb k) l.

Definition default_kg : name := [100; 101; 102; 97; 117; 108; 116].            (* "default" *)
Definition persist_dir : name := [112; 101; 114; 115; 105; 115; 116].           (* "persist" *)
Definition metadata_dir : name := [109; 101; 116; 97; 100; 97; 116; 97].        (* "metadata" *)
Definition reserved (k : name) : bool := name_eqb k persist_dir || name_eqb k metadata_dir.

Fixpoint has_dotdot (k : name) : bool :=
  match k with
  | a :: ((b :: _) as r) => (N.eqb a 46 && N.eqb b 46) || has_dotdot r
  | _ => false
  end.
(* the validation of create_knowledge_graph; `fx` = with the `fix:` commit (no ':' and not one of
   the engine's own directory names) *)
Definition create_ok (fx : bool) (k : name) : bool :=
  match k with [] => false | _ => true end
  && negb (existsb (fun c => N.eqb c 47 || N.eqb c 92 || N.eqb c 0) k)
  && negb (has_dotdot k) && negb (name_eqb k [46])
  && Nat.leb (length k) 128
  && (if fx then negb (has_colon k) && negb (reserved k) else true).

(* ---- association lists keyed by names *)
Fixpoint lookup {A} (k : name) (m : list (name * A)) : option A :=
  match m with
  | [] => None
  | (k', v) :: r => if name_eqb k k' then Some v else lookup k r
  end.
Fixpoint remove_key {A} (k : name) (m : list (name * A)) : list (name * A) :=
  match m with
  | [] => []
  | (k', v) :: r => if name_eqb k k' then remove_key k r else (k', v) :: remove_key k r
  end.
Fixpoint set_key {A} (k : name) (v : A) (m : list (name * A)) : list (name * A) :=
  match m with
  | [] => [(k, v)]
  | (k', v') :: r => if name_eqb k k' then (k, v) :: r else (k', v') :: set_key k v r
  end.
Definition keys {A} (m : list (name * A)) : list name := map fst m.
Fixpoint remove_one (k : name) (l : list name) : list name :=
  match l with
  | [] => []
  | x :: r => if name_eqb k x then r else x :: remove_one k r
  end.
(* RuleDefinition::add_rule skips a clause that is already there *)
Definition add_name (k : name) (l : list name) : list name := if mem_name k l then l else l ++ [k].
Definition remove_all (k : name) (l : list name) : list name := filter (fun x => negb (name_eqb k x)) l.

(* ---- state *)
Definition rfact := (name * N)%type.                      (* relation name, tuple id *)
Definition rfact_eqb (a b : rfact) : bool := name_eqb (fst a) (fst b) && N.eqb (snd a) (snd b).
Record kgm := mkKgm { kinc : nat; kfacts : list rfact; krules : list name }.

Record g17 := mkG17 {
  mem : list (name * kgm);                 (* DashMap of knowledge graphs *)
  dropping : list name;                    (* tombstones *)
  shards : list (name * list (N * nat));   (* persist layer: shard name -> tuples (tagged, ghost) *)
  kglist : list name;                      (* metadata/knowledge_graphs.json *)
  dirs : list (name * list name);          (* KG directories -> rule heads in the catalog file *)
  readers : nat;                           (* threads parked holding the dropping read guard *)
  incs : list (name * nat);                (* ghost: incarnation counter per KG name *)
  pending : list (nat * name);             (* ghost: (thread, kg) of drops between map removal and shard deletion *)
  unsaved : list nat }.                    (* ghost: threads whose map removal is not yet followed by a list save *)

Inductive kop :=
| KCreate (id : N) (k : name)
| KDrop (id : N) (k : name)
| KIns (id : N) (k rel : name) (ts : list N)
| KDel (id : N) (k rel : name) (ts : list N)
| KRule (id : N) (k rel : name)
| KObs (id : N).

Definition kop_id (o : kop) : N :=
  match o with
  | KCreate i _ | KDrop i _ | KIns i _ _ _ | KDel i _ _ _ | KRule i _ _ | KObs i => i
  end.
Definition kop_target (o : kop) : option name :=
  match o with
  | KCreate _ k | KDrop _ k | KIns _ k _ _ | KDel _ k _ _ | KRule _ k _ => Some k
  | KObs _ => None
  end.

(* what a client can see of the engine: the KG names and, per KG, facts and rule heads *)
Definition kobs := list (name * (list rfact * list name)).
Definition observe (g : g17) : kobs := map (fun e => (fst e, (kfacts (snd e), krules (snd e)))) (mem g).

Inductive kres :=
| KOk | KCount (a b : N) | KErr (code : N) | KSeen (o : kobs).
(* error codes: 1 not found, 2 exists, 3 invalid name, 4 is a view, 5 cannot drop default,
   6 being dropped *)

Record l17 := mkL17 { kpc : nat; ktodo : list kop; kresults : list (N * kres) }.
Definition kinit_l (p : list kop) : l17 := mkL17 0 p [].
Definition kfinish (l : l17) (rest : list kop) (id : N) (r : kres) : l17 :=
  mkL17 0 rest (kresults l ++ [(id, r)]).
Definition kadvance (l : l17) : l17 := mkL17 (S (kpc l)) (ktodo l) (kresults l).

Definition inc_of (g : g17) (k : name) : nat :=
  match lookup k (incs g) with Some n => n | None => O end.

(* set semantics of the recovered shard content *)
Definition shard_add (tag : nat) (ts : list N) (cur : list (N * nat)) : list (N * nat) :=
  fold_left (fun acc t => if existsb (fun x => N.eqb (fst x) t) acc then acc else acc ++ [(t, tag)]) ts cur.
Definition shard_del (ts : list N) (cur : list (N * nat)) : list (N * nat) :=
  filter (fun x => negb (existsb (N.eqb (fst x)) ts)) cur.
Definition shard_get (s : name) (sh : list (name * list (N * nat))) : list (N * nat) :=
  match lookup s sh with Some l => l | None => [] end.

Definition facts_ins (rel : name) (ts : list N) (fs : list rfact) : list rfact :=
  fold_left (fun acc t => if existsb (rfact_eqb (rel, t)) acc then acc else acc ++ [(rel, t)]) ts fs.
Definition facts_del (rel : name) (ts : list N) (fs : list rfact) : list rfact :=
  filter (fun f => negb (name_eqb (fst f) rel && existsb (N.eqb (snd f)) ts)) fs.

Definition set_mem (g : g17) m := mkG17 m (dropping g) (shards g) (kglist g) (dirs g) (readers g) (incs g) (pending g) (unsaved g).
Definition set_shards (g : g17) s := mkG17 (mem g) (dropping g) s (kglist g) (dirs g) (readers g) (incs g) (pending g) (unsaved g).
Definition set_readers (g : g17) r := mkG17 (mem g) (dropping g) (shards g) (kglist g) (dirs g) r (incs g) (pending g) (unsaved g).

(* the guarded persist section of insert / delete.  Returns None when the operation fails. *)
Definition persist_section (fx : bool) (g : g17) (k rel : name) (ts : list N) (is_insert : bool) : option g17 :=
  if mem_name k (dropping g) then None
  else if fx && match lookup k (mem g) with None => true | Some _ => false end then None
  else
    let s := shard_name k rel in
    let cur := shard_get s (shards g) in
    let new := if is_insert then shard_add (inc_of g k) ts cur else shard_del ts cur in
    Some (set_readers (set_shards g (set_key s new (shards g))) (S (readers g))).

Definition kstep (fx : bool) (t : nat) (l : l17) (g : g17) : l17 * g17 :=
  match ktodo l with
  | [] => (l, g)
  | o :: rest =>
      match o with
      | KIns id k rel ts =>
          match kpc l with
          | O => match lookup k (mem g) with
                 | None => (kfinish l rest id (KErr 1), g)
                 | Some m => if mem_name rel (krules m) then (kfinish l rest id (KErr 4), g)
                             else (kadvance l, g)
                 end
          | S O => match persist_section fx g k rel ts true with
                   | None => (kfinish l rest id (KErr 1), g)
                   | Some g' => (kadvance l, g')
                   end
          | S (S O) => (kadvance l, set_readers g (pred (readers g)))
          | _ => match lookup k (mem g) with
                 | None => (kfinish l rest id (KErr 1), g)
                 | Some m =>
                     let f' := facts_ins rel ts (kfacts m) in
                     let new := N.of_nat (length f' - length (kfacts m)) in
                     (kfinish l rest id (KCount new (N.of_nat (length ts) - new)),
                      set_mem g (set_key k (mkKgm (kinc m) f' (krules m)) (mem g)))
                 end
          end
      | KDel id k rel ts =>
          match kpc l with
          | O => match lookup k (mem g) with       (* get_relation_metadata_in: arity check *)
                 | None => (kfinish l rest id (KErr 1), g)
                 | Some _ =>
                     match persist_section fx g k rel ts false with
                     | None => (kfinish l rest id (KErr 1), g)
                     | Some g' => (kadvance l, g')
                     end
                 end
          | S O => (kadvance l, set_readers g (pred (readers g)))
          | _ => match lookup k (mem g) with
                 | None => (kfinish l rest id (KErr 1), g)
                 | Some m =>
                     let f' := facts_del rel ts (kfacts m) in
                     (kfinish l rest id (KCount (N.of_nat (length (kfacts m) - length f')) 0),
                      set_mem g (set_key k (mkKgm (kinc m) f' (krules m)) (mem g)))
                 end
          end
      | KDrop id k =>
          match kpc l with
          | O => if name_eqb k default_kg then (kfinish l rest id (KErr 5), g)
                 else match lookup k (mem g) with
                      | None => (kfinish l rest id (KErr 1), g)
                      | Some _ => (kadvance l, g)
                      end
          | 1%nat => match readers g with
                     | O => (kadvance l,
                             mkG17 (mem g) (if mem_name k (dropping g) then dropping g else dropping g ++ [k])
                                   (shards g) (kglist g) (dirs g) (readers g) (incs g)
                                   (pending g) (unsaved g))
                     | S _ => (l, g)
                     end
          | 2%nat => (kadvance l,
                      mkG17 (remove_key k (mem g)) (dropping g) (shards g) (kglist g) (dirs g)
                            (readers g) (incs g) ((t, k) :: pending g) (t :: unsaved g))
          | 3%nat => (kadvance l,
                      mkG17 (mem g) (dropping g) (shards g) (keys (mem g)) (dirs g)
                            (readers g) (incs g) (pending g) (filter (fun x => negb (Nat.eqb x t)) (unsaved g)))
          | 4%nat => (kadvance l,
                      mkG17 (mem g) (dropping g)
                            (filter (fun s => negb (starts_with (kg_prefix k) (fst s))) (shards g))
                            (kglist g) (dirs g) (readers g) (incs g)
                            (filter (fun e => negb (Nat.eqb (fst e) t && name_eqb (snd e) k)) (pending g))
                            (unsaved g))
          | 5%nat => (kadvance l,
                      mkG17 (mem g) (dropping g) (shards g) (kglist g) (remove_key k (dirs g))
                            (readers g) (incs g) (pending g) (unsaved g))
          | _ => match readers g with
                 | O => (kfinish l rest id KOk,
                         mkG17 (mem g) (remove_all k (dropping g)) (shards g) (kglist g) (dirs g)
                               (readers g) (incs g) (pending g) (unsaved g))
                 | S _ => (l, g)
                 end
          end
      | KCreate id k =>
          match kpc l with
          | O => if negb (create_ok fx k) then (kfinish l rest id (KErr 3), g)
                 else if mem_name k (dropping g) then (kfinish l rest id (KErr 6), g)
                 else (kadvance l, g)
          | _ =>
              (* the name was validated in the previous section; the test is repeated so that the
                 step function is safe on local states no run reaches *)
              if negb (create_ok fx k) then (kfinish l rest id (KErr 3), g) else
              match lookup k (mem g) with
                 | Some _ => (kfinish l rest id (KErr 2), g)
                 | None =>
                     let n := S (inc_of g k) in
                     let rules := match lookup k (dirs g) with Some r => r | None => [] end in
                     let mem' := mem g ++ [(k, mkKgm n [] rules)] in
                     (kfinish l rest id KOk,
                      mkG17 mem' (dropping g) (shards g) (keys mem')
                            (match lookup k (dirs g) with Some _ => dirs g | None => dirs g ++ [(k, [])] end)
                            (readers g) (set_key k n (incs g)) (pending g) (unsaved g))
                 end
          end
      | KRule id k rel =>
          match lookup k (mem g) with
          | None => (kfinish l rest id (KErr 1), g)
          | Some m =>
              let rules := match lookup k (dirs g) with Some r => r | None => [] end in
              (kfinish l rest id KOk,
               mkG17 (set_key k (mkKgm (kinc m) (kfacts m) (add_name rel (krules m))) (mem g))
                     (dropping g) (shards g) (kglist g) (set_key k (add_name rel rules) (dirs g))
                     (readers g) (incs g) (pending g) (unsaved g))
          end
      | KObs id => (kfinish l rest id (KSeen (observe g)), g)
      end
  end.

Definition klabel (l : l17) : N :=
  match ktodo l with
  | [] => 9
  | o :: _ =>
      match kpc l with
      | O => 0
      | S n =>
          match o with
          | KIns _ _ _ _ => match n with O => 1 | S O => 3 | _ => 4 end
          | KDel _ _ _ _ => match n with O => 5 | _ => 6 end
          | KDrop _ _ => 10 + N.of_nat n
          | KCreate _ _ => 20
          | _ => 8
          end
      end
  end.

(* ---- restart: StorageEngine::new on the same data directory *)
Fixpoint dedup_names (l : list name) : list name :=
  match l with
  | [] => []
  | x :: r => if mem_name x r then dedup_names r else x :: dedup_names r
  end.

Definition load_facts (k : name) (sh : list (name * list (N * nat))) : list rfact :=
  flat_map (fun s => if starts_with (kg_prefix k) (fst s)
                     then map (fun t => (strip (kg_prefix k) (fst s), fst t)) (snd s)
                     else []) sh.

Definition load_kg (g : g17) (k : name) : kgm :=
  mkKgm (inc_of g k) (load_facts k (shards g))
        (match lookup k (dirs g) with Some r => r | None => [] end).

Definition restart (g : g17) : g17 :=
  let names := dedup_names (map (fun s => kg_part (fst s)) (shards g) ++ kglist g) in
  let mem1 := map (fun n => (n, load_kg g n)) names in
  let dirs1 := fold_left (fun d n => match lookup n d with Some _ => d | None => d ++ [(n, [])] end) names (dirs g) in
  if mem_name default_kg names
  then mkG17 mem1 [] (shards g) (kglist g) dirs1 O (incs g) [] []
  else
    let mem2 := mem1 ++ [(default_kg, mkKgm (S (inc_of g default_kg)) []
                                         (match lookup default_kg dirs1 with Some r => r | None => [] end))] in
    mkG17 mem2 [] (shards g) (keys mem2)
          (match lookup default_kg dirs1 with Some _ => dirs1 | None => dirs1 ++ [(default_kg, [])] end)
          O (set_key default_kg (S (inc_of g default_kg)) (incs g)) [] [].

Definition kinit_g : g17 :=
  mkG17 [(default_kg, mkKgm 1 [] [])] [] [] [default_kg] [(default_kg, [])] O [(default_kg, 1%nat)] [] [].

(* what the disk holds for one KG: its shards and its directory *)
Definition shards_of (k : name) (sh : list (name * list (N * nat))) : list (name * list (N * nat)) :=
  filter (fun s => name_eqb (kg_part (fst s)) k) sh.
Definition diskview (k : name) (g : g17) : list (name * list (N * nat)) * option (list name) :=
  (shards_of k (shards g), lookup k (dirs g)).

(* ---- sequential histories: operations run to completion one after the other, with restarts *)
Inductive hitem := HOp (o : kop) | HRestart.

Fixpoint run_to_end (fx : bool) (fuel : nat) (l : l17) (g : g17) : l17 * g17 :=
  match fuel with
  | O => (l, g)
  | S f => match ktodo l with
           | [] => (l, g)
           | _ => let '(l', g') := kstep fx O l g in run_to_end fx f l' g'
           end
  end.

Definition seq_op (fx : bool) (g : g17) (o : kop) : kres * g17 :=
  let '(l, g') := run_to_end fx 8 (kinit_l [o]) g in
  (match kresults l with (_, r) :: _ => r | [] => KErr 99 end, g').

Definition seq_item (fx : bool) (g : g17) (h : hitem) : g17 :=
  match h with HOp o => snd (seq_op fx g o) | HRestart => restart g end.
Definition seq_run (fx : bool) (g : g17) (h : list hitem) : g17 := fold_left (seq_item fx) h g.

(* ---- comparison up to order (the implementation iterates hash maps) *)
Definition same_rfacts (a b : list rfact) : bool :=
  Nat.eqb (length a) (length b)
  && forallb (fun f => existsb (rfact_eqb f) b) a && forallb (fun f => existsb (rfact_eqb f) a) b.
Definition same_names (a b : list name) : bool :=
  Nat.eqb (length a) (length b)
  && forallb (fun x => mem_name x b) a && forallb (fun x => mem_name x a) b.
Definition same_entry (x y : list rfact * list name) : bool :=
  same_rfacts (fst x) (fst y) && same_names (snd x) (snd y).
Definition same_obs (a b : kobs) : bool :=
  Nat.eqb (length a) (length b)
  && forallb (fun e => match lookup (fst e) b with Some y => same_entry (snd e) y | None => false end) a.
