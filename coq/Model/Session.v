(* Model for C10 — session state is isolated (src/session.rs Session/SessionManager;
   src/protocol/handler.rs Handler::execute_program / query_program_with_session / QueryJob::execute /
   session_retract_ephemeral; src/storage_engine/snapshot.rs execute_with_session_facts(_profiled);
   src/schema/catalog.rs SchemaCatalog.session).  Executable definitions only.

   One handler call is one atomic step.  A session query evaluates the published snapshot
   (persistent facts and rules) with the session's own facts united into the relations and the
   session's own rules appended.  Query evaluation reuses the reference evaluator of Model/Mat.v. *)
From IL Require Export Model.Value Model.Mat.
Open Scope N_scope.

Definition sid := N.
Definition kgid := N.
Inductive coltype := CInt | CStr | CAny.

Record sess := mkSess {
  sfacts : db;                 (* Session.ephemeral_facts *)
  srules : list clause;        (* Session.ephemeral_rules / ephemeral_rule_texts (kept in step) *)
  skg : kgid                   (* Session.knowledge_graph *)
}.
(* sessions are created bound to knowledge graph 0 *)
Definition empty_sess : sess := mkSess [] [] 0.

(* the persistent state of one knowledge graph *)
Record kgst := mkKg {
  pfacts : db;                               (* KnowledgeGraph.engine.input_tuples *)
  pcat : catalog;                            (* KnowledgeGraph.rule_catalog *)
  schemas : list (name * list coltype)       (* KnowledgeGraph.schema_catalog.session: ONE map per KG *)
}.
Definition empty_kg : kgst := mkKg [] [] [].

Record hst := mkH {
  kgs : list (kgid * kgst);                  (* StorageEngine.knowledge_graphs *)
  sessions : list (sid * sess)               (* SessionManager.sessions *)
}.
Definition hinit : hst := mkH [] [].

Definition kg_of (st : hst) (k : kgid) : kgst :=
  match lookup (kgs st) k with Some x => x | None => empty_kg end.
Definition sess_of (st : hst) (s : sid) : sess :=
  match lookup (sessions st) s with Some x => x | None => empty_sess end.

Inductive hop :=
(* persistent operations on knowledge graph k (issued by a session bound to k, or by a
   session-less request naming k) *)
| PInsert (k : kgid) (r : name) (ts : list tuple)            (* `+r[(..),..]` *)
| PDelete (k : kgid) (r : name) (ts : list tuple)            (* `-r(..)` *)
| PRegister (k : kgid) (n : name) (c : clause) (acc : bool)  (* `+n(..) <- body`; acc = accepted *)
| PDrop (k : kgid) (n : name)                                (* `-n` (drops the rule n) *)
| PQuery (k : kgid) (r : name)                               (* `?r(..)` without a session *)
(* session-local operations *)
| SFact (s : sid) (r : name) (t : tuple)          (* `r(..)` *)
| SRetract (s : sid) (r : name) (ts : list tuple) (* Handler::session_retract_ephemeral *)
| SRule (s : sid) (c : clause) (acc : bool)       (* `h(..) <- body`; acc = accepted *)
| SClear (s : sid)                                (* `.session clear` *)
| SDropRules (s : sid) (n : name)                 (* `.session drop <name>` *)
| SDropIdx (s : sid) (i : nat)                    (* `.session drop <i+1>` *)
| SKgUse (s : sid) (k : kgid)                     (* `.kg use <k>`: SessionManager::switch_kg clears the session *)
| SQuery (s : sid) (r : name)                     (* `?r(..)` *)
| SCount (s : sid) (r : name)                     (* one-shot `c(count<V0>) <- r(V0,..)` in the session *)
| SSchema (s : sid) (r : name) (cols : list coltype).  (* `r(col: type, ..)` transient schema *)

(* ------------------------------------------------------------------ evaluation *)
Definition merge_cat (c : catalog) (rules : list clause) : catalog :=
  fold_left (fun m cl => upd m (arel (chead cl)) (clauses_of m (arel (chead cl)) ++ [cl])) rules c.
(* set union of the stored relations with the session's facts (after fix 4d0d7a2) *)
Definition union_db (d : db) (extra : db) : db :=
  fold_left (fun m e => upd m (fst e) (add_new (get m (fst e)) (snd e))) extra d.

(* a query in knowledge graph state g with session facts fs and session rules rs *)
Definition eval_in (g : kgst) (fs : db) (rs : list clause) (r : name) : list tuple :=
  let c := merge_cat (pcat g) rs in
  val (length c) c (union_db (pfacts g) fs) r.
Definition eval_with (st : hst) (se : sess) (r : name) : list tuple :=
  eval_in (kg_of st (skg se)) (sfacts se) (srules se) r.
Definition eval_pers (st : hst) (k : kgid) (r : name) : list tuple := eval_in (kg_of st k) [] [] r.

Definition count_row (a : list tuple) : list tuple :=
  match a with [] => [] | _ => [[VI64 (Z.of_nat (length a))]] end.

(* ------------------------------------------------------------------ schema check *)
Definition value_has (t : coltype) (v : value) : bool :=
  match t, v with
  | CAny, _ => true
  | CInt, VI64 _ => true
  | CInt, VI32 _ => true
  | CStr, VStr _ => true
  | _, _ => false
  end.
Fixpoint tuple_has (cols : list coltype) (t : tuple) : bool :=
  match cols, t with
  | [], [] => true
  | c :: cs, v :: vs => value_has c v && tuple_has cs vs
  | _, _ => false
  end.
Definition schema_ok (g : kgst) (r : name) (ts : list tuple) : bool :=
  match lookup (schemas g) r with
  | Some cols => forallb (tuple_has cols) ts
  | None => true
  end.

(* ------------------------------------------------------------------ steps *)
Definition set_sess (st : hst) (s : sid) (x : sess) : hst :=
  mkH (kgs st) (upd (sessions st) s x).
Definition set_kg (st : hst) (k : kgid) (g : kgst) : hst :=
  mkH (upd (kgs st) k g) (sessions st).

Definition hstep (st : hst) (o : hop) : hst * option (list tuple) :=
  match o with
  | PInsert k r ts =>
      let g := kg_of st k in
      if is_head (pcat g) r || negb (schema_ok g r ts) then (st, None)
      else (set_kg st k (mkKg (upd (pfacts g) r (add_new (get (pfacts g) r) ts)) (pcat g) (schemas g)), None)
  | PDelete k r ts =>
      let g := kg_of st k in
      (set_kg st k (mkKg (upd (pfacts g) r (filter (fun t => negb (mem_tuple t ts)) (get (pfacts g) r)))
                         (pcat g) (schemas g)), None)
  | PRegister k n c acc =>
      let g := kg_of st k in
      if acc then (set_kg st k (mkKg (pfacts g) (upd (pcat g) n (add_clause (clauses_of (pcat g) n) c)) (schemas g)), None)
      else (st, None)
  | PDrop k n =>
      let g := kg_of st k in
      (set_kg st k (mkKg (pfacts g) (del (pcat g) n) (schemas g)), None)
  | PQuery k r => (st, Some (eval_pers st k r))
  | SFact s r t =>
      let se := sess_of st s in
      (set_sess st s (mkSess (upd (sfacts se) r (add_new (get (sfacts se) r) [t])) (srules se) (skg se)), None)
  | SRetract s r ts =>
      let se := sess_of st s in
      (set_sess st s (mkSess (upd (sfacts se) r (filter (fun t => negb (mem_tuple t ts)) (get (sfacts se) r)))
                             (srules se) (skg se)), None)
  | SRule s c acc =>
      let se := sess_of st s in
      if acc then (set_sess st s (mkSess (sfacts se) (srules se ++ [c]) (skg se)), None) else (st, None)
  | SClear s =>
      (* Session::clear: facts, rules AND the rule texts that are prepended to queries *)
      let se := sess_of st s in
      (set_sess st s (mkSess [] [] (skg se)), None)
  | SDropRules s n =>
      let se := sess_of st s in
      (set_sess st s (mkSess (sfacts se)
                             (filter (fun cl => negb (N.eqb (arel (chead cl)) n)) (srules se)) (skg se)), None)
  | SDropIdx s i =>
      let se := sess_of st s in
      if Nat.ltb i (length (srules se))
      then (set_sess st s (mkSess (sfacts se) (remove_nth i (srules se)) (skg se)), None)
      else (st, None)
  | SKgUse s k =>
      (* SessionManager::switch_kg: session.clear(); session.knowledge_graph = new *)
      (set_sess st s (mkSess [] [] k), None)
  | SQuery s r => (st, Some (eval_with st (sess_of st s) r))
  | SCount s r => (st, Some (count_row (eval_with st (sess_of st s) r)))
  | SSchema s r cols =>
      (* register_or_update_session_schema_in(kg, ..): the declaration lands in the KG-wide map of the
         session's current knowledge graph *)
      let k := skg (sess_of st s) in
      let g := kg_of st k in
      (set_kg st k (mkKg (pfacts g) (pcat g) (upd (schemas g) r cols)), None)
  end.

Fixpoint htrace (st : hst) (h : list hop) : hst * list (hop * option (list tuple)) :=
  match h with
  | [] => (st, [])
  | o :: r =>
      let '(st1, a) := hstep st o in
      let '(st2, tr) := htrace st1 r in
      (st2, (o, a) :: tr)
  end.
Definition hrun (st : hst) (h : list hop) : hst := fst (htrace st h).
Definition answers (st : hst) (h : list hop) : list (hop * option (list tuple)) := snd (htrace st h).

(* ------------------------------------------------------------------ classification of steps *)
Definition owner (o : hop) : option sid :=
  match o with
  | SFact s _ _ | SRetract s _ _ | SRule s _ _ | SClear s | SDropRules s _ | SDropIdx s _ | SKgUse s _
  | SQuery s _ | SCount s _ | SSchema s _ _ => Some s
  | _ => None
  end.
Definition is_pers (o : hop) : bool := match owner o with None => true | Some _ => false end.
Definition owned_by (s : sid) (o : hop) : bool :=
  match owner o with Some s' => N.eqb s s' | None => false end.
Definition is_schema (o : hop) : bool := match o with SSchema _ _ _ => true | _ => false end.
Definition no_session_schema (h : list hop) : bool := forallb (fun o => negb (is_schema o)) h.

(* what session s may depend on: the persistent operations and its own *)
Definition view_of (s : sid) (h : list hop) : list hop :=
  filter (fun o => is_pers o || owned_by s o) h.
Definition own_answers (s : sid) (tr : list (hop * option (list tuple))) : list (hop * option (list tuple)) :=
  filter (fun e => owned_by s (fst e)) tr.
Definition pers_answers (tr : list (hop * option (list tuple))) : list (hop * option (list tuple)) :=
  filter (fun e => is_pers (fst e)) tr.

(* known-finding class: 1 = the schedule contains a session schema declaration *)
Definition c10_known (h : list hop) : N := if no_session_schema h then 0 else 1.
