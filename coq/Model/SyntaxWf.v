(* Model/SyntaxWf.v — decidable predicates on rule ASTs used by both the checker and the theorems:
   the assumptions on the float printers, the known-finding classes and the fragment `wf`. *)
From Coq Require Import String.
From IL Require Export Model.Syntax.
Open Scope N_scope.

Definition is_some {A} (o : option A) : bool := match o with Some _ => true | None => false end.
Definition optN_is (o : option N) (b : N) : bool := match o with Some x => x =? b | None => false end.

(* shape of `{:?}` of an f64: [-]digits[.digits][e[-]digits] | NaN | inf | -inf.
   What the proofs use: characters are digits, letters, '.', '-'; a '-' is either the first
   character or directly follows 'e' which directly follows a digit; no '+';
   the last character is a digit or a letter; the text does not end in digit-or-dot followed by e/E *)
Fixpoint minus_ok (before s : str) : bool :=
  match s with
  | [] => true
  | c :: t =>
      (if c =? 45 then
         match before with
         | [] => true
         | e :: d :: _ => (e =? 101) && is_digit d
         | _ => false
         end
       else true) && minus_ok (c :: before) t
  end.
Definition num_char (c : N) : bool := is_digit c || is_aupper c || is_alower c || (c =? 46) || (c =? 45).
Definition last_alnum (s : str) : bool :=
  match rev s with c :: _ => is_digit c || is_aupper c || is_alower c | [] => false end.
Definition dbg_shape (s : str) : bool :=
  forallb num_char s && minus_ok [] s && last_alnum s && negb (sci (rev s)).
Definition disp_shape (s : str) : bool := forallb num_char s && last_alnum s.

Fixpoint count_str (x : str) (l : list str) : nat :=
  match l with [] => O | y :: t => (if str_eqb x y then 1 else 0)%nat + count_str x t end.

(* ---------------- the fragment covered by the round-trip theorem *)
Definition idc (c : N) : bool := is_digit c || is_aupper c || is_alower c || (c =? 95).
Definition ident (s : str) : bool := match s with [] => false | _ => forallb idc s end.
Definition canon (b : N) : bool := f64_canon b =? b.
Definition wf_int (z : Z) : bool := ((-9223372036854775808 <=? z) && (z <? 9223372036854775808))%Z.
(* an arithmetic variable: identifier characters, and not a number (those parse as constants) *)
Definition wf_avar (s : str) : bool := ident s && negb (is_some (parse_i64 s)) && negb (f64_lexeme s).

Section WithEnv.
Variable E : env.
Definition dbg_ok (b : N) : bool :=
  let s := e_dbg E b in
  dbg_shape s && optN_is (parse_f64 E s) b && negb (is_some (parse_i64 s)).
Definition disp_ok (b : N) : bool :=
  let s := e_disp E b in disp_shape s && optN_is (parse_f64 E s) b.

(* a float constant must be canonical (one NaN) and the environment must print it as assumed *)
Fixpoint wf_arith (a : arith) : bool :=
  match a with
  | AVar s => wf_avar s
  | AInt z => wf_int z
  | AFloat b => canon b && dbg_ok b
  | ABin o l r =>
      wf_arith l && wf_arith r &&
      match o with OAdd | OSub => negb (sci (rev (show_arith E l))) | _ => true end
  end.
(* identifiers that are variables: uppercase or '_' first, not the placeholder, not inf/nan/infinity *)
Definition wf_var (s : str) : bool :=
  ident s && (match s with c :: _ => is_aupper c || (c =? 95) | [] => false end)
  && negb (str_eqb s [95]) && negb (f64_lexeme s).
(* string contents: anything but the characters the splitters look for:  , ( ) < > [ ] = !  *)
Definition str_char_ok (c : N) : bool :=
  negb ((c =? 44) || (c =? 40) || (c =? 41) || (c =? 60) || (c =? 62) || (c =? 91) || (c =? 93)
        || (c =? 61) || (c =? 33)).
Definition wf_str (s : str) : bool := forallb str_char_ok s.
Definition wf_outs (ord : str) (outs : list str) : bool :=
  (match outs with [] => false | _ => true end) && forallb ident outs && (count_str ord outs =? 1)%nat.
(* a ranking aggregate lists identifiers, its order variable exactly once; its variable text is empty *)
Definition wf_aggf (g : aggf) (v : str) : bool :=
  match g with
  | GTopK k ord outs _ => (k <? 18446744073709551616) && wf_outs ord outs && str_eqb v []
  | GTopKThr k ord outs thr _ =>
      (k <? 18446744073709551616) && wf_outs ord outs && canon thr && disp_ok thr && str_eqb v []
  | GWithin dvar outs maxd =>
      wf_outs dvar outs && canon maxd && disp_ok maxd && negb (first_is 45 (e_disp E maxd)) && str_eqb v []
  | _ => ident v
  end.
Fixpoint wf_term (t : term) : bool :=
  match t with
  | TVar s => wf_var s
  | TInt z => wf_int z
  | TPh => true
  | TAgg g v => wf_aggf g v
  | TArith a =>
      (match a with ABin _ _ _ => true | _ => false end) && wf_arith a
      && negb (f64_lexeme (show_arith E a))
  | TFun f args => is_builtin f && forallb wf_term args
  | TVec xs => forallb (fun b => canon b && disp_ok b) xs
  | TFloat b => canon b && f64_is_finite b && dbg_ok b
  | TStr s => wf_str s
  | TBool _ => true
  end.
(* a comparison side: not an aggregate, not a vector literal with two or more elements
   (their '<' / ',' are found by the comparison / body splitters; such sides are never parsed) *)
Definition wf_side (t : term) : bool :=
  wf_term t && match t with TAgg _ _ => false | TVec (_ :: _ :: _) => false | _ => true end.
Definition wf_atom (a : atom) : bool := match a with Atom r args => ident r && forallb wf_term args end.
Definition wf_uvar (s : str) : bool :=
  ident s && match s with c :: _ => is_aupper c | [] => false end.
Definition wf_bpred (b : bpred) : bool :=
  match b with
  | BPos (Atom r args) => wf_atom (Atom r args) && negb (str_eqb r (lit "hnsw_nearest"%string))
  | BNeg a => wf_atom a
  | BCmp l o r =>
      wf_side l && wf_side r && negb (starts_with hnsw_prefix (show_bpred E (BCmp l o r)))
  | BHnsw idx q k idv dv ef =>
      wf_str idx && wf_term q && (1 <=? k) && (k <? 18446744073709551616) && wf_uvar idv && wf_uvar dv
      && match ef with Some e => e <? 18446744073709551616 | None => true end
  end.
Definition wf_rule (r : rule) : bool := match r with Rule h b => wf_atom h && forallb wf_bpred b end.

End WithEnv.

(* ---------------- traversals *)
Fixpoint arith_any (p : aop -> arith -> arith -> bool) (a : arith) : bool :=
  match a with
  | ABin o l r => p o l r || arith_any p l || arith_any p r
  | _ => false
  end.
Fixpoint term_any (p : term -> bool) (t : term) : bool :=
  p t || match t with TFun _ args => existsb (term_any p) args | _ => false end.
Definition atom_terms (a : atom) : list term := match a with Atom _ l => l end.
Definition bpred_terms (b : bpred) : list term :=
  match b with
  | BPos a | BNeg a => atom_terms a
  | BCmp l _ r => [l; r]
  | BHnsw _ q _ _ _ _ => [q]
  end.
Definition rule_terms (r : rule) : list term :=
  match r with Rule h b => atom_terms h ++ flat_map bpred_terms b end.
Definition rule_any (p : term -> bool) (r : rule) : bool := existsb (term_any p) (rule_terms r).

Fixpoint has_arrow (s : str) : bool :=
  match s with
  | a :: t => (match t with b :: _ => (a =? 60) && (b =? 45) | [] => false end) || has_arrow t
  | [] => false
  end.

(* ---------------- known-finding classes: decidable predicates on the parsed input.
   Each is a genuine round-trip failure of the pinned tree that is recorded, not repaired
   (KNOWN_FINDINGS.json); every other failure is a violation. *)
(* 1: an identifier that ends in digit-or-dot followed by e/E stands directly before a binary + or -
      (X1e-3, V2E+1): the printed text has no spaces and the parser takes the sign for the sign of a
      scientific-notation exponent *)
Definition cls_sci (E : env) (t : term) : bool :=
  match t with
  | TArith a =>
      arith_any (fun o l _ => match o with OAdd | OSub => sci (rev (show_arith E l)) | _ => false end) a
  | _ => false
  end.
(* 2: a NaN float constant term (written -nan) prints as NaN, which re-parses as a variable *)
Definition cls_nan (t : term) : bool := match t with TFloat b => f64_is_nan b | _ => false end.
(* 3: the printed head or a printed body predicate contains "<-" (within_radius with a negative
      radius prints within_radius<-2, an aggregate variable text starting with '-') *)
Definition cls_arrow (E : env) (r : rule) : bool :=
  match r with Rule h b => has_arrow (show_atom E h) || existsb (fun p => has_arrow (show_bpred E p)) b end.
(* 4: a ranking aggregate lists its order variable more than once; every occurrence is printed
      with the :desc/:asc annotation and two annotations are rejected *)
Definition cls_dup (t : term) : bool :=
  match t with
  | TAgg (GTopK _ o outs _) _ | TAgg (GTopKThr _ o outs _ _) _ | TAgg (GWithin o outs _) _ =>
      (2 <=? count_str o outs)%nat
  | _ => false
  end.
(* 5: a positive body atom whose relation is literally hnsw_nearest (accepted when written with a
      space before the parenthesis) prints as hnsw_nearest(...), which is the search predicate *)
Definition cls_hnsw_name (r : rule) : bool :=
  match r with
  | Rule _ b => existsb (fun p => match p with BPos (Atom n _) => str_eqb n (lit "hnsw_nearest"%string) | _ => false end) b
  end.
(* 7: an arithmetic term that is a bare leaf: "+inf" (also "+nan", "+1e400") is not a finite float, is
      then taken for arithmetic because of the '+', and parse_primary accepts the non-finite float;
      it prints as inf / NaN, which is an unquoted atom / a variable *)
Definition cls_arith_leaf (t : term) : bool :=
  match t with TArith (ABin _ _ _) => false | TArith _ => true | _ => false end.
Definition known_class (E : env) (r : rule) : N :=
  if rule_any (cls_sci E) r then 1
  else if rule_any cls_nan r then 2
  else if cls_arrow E r then 3
  else if rule_any cls_dup r then 4
  else if cls_hnsw_name r then 5
  else if rule_any cls_arith_leaf r then 7
  else 0.
(* 6 (persistent path only): SerializableTerm has no variant for function calls, vector literals and
      booleans (they are stored as `_`), nor SerializableBodyPred for hnsw_nearest; non-finite floats
      are stored as JSON null *)
Definition ser_lossy_term (t : term) : bool :=
  match t with
  | TFun _ _ | TVec _ | TBool _ => true
  | TFloat b => negb (f64_is_finite b)
  | TAgg (GTopKThr _ _ _ th _) _ => negb (f64_is_finite th)
  | TAgg (GWithin _ _ m) _ => negb (f64_is_finite m)
  | TArith a => (fix nf (a : arith) : bool :=
                   match a with AFloat b => negb (f64_is_finite b) | ABin _ l r => nf l || nf r | _ => false end) a
  | _ => false
  end.
Definition ser_lossy (r : rule) : bool :=
  existsb ser_lossy_term (rule_terms r)
  || match r with Rule _ b => existsb (fun p => match p with BHnsw _ _ _ _ _ _ => true | _ => false end) b end.
Definition known_class_paths (E : env) (r : rule) : N :=
  let k := known_class E r in if negb (k =? 0) then k else if ser_lossy r then 6 else 0.

(* ---------------- the submission paths (verified against the pinned tree, see Props/C09.v) *)
(* SerializableTerm::from_term / to_term (src/statement/serialize.rs:132-160): the round trip through
   the stored form keeps variables, integers, floats, strings, placeholders, aggregates and arithmetic,
   and turns every other term into `_`; hnsw_nearest becomes the atom __hnsw_nearest__() *)
Definition ser_term (t : term) : term :=
  match t with TFun _ _ | TVec _ | TBool _ => TPh | _ => t end.
Definition ser_atom (a : atom) : atom := match a with Atom r l => Atom r (List.map ser_term l) end.
Definition ser_bpred (b : bpred) : bpred :=
  match b with
  | BPos a => BPos (ser_atom a)
  | BNeg a => BNeg (ser_atom a)
  | BCmp l o r => BCmp (ser_term l) o (ser_term r)
  | BHnsw _ _ _ _ _ _ => BPos (Atom (lit "__hnsw_nearest__"%string) [])
  end.
Definition ser_rule (r : rule) : rule :=
  match r with Rule h b => Rule (ser_atom h) (List.map ser_bpred b) end.

Definition reparse (E : env) (r : rule) : option rule := parse_rule E (show_rule E r).
(* text handed to the engine unchanged (StorageEngine::execute_query_tuples_on -> parse_program) *)
Definition path_direct (E : env) (text : str) : option rule := parse_rule E text.
(* a rule line of a handler program, and a session rule: parse_statement, Display, parse_program *)
Definition path_printed (E : env) (text : str) : option rule :=
  match parse_rule E text with Some r => reparse E r | None => None end.
(* a persistent rule: parse_statement, Display, parse_rule_definition, stored form (and JSON),
   Display (build_rule_prefix), parse_program *)
Definition path_persistent (E : env) (text : str) : option rule :=
  match parse_rule E text with
  | Some r => match reparse E r with Some r1 => reparse E (ser_rule r1) | None => None end
  | None => None
  end.

