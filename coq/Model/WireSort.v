(* Model of the ordering / pagination step of the query path (src/protocol/handler.rs):
   `compare_wire_values`, `wire_value_type_rank` (table regenerated into Gen/WireRank.v), `sort_rows`
   (slice::sort_by = a stable sort), `apply_pagination`, and the `total_count` taken between them.
   Executable definitions only. *)
From IL Require Export Model.Value Gen.WireRank.
Open Scope N_scope.

(* protocol::wire::WireValue *)
Inductive wire :=
| WNull
| WI32 (z : Z)
| WI64 (z : Z)
| WF64 (bits : N)
| WStr (s : list N)
| WBool (b : bool)
| WTs (z : Z)
| WVec (bits : list N)
| WVec8 (xs : list Z)
| WBytes (bs : list N).

Definition row := list wire.

Definition wkind_of (w : wire) : wkind :=
  match w with
  | WNull => WKNull | WI32 _ => WKInt32 | WI64 _ => WKInt64 | WF64 _ => WKFloat64 | WStr _ => WKString
  | WBool _ => WKBool | WTs _ => WKTimestamp | WVec _ => WKVector | WVec8 _ => WKVectorInt8
  | WBytes _ => WKBytes
  end.

(* ---- `i64 as f64`: round to nearest, ties to even; result as an IEEE-754 bit pattern *)
Definition f64_of_nat_mag (m : N) : N :=          (* m > 0 *)
  let L := N.log2 m in
  if L <=? 52 then (L + 1022) * 4503599627370496 + m * 2 ^ (52 - L)
  else
    let s := L - 52 in
    let q := m / 2 ^ s in
    let r := m mod 2 ^ s in
    let half := 2 ^ (s - 1) in
    let up := (half <? r) || ((r =? half) && N.odd q) in
    (L + 1022) * 4503599627370496 + (if up then q + 1 else q).

Definition f64_of_i64 (z : Z) : N :=
  match z with
  | Z0 => 0
  | Zpos p => f64_of_nat_mag (Npos p)
  | Zneg p => 9223372036854775808 + f64_of_nat_mag (Npos p)
  end.

Definition f64_tcmp (a b : N) : comparison := Z.compare (f64_total_key a) (f64_total_key b).   (* f64::total_cmp *)

Definition wbool_cmp (a b : bool) : comparison :=
  match a, b with false, true => Lt | true, false => Gt | _, _ => Eq end.

(* the arms of `match (va, vb)` that look at payloads *)
Definition wire_payload_cmp (a b : wire) : comparison :=
  match a, b with
  | WI64 x, WI64 y => Z.compare x y
  | WI32 x, WI32 y => Z.compare x y
  | WF64 x, WF64 y => f64_tcmp x y                        (* a.total_cmp(b) *)
  | WStr x, WStr y => lex_cmp N.compare x y
  | WBool x, WBool y => wbool_cmp x y
  | WTs x, WTs y => Z.compare x y
  | WI64 x, WF64 y => f64_tcmp (f64_of_i64 x) y           (* `( *a as f64).total_cmp(b)` *)
  | WF64 x, WI64 y => f64_tcmp x (f64_of_i64 y)           (* `a.total_cmp(&( *b as f64))` *)
  | _, _ => Eq                                            (* not reached for the generated table *)
  end.

Definition wire_cmp (a b : wire) : comparison :=
  match wire_arm (wkind_of a) (wkind_of b) with
  | WConst c => c
  | WRank => N.compare (wire_rank (wkind_of a)) (wire_rank (wkind_of b))
  | WPayload => wire_payload_cmp a b
  end.

(* compare_wire_values(a: Option<&WireValue>, b: Option<&WireValue>) *)
Definition opt_wire_cmp (a b : option wire) : comparison :=
  match a, b with
  | None, None => Eq
  | None, Some _ => Lt
  | Some _, None => Gt
  | Some x, Some y => wire_cmp x y
  end.

(* the closure given to sort_by: keys = (column index, descending?) in priority order *)
Fixpoint row_cmp (keys : list (nat * bool)) (a b : row) : comparison :=
  match keys with
  | [] => Eq
  | (col, desc) :: r =>
      let c := opt_wire_cmp (nth_error a col) (nth_error b col) in
      let c := if desc then CompOpp c else c in
      match c with Eq => row_cmp r a b | _ => c end
  end.

(* ---- a stable sort (insertion sort; for a total preorder every stable sort returns the same list) *)
Fixpoint insert_by {A} (cmp : A -> A -> comparison) (x : A) (l : list A) : list A :=
  match l with
  | [] => [x]
  | y :: r => match cmp x y with Gt => y :: insert_by cmp x r | _ => x :: l end
  end.

Definition sort_by {A} (cmp : A -> A -> comparison) (l : list A) : list A :=
  fold_right (insert_by cmp) [] l.

Definition sort_rows (keys : list (nat * bool)) (rows : list row) : list row :=
  match keys with [] => rows | _ => sort_by (row_cmp keys) rows end.

Definition apply_pagination (rows : list row) (limit offset : option nat) : list row :=
  let start := match offset with Some o => o | None => O end in
  if (length rows <=? start)%nat then []
  else
    let remaining := skipn start rows in
    match limit with Some n => firstn n remaining | None => remaining end.

(* what the handler returns: (rows, total_count) *)
Definition query_out (keys : list (nat * bool)) (limit offset : option nat) (rows : list row)
  : list row * nat :=
  let sorted := sort_rows keys rows in
  (apply_pagination sorted limit offset, length sorted).

(* ---- equality of wire values / rows by bit pattern (for comparing outputs) *)
Definition wire_eqb (a b : wire) : bool :=
  match a, b with
  | WNull, WNull => true
  | WI32 x, WI32 y | WI64 x, WI64 y | WTs x, WTs y => Z.eqb x y
  | WF64 x, WF64 y => N.eqb x y
  | WStr x, WStr y | WVec x, WVec y | WBytes x, WBytes y => list_eqb N.eqb x y
  | WBool x, WBool y => Bool.eqb x y
  | WVec8 x, WVec8 y => list_eqb Z.eqb x y
  | _, _ => false
  end.
Definition row_eqb (a b : row) : bool := list_eqb wire_eqb a b.
Definition rows_eqb (a b : list row) : bool := list_eqb row_eqb a b.

(* ---- the specification as an executable checker: `res` is a slice [offset, offset+limit) of SOME
   arrangement of `rows` that is sorted by `cmp` (ties in any order) *)
Definition cmp_eqb (a b : comparison) : bool :=
  match a, b with Eq, Eq | Lt, Lt | Gt, Gt => true | _, _ => false end.
Definition leb_by {A} (cmp : A -> A -> comparison) (a b : A) : bool := negb (cmp_eqb (cmp a b) Gt).
Definition ltb_by {A} (cmp : A -> A -> comparison) (a b : A) : bool := cmp_eqb (cmp a b) Lt.

Fixpoint remove_one {A} (eqb : A -> A -> bool) (x : A) (l : list A) : option (list A) :=
  match l with
  | [] => None
  | y :: r => if eqb x y then Some r
              else match remove_one eqb x r with Some r' => Some (y :: r') | None => None end
  end.

(* res is a sub-multiset of rows *)
Fixpoint submultiset {A} (eqb : A -> A -> bool) (res rows : list A) : bool :=
  match res with
  | [] => true
  | x :: r => match remove_one eqb x rows with Some rows' => submultiset eqb r rows' | None => false end
  end.

Definition count_if {A} (f : A -> bool) (l : list A) : nat := length (filter f l).

(* position p may hold x in a sorted arrangement of rows:  #{y < x} <= p < #{y <= x} *)
Definition rank_ok {A} (cmp : A -> A -> comparison) (rows : list A) (p : nat) (x : A) : bool :=
  (count_if (fun y => ltb_by cmp y x) rows <=? p)%nat && (p <? count_if (fun y => leb_by cmp y x) rows)%nat.

Fixpoint ranks_ok {A} (cmp : A -> A -> comparison) (rows : list A) (p : nat) (res : list A) : bool :=
  match res with
  | [] => true
  | x :: r => rank_ok cmp rows p x && ranks_ok cmp rows (S p) r
  end.

Fixpoint pairwise_le {A} (cmp : A -> A -> comparison) (l : list A) : bool :=
  match l with
  | [] => true
  | x :: r => forallb (leb_by cmp x) r && pairwise_le cmp r
  end.

Definition slice_len (n : nat) (limit offset : option nat) : nat :=
  let start := match offset with Some o => o | None => O end in
  let avail := (n - start)%nat in
  match limit with Some k => Nat.min k avail | None => avail end.

Definition is_sorted_slice_of {A} (eqb : A -> A -> bool) (cmp : A -> A -> comparison)
           (rows : list A) (limit offset : option nat) (res : list A) : bool :=
  let start := match offset with Some o => o | None => O end in
  Nat.eqb (length res) (slice_len (length rows) limit offset) &&
  submultiset eqb res rows &&
  pairwise_le cmp res &&
  ranks_ok cmp rows start res.

(* the whole property on one observed (rows -> (res, total)); with no sort keys the order is the input order *)
Definition c35_spec (keys : list (nat * bool)) (limit offset : option nat)
           (rows res : list row) (total : nat) : bool :=
  Nat.eqb total (length rows) &&
  match keys with
  | [] => rows_eqb res (apply_pagination rows limit offset)
  | _ => is_sorted_slice_of row_eqb (row_cmp keys) rows limit offset res
  end.

(* ---- the class of sort-key columns on which compare_wire_values is a total preorder:
   no Float64 in the column, or every pair of Int64 in it keeps its order under `as f64`
   (always true for |i| <= 2^53) *)
Definition is_f64 (o : option wire) : bool := match o with Some (WF64 _) => true | _ => false end.
Definition col_ints (vs : list (option wire)) : list Z :=
  flat_map (fun o => match o with Some (WI64 z) => [z] | _ => [] end) vs.
Definition int_key (hf : bool) (z : Z) : Z := if hf then f64_total_key (f64_of_i64 z) else z.
Definition good_col (vs : list (option wire)) : bool :=
  let hf := existsb is_f64 vs in
  let zs := col_ints vs in
  forallb (fun x => forallb (fun y => cmp_eqb (Z.compare x y) (Z.compare (int_key hf x) (int_key hf y))) zs) zs.

Definition column (col : nat) (rows : list row) : list (option wire) := map (fun r => nth_error r col) rows.
Definition good_keys (keys : list (nat * bool)) (rows : list row) : bool :=
  forallb (fun k => good_col (column (fst k) rows)) keys.
