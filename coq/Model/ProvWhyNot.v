(* C23: model of `explain_why_not` (src/provenance/why_not.rs) — per clause: head
   unification, then a greedy left-to-right trace that follows the FIRST matching tuple of
   every positive atom and stops at the first failing predicate — and the semantic truth
   condition `blocker_holds` of every blocker kind against the reference model.
   Executable definitions only. *)
From IL Require Export Model.ProvDatalog.
Open Scope N_scope.

(* `Blocker` (src/provenance/mod.rs) for the fragment; idx = position in the clause body *)
Inductive blocker :=
| BHead                                          (* HeadUnificationFailed *)
| BAtom (idx : nat) (r : rel) (pat : pattern)    (* BodyAtomFailed: no tuple matches the bound pattern *)
| BCmp (idx : nat) (lv rv : option value)        (* ComparisonFailed with the resolved sides *)
| BCmpErr (idx : nat)                            (* BodyAtomFailed carrying "Variable .. is unbound" *)
| BNegHit (idx : nat) (r : rel) (t : tuple).     (* NegationSucceeded: a matching tuple exists *)

(* one entry per clause of the relation, in `rules_for` order; None = the trace ran through *)
Definition report := list (option blocker).

(* ---------------------------------------------------------------- the algorithm *)

(* `unify_head` (on width-normalised values `!=` and `values_equal` coincide) *)
Definition unify_head (t : tuple) (h : atom) : option subst := match_args [] (aargs h) t.

(* `find_matching_tuples`, in storage order *)
Definition find_matches (d : db) (r : rel) (bs : pattern) : list (tuple * subst) :=
  flat_map (fun t => match match_pat [] bs t with Some nb => [(t, nb)] | None => [] end)
           (rel_tuples d r).

Definition find_matches_opt (d : option db) (r : rel) (bs : pattern) : list (tuple * subst) :=
  match d with Some d' => find_matches d' r bs | None => [] end.

(* the body trace of one clause (after the repair: negation looks at derived data too) *)
Fixpoint trace (base : db) (der : option db) (th : subst) (idx : nat) (body : list literal)
  : option blocker :=
  match body with
  | [] => None
  | LPos a :: rest =>
      let bs := atom_pat th a in
      match find_matches base (arel a) bs with
      | (_, nb) :: _ => trace base der (nb ++ th) (S idx) rest
      | [] =>
          match find_matches_opt der (arel a) bs with
          | (_, nb) :: _ => trace base der (nb ++ th) (S idx) rest
          | [] => Some (BAtom idx (arel a) bs)
          end
      end
  | LNeg a :: rest =>
      let bs := atom_pat th a in
      match find_matches base (arel a) bs with
      | (t, _) :: _ => Some (BNegHit idx (arel a) t)
      | [] =>
          match find_matches_opt der (arel a) bs with
          | (t, _) :: _ => Some (BNegHit idx (arel a) t)
          | [] => trace base der th (S idx) rest
          end
      end
  | LCmp l o r :: rest =>
      match term_val th l, term_val th r with
      | Some x, Some y =>
          if cmp_eval o x y then trace base der th (S idx) rest
          else Some (BCmp idx (Some x) (Some y))
      | _, _ => Some (BCmpErr idx)
      end
  end.

Definition explain_clause (base : db) (der : option db) (t : tuple) (c : clause) : option blocker :=
  match unify_head t (chead c) with
  | None => Some BHead
  | Some th => trace base der th 0 (cbody c)
  end.

Definition explain (P : program) (base : db) (der : option db) (r : rel) (t : tuple) : report :=
  map (explain_clause base der t) (clauses_of P r).

(* ---------------------------------------------------------------- the specification *)

(* bindings forced by the target tuple *)
Definition head_bind (t : tuple) (h : atom) : option subst := match_args [] (aargs h) t.

(* a reported value sits where the clause and the target allow it *)
Definition val_consistent (th0 : subst) (t : term) (v : value) : bool :=
  match t with
  | TConst c => value_eqb c v
  | TVar x => match lookup th0 x with Some y => value_eqb y v | None => true end
  end.
Definition hole_consistent (th0 : subst) (t : term) (y : var) : bool :=
  match t with
  | TConst _ => false
  | TVar x => N.eqb x y && match lookup th0 x with Some _ => false | None => true end
  end.
Fixpoint pat_consistent (th0 : subst) (args : list term) (p : pattern) : bool :=
  match args, p with
  | [], [] => true
  | a :: args', PC v :: p' => val_consistent th0 a v && pat_consistent th0 args' p'
  | a :: args', PV y :: p' => hole_consistent th0 a y && pat_consistent th0 args' p'
  | _, _ => false
  end.

(* the blocker is a true statement about clause c, target t and the model M *)
Definition blocker_holds (M : db) (c : clause) (t : tuple) (b : blocker) : bool :=
  match b with
  | BHead => match head_bind t (chead c) with None => true | Some _ => false end
  | BAtom idx r pat =>
      match head_bind t (chead c), nth_error (cbody c) idx with
      | Some th0, Some (LPos a) =>
          N.eqb (arel a) r && pat_consistent th0 (aargs a) pat &&
          negb (existsb (pat_matches pat) (rel_tuples M r))
      | _, _ => false
      end
  | BCmp idx lv rv =>
      match head_bind t (chead c), nth_error (cbody c) idx with
      | Some th0, Some (LCmp l o r) =>
          match lv, rv with
          | Some x, Some y => val_consistent th0 l x && val_consistent th0 r y && negb (cmp_eval o x y)
          | _, _ => false
          end
      | _, _ => false
      end
  | BCmpErr _ => false           (* "cannot evaluate" is not a reason the tuple is absent *)
  | BNegHit idx r tu =>
      match head_bind t (chead c), nth_error (cbody c) idx with
      | Some th0, Some (LNeg a) =>
          N.eqb (arel a) r && in_rel M r tu && pat_matches (atom_pat th0 a) tu
      | _, _ => false
      end
  end.

(* clause c derives t from the model in one step *)
Definition derives (M : db) (c : clause) (t : tuple) : bool := mem_tuple t (clause_heads M M c).

Fixpoint forallb2 {A B} (f : A -> B -> bool) (a : list A) (b : list B) : bool :=
  match a, b with
  | [], [] => true
  | x :: a', y :: b' => f x y && forallb2 f a' b'
  | _, _ => false
  end.

Definition is_blocked (o : option blocker) : bool := match o with Some _ => true | None => false end.

(* C23 on one answer of `.why_not r(t)`:
   every reported blocker is true; a tuple no clause derives gets a blocker for every
   clause; a derived tuple is never told that every clause is blocked *)
Definition why_not_truthful (P : program) (M : db) (r : rel) (t : tuple) (rep : report) : bool :=
  let cs := clauses_of P r in
  forallb2 (fun c o => match o with Some b => blocker_holds M c t b | None => true end) cs rep &&
  if existsb (fun c => derives M c t) cs
  then negb (forallb is_blocked rep)
  else forallb is_blocked rep.

(* ---- canonical form for comparing the implementation's blockers with the model's *)
Definition norm_blocker (b : blocker) : blocker :=
  match b with
  | BHead => BHead
  | BAtom i r p => BAtom i r (norm_pattern p)
  | BCmp i l r => BCmp i (option_map norm_value l) (option_map norm_value r)
  | BCmpErr i => BCmpErr i
  | BNegHit i r t => BNegHit i r (norm_tuple t)
  end.
Definition blocker_eqb (a b : blocker) : bool :=
  match a, b with
  | BHead, BHead => true
  | BAtom i r p, BAtom j s q => Nat.eqb i j && N.eqb r s && pat_eqb p q
  | BCmp i l r, BCmp j l' r' => Nat.eqb i j && opt_value_eqb l l' && opt_value_eqb r r'
  | BCmpErr i, BCmpErr j => Nat.eqb i j
  | BNegHit i r t, BNegHit j s u => Nat.eqb i j && N.eqb r s && tuple_eqb t u
  | _, _ => false
  end.
Definition oblocker_eqb (a b : option blocker) : bool :=
  match a, b with
  | Some x, Some y => blocker_eqb (norm_blocker x) (norm_blocker y)
  | None, None => true
  | _, _ => false
  end.
Definition report_eqb (a b : report) : bool := list_eqb oblocker_eqb a b.

(* the greedy trace never had a choice: every positive atom it met had at most one match
   in base and derived data together (then the trace is exhaustive) *)
Fixpoint trace_det (base : db) (der : option db) (th : subst) (body : list literal) : bool :=
  match body with
  | [] => true
  | LPos a :: rest =>
      let bs := atom_pat th a in
      let ms := find_matches base (arel a) bs ++ find_matches_opt der (arel a) bs in
      match ms with
      | [] => true
      | [(_, nb)] => trace_det base der (nb ++ th) rest
      | _ => false
      end
  | LNeg a :: rest =>
      let bs := atom_pat th a in
      match find_matches base (arel a) bs ++ find_matches_opt der (arel a) bs with
      | [] => trace_det base der th rest
      | _ => true
      end
  | LCmp l o r :: rest =>
      match term_val th l, term_val th r with
      | Some x, Some y => if cmp_eval o x y then trace_det base der th rest else true
      | _, _ => true
      end
  end.
Definition clause_det (base : db) (der : option db) (t : tuple) (c : clause) : bool :=
  match unify_head t (chead c) with
  | None => true
  | Some th => trace_det base der th (cbody c)
  end.
