(* Model of src/hnsw_index.rs (HnswIndex: the `Index` trait methods, save/load) and of the
   configuration types of src/index_manager.rs (DistanceMetric, HnswConfig).

   What is modelled exactly: the bookkeeping wrapper around the `hnsw_rs` graph —
   `vectors: Vec<(TupleId, Vec<f32>)>` (insertion order, in-place update), `tombstones: HashSet`
   (a duplicate-free list, order irrelevant), `dimension`, `config`, and `inner` = the list of
   (tuple id, vector) pairs the graph was last built from (`index_to_tuple_id` zipped with `_storage`).
   What is NOT modelled: the graph search itself (`ann`, a Section variable in the search model
   below) and the float arithmetic of `normalize_vector` (`normalize`/`tiny_norm`, Section
   variables: every theorem holds for every such function).  Executable definitions only. *)
From Coq Require Export List NArith ZArith Bool Lia String.
Export ListNotations.
Open Scope N_scope.

Inductive metric := Cosine | Euclidean | DotProduct | Manhattan.

Definition metric_eqb (a b : metric) : bool :=
  match a, b with
  | Cosine, Cosine | Euclidean, Euclidean | DotProduct, DotProduct | Manhattan, Manhattan => true
  | _, _ => false
  end.

(* HnswConfig *)
Record config := { c_m : N; c_efc : N; c_efs : N; c_metric : metric }.

Definition config_eqb (a b : config) : bool :=
  N.eqb (c_m a) (c_m b) && N.eqb (c_efc a) (c_efc b) && N.eqb (c_efs a) (c_efs b)
  && metric_eqb (c_metric a) (c_metric b).

(* save: format!("{:?}", metric).to_lowercase();  load: the match on the persisted string *)
Definition metric_name (m : metric) : string :=
  match m with
  | Cosine => "cosine" | Euclidean => "euclidean" | DotProduct => "dotproduct" | Manhattan => "manhattan"
  end%string.

Definition parse_metric (s : string) : option metric :=
  if String.eqb s "euclidean" then Some Euclidean
  else if String.eqb s "cosine" then Some Cosine
  else if String.eqb s "dotproduct" || String.eqb s "dot_product" then Some DotProduct
  else if String.eqb s "manhattan" then Some Manhattan
  else None.

Definition needs_norm (m : metric) : bool :=
  match m with Cosine | DotProduct => true | _ => false end.

Definition memN (x : N) (l : list N) : bool := existsb (N.eqb x) l.

Fixpoint removeN (x : N) (l : list N) : list N :=
  match l with
  | [] => []
  | y :: r => if N.eqb x y then removeN x r else y :: removeN x r
  end.

Section Machine.
  Variable V : Type.                 (* Vec<f32> *)
  Variable vlen : V -> N.            (* Vec::len *)
  Variable normalize : V -> V.       (* HnswIndex::normalize_vector *)
  Variable tiny_norm : V -> bool.    (* `norm <= 1e-10` of insert's zero-norm check *)

  Definition entry : Type := (N * V)%type.

  (* prepare_vector *)
  Definition prepare (c : config) (v : V) : V :=
    if needs_norm (c_metric c) then normalize v else v.

  Record state := {
    cfg : config;
    vectors : list entry;
    tombs : list N;
    dim : N;
    graph : option (list entry)
  }.

  Definition init (c : config) : state :=
    {| cfg := c; vectors := []; tombs := []; dim := 0; graph := None |}.

  Definition is_tomb (ts : list N) (e : entry) : bool := memN (fst e) ts.
  Definition active_of (vs : list entry) (ts : list N) : list entry :=
    filter (fun e => negb (is_tomb ts e)) vs.

  (* rebuild_hnsw: the graph is rebuilt from the non-tombstoned stored vectors *)
  Definition rebuild_hnsw (s : state) : state :=
    match active_of (vectors s) (tombs s) with
    | [] => {| cfg := cfg s; vectors := vectors s; tombs := tombs s; dim := dim s; graph := None |}
    | e0 :: r =>
        {| cfg := cfg s; vectors := vectors s; tombs := tombs s; dim := vlen (snd e0);
           graph := Some (e0 :: r) |}
    end.

  (* "position(..) then replace, else push" *)
  Fixpoint upsert (id : N) (v : V) (l : list entry) : list entry :=
    match l with
    | [] => [(id, v)]
    | (i, w) :: r => if N.eqb i id then (id, v) :: r else (i, w) :: upsert id v r
    end.

  Definition stored (id : N) (l : list entry) : bool := existsb (fun e => N.eqb (fst e) id) l.

  (* the validation and storing part of insert / one round of insert_batch (no graph rebuild).
     The tombstone of a re-inserted identifier is cleared (repaired behaviour). *)
  Definition store_one (s : state) (id : N) (v : V) : option state :=
    if N.eqb (vlen v) 0 then None
    else if needs_norm (c_metric (cfg s)) && tiny_norm v then None
    else if negb (N.eqb (dim s) 0) && negb (N.eqb (dim s) (vlen v)) then None
    else Some {| cfg := cfg s;
                 vectors := upsert id (prepare (cfg s) v) (vectors s);
                 tombs := removeN id (tombs s);
                 dim := if N.eqb (dim s) 0 then vlen v else dim s;
                 graph := graph s |}.

  (* Index::insert; the boolean is `is_ok()` *)
  Definition insert (s : state) (id : N) (v : V) : state * bool :=
    match store_one s id v with
    | None => (s, false)
    | Some s' => (rebuild_hnsw s', true)
    end.

  (* Index::insert_batch: entries before the first invalid one stay stored; the graph is rebuilt
     in every case (repaired behaviour) *)
  Fixpoint store_many (s : state) (es : list entry) : state * bool :=
    match es with
    | [] => (s, true)
    | (id, v) :: r =>
        match store_one s id v with
        | None => (s, false)
        | Some s' => store_many s' r
        end
    end.
  Definition insert_batch (s : state) (es : list entry) : state * bool :=
    let '(s', ok) := store_many s es in (rebuild_hnsw s', ok).

  (* Index::rebuild *)
  Definition rebuild (s : state) (vs : list entry) : state :=
    match vs with
    | [] => {| cfg := cfg s; vectors := []; tombs := []; dim := 0; graph := None |}
    | e0 :: _ =>
        rebuild_hnsw {| cfg := cfg s;
                        vectors := map (fun e => (fst e, prepare (cfg s) (snd e))) vs;
                        tombs := []; dim := vlen (snd e0); graph := None |}
    end.

  (* tombstone_ratio() > 0.3, with ratio = tombstones/vectors in f64 (0 when nothing is stored);
     for counts below 2^50 the f64 comparison agrees with the exact one *)
  Definition over_threshold (nt nv : N) : bool := negb (N.eqb nv 0) && (3 * nv <? 10 * nt).

  (* Index::delete: identifiers that are not stored are ignored (repaired behaviour) *)
  Definition delete (s : state) (id : N) : state :=
    if negb (stored id (vectors s)) then s else
    let ts := if memN id (tombs s) then tombs s else id :: tombs s in
    let s1 := {| cfg := cfg s; vectors := vectors s; tombs := ts; dim := dim s; graph := graph s |} in
    if over_threshold (N.of_nat (List.length ts)) (N.of_nat (List.length (vectors s)))
    then rebuild s1 (active_of (vectors s) ts)
    else s1.

  (* PersistedHnswIndex (the typed content of index.json) *)
  Record persisted := {
    p_m : N; p_efc : N; p_efs : N; p_metric : string;
    p_dim : N; p_vectors : list entry; p_tombs : list N
  }.

  Definition save (s : state) : persisted :=
    {| p_m := c_m (cfg s); p_efc := c_efc (cfg s); p_efs := c_efs (cfg s);
       p_metric := metric_name (c_metric (cfg s));
       p_dim := dim s; p_vectors := vectors s; p_tombs := tombs s |}.

  Definition load (p : persisted) : option state :=
    match parse_metric (p_metric p) with
    | None => None
    | Some m =>
        Some (rebuild_hnsw {| cfg := {| c_m := p_m p; c_efc := p_efc p; c_efs := p_efs p; c_metric := m |};
                              vectors := p_vectors p; tombs := p_tombs p; dim := p_dim p; graph := None |})
    end.

  (* ---- histories *)
  Inductive op :=
  | OIns (id : N) (v : V)
  | OBatch (es : list entry)
  | ODel (id : N)
  | ORebuild (vs : list entry)
  | OSaveLoad.

  Definition step (s : state) (o : op) : state :=
    match o with
    | OIns id v => fst (insert s id v)
    | OBatch es => fst (insert_batch s es)
    | ODel id => delete s id
    | ORebuild vs => rebuild s vs
    | OSaveLoad => match load (save s) with Some s' => s' | None => s end
    end.

  Definition run (s : state) (h : list op) : state := fold_left step h s.

  (* ---- observations (Index::len / tombstone_count / dimension) *)
  Definition len (s : state) : N := N.of_nat (List.length (vectors s)).
  Definition tombstone_count (s : state) : N := N.of_nat (List.length (tombs s)).

  Fixpoint lookup (id : N) (l : list entry) : option V :=
    match l with
    | [] => None
    | (i, v) :: r => if N.eqb i id then Some v else lookup id r
    end.

  (* the live identifiers with their vectors: stored and not tombstoned *)
  Definition live_entries (s : state) : list entry := active_of (vectors s) (tombs s).
  Definition live_lookup (s : state) (id : N) : option V :=
    if memN id (tombs s) then None else lookup id (vectors s).

  (* what a search can reach: the nodes of the graph that are not tombstoned *)
  Definition reachable (s : state) : list entry :=
    match graph s with None => [] | Some g => active_of g (tombs s) end.

  (* ================================================================ the specification (C25)
     An abstract index: a finite map of live identifiers, the set of identifiers deleted since the
     last compaction, two counters, the dimension and the configuration. *)
  Record astate := {
    a_cfg : config;
    a_live : N -> option V;
    a_dead : N -> bool;
    a_nlive : N;
    a_ndead : N;
    a_dim : N
  }.

  Definition ainit (c : config) : astate :=
    {| a_cfg := c; a_live := fun _ => None; a_dead := fun _ => false; a_nlive := 0; a_ndead := 0; a_dim := 0 |}.

  Definition upd {A} (f : N -> A) (k : N) (x : A) : N -> A := fun j => if N.eqb j k then x else f j.

  Definition valid_vec (a : astate) (v : V) : bool :=
    negb (N.eqb (vlen v) 0)
    && negb (needs_norm (c_metric (a_cfg a)) && tiny_norm v)
    && (N.eqb (a_dim a) 0 || N.eqb (a_dim a) (vlen v)).

  Definition a_put (a : astate) (id : N) (v : V) : astate :=
    {| a_cfg := a_cfg a;
       a_live := upd (a_live a) id (Some (prepare (a_cfg a) v));
       a_dead := upd (a_dead a) id false;
       a_nlive := match a_live a id with Some _ => a_nlive a | None => a_nlive a + 1 end;
       a_ndead := if a_dead a id then a_ndead a - 1 else a_ndead a;
       a_dim := if N.eqb (a_dim a) 0 then vlen v else a_dim a |}.

  Definition a_insert (a : astate) (id : N) (v : V) : astate * bool :=
    if valid_vec a v then (a_put a id v, true) else (a, false).

  Fixpoint a_insert_batch (a : astate) (es : list entry) : astate * bool :=
    match es with
    | [] => (a, true)
    | (id, v) :: r => if valid_vec a v then a_insert_batch (a_put a id v) r else (a, false)
    end.

  (* compaction: tombstones disappear, the live vectors are prepared again *)
  Definition a_compact (a : astate) : astate :=
    {| a_cfg := a_cfg a;
       a_live := fun j => option_map (prepare (a_cfg a)) (a_live a j);
       a_dead := fun _ => false;
       a_nlive := a_nlive a; a_ndead := 0;
       a_dim := if N.eqb (a_nlive a) 0 then 0 else a_dim a |}.

  Definition a_delete (a : astate) (id : N) : astate :=
    match a_live a id with
    | None => a       (* unknown, or already deleted *)
    | Some _ =>
        let a1 := {| a_cfg := a_cfg a; a_live := upd (a_live a) id None; a_dead := upd (a_dead a) id true;
                     a_nlive := a_nlive a - 1; a_ndead := a_ndead a + 1; a_dim := a_dim a |} in
        if over_threshold (a_ndead a1) (a_nlive a1 + a_ndead a1) then a_compact a1 else a1
    end.

  Definition a_rebuild (a : astate) (vs : list entry) : astate :=
    {| a_cfg := a_cfg a;
       a_live := fun j => option_map (prepare (a_cfg a)) (lookup j vs);
       a_dead := fun _ => false;
       a_nlive := N.of_nat (List.length vs); a_ndead := 0;
       a_dim := match vs with [] => 0 | e0 :: _ => vlen (snd e0) end |}.

  Definition astep (a : astate) (o : op) : astate :=
    match o with
    | OIns id v => fst (a_insert a id v)
    | OBatch es => fst (a_insert_batch a es)
    | ODel id => a_delete a id
    | ORebuild vs => a_rebuild a vs
    | OSaveLoad => a
    end.

  Definition spec (c : config) (h : list op) : astate := fold_left astep h (ainit c).

  (* well-formed histories: a rebuild is given distinct identifiers and vectors of one non-zero
     dimension (the caller's obligation: `vectors` are "the current valid (id, vector) pairs") *)
  Fixpoint nodupN (l : list N) : bool :=
    match l with [] => true | x :: r => negb (memN x r) && nodupN r end.

  Definition uniform_dim (vs : list entry) : bool :=
    match vs with
    | [] => true
    | e0 :: _ => negb (N.eqb (vlen (snd e0)) 0) && forallb (fun e => N.eqb (vlen (snd e)) (vlen (snd e0))) vs
    end.

  Definition wf_op (o : op) : bool :=
    match o with
    | ORebuild vs => nodupN (map fst vs) && uniform_dim vs
    | _ => true
    end.
End Machine.

Arguments cfg {V}. Arguments vectors {V}. Arguments tombs {V}. Arguments dim {V}. Arguments graph {V}.
Arguments a_cfg {V}. Arguments a_live {V}. Arguments a_dead {V}. Arguments a_nlive {V}.
Arguments a_ndead {V}. Arguments a_dim {V}.
Arguments OIns {V}. Arguments OBatch {V}. Arguments ODel {V}. Arguments ORebuild {V}. Arguments OSaveLoad {V}.
Arguments p_m {V}. Arguments p_efc {V}. Arguments p_efs {V}. Arguments p_metric {V}.
Arguments p_dim {V}. Arguments p_vectors {V}. Arguments p_tombs {V}.

(* ================================================================ Index::search (C24)
   The graph search of hnsw_rs is NOT modelled: `ann vs q k ef` stands for
   `Hnsw::search(q, k, ef)` on a graph built from the vectors `vs` (internal index = position),
   returning (internal index, raw L2 distance) pairs.  Its contract is stated in Proofs/HnswSearch.v;
   it is only consulted when the graph has more nodes than the search breadth.
   Everything else is modelled exactly: query preparation, the request widening (4k for Manhattan
   but at least the search breadth; plus the number of tombstones), the exact scan of a graph that
   fits in the search breadth, the mapping through index_to_tuple_id, the tombstone filter, the
   distance transform / Manhattan re-ranking from the stored vectors, the stable sort and the
   truncation. *)
Section Sort.
  Variable A : Type.
  Variable le : A -> A -> bool.
  (* stable insertion sort: what `sort_by` computes for a total preorder *)
  Fixpoint ins_by (x : A) (l : list A) : list A :=
    match l with
    | [] => [x]
    | y :: r => if le x y then x :: l else y :: ins_by x r
    end.
  Definition sort_by (l : list A) : list A := fold_right ins_by [] l.
End Sort.
Arguments ins_by {A}. Arguments sort_by {A}.

Section Search.
  Variable V : Type.
  Variable normalize : V -> V.
  Variable R : Type.                                  (* f32 distance of the graph (DistL2) *)
  Variable D : Type.                                  (* f64 distance returned to the caller *)
  Variable rle : R -> R -> bool.                      (* a <= b on f32 distances *)
  Variable dle : D -> D -> bool.                      (* a <= b on f64 distances *)
  Variable l2 : V -> V -> R.                          (* DistL2.eval *)
  Variable ann : list V -> V -> N -> N -> list (nat * R).
  Variable transform : metric -> R -> D.              (* transform_distance *)
  Variable l1 : V -> V -> D.                          (* manhattan_distance *)

  Definition is_manhattan (m : metric) : bool := match m with Manhattan => true | _ => false end.

  Definition search_k (m : metric) (k efs nt : N) : N :=
    (if is_manhattan m then N.max (4 * k) efs else k) + nt.

  (* the exact scan of the graph's vectors *)
  Definition scan (vs : list V) (pq : V) (sk : N) : list (nat * R) :=
    firstn (N.to_nat sk)
           (sort_by (fun a b => rle (snd a) (snd b))
                    (combine (seq 0 (List.length vs)) (map (l2 pq) vs))).

  Definition candidates (vs : list V) (pq : V) (sk breadth : N) : list (nat * R) :=
    if N.of_nat (List.length vs) <=? breadth then scan vs pq sk else ann vs pq sk breadth.

  (* one candidate -> zero or one result *)
  Definition map_neighbour (s : state V) (pq : V) (g : list (N * V)) (nb : nat * R) : list (N * D) :=
    match nth_error g (fst nb) with
    | None => []
    | Some (id, _) =>
        if memN id (tombs s) then []
        else if is_manhattan (c_metric (cfg s)) then
          match lookup V id (vectors s) with
          | Some v => [(id, l1 pq v)]
          | None => []
          end
        else [(id, transform (c_metric (cfg s)) (snd nb))]
    end.

  Definition search (s : state V) (q : V) (k : N) (ef : option N) : list (N * D) :=
    match graph s with
    | None => []
    | Some g =>
        let efs := match ef with Some e => e | None => c_efs (cfg s) end in
        let pq := prepare V normalize (cfg s) q in
        let nt := N.of_nat (List.length (tombs s)) in
        let raw := candidates (map snd g) pq (search_k (c_metric (cfg s)) k efs nt) (efs + nt) in
        firstn (N.to_nat k)
               (sort_by (fun a b => dle (snd a) (snd b)) (flat_map (map_neighbour s pq g) raw))
    end.
End Search.
