(* Model/Catalog.v — rule and schema catalogs of a knowledge graph and their persistence (C16).

   Stands for:  src/rule_catalog.rs  RuleCatalog::{register_rule, drop, clear_rules, replace_rule,
   remove_rule_clause, drop_by_prefix, save, load/new};  src/schema/catalog.rs  SchemaCatalog::{register,
   register_or_update, remove, save, load};  src/storage/metadata.rs write_file_atomic;
   src/storage_engine/mod.rs KnowledgeGraph::{register_rule, drop_rule, drop_relation, clear_rule,
   replace_rule, remove_rule_clause, drop_rules_by_prefix, register_schema, register_or_update_schema,
   remove_schema, save_schema_catalog} and load_knowledge_graph_from_persist (catalog part).

   A catalog is a finite map name -> list of entry ids, kept sorted by name.  Rule catalog: name ->
   clause ids (the harness' clause menu; clause 3 has arity 1, all others arity 2).  Schema catalog:
   name -> [schema id] (schema 3 is an invalid schema, rejected by validation).
   The catalog FILE is a token list  TOpen :: entries ++ [TClose]  — the only fact about JSON the
   property needs is that no strict prefix of a serialised catalog parses (assumption, validated on
   every torn file by the correspondence).  Executable definitions only. *)
From Coq Require Import List NArith Bool Arith.
From IL Require Export Model.FS.
Import ListNotations.
Open Scope N_scope.

(* ------------------------------------------------------------------ catalogs as sorted maps *)
Definition cat := list (N * list N).

Fixpoint cat_get (c : cat) (n : N) : option (list N) :=
  match c with
  | [] => None
  | (k, v) :: r => if N.eqb k n then Some v else cat_get r n
  end.
Fixpoint cat_set (c : cat) (n : N) (v : list N) : cat :=
  match c with
  | [] => [(n, v)]
  | (k, w) :: r => if N.eqb k n then (n, v) :: r
                   else if N.ltb n k then (n, v) :: (k, w) :: r
                   else (k, w) :: cat_set r n v
  end.
Fixpoint cat_del (c : cat) (n : N) : cat :=
  match c with
  | [] => []
  | (k, w) :: r => if N.eqb k n then r else (k, w) :: cat_del r n
  end.

Definition list_N_eqb (a b : list N) : bool :=
  (fix go a b := match a, b with
                 | [], [] => true
                 | x :: a', y :: b' => N.eqb x y && go a' b'
                 | _, _ => false
                 end) a b.
Definition cat_eqb (a b : cat) : bool :=
  (fix go a b := match a, b with
                 | [], [] => true
                 | (k, v) :: a', (k', v') :: b' => N.eqb k k' && list_N_eqb v v' && go a' b'
                 | _, _ => false
                 end) a b.

(* ------------------------------------------------------------------ the catalog file *)
Inductive tok := TOpen | TEnt (n : N) (v : list N) | TClose.

Definition ser (c : cat) : list tok := TOpen :: map (fun e => TEnt (fst e) (snd e)) c ++ [TClose].

(* entries up to the closing token; None if the stream ends without TClose or has junk *)
Fixpoint parse_body (l : list tok) : option cat :=
  match l with
  | [TClose] => Some []
  | TEnt n v :: r => match parse_body r with Some c => Some ((n, v) :: c) | None => None end
  | _ => None
  end.
Definition parse (l : list tok) : option cat :=
  match l with TOpen :: r => parse_body r | _ => None end.

(* ------------------------------------------------------------------ in-memory state of one KG *)
Record kgmem := mkKg { rules : cat; schemas : cat }.
Definition kg_empty : kgmem := mkKg [] [].
Definition kgmem_eqb (a b : kgmem) : bool := cat_eqb (rules a) (rules b) && cat_eqb (schemas a) (schemas b).

Inductive cop :=
| CReg (kg name clause : N) | CDrop (kg name : N) | CClear (kg name : N)
| CRmClause (kg name : N) (idx : nat) | CReplace (kg name : N) (idx : nat) (clause : N)
| CDropPrefix (kg prefix : N)
| CSReg (kg name sv : N) | CSUpd (kg name sv : N) | CSRem (kg name : N)
| CDropRel (kg name : N)
| CRestart.

(* the harness' menus: clause 3 is unary, the others binary; schema 3 is invalid;
   names 0..3 = "ra","rab","rb","q"; prefixes 0..3 = "ra","rb","z","r" *)
Definition clause_arity (v : N) : N := if N.eqb v 3 then 1 else 2.
Definition schema_valid (v : N) : bool := negb (N.eqb v 3).
Definition prefix_matches (p name : N) : bool :=
  match p, name with
  | 0, 0 | 0, 1 => true
  | 1, 2 => true
  | 3, 0 | 3, 1 | 3, 2 => true
  | _, _ => false
  end.

Fixpoint remove_nth {X} (i : nat) (l : list X) : list X :=
  match i, l with
  | _, [] => []
  | O, _ :: r => r
  | S j, x :: r => x :: remove_nth j r
  end.
Fixpoint replace_nth {X} (i : nat) (y : X) (l : list X) : list X :=
  match i, l with
  | _, [] => []
  | O, _ :: r => y :: r
  | S j, x :: r => x :: replace_nth j y r
  end.

Inductive which := WRules | WSchemas.
Definition which_eqb (a b : which) : bool :=
  match a, b with WRules, WRules | WSchemas, WSchemas => true | _, _ => false end.

(* Result of an operation on one KG: None = the operation returns an error (nothing changes, nothing
   is written); Some (m', saves) = success, new in-memory state, catalogs saved in this order. *)
Definition kg_op (m : kgmem) (o : cop) : option (kgmem * list which) :=
  match o with
  | CReg _ n v =>
      match cat_get (rules m) n with
      | Some (c0 :: cl) =>
          if N.eqb (clause_arity c0) (clause_arity v)
          then Some (mkKg (cat_set (rules m) n (if existsb (N.eqb v) (c0 :: cl) then c0 :: cl else (c0 :: cl) ++ [v]))
                          (schemas m), [WRules])
          else None
      | Some [] => Some (mkKg (cat_set (rules m) n [v]) (schemas m), [WRules])
      | None => Some (mkKg (cat_set (rules m) n [v]) (schemas m), [WRules])
      end
  | CDrop _ n =>
      match cat_get (rules m) n with
      | Some _ => Some (mkKg (cat_del (rules m) n) (schemas m), [WRules])
      | None => None
      end
  | CClear _ n =>
      match cat_get (rules m) n with
      | Some _ => Some (mkKg (cat_set (rules m) n []) (schemas m), [WRules])
      | None => None
      end
  | CRmClause _ n i =>
      match cat_get (rules m) n with
      | Some cl =>
          if Nat.ltb i (length cl)
          then let cl' := remove_nth i cl in
               Some (mkKg (match cl' with [] => cat_del (rules m) n | _ => cat_set (rules m) n cl' end) (schemas m), [WRules])
          else None
      | None => None
      end
  | CReplace _ n i v =>
      match cat_get (rules m) n with
      | Some cl =>
          if Nat.ltb i (length cl)
          then Some (mkKg (cat_set (rules m) n (replace_nth i v cl)) (schemas m), [WRules])
          else None
      | None => None
      end
  | CDropPrefix _ p =>
      let hit := filter (fun e => prefix_matches p (fst e)) (rules m) in
      match hit with
      | [] => Some (m, [])
      | _ => Some (mkKg (filter (fun e => negb (prefix_matches p (fst e))) (rules m)) (schemas m), [WRules])
      end
  | CSReg _ n v =>
      if schema_valid v
      then match cat_get (schemas m) n with
           | Some _ => None
           | None => Some (mkKg (rules m) (cat_set (schemas m) n [v]), [WSchemas])
           end
      else None
  | CSUpd _ n v =>
      if schema_valid v then Some (mkKg (rules m) (cat_set (schemas m) n [v]), [WSchemas]) else None
  | CSRem _ n =>
      match cat_get (schemas m) n with
      | Some _ => Some (mkKg (rules m) (cat_del (schemas m) n), [WSchemas])
      | None => Some (m, [])
      end
  | CDropRel _ n =>
      match cat_get (rules m) n, cat_get (schemas m) n with
      | None, None => None
      | r, s => Some (mkKg (match r with Some _ => cat_del (rules m) n | None => rules m end)
                           (match s with Some _ => cat_del (schemas m) n | None => schemas m end),
                      (match s with Some _ => [WSchemas] | None => [] end) ++
                      (match r with Some _ => [WRules] | None => [] end))
      end
  | CRestart => Some (m, [])
  end.

Definition op_kg (o : cop) : option N :=
  match o with
  | CReg k _ _ | CDrop k _ | CClear k _ | CRmClause k _ _ | CReplace k _ _ _ | CDropPrefix k _
  | CSReg k _ _ | CSUpd k _ _ | CSRem k _ | CDropRel k _ => Some k
  | CRestart => None
  end.

(* ------------------------------------------------------------------ files *)
(* directory ids: 2*kg = <kg>/rules/ , 2*kg+1 = <kg>/ ; names: 0 = the catalog file, 1 = its .tmp *)
Definition cat_dir (k : N) (w : which) : N := match w with WRules => 2 * k | WSchemas => 2 * k + 1 end.
Definition f_cat : N := 0.
Definition f_tmp : N := 1.

(* how a catalog is written: [true] = write_file_atomic (the repaired tree), [false] = the in-place
   fs::write of the pinned tree (kept for the refutation lemmas) *)
Definition save_steps (atomic : bool) (d : N) (c : cat) : list (mstep tok) :=
  if atomic
  then [MCreate d f_tmp; MWrite d f_tmp (ser c); MFsync d f_tmp; MRename d f_tmp f_cat; MFsyncDir d]
  else [MCreate d f_cat; MWrite d f_cat (ser c)].

Definition cat_of (m : kgmem) (w : which) : cat := match w with WRules => rules m | WSchemas => schemas m end.

Definition saves_steps (atomic : bool) (k : N) (m' : kgmem) (ws : list which) : list (mstep tok) :=
  flat_map (fun w => save_steps atomic (cat_dir k w) (cat_of m' w)) ws.

(* ------------------------------------------------------------------ loading *)
(* RuleCatalog::new: a missing file is the empty catalog, an unparsable file is an error *)
Definition load_rules (x : dir tok) : option cat :=
  match d_read x f_cat with
  | None => Some []
  | Some l => parse l
  end.
(* SchemaCatalog::load + the unwrap_or_else in load_knowledge_graph_from_persist: an unparsable file
   silently becomes the empty catalog *)
Definition load_schemas (x : dir tok) : cat :=
  match d_read x f_cat with
  | None => []
  | Some l => match parse l with Some c => c | None => [] end
  end.
(* every catalog file that is present parses (nothing was "silently emptied") *)
Definition loads_clean (x : dir tok) : bool :=
  match d_read x f_cat with
  | None => true
  | Some l => match parse l with Some _ => true | None => false end
  end.

Fixpoint recover_from (f : fsys tok) (k : N) (n : nat) : option (list kgmem) :=
  match n with
  | O => Some []
  | S n' =>
      match load_rules (f (cat_dir k WRules)), recover_from f (k + 1) n' with
      | Some r, Some rest => Some (mkKg r (load_schemas (f (cat_dir k WSchemas))) :: rest)
      | _, _ => None
      end
  end.
(* StorageEngine::new on a data directory with [nkg] knowledge graphs: fails as a whole if any rule
   catalog fails to load *)
Definition recover (nkg : nat) (f : fsys tok) : option (list kgmem) := recover_from f 0 nkg.

Fixpoint all_clean (f : fsys tok) (k : N) (n : nat) : bool :=
  match n with
  | O => true
  | S n' => loads_clean (f (cat_dir k WRules)) && loads_clean (f (cat_dir k WSchemas)) && all_clean f (k + 1) n'
  end.

(* ------------------------------------------------------------------ histories and crash points *)
Record cstate := mkSt { mem : list kgmem; fsy : fsys tok }.

Fixpoint upd_nth {X} (i : nat) (y : X) (l : list X) : list X :=
  match i, l with
  | _, [] => []
  | O, _ :: r => y :: r
  | S j, x :: r => x :: upd_nth j y r
  end.

(* one operation: (acknowledged as ok?, new memory, micro-steps) *)
Definition op_sem (atomic : bool) (st : cstate) (o : cop) : bool * list kgmem * list (mstep tok) :=
  match op_kg o with
  | None => (* restart: memory is reloaded from what a running process reads *)
      match recover (length (mem st)) (fsy st) with
      | Some m => (true, m, [])
      | None => (false, mem st, [])
      end
  | Some k =>
      match nth_error (mem st) (N.to_nat k) with
      | None => (false, mem st, [])
      | Some m =>
          match kg_op m o with
          | None => (false, mem st, [])
          | Some (m', ws) => (true, upd_nth (N.to_nat k) m' (mem st), saves_steps atomic k m' ws)
          end
      end
  end.

(* a crash point: the file system, the catalogs before / after the operation in flight, and whether
   that operation has completed (been acknowledged) *)
Record cpoint := mkPt { pfs : fsys tok; pold : list kgmem; pnew : list kgmem; pdone : bool }.

Definition op_points (st : cstate) (m' : list kgmem) (ms : list (mstep tok)) : list cpoint :=
  map (fun j => mkPt (exec (firstn j ms) (fsy st)) (mem st) m' (Nat.eqb j (length ms))) (seq 0 (S (length ms))).

Fixpoint points (atomic : bool) (st : cstate) (h : list cop) : list cpoint :=
  match h with
  | [] => [mkPt (fsy st) (mem st) (mem st) true]
  | o :: h' =>
      let '(_, m', ms) := op_sem atomic st o in
      op_points st m' ms ++ points atomic (mkSt m' (exec ms (fsy st))) h'
  end.

(* run a history without crash: per operation (ok, memory after); and the event trace *)
Fixpoint run_hist (atomic : bool) (st : cstate) (h : list cop) : list (bool * list kgmem) :=
  match h with
  | [] => []
  | o :: h' =>
      let '(ok, m', ms) := op_sem atomic st o in
      (ok, m') :: run_hist atomic (mkSt m' (exec ms (fsy st))) h'
  end.
Fixpoint trace_hist (atomic : bool) (st : cstate) (h : list cop) : list aev :=
  match h with
  | [] => []
  | o :: h' =>
      let '(_, m', ms) := op_sem atomic st o in
      map ev_of ms ++ EAck :: trace_hist atomic (mkSt m' (exec ms (fsy st))) h'
  end.

Definition init_state (nkg : nat) : cstate := mkSt (repeat kg_empty nkg) empty_fs.

(* ------------------------------------------------------------------ the specification (oracle) *)
(* what a recovery may return at a crash point: it succeeds, every catalog is the old or the new one,
   and a completed operation is reflected *)
Definition cat_old_or_new (r o n : cat) : bool := cat_eqb r o || cat_eqb r n.
Fixpoint allowed_mems (r o n : list kgmem) : bool :=
  match r, o, n with
  | [], [], [] => true
  | x :: r', a :: o', b :: n' =>
      cat_old_or_new (rules x) (rules a) (rules b) && cat_old_or_new (schemas x) (schemas a) (schemas b)
      && allowed_mems r' o' n'
  | _, _, _ => false
  end.
Definition mems_eqb (a b : list kgmem) : bool :=
  (fix go a b := match a, b with
                 | [], [] => true
                 | x :: a', y :: b' => kgmem_eqb x y && go a' b'
                 | _, _ => false
                 end) a b.
Definition allowed (p : cpoint) (r : option (list kgmem)) : bool :=
  match r with
  | None => false
  | Some m => allowed_mems m (pold p) (pnew p) && (if pdone p then mems_eqb m (pnew p) else true)
  end.
