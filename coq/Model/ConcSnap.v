(* C20 — model of one knowledge graph's write path and snapshot read path
   (src/storage_engine/mod.rs: StorageEngine::insert_tuples_into, delete_tuples_from,
   register_rule_in, get_snapshot_for; KnowledgeGraph::insert_in_memory, delete_in_memory,
   register_rule, publish_snapshot, snapshot).
   Facts are pairs (relation id, tuple id): the harness interns relation names and tuples.
   Atomic sections (one `step` each), with the hook label the thread parks at afterwards:
     insert: [view check under KG read lock]            -> se:insert:after_view_check
             [dropping guard, time, WAL, buffer]         -> se:insert:before_kg_lock
             [KG write lock: set-semantics apply, publish, return]  -> next op
     delete: [dropping guard, time, WAL, buffer]         -> se:delete:before_kg_lock
             [KG write lock: apply, publish, return]     -> next op
     rule catalog operations (register a clause, remove a clause by index, drop a rule, clear a
     rule, replace a clause): [KG write lock: catalog change + save, publish, return] -> next op;
     a rejected catalog operation (unknown rule, index out of bounds) returns before publishing
     read  : [load the ArcSwap snapshot pointer]         -> read:loaded
             [read relations/rules out of the held snapshot] -> next op
   The persist section has no effect on the state C20 talks about.  Executable definitions only. *)
From IL Require Export Model.Conc.
Open Scope N_scope.

Definition fact := (N * N)%type.
Definition fact_eqb (a b : fact) : bool := N.eqb (fst a) (fst b) && N.eqb (snd a) (snd b).
Definition memf (f : fact) (l : list fact) : bool := existsb (fact_eqb f) l.

(* the rule catalog: rule (head relation) -> its clauses; a clause is a number (the harness
   interns clause bodies); a rule can be registered with no clause left (after `clear`) *)
Definition catalog := list (N * list N).
Record view := mkView { vfacts : list fact; vrules : catalog }.

Inductive sop :=
| SIns (id rel : N) (ts : list N)
| SDel (id rel : N) (ts : list N)
| SRule (id rel c : N)                      (* register clause c of rule rel *)
| SRemClause (id rel : N) (idx : nat)       (* .rule remove rel idx *)
| SDropRule (id rel : N)
| SClearRule (id rel : N)
| SReplace (id rel : N) (idx : nat) (c : N)
| SRead (id : N).

Definition sop_id (o : sop) : N :=
  match o with
  | SIns i _ _ | SDel i _ _ | SRule i _ _ | SRemClause i _ _ | SDropRule i _ | SClearRule i _
  | SReplace i _ _ _ | SRead i => i
  end.

Inductive sres :=
| RIns (new dup : N) | RDel (n : N) | RRule | RRem (deleted : bool) | RErrRule | RErrView
| RView (v : view).

Fixpoint cat_get (r : N) (cat : catalog) : option (list N) :=
  match cat with
  | [] => None
  | (r', cs) :: rest => if N.eqb r r' then Some cs else cat_get r rest
  end.
Fixpoint cat_set (r : N) (cs : list N) (cat : catalog) : catalog :=
  match cat with
  | [] => [(r, cs)]
  | (r', cs') :: rest => if N.eqb r r' then (r, cs) :: rest else (r', cs') :: cat_set r cs rest
  end.
Definition cat_del (r : N) (cat : catalog) : catalog := filter (fun e => negb (N.eqb (fst e) r)) cat.
Fixpoint remove_nth {A} (n : nat) (l : list A) : list A :=
  match l, n with
  | [], _ => []
  | _ :: r, O => r
  | x :: r, S k => x :: remove_nth k r
  end.
Fixpoint set_nth {A} (n : nat) (y : A) (l : list A) : list A :=
  match l, n with
  | [], _ => []
  | _ :: r, O => y :: r
  | x :: r, S k => x :: set_nth k y r
  end.

(* RuleCatalog::register_rule / remove_rule_clause / drop / clear_rules / replace_rule:
   the new catalog and the value returned, or None when the operation is rejected *)
Definition rule_step (cat : catalog) (o : sop) : option (catalog * sres) :=
  match o with
  | SRule _ r c =>
      match cat_get r cat with
      | Some cs => Some (cat_set r (if existsb (N.eqb c) cs then cs else cs ++ [c]) cat, RRule)
      | None => Some (cat ++ [(r, [c])], RRule)
      end
  | SRemClause _ r i =>
      match cat_get r cat with
      | Some cs =>
          if Nat.ltb i (length cs)
          then match remove_nth i cs with
               | [] => Some (cat_del r cat, RRem true)
               | cs' => Some (cat_set r cs' cat, RRem false)
               end
          else None
      | None => None
      end
  | SDropRule _ r => match cat_get r cat with Some _ => Some (cat_del r cat, RRule) | None => None end
  | SClearRule _ r => match cat_get r cat with Some _ => Some (cat_set r [] cat, RRule) | None => None end
  | SReplace _ r i c =>
      match cat_get r cat with
      | Some cs => if Nat.ltb i (length cs) then Some (cat_set r (set_nth i c cs) cat, RRule) else None
      | None => None
      end
  | _ => None
  end.

(* insert_in_memory: push the tuples that are not yet present, in batch order *)
Definition ins_all (rel : N) (ts : list N) (fs : list fact) : list fact :=
  fold_left (fun acc t => if memf (rel, t) acc then acc else acc ++ [(rel, t)]) ts fs.
(* delete_in_memory: retain the tuples outside the remove set *)
Definition del_all (rel : N) (ts : list N) (fs : list fact) : list fact :=
  filter (fun f => negb (N.eqb (fst f) rel && existsb (N.eqb (snd f)) ts)) fs.

(* SPECIFICATION: the effect of one whole operation, set semantics *)
Definition apply_op (v : view) (o : sop) : view :=
  match o with
  | SIns _ r ts => mkView (ins_all r ts (vfacts v)) (vrules v)
  | SDel _ r ts => mkView (del_all r ts (vfacts v)) (vrules v)
  | SRead _ => v
  | _ => match rule_step (vrules v) o with
         | Some (cat', _) => mkView (vfacts v) cat'
         | None => v
         end
  end.
Definition state_after (v0 : view) (ops : list sop) : view := fold_left apply_op ops v0.

Record obsv := mkObs { o_tid : nat; o_id : N; o_view : view; o_k : nat; o_own : list N }.

(* global: the engine's facts+rules, the published snapshot, the apply log (oldest first),
   the reads completed so far (ghost: with the log length at load time and the reader's acks) *)
Record g20 := mkG { live : view; snap : view; alog : list sop; gobs : list obsv }.
(* local: position inside the current op, remaining ops, held snapshot (+ ghost log length),
   ids of own acknowledged writes, results returned so far *)
Record l20 := mkL { pc : nat; todo : list sop; held : view; held_k : nat;
                    acked : list N; res : list (N * sres) }.

Definition init_l (p : list sop) : l20 := mkL 0 p (mkView [] []) 0 [] [].
Definition init_g (v0 : view) : g20 := mkG v0 v0 [] [].

Definition finish (l : l20) (rest : list sop) (id : N) (r : sres) (ack : bool) : l20 :=
  mkL 0 rest (held l) (held_k l) (if ack then acked l ++ [id] else acked l) (res l ++ [(id, r)]).
Definition advance (l : l20) : l20 :=
  mkL (S (pc l)) (todo l) (held l) (held_k l) (acked l) (res l).

(* the KG write section of a data operation: apply to the engine, publish if anything changed *)
Definition write_section (g : g20) (o : sop) (changed : bool) : g20 :=
  let v' := apply_op (live g) o in
  mkG v' (if changed then v' else snap g) (alog g ++ [o]) (gobs g).

Definition step20 (t : nat) (l : l20) (g : g20) : l20 * g20 :=
  match todo l with
  | [] => (l, g)
  | o :: rest =>
      match o, pc l with
      | SIns id r ts, O =>
          if existsb (N.eqb r) (map fst (vrules (live g))) then (finish l rest id RErrView false, g)
          else (advance l, g)
      | SIns id r ts, S O => (advance l, g)
      | SIns id r ts, _ =>
          let before := length (vfacts (live g)) in
          let after := length (ins_all r ts (vfacts (live g))) in
          let new := N.of_nat (after - before) in
          (finish l rest id (RIns new (N.of_nat (length ts) - new)) true,
           write_section g o (negb (N.eqb new 0)))
      | SDel id r ts, O => (advance l, g)
      | SDel id r ts, _ =>
          let before := length (vfacts (live g)) in
          let after := length (del_all r ts (vfacts (live g))) in
          let n := N.of_nat (before - after) in
          (finish l rest id (RDel n) true, write_section g o (negb (N.eqb n 0)))
      | SRead id, O =>
          (mkL 1 (todo l) (snap g) (length (alog g)) (acked l) (res l), g)
      | SRead id, _ =>
          (finish l rest id (RView (held l)) false,
           mkG (live g) (snap g) (alog g)
               (gobs g ++ [mkObs t id (held l) (held_k l) (acked l)]))
      | _, _ =>
          (* a catalog operation: one KG write section; rejected operations return before the publish *)
          match rule_step (vrules (live g)) o with
          | Some (_, r) => (finish l rest (sop_id o) r true, write_section g o true)
          | None => (finish l rest (sop_id o) RErrRule false, g)
          end
      end
  end.

(* label code of the scheduling point a thread is parked at *)
Definition label20 (l : l20) : N :=
  match todo l with
  | [] => 9                                   (* done *)
  | o :: _ =>
      match o, pc l with
      | _, O => 0                             (* op boundary *)
      | SIns _ _ _, S O => 1                  (* se:insert:after_view_check *)
      | SIns _ _ _, _ => 2                    (* se:insert:before_kg_lock *)
      | SDel _ _ _, _ => 3                    (* se:delete:before_kg_lock *)
      | SRead _, _ => 4                       (* read:loaded *)
      | _, _ => 8
      end
  end.

(* ---- comparison of views up to order *)
Definition same_facts (a b : list fact) : bool :=
  Nat.eqb (length a) (length b) && forallb (fun f => memf f b) a && forallb (fun f => memf f a) b.
(* the clauses a snapshot carries, as numbers head * 1000 + clause (a rule without clauses is
   invisible in a snapshot) *)
Definition flat_rules (cat : catalog) : list N :=
  flat_map (fun e => map (fun c => fst e * 1000 + c) (snd e)) cat.
Definition same_view (a b : view) : bool :=
  same_facts (vfacts a) (vfacts b) && perm_Nb (flat_rules (vrules a)) (flat_rules (vrules b)).
