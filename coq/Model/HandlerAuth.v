(* Model of request handling in `Handler::execute_program` / `QueryJob::execute`
   (src/protocol/handler.rs): authorization of a submitted program, the dispatch to the
   directly-handled commands, the parse-all-first validation and the per-line execution loop
   with its mutable current knowledge graph.  Executable definitions only (no proofs).

   What is abstracted: a statement is its kind (`stmt_kind`, regenerated from the Rust enums in
   Gen/AuthTable.v), the knowledge graph it names (if any) and its effect on the stored state,
   which is a set of marks per knowledge graph (one mark per fact / rule / schema the harness's
   statement templates create or remove).  The harness obtains the kind of every logical line
   by calling the real `parse_statement` on it; a line that does not parse is `None`. *)
From IL Require Export Gen.AuthTable Model.AuthClass.
From Coq Require Export List NArith Bool.
Export ListNotations.
Open Scope N_scope.

Definition kgname := N.
Definition internal_kg : kgname := 0.   (* "_internal" *)
Definition default_kg : kgname := 1.    (* config.storage.default_knowledge_graph *)

(* marks: what the observable state of one knowledge graph consists of *)
Inductive mark :=
| MT                (* the relation `t` exists *)
| MF (m : N)        (* fact t(m) *)
| MR (m : N)        (* persistent rule r<m> *)
| MS (m : N).       (* persistent schema of relation s<m> *)

Definition mark_eqb (a b : mark) : bool :=
  match a, b with
  | MT, MT => true
  | MF x, MF y | MR x, MR y | MS x, MS y => N.eqb x y
  | _, _ => false
  end.

(* effect of one statement on the marks of the knowledge graph it runs on *)
Inductive eff :=
| ENone
| EIns (m : N)      (* +t[(m,)]            *)
| EDel (m : N)      (* -t(m)               *)
| EDropRel          (* .rel drop t         *)
| EAddRule (m : N)  (* +r<m>(X) <- t(X)    *)
| EDelRule (m : N)  (* -r<m> / .rule drop r<m> *)
| EAddSchema (m : N) (* +s<m>(a: int)     *)
| EDescribe.        (* .rel t : no stored effect; ends in the query path when t exists *)

Record stmt := St {
  kind : stmt_kind;
  arg : option kgname;     (* the KG named by .kg use/create/drop and .kg acl * *)
  seff : eff;
  auser : N;               (* .kg acl grant/revoke: the user *)
  arole : option kgrole;   (* .kg acl grant: the role, None if it does not parse as a KG role *)
}.

Definition aclrow := (kgname * N * kgrole)%type.

Record world := World {
  w_kgs : list (kgname * list mark);   (* the existing knowledge graphs and their content *)
  w_acls : list aclrow;                (* _internal:kg_acls *)
}.

Record request := Req {
  q_role : role;                 (* global role (refreshed from _internal:users) *)
  q_user : N;
  q_bound : option kgname;       (* the KG the request's session is bound to (None: no session id) *)
  q_cur : kgname;                (* the KG given explicitly with the request, else the session's *)
  q_whole : option stmt;         (* parse_statement(whole trimmed text) *)
  q_lines : list (option stmt);  (* parse_statement of every non-empty logical line *)
}.

Definition q_session (req : request) : bool :=
  match q_bound req with Some _ => true | None => false end.

(* ---------------------------------------------------------------- association lists *)
Fixpoint lookup {A} (g : N) (l : list (N * A)) : option A :=
  match l with
  | [] => None
  | (g', x) :: t => if N.eqb g g' then Some x else lookup g t
  end.

Fixpoint update {A} (g : N) (f : A -> A) (l : list (N * A)) : list (N * A) :=
  match l with
  | [] => []
  | (g', x) :: t => if N.eqb g g' then (g', f x) :: t else (g', x) :: update g f t
  end.

Fixpoint remove_key {A} (g : N) (l : list (N * A)) : list (N * A) :=
  match l with
  | [] => []
  | (g', x) :: t => if N.eqb g g' then remove_key g t else (g', x) :: remove_key g t
  end.

Definition kg_content (w : world) (g : kgname) : option (list mark) := lookup g (w_kgs w).
Definition kg_exists (w : world) (g : kgname) : bool :=
  match kg_content w g with Some _ => true | None => false end.

Definition opt_kg_eqb (a b : option kgname) : bool :=
  match a, b with
  | Some x, Some y => N.eqb x y
  | None, None => true
  | _, _ => false
  end.

(* ---------------------------------------------------------------- ACL table *)
Definition acl_matches (g : kgname) (u : N) (r : aclrow) : bool :=
  let '(g', u', _) := r in N.eqb g g' && N.eqb u u'.

(* Handler::get_kg_role_for_user for a non-admin (first matching row) *)
Definition role_of (acls : list aclrow) (u : N) (g : kgname) : option kgrole :=
  match find (acl_matches g u) acls with
  | Some (_, _, kr) => Some kr
  | None => None
  end.

(* handle_kg_acl_grant: delete the rows of (kg,user), insert the new one *)
Definition acl_grant (g : kgname) (u : N) (kr : kgrole) (acls : list aclrow) : list aclrow :=
  (g, u, kr) :: filter (fun r => negb (acl_matches g u r)) acls.
Definition acl_revoke (g : kgname) (u : N) (acls : list aclrow) : list aclrow :=
  filter (fun r => negb (acl_matches g u r)) acls.
(* cleanup_kg_acls *)
Definition acl_cleanup (g : kgname) (acls : list aclrow) : list aclrow :=
  filter (fun r => let '(g', _, _) := r in negb (N.eqb g g')) acls.

(* ---------------------------------------------------------------- authorization *)
Definition names_internal (s : stmt) : bool :=
  match kind s with
  | MKgUse | MKgDrop | MKgCreate => opt_kg_eqb (arg s) (Some internal_kg)
  | _ => false
  end.

(* which knowledge graph a statement of a given kind acts on (the `target_kg` match of execute_program) *)
Inductive tclass := TNamed | TAclList | TGlobal | TCurrent.
Definition target_class (k : stmt_kind) : tclass :=
  match k with
  | MKgDrop | MKgUse | MKgAclGrant | MKgAclRevoke => TNamed
  | MKgAclList => TAclList
  | MKgCreate | MKgList | MKgShow | MHelp | MQuit | MStatus => TGlobal
  | _ => TCurrent
  end.

(* the knowledge graphs a statement acts on, given the KGs that may be current *)
Definition target_kgs (s : stmt) (curs : list kgname) : list kgname :=
  match target_class (kind s) with
  | TNamed => match arg s with Some g => [g] | None => [] end
  | TAclList => match arg s with Some g => [g] | None => curs end
  | TGlobal => []
  | TCurrent => curs
  end.

Definition kg_allowed (roles : kgname -> option kgrole) (k : stmt_kind) (g : kgname) : bool :=
  match roles g with Some kr => kg_ok kr k | None => false end.

(* the `authorize` closure of execute_program *)
Definition authorize1 (r : role) (roles : kgname -> option kgrole) (s : stmt) (curs : list kgname) : bool :=
  global_ok r (kind s) && negb (names_internal s) &&
  (role_eqb r RAdmin || forallb (kg_allowed roles (kind s)) (target_kgs s curs)).

Definition switches (s : stmt) : bool :=
  match kind s with MKgUse | MKgCreate => true | _ => false end.
Definition is_create (s : stmt) : bool := match kind s with MKgCreate => true | _ => false end.
Definition is_drop (s : stmt) : bool := match kind s with MKgDrop => true | _ => false end.

Definition push_switch (s : stmt) (curs : list kgname) : list kgname :=
  if switches s then match arg s with Some g => curs ++ [g] | None => curs end else curs.

(* every parsed logical line, against every KG that may be current when it runs *)
Fixpoint authorize_lines (r : role) (roles : kgname -> option kgrole) (curs : list kgname)
         (ls : list (option stmt)) : bool :=
  match ls with
  | [] => true
  | None :: t => authorize_lines r roles curs t
  | Some s :: t => authorize1 r roles s curs && authorize_lines r roles (push_switch s curs) t
  end.

Definition bound_to_internal (r : role) (cur : kgname) : bool :=
  negb (role_eqb r RAdmin) && N.eqb cur internal_kg.

Definition authorizer := role -> (kgname -> option kgrole) -> kgname -> option stmt -> list (option stmt) -> bool.

(* the repaired authorization block of execute_program *)
Definition authorize_request : authorizer := fun r roles cur whole lines =>
  negb (bound_to_internal r cur) &&
  match whole with Some s => authorize1 r roles s [cur] | None => true end &&
  authorize_lines r roles [cur] lines.

(* the PINNED authorization block (before the fix): the whole trimmed text parsed as ONE
   statement; every check except the session-binding guard is skipped when that fails;
   `.kg acl list` without a name is not checked against any KG *)
Definition target_kgs_pinned (s : stmt) (cur : kgname) : list kgname :=
  match kind s, arg s with
  | MKgAclList, None => []
  | _, _ => target_kgs s [cur]
  end.

Definition authorize_pinned : authorizer := fun r roles cur whole _ =>
  negb (bound_to_internal r cur) &&
  match whole with
  | Some s =>
      global_ok r (kind s) && negb (names_internal s) &&
      (role_eqb r RAdmin || forallb (kg_allowed roles (kind s)) (target_kgs_pinned s cur))
  | None => true
  end.

(* ---------------------------------------------------------------- execution *)
Fixpoint remove_mark (m : mark) (ms : list mark) : list mark :=
  match ms with
  | [] => []
  | x :: t => if mark_eqb m x then remove_mark m t else x :: remove_mark m t
  end.
Definition has_mark (m : mark) (ms : list mark) : bool := existsb (mark_eqb m) ms.
Definition add_mark (m : mark) (ms : list mark) : list mark := if has_mark m ms then ms else ms ++ [m].
Definition is_fact (m : mark) : bool := match m with MF _ | MT => true | _ => false end.

Definition apply_eff (e : eff) (ms : list mark) : list mark :=
  match e with
  | ENone => ms
  | EIns m => add_mark (MF m) (add_mark MT ms)
  | EDel m => remove_mark (MF m) ms
  | EDropRel => filter (fun x => negb (is_fact x)) ms
  | EAddRule m => add_mark (MR m) ms
  | EDelRule m => remove_mark (MR m) ms
  | EAddSchema m => add_mark (MS m) ms
  | EDescribe => ms
  end.

(* does the statement's message contain the word "dropped" (execute_program looks for it) *)
Definition eff_says_dropped (e : eff) (ms : list mark) : bool :=
  match e with
  | EDropRel => has_mark MT ms
  | EDelRule m => has_mark (MR m) ms
  | _ => false
  end.

Record rstate := RState {
  r_kgs : list (kgname * list mark);
  r_cur : kgname;
  r_switched : option kgname;   (* switched_kg_result *)
  r_query : bool;               (* query_to_execute.is_some() *)
  r_dropmsg : bool;             (* some message contains "dropped" *)
  r_trace : list (kgname * stmt);   (* (current KG, statement) for every executed statement *)
}.

(* the arms of the phase-2 loop that do not simply act on the current KG *)
Inductive kclass := KUse | KCreate | KDrop | KQuery | KOther.
Definition step_class (k : stmt_kind) : kclass :=
  match k with
  | MKgUse => KUse
  | MKgCreate => KCreate
  | MKgDrop => KDrop
  | SQuery | MRuleQuery => KQuery      (* `.rule show <name>` is delegated to the query path *)
  | _ => KOther
  end.

(* one iteration of the phase-2 loop of QueryJob::execute *)
Definition step (st : rstate) (s : stmt) : rstate :=
  let kgs := r_kgs st in
  let cur := r_cur st in
  let tr := r_trace st ++ [(cur, s)] in
  let same := RState kgs cur (r_switched st) (r_query st) (r_dropmsg st) tr in
  match step_class (kind s), arg s with
  | KUse, Some g =>
      match lookup g kgs with
      | Some _ => RState kgs g (Some g) (r_query st) (r_dropmsg st) tr
      | None => same                                               (* "not found" *)
      end
  | KCreate, Some g =>
      match lookup g kgs with
      | Some _ => same                                             (* "Create failed" *)
      | None => RState (kgs ++ [(g, [])]) g (Some g) (r_query st) (r_dropmsg st) tr
      end
  | KDrop, Some g =>
      if N.eqb g cur then same                                     (* "Cannot drop current" *)
      else if N.eqb g default_kg then same                         (* CannotDropDefault *)
      else match lookup g kgs with
           | Some _ => RState (remove_key g kgs) cur (r_switched st) (r_query st) true tr
           | None => same
           end
  | KUse, None | KCreate, None | KDrop, None => same
  | KQuery, _ => RState kgs cur (r_switched st) true (r_dropmsg st) tr
  | KOther, _ =>
      let says := match lookup cur kgs with Some ms => eff_says_dropped (seff s) ms | None => false end in
      (* `.rel describe t` of an existing relation also ends in the query path *)
      let descr := match seff s with EDescribe => true | _ => false end &&
                   match lookup cur kgs with Some ms => has_mark MT ms | None => false end in
      RState (update cur (apply_eff (seff s)) kgs) cur (r_switched st) (r_query st || descr)
             (r_dropmsg st || says) tr
  end.

Definition run (kgs : list (kgname * list mark)) (cur : kgname) (ss : list stmt) : rstate :=
  fold_left step ss (RState kgs cur None false false []).

(* phase 1 of QueryJob::execute: every line must parse *)
Fixpoint all_parsed (ls : list (option stmt)) : option (list stmt) :=
  match ls with
  | [] => Some []
  | None :: _ => None
  | Some s :: t => match all_parsed t with Some ss => Some (s :: ss) | None => None end
  end.

(* QueryJob::execute: None = the whole program is rejected with VALIDATION_ERRORS *)
Definition query_program (kgs : list (kgname * list mark)) (cur : kgname) (ls : list (option stmt)) : option rstate :=
  match all_parsed ls with
  | Some ss => Some (run kgs cur ss)
  | None => None
  end.

Inductive decision := Denied | Rejected | Ran.
Definition decision_code (d : decision) : N := match d with Denied => 0 | Rejected => 1 | Ran => 2 end.

Record result := Result {
  d_dec : decision;
  d_world : world;
  d_bound : option kgname;            (* the session's KG afterwards (None: no session / closed) *)
  d_trace : list (kgname * stmt);     (* every statement that was executed, with the current KG *)
}.

(* commands execute_program handles itself on the whole-text parse, before query_program *)
Definition is_direct (k : stmt_kind) : bool :=
  match k with
  | MSessionList | MSessionClear | MSessionDrop | MSessionDropName
  | MUserList | MUserCreate | MUserDrop | MUserPassword | MUserRole
  | MApiKeyCreate | MApiKeyList | MApiKeyRevoke
  | MKgAclList | MKgAclGrant | MKgAclRevoke => true
  | _ => false
  end.
Definition is_session_intercept (k : stmt_kind) : bool :=
  match k with SSessionRule | SFact => true | _ => false end.

Definition direct_effect (s : stmt) (w : world) : world :=
  match kind s, arg s with
  | MKgAclGrant, Some g =>
      match arole s with
      | Some kr => if kg_exists w g then World (w_kgs w) (acl_grant g (auser s) kr (w_acls w)) else w
      | None => w
      end
  | MKgAclRevoke, Some g => World (w_kgs w) (acl_revoke g (auser s) (w_acls w))
  | MUserDrop, _ =>     (* handle_user_drop also deletes the user's ACL rows *)
      World (w_kgs w) (filter (fun x => let '(_, u, _) := x in negb (N.eqb u (auser s))) (w_acls w))
  | _, _ => w
  end.

(* what execute_program does with the result of query_program *)
Definition finish (req : request) (w : world) (st : rstate) : result :=
  let r := q_role req in
  let bound0 := q_bound req in
  let sw := if r_query st then None else r_switched st in
  let bound1 := match sw with
                | Some g => if q_session req then Some g else None
                | None => bound0
                end in
  (* auto-grant owner to a non-admin creator *)
  let acls1 :=
    match q_whole req with
    | Some s0 =>
        if negb (role_eqb r RAdmin) && is_create s0 &&
           match sw with Some g => opt_kg_eqb (arg s0) (Some g) | None => false end
        then match arg s0 with Some g => acl_grant g (q_user req) KOwner (w_acls w) | None => w_acls w end
        else w_acls w
    | None => w_acls w
    end in
  (* drop clean-up: sessions of the KG are closed, its ACL rows removed *)
  let cleanup :=
    match q_whole req with
    | Some s0 => if is_drop s0 && r_dropmsg st && negb (r_query st) then arg s0 else None
    | None => None
    end in
  let acls2 := match cleanup with Some g => acl_cleanup g acls1 | None => acls1 end in
  let bound2 := match cleanup with
                | Some g => if opt_kg_eqb bound1 (Some g) then None else bound1
                | None => bound1
                end in
  Result Ran (World (r_kgs st) acls2) bound2 (r_trace st).

Definition bound_before (req : request) : option kgname := q_bound req.

Definition via_query_program (req : request) (w : world) : result :=
  match lookup (q_cur req) (w_kgs w) with
  | None => Result Ran w (bound_before req) []      (* "Knowledge graph not found", before anything is parsed *)
  | Some _ =>
      match query_program (w_kgs w) (q_cur req) (q_lines req) with
      | None => Result Rejected w (bound_before req) []
      | Some st => finish req w st
      end
  end.

(* does execute_program handle the request itself, on the whole-text parse? *)
Definition goes_direct (req : request) : bool :=
  match q_whole req with
  | Some s0 => is_direct (kind s0) || (q_session req && is_session_intercept (kind s0))
  | None => false
  end.

Definition dispatch (req : request) (w : world) : result :=
  match q_whole req with
  | Some s0 =>
      if is_direct (kind s0) then Result Ran (direct_effect s0 w) (bound_before req) [(q_cur req, s0)]
      else if q_session req && is_session_intercept (kind s0)
           then Result Ran w (bound_before req) [(q_cur req, s0)]
           else via_query_program req w
  | None => via_query_program req w
  end.

(* execute_program, parameterised by the authorization block *)
Definition handle_with (authz : authorizer) (req : request) (w : world) : result :=
  let roles := role_of (w_acls w) (q_user req) in
  if authz (q_role req) roles (q_cur req) (q_whole req) (q_lines req)
  then dispatch req w
  else Result Denied w (bound_before req) [].

Definition handle := handle_with authorize_request.
Definition handle_pinned := handle_with authorize_pinned.

(* ---------------------------------------------------------------- well-formed inputs *)
(* a statement has an effect on stored state only if its kind is classified as mutating
   and is one that acts on the current knowledge graph *)
Definition eff_is_none (e : eff) : bool := match e with ENone | EDescribe => true | _ => false end.
Definition acts_on_current (k : stmt_kind) : bool :=
  match target_class k, step_class k with TCurrent, KOther => true | _, _ => false end.
Definition wf_stmt (s : stmt) : bool :=
  eff_is_none (seff s) || (mutates (kind s) && acts_on_current (kind s)).
Definition wf_lines (ls : list (option stmt)) : bool :=
  forallb (fun o => match o with Some s => wf_stmt s | None => true end) ls.

(* ---------------------------------------------------------------- executable comparisons *)
Fixpoint subset {A} (eqb : A -> A -> bool) (a b : list A) : bool :=
  match a with
  | [] => true
  | x :: t => existsb (eqb x) b && subset eqb t b
  end.
Definition set_eqb {A} (eqb : A -> A -> bool) (a b : list A) : bool := subset eqb a b && subset eqb b a.

Definition kgrole_eqb (a b : kgrole) : bool :=
  match a, b with KOwner, KOwner | KEditor, KEditor | KViewer, KViewer => true | _, _ => false end.
Definition aclrow_eqb (a b : aclrow) : bool :=
  let '(g, u, r) := a in let '(g', u', r') := b in N.eqb g g' && N.eqb u u' && kgrole_eqb r r'.
Definition kgentry_eqb (a b : kgname * list mark) : bool :=
  N.eqb (fst a) (fst b) && set_eqb mark_eqb (snd a) (snd b).
Definition world_eqb (a b : world) : bool :=
  set_eqb kgentry_eqb (w_kgs a) (w_kgs b) && set_eqb aclrow_eqb (w_acls a) (w_acls b).
Definition content_eqb (a b : option (list mark)) : bool :=
  match a, b with
  | Some x, Some y => set_eqb mark_eqb x y
  | None, None => true
  | _, _ => false
  end.

(* ---------------------------------------------------------------- one observed run of the real handler *)
Record observed := Obs {
  o_dec : N;                         (* 0 denied, 1 rejected (validation errors), 2 Ok, 3 other error *)
  o_world : world;                   (* state after the request *)
  o_bound : option kgname;           (* session KG afterwards *)
  o_leak : bool;                     (* the response contained a row of _internal:users *)
  o_auth_changed : bool;             (* _internal:users / api_keys differ from before *)
}.

Record hcase := HCase {
  h_req : request;
  h_world : world;                   (* state before the request *)
  h_obs : observed;
}.

Definition hcase_wf (c : hcase) : bool :=
  wf_lines (q_lines (h_req c)) &&
  match q_whole (h_req c) with Some s => wf_stmt s | None => true end.

(* model = implementation on this case *)
Definition hcase_corr (c : hcase) : bool :=
  let res := handle (h_req c) (h_world c) in
  let o := h_obs c in
  hcase_wf c &&
  N.eqb (decision_code (d_dec res)) (N.min (o_dec o) 2) &&
  world_eqb (d_world res) (o_world o) &&
  (if q_session (h_req c) then opt_kg_eqb (d_bound res) (o_bound o) else true).

(* ---------------------------------------------------------------- executable specifications (oracles) *)
(* boolean form of Proofs.HandlerAuth.may_change: what a changed, dropped or created knowledge
   graph g implies about the caller *)
Definition may_change_b (r : role) (roles : kgname -> option kgrole)
           (kgs0 : list (kgname * list mark)) (g : kgname) : bool :=
  role_eqb r RAdmin ||
  match roles g with Some KOwner | Some KEditor => true | _ => false end ||
  (match lookup g kgs0 with None => true | Some _ => false end && global_ok r MKgCreate).

(* C27 on one observed run: every knowledge graph whose facts / rules / schemas differ
   (or that appeared / disappeared) is one the caller may write (create / drop) *)
Definition writes_permitted (r : role) (roles : kgname -> option kgrole)
           (kgs0 kgs1 : list (kgname * list mark)) : bool :=
  forallb (fun g => content_eqb (lookup g kgs0) (lookup g kgs1) || may_change_b r roles kgs0 g)
          (map fst kgs0 ++ map fst kgs1).

Definition acl_rows_of (g : kgname) (acls : list aclrow) : list aclrow :=
  filter (fun r => let '(g', _, _) := r in N.eqb g g') acls.
Definition acl_kgs (acls : list aclrow) : list kgname := map (fun r => let '(g, _, _) := r in g) acls.

(* ACL rows of g change only for an owner (admin), or for a KG the caller just created / that was dropped *)
Definition acl_changes_permitted (r : role) (u : N) (roles : kgname -> option kgrole) (w0 w1 : world) : bool :=
  forallb (fun g =>
             set_eqb aclrow_eqb (acl_rows_of g (w_acls w0)) (acl_rows_of g (w_acls w1)) ||
             role_eqb r RAdmin ||
             match roles g with Some KOwner => true | _ => false end ||
             (* created by this request: exactly the creator's owner row appears *)
             (negb (kg_exists w0 g) && kg_exists w1 g && global_ok r MKgCreate &&
              set_eqb aclrow_eqb (acl_rows_of g (w_acls w1))
                      ((g, u, KOwner) :: filter (fun x => negb (acl_matches g u x)) (acl_rows_of g (w_acls w0)))))
          (acl_kgs (w_acls w0) ++ acl_kgs (w_acls w1)).

Definition is_none {A} (o : option A) : bool := match o with None => true | Some _ => false end.
