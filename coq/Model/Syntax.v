(* Model/Syntax.v — rule text: the printer (`Display` impls of src/ast/mod.rs) and the parser
   (`parse_rule` and everything below it in src/parser/mod.rs, plus the `AggregateFunc::parse*`
   helpers of src/ast/mod.rs), modelled at the CHARACTER level because the real parser is not a
   tokenizer + grammar but a cascade of string splits (split on "<-", split on commas outside
   brackets, leftmost comparison operator outside parentheses, rightmost arithmetic operator outside
   parentheses, ...).  Executable definitions only; proofs are in Proofs/Syntax*.v.

   Strings are lists of Unicode code points.  Three things are not computed here but supplied by an
   environment `env` (per case by the harness; universally quantified, with stated hypotheses, in the
   theorems):
     e_class : classification of NON-ASCII code points (alphanumeric / uppercase / lowercase),
     e_f64   : the value (IEEE bits, NaNs canonicalised) of `str::parse::<f64>` on a lexeme that the
               decidable recogniser `f64_lexeme` below accepts,
     e_disp / e_dbg : the text of `{}` / `{:?}` for an f64 given by its bits.
   Everything else (trim, splits, integer parsing and printing, precedence, ...) is computed. *)
From Coq Require Import String Ascii.
From Coq Require Export List NArith ZArith Bool Lia.
Export ListNotations.
Open Scope N_scope.

Definition str := list N.
Definition lit (s : string) : str := List.map N_of_ascii (list_ascii_of_string s).

Fixpoint str_eqb (a b : str) : bool :=
  match a, b with
  | [], [] => true
  | x :: a', y :: b' => (x =? y) && str_eqb a' b'
  | _, _ => false
  end.

(* ------------------------------------------------------------------ AST (src/ast/mod.rs) *)
Inductive aop := OAdd | OSub | OMul | ODiv | OMod.
Inductive arith :=
| AVar (s : str) | AInt (z : Z) | AFloat (b : N) | ABin (o : aop) (l r : arith).
Inductive aggf :=
| GCount | GCountDistinct | GSum | GMin | GMax | GAvg
| GTopK (k : N) (ord : str) (outs : list str) (desc : bool)
| GTopKThr (k : N) (ord : str) (outs : list str) (thr : N) (desc : bool)
| GWithin (dvar : str) (outs : list str) (maxd : N).
Inductive term :=
| TVar (s : str) | TInt (z : Z) | TPh | TAgg (g : aggf) (v : str) | TArith (a : arith)
| TFun (f : str) (args : list term) | TVec (xs : list N) | TFloat (b : N) | TStr (s : str)
| TBool (b : bool).
Inductive atom := Atom (rel : str) (args : list term).
Inductive cmpop := CEq | CNe | CLt | CLe | CGt | CGe.
Inductive bpred :=
| BPos (a : atom) | BNeg (a : atom) | BCmp (l : term) (o : cmpop) (r : term)
| BHnsw (idx : str) (q : term) (k : N) (idv dv : str) (ef : option N).
Inductive rule := Rule (head : atom) (body : list bpred).

(* ------------------------------------------------------------------ environment *)
Record env := mkEnv {
  e_class : N -> N;            (* code points >= 128: bit0 alphanumeric, bit1 uppercase, bit2 lowercase *)
  e_f64 : str -> option N;
  e_disp : N -> str;
  e_dbg : N -> str }.

(* ------------------------------------------------------------------ characters *)
Definition is_digit (c : N) : bool := (48 <=? c) && (c <=? 57).
Definition is_aupper (c : N) : bool := (65 <=? c) && (c <=? 90).
Definition is_alower (c : N) : bool := (97 <=? c) && (c <=? 122).
(* char::is_whitespace = Unicode White_Space *)
Definition is_ws (c : N) : bool :=
  ((9 <=? c) && (c <=? 13)) || (c =? 32) || (c =? 133) || (c =? 160) || (c =? 5760)
  || ((8192 <=? c) && (c <=? 8202)) || (c =? 8232) || (c =? 8233) || (c =? 8239) || (c =? 8287)
  || (c =? 12288).
Definition to_lower_c (c : N) : N := if is_aupper c then c + 32 else c.
Definition to_lower (s : str) : str := List.map to_lower_c s.

(* floats as bit patterns *)
Definition qnan : N := 0x7FF8000000000000.
Definition f64_exp (b : N) : N := N.land (N.shiftr b 52) 2047.
Definition f64_is_nan (b : N) : bool := (f64_exp b =? 2047) && negb (N.land b (N.ones 52) =? 0).
Definition f64_is_finite (b : N) : bool := negb (f64_exp b =? 2047).
Definition f64_canon (b : N) : N := if f64_is_nan b then qnan else b.
Definition f64_neg (b : N) : N := f64_canon (N.lxor b (N.shiftl 1 63)).

Section WithEnv.
Variable E : env.

Definition is_alnum (c : N) : bool :=
  if c <? 128 then is_digit c || is_aupper c || is_alower c else N.testbit (e_class E c) 0.
Definition is_upper (c : N) : bool := if c <? 128 then is_aupper c else N.testbit (e_class E c) 1.
Definition is_lower (c : N) : bool := if c <? 128 then is_alower c else N.testbit (e_class E c) 2.
Definition is_word (c : N) : bool := is_alnum c || (c =? 95).

(* ------------------------------------------------------------------ string helpers *)
Fixpoint drop_ws (s : str) : str :=
  match s with c :: t => if is_ws c then drop_ws t else s | [] => [] end.
Definition trim (s : str) : str := rev (drop_ws (rev (drop_ws s))).

Fixpoint starts_with (p s : str) : bool :=
  match p, s with
  | [], _ => true
  | x :: p', y :: s' => (x =? y) && starts_with p' s'
  | _ :: _, [] => false
  end.
Definition ends_with (p s : str) : bool := starts_with (rev p) (rev s).
Definition first_is (c : N) (s : str) : bool := match s with x :: _ => x =? c | [] => false end.
Definition last_is (c : N) (s : str) : bool := first_is c (rev s).
(* s without its first and last character *)
Definition inner (s : str) : str := match s with _ :: t => removelast t | [] => [] end.

(* split at the first occurrence of character c *)
Fixpoint find_char (c : N) (s pre_rev : str) : option (str * str) :=
  match s with
  | [] => None
  | x :: t => if x =? c then Some (rev pre_rev, t) else find_char c t (x :: pre_rev)
  end.

(* str::split("<-") *)
Fixpoint split_arrow (s cur_rev : str) : list str :=
  match s with
  | [] => [rev cur_rev]
  | a :: t =>
      match t with
      | b :: u => if (a =? 60) && (b =? 45) then rev cur_rev :: split_arrow u []
                  else split_arrow t (a :: cur_rev)
      | [] => split_arrow t (a :: cur_rev)
      end
  end.

(* str::split(',') *)
Fixpoint split_comma (s cur_rev : str) : list str :=
  match s with
  | [] => [rev cur_rev]
  | c :: t => if c =? 44 then rev cur_rev :: split_comma t [] else split_comma t (c :: cur_rev)
  end.

Fixpoint has_eqeq (s : str) : bool :=
  match s with
  | a :: t => (match t with b :: _ => (a =? 61) && (b =? 61) | [] => false end) || has_eqeq t
  | [] => false
  end.

Definition strip_suffix (suf s : str) : option str :=
  if ends_with suf s then Some (firstn (length s - length suf) s) else None.

Fixpoint join (sep : str) (l : list str) : str :=
  match l with [] => [] | [x] => x | x :: t => x ++ sep ++ join sep t end.
Definition join_cs := join [44; 32].

(* ------------------------------------------------------------------ numbers *)
Fixpoint digits_val (s : str) (acc : N) : option N :=
  match s with
  | [] => Some acc
  | c :: t => if is_digit c then digits_val t (acc * 10 + (c - 48)) else None
  end.
Definition parse_nat (s : str) : option N := match s with [] => None | _ => digits_val s 0 end.

(* str::parse::<i64>: optional single sign, then ASCII digits, in range *)
Definition parse_i64 (s : str) : option Z :=
  match s with
  | [] => None
  | c :: t =>
      if c =? 45 then
        match parse_nat t with
        | Some n => if n <=? 9223372036854775808 then Some (- Z.of_N n)%Z else None
        | None => None
        end
      else
        match parse_nat (if c =? 43 then t else s) with
        | Some n => if n <? 9223372036854775808 then Some (Z.of_N n) else None
        | None => None
        end
  end.
(* str::parse::<usize> (64-bit): optional '+', digits *)
Definition parse_usize (s : str) : option N :=
  match parse_nat (match s with c :: t => if c =? 43 then t else s | [] => [] end) with
  | Some n => if n <? 18446744073709551616 then Some n else None
  | None => None
  end.

Fixpoint span_digits (s : str) : str * str :=
  match s with
  | c :: t => if is_digit c then let '(a, b) := span_digits t in (c :: a, b) else ([], s)
  | [] => ([], [])
  end.
(* the language accepted by str::parse::<f64> (core::num::dec2flt) *)
Definition f64_lexeme (s : str) : bool :=
  let s1 := match s with c :: t => if (c =? 43) || (c =? 45) then t else s | [] => [] end in
  let l := to_lower s1 in
  if str_eqb l (lit "inf") || str_eqb l (lit "infinity") || str_eqb l (lit "nan") then true else
  let '(ip, r1) := span_digits s1 in
  let '(fp, r2) := match r1 with
                   | c :: t => if c =? 46 then span_digits t else ([], r1)
                   | [] => ([], []) end in
  match ip ++ fp with
  | [] => false
  | _ =>
    match r2 with
    | [] => true
    | c :: t =>
        if (c =? 101) || (c =? 69) then
          let t' := match t with d :: u => if (d =? 43) || (d =? 45) then u else t | [] => [] end in
          match t' with [] => false | _ => forallb is_digit t' end
        else false
    end
  end.
Definition parse_f64 (s : str) : option N :=
  if f64_lexeme s then option_map f64_canon (e_f64 E s) else None.

(* `{}` of an unsigned / signed integer *)
Fixpoint dec_aux (fuel : nat) (n : N) (acc : str) : str :=
  match fuel with
  | O => acc
  | S f => let acc' := (48 + n mod 10) :: acc in
           if n / 10 =? 0 then acc' else dec_aux f (n / 10) acc'
  end.
Definition show_N (n : N) : str := dec_aux (S (N.to_nat (N.log2 n))) n [].
Definition show_Z (z : Z) : str :=
  if (z <? 0)%Z then 45 :: show_N (Z.to_N (- z)) else show_N (Z.to_N z).

(* ------------------------------------------------------------------ the printer (Display) *)
Definition prec (o : aop) : nat := match o with OAdd | OSub => 0 | _ => 1 end.
Definition op_char (o : aop) : N :=
  match o with OAdd => 43 | OSub => 45 | OMul => 42 | ODiv => 47 | OMod => 37 end.
Definition paren (s : str) : str := 40 :: s ++ [41].

Fixpoint show_arith (a : arith) : str :=
  match a with
  | AVar s => s
  | AInt z => show_Z z
  | AFloat b => e_dbg E b
  | ABin o l r =>
      (match l with
       | ABin co _ _ => if (prec co <? prec o)%nat then paren (show_arith l) else show_arith l
       | _ => show_arith l end)
      ++ op_char o ::
      (match r with
       | ABin co _ _ => if (prec co <=? prec o)%nat then paren (show_arith r) else show_arith r
       | _ => show_arith r end)
  end.

(* the `, v` / `, v:dir` list of a ranking aggregate; `single` = output_vars.len() == 1 *)
Fixpoint show_outs (ord : str) (single desc : bool) (outs : list str) : str :=
  match outs with
  | [] => []
  | v :: t =>
      ([44; 32] ++ v ++
       (if str_eqb v ord then
          (if single && desc then [] else if desc then lit ":desc" else lit ":asc")
        else []))
      ++ show_outs ord single desc t
  end.
Fixpoint show_outs_within (dvar : str) (single : bool) (outs : list str) : str :=
  match outs with
  | [] => []
  | v :: t =>
      ([44; 32] ++ v ++ (if str_eqb v dvar then (if single then [] else lit ":asc") else []))
      ++ show_outs_within dvar single t
  end.
Definition is_single {A} (l : list A) : bool := match l with [_] => true | _ => false end.

Definition show_aggf (g : aggf) : str :=
  match g with
  | GCount => lit "count" | GCountDistinct => lit "count_distinct" | GSum => lit "sum"
  | GMin => lit "min" | GMax => lit "max" | GAvg => lit "avg"
  | GTopK k ord outs desc =>
      lit "top_k<" ++ show_N k ++ show_outs ord (is_single outs) desc outs ++ [62]
  | GTopKThr k ord outs thr desc =>
      lit "top_k_threshold<" ++ show_N k ++ [44; 32] ++ e_disp E thr
      ++ show_outs ord (is_single outs) desc outs ++ [62]
  | GWithin dvar outs maxd =>
      lit "within_radius<" ++ e_disp E maxd ++ show_outs_within dvar (is_single outs) outs ++ [62]
  end.
Definition is_ranking (g : aggf) : bool :=
  match g with GTopK _ _ _ _ | GTopKThr _ _ _ _ _ | GWithin _ _ _ => true | _ => false end.

Fixpoint show_term (t : term) : str :=
  match t with
  | TVar s => s
  | TInt z => show_Z z
  | TStr s => 34 :: s ++ [34]
  | TBool b => if b then lit "true" else lit "false"
  | TFloat b => e_dbg E b
  | TPh => [95]
  | TArith a => show_arith a
  | TAgg g v => if is_ranking g then show_aggf g else show_aggf g ++ 60 :: v ++ [62]
  | TVec xs => 91 :: join_cs (List.map (e_disp E) xs) ++ [93]
  | TFun f args => f ++ 40 :: join_cs (List.map show_term args) ++ [41]
  end.

Definition show_atom (a : atom) : str :=
  match a with Atom r args => r ++ 40 :: join_cs (List.map show_term args) ++ [41] end.
Definition show_cmpop (o : cmpop) : str :=
  match o with
  | CEq => lit "=" | CNe => lit "!=" | CLt => lit "<" | CLe => lit "<=" | CGt => lit ">"
  | CGe => lit ">=" end.
Definition show_bpred (b : bpred) : str :=
  match b with
  | BPos a => show_atom a
  | BNeg a => 33 :: show_atom a
  | BCmp l o r => show_term l ++ [32] ++ show_cmpop o ++ [32] ++ show_term r
  | BHnsw idx q k idv dv ef =>
      lit "hnsw_nearest(""" ++ idx ++ lit """, " ++ show_term q ++ [44; 32] ++ show_N k ++ [44; 32]
      ++ idv ++ [44; 32] ++ dv
      ++ (match ef with Some e => [44; 32] ++ show_N e | None => [] end) ++ [41]
  end.
Definition show_rule (r : rule) : str :=
  match r with
  | Rule h [] => show_atom h
  | Rule h b => show_atom h ++ lit " <- " ++ join_cs (List.map show_bpred b)
  end.

(* ------------------------------------------------------------------ the parser *)
(* split_by_comma_outside_parens: commas outside parentheses and outside "aggregate" angle brackets
   (a '<' counts only when the character before it IN THE CURRENT SEGMENT is a word character) *)
Fixpoint split_body (s cur_rev : str) (pd ad : N) : list str :=
  match s with
  | [] => match cur_rev with [] => [] | _ => [rev cur_rev] end
  | c :: t =>
      if c =? 40 then split_body t (c :: cur_rev) (pd + 1) ad
      else if c =? 41 then split_body t (c :: cur_rev) (N.pred pd) ad
      else if c =? 60 then
        split_body t (c :: cur_rev) pd
          (if match cur_rev with p :: _ => is_word p | [] => false end then ad + 1 else ad)
      else if c =? 62 then split_body t (c :: cur_rev) pd (N.pred ad)
      else if (c =? 44) && (pd =? 0) && (ad =? 0) then rev cur_rev :: split_body t [] pd ad
      else split_body t (c :: cur_rev) pd ad
  end.

(* split_args_respecting_angles *)
Fixpoint split_args (s cur_rev : str) (ad pd bd : N) : list str :=
  match s with
  | [] => match cur_rev with [] => [] | _ => [rev cur_rev] end
  | c :: t =>
      if c =? 60 then split_args t (c :: cur_rev) (ad + 1) pd bd
      else if c =? 62 then split_args t (c :: cur_rev) (N.pred ad) pd bd
      else if c =? 40 then split_args t (c :: cur_rev) ad (pd + 1) bd
      else if c =? 41 then split_args t (c :: cur_rev) ad (N.pred pd) bd
      else if c =? 91 then split_args t (c :: cur_rev) ad pd (bd + 1)
      else if c =? 93 then split_args t (c :: cur_rev) ad pd (N.pred bd)
      else if (c =? 44) && (ad =? 0) && (pd =? 0) && (bd =? 0)
           then rev cur_rev :: split_args t [] ad pd bd
      else split_args t (c :: cur_rev) ad pd bd
  end.

(* find_operator_outside_parens: (text before, text after the operator) at the first match *)
Fixpoint find_op (op s pre_rev : str) (d : N) : option (str * str) :=
  match s with
  | [] => None
  | c :: t =>
      let d' := if c =? 40 then d + 1 else if c =? 41 then N.pred d else d in
      if (d' =? 0) && starts_with op s then Some (rev pre_rev, skipn (length op) s)
      else find_op op t (c :: pre_rev) d'
  end.

(* `before` = the characters preceding the current one, nearest first.
   sci: "digit-or-dot, then e/E" right before a sign: taken for scientific notation *)
Definition sci (before : str) : bool :=
  match before with
  | e :: d :: _ => ((e =? 101) || (e =? 69)) && (is_digit d || (d =? 46))
  | _ => false
  end.
(* the previous significant character: skip whitespace, but never past index 0 *)
Fixpoint prev_sig (before : str) : N :=
  match before with
  | [] => 0
  | [x] => x
  | x :: t => if is_ws x then prev_sig t else x
  end.
Definition minus_is_binary (before : str) : bool :=
  let p := prev_sig before in is_alnum p || (p =? 41) || (p =? 95).

(* contains_arithmetic_operator; the angle depth is a signed counter and is not clamped *)
Fixpoint has_arith_op (s before : str) (ad : Z) : bool :=
  match s with
  | [] => false
  | c :: t =>
      if c =? 60 then has_arith_op t (c :: before) (ad + 1)%Z
      else if c =? 62 then has_arith_op t (c :: before) (ad - 1)%Z
      else if (c =? 43) && (ad =? 0)%Z then
        if sci before then has_arith_op t (c :: before) ad else true
      else if ((c =? 42) || (c =? 47) || (c =? 37)) && (ad =? 0)%Z then true
      else if (c =? 45) && (ad =? 0)%Z && negb (match before with [] => true | _ => false end) then
        if sci before then has_arith_op t (c :: before) ad
        else if minus_is_binary before then true else has_arith_op t (c :: before) ad
      else has_arith_op t (c :: before) ad
  end.

(* parse_add_sub's scan: rightmost '+' / binary '-' outside parentheses (scanning right to left;
   ')' opens, '(' closes with clamping).  `rv` = the text reversed from the current position,
   `suffix` = the text after the current position.  Result: (op, left, right). *)
Fixpoint scan_addsub (rv suffix : str) (d : N) : option (aop * str * str) :=
  match rv with
  | [] => None
  | c :: before =>
      if c =? 41 then scan_addsub before (c :: suffix) (d + 1)
      else if c =? 40 then scan_addsub before (c :: suffix) (N.pred d)
      else if (c =? 43) && (d =? 0) then
        if sci before then scan_addsub before (c :: suffix) d
        else match before, suffix with
             | _ :: _, _ :: _ => Some (OAdd, rev before, suffix)
             | _, _ => scan_addsub before (c :: suffix) d
             end
      else if (c =? 45) && (d =? 0) && negb (match before with [] => true | _ => false end) then
        if sci before then scan_addsub before (c :: suffix) d
        else if minus_is_binary before then
          match suffix with
          | _ :: _ => Some (OSub, rev before, suffix)
          | [] => scan_addsub before (c :: suffix) d
          end
        else scan_addsub before (c :: suffix) d
      else scan_addsub before (c :: suffix) d
  end.
Fixpoint scan_muldiv (rv suffix : str) (d : N) : option (aop * str * str) :=
  match rv with
  | [] => None
  | c :: before =>
      if c =? 41 then scan_muldiv before (c :: suffix) (d + 1)
      else if c =? 40 then scan_muldiv before (c :: suffix) (N.pred d)
      else if ((c =? 42) || (c =? 47) || (c =? 37)) && (d =? 0) then
        match before, suffix with
        | _ :: _, _ :: _ =>
            Some ((if c =? 42 then OMul else if c =? 47 then ODiv else OMod), rev before, suffix)
        | _, _ => scan_muldiv before (c :: suffix) d
        end
      else scan_muldiv before (c :: suffix) d
  end.

(* parse_primary's check that the opening parenthesis is matched by the LAST character:
   walk, depth +1 on '(' and -1 on ')'; depth 0 reached before the end => not matched;
   at the end the depth must be 0.  `d` is the depth so far (signed in Rust; it cannot go
   negative before the early exit because the text starts with '('). *)
Fixpoint paren_matched (s : str) (d : N) : bool :=
  match s with
  | [] => d =? 0
  | c :: t =>
      if c =? 40 then paren_matched t (d + 1)
      else if c =? 41 then
        (if (N.pred d =? 0) then (match t with [] => true | _ => false end)
         else paren_matched t (N.pred d))
      else paren_matched t d
  end.

Inductive lvl := LAdd | LMul | LPri.
Definition bin (o : aop) (l r : option arith) : option arith :=
  match l, r with Some a, Some b => Some (ABin o a b) | _, _ => None end.
Definition neg_i64 (z : Z) : option Z :=
  (* `-num` on i64: overflow (num = i64::MIN) panics in debug builds; treated as rejection *)
  if (z =? -9223372036854775808)%Z then None else Some (- z)%Z.

Fixpoint parith (n : nat) (l : lvl) (s0 : str) {struct n} : option arith :=
  match n with
  | O => None
  | S n' =>
      let s := trim s0 in
      match l with
      | LAdd =>
          match scan_addsub (rev s) [] 0 with
          | Some (o, le, ri) => bin o (parith n' LAdd le) (parith n' LMul ri)
          | None => parith n' LMul s
          end
      | LMul =>
          match scan_muldiv (rev s) [] 0 with
          | Some (o, le, ri) => bin o (parith n' LMul le) (parith n' LPri ri)
          | None => parith n' LPri s
          end
      | LPri =>
          if first_is 40 s && last_is 41 s && paren_matched s 0 then parith n' LAdd (inner s)
          else
            match parse_i64 s with
            | Some z => Some (AInt z)
            | None =>
              match parse_f64 s with
              | Some b => Some (AFloat b)
              | None =>
                let neg :=
                  if first_is 45 s then
                    let r := trim (tl s) in
                    match parse_i64 r with
                    | Some z => Some (option_map AInt (neg_i64 z))
                    | None => match parse_f64 r with
                              | Some b => Some (Some (AFloat (f64_neg b)))
                              | None => None end
                    end
                  else None in
                match neg with
                | Some res => res
                | None =>
                    match s with
                    | [] => None
                    | _ => if forallb is_word s then Some (AVar s) else None
                    end
                end
              end
            end
      end
  end.
Definition arith_fuel (s : str) : nat := 4 * length s + 4.
Definition parse_arith (s : str) : option arith := parith (arith_fuel s) LAdd s.

(* AggregateFunc::parse_annotated_vars *)
Fixpoint annotated (parts : list str) (outs_rev : list str) (ord : option str) (desc : bool)
  : option (list str * option str * bool) :=
  match parts with
  | [] => Some (rev outs_rev, ord, desc)
  | p :: t =>
      let p := trim p in
      match strip_suffix (lit ":desc") p with
      | Some nm => let nm := trim nm in
                   match ord with Some _ => None
                   | None => annotated t (nm :: outs_rev) (Some nm) true end
      | None =>
        match strip_suffix (lit ":asc") p with
        | Some nm => let nm := trim nm in
                     match ord with Some _ => None
                     | None => annotated t (nm :: outs_rev) (Some nm) false end
        | None => annotated t (p :: outs_rev) ord desc
        end
      end
  end.
Definition parse_annotated (parts : list str) (default_desc : bool)
  : option (list str * str * bool) :=
  match parts with
  | [] => None
  | _ =>
    match annotated parts [] None default_desc with
    | None => None
    | Some (outs, Some o, d) => Some (outs, o, d)
    | Some (outs, None, d) => match outs with [v] => Some (outs, v, d) | _ => None end
    end
  end.
Definition parse_top_k (params : str) : option aggf :=
  match List.map trim (split_comma params []) with
  | k :: ((_ :: _) as rest) =>
      match parse_usize k with
      | Some k => match parse_annotated rest true with
                  | Some (outs, o, d) => Some (GTopK k o outs d) | None => None end
      | None => None end
  | _ => None
  end.
Definition parse_top_k_thr (params : str) : option aggf :=
  match List.map trim (split_comma params []) with
  | k :: th :: ((_ :: _) as rest) =>
      match parse_usize k, parse_f64 th with
      | Some k, Some th => match parse_annotated rest true with
                           | Some (outs, o, d) => Some (GTopKThr k o outs th d) | None => None end
      | _, _ => None end
  | _ => None
  end.
Definition parse_within (params : str) : option aggf :=
  match List.map trim (split_comma params []) with
  | m :: ((_ :: _) as rest) =>
      match parse_f64 m with
      | Some m => match parse_annotated rest false with
                  | Some (outs, o, _) => Some (GWithin o outs m) | None => None end
      | None => None end
  | _ => None
  end.
Definition std_agg (name_lower : str) : option aggf :=
  if str_eqb name_lower (lit "count") then Some GCount
  else if str_eqb name_lower (lit "count_distinct") || str_eqb name_lower (lit "countdistinct")
       then Some GCountDistinct
  else if str_eqb name_lower (lit "sum") then Some GSum
  else if str_eqb name_lower (lit "min") then Some GMin
  else if str_eqb name_lower (lit "max") then Some GMax
  else if str_eqb name_lower (lit "avg") then Some GAvg
  else None.

(* BuiltinFunc::parse / as_str: the canonical names *)
Definition builtins : list str := List.map lit
  ["euclidean"; "cosine"; "dot"; "manhattan"; "lsh_bucket"; "normalize"; "vec_dim"; "vec_add";
   "vec_scale"; "time_now"; "time_diff"; "time_add"; "time_sub"; "time_decay";
   "time_decay_linear"; "time_before"; "time_after"; "time_between"; "within_last";
   "intervals_overlap"; "interval_contains"; "interval_duration"; "point_in_interval";
   "quantize_linear"; "quantize_symmetric"; "dequantize"; "dequantize_scaled"; "euclidean_int8";
   "cosine_int8"; "dot_int8"; "manhattan_int8"; "lsh_probes"; "lsh_multi_probe"; "abs_int64";
   "abs_float64"; "abs"; "sqrt"; "pow"; "log"; "exp"; "sin"; "cos"; "tan"; "floor"; "ceil";
   "sign"; "to_float"; "to_int"; "len"; "upper"; "lower"; "trim"; "substr"; "replace"; "concat";
   "min_val"; "max_val"]%string.
Definition is_builtin (name : str) : bool := existsb (str_eqb name) builtins.

Fixpoint all_some {A} (l : list (option A)) : option (list A) :=
  match l with
  | [] => Some []
  | Some x :: t => match all_some t with Some r => Some (x :: r) | None => None end
  | None :: _ => None
  end.

Definition parse_vector (s : str) : option term :=
  let i := trim (inner s) in
  match i with
  | [] => Some (TVec [])
  | _ => option_map TVec (all_some (List.map (fun v => parse_f64 (trim v)) (split_comma i [])))
  end.

(* parse_term on an already trimmed text, in the order of the Rust function.
   pt_agg / pt_fcall: None = "not this form, fall through", Some r = the result (r = None: error) *)
Definition pt_agg (s : str) : option (option term) :=
  match find_char 60 s [] with
  | Some (fname, rest) =>
      if last_is 62 s then
        let fname := trim fname in
        let params := removelast rest in
        let fl := to_lower fname in
        Some (match std_agg fl with
              | Some g => Some (TAgg g (trim params))
              | None =>
                  if str_eqb fl (lit "top_k") then option_map (fun g => TAgg g []) (parse_top_k params)
                  else if str_eqb fl (lit "top_k_threshold")
                       then option_map (fun g => TAgg g []) (parse_top_k_thr params)
                  else if str_eqb fl (lit "within_radius")
                       then option_map (fun g => TAgg g []) (parse_within params)
                  else None
              end)
      else None
  | None => None
  end.
Definition pt_fcall (rec : str -> option term) (s : str) : option (option term) :=
  match find_char 40 s [] with
  | Some (fname, rest) =>
      if last_is 41 s && is_builtin (to_lower (trim fname)) then
        let a := trim (removelast rest) in
        Some (match a with
              | [] => Some (TFun (to_lower (trim fname)) [])
              | _ => option_map (TFun (to_lower (trim fname)))
                       (all_some (List.map rec (split_args a [] 0 0 0)))
              end)
      else None
  | None => None
  end.
Definition pt_neg (s : str) : option (option term) :=
  if first_is 45 s then
    let r := trim (tl s) in
    match parse_i64 r with
    | Some z => Some (option_map TInt (neg_i64 z))
    | None => match parse_f64 r with
              | Some b => Some (Some (TFloat (f64_neg b)))
              | None => None end
    end
  else None.
Definition pt_ident (s : str) : option term :=
  match s with
  | c :: _ =>
      if forallb is_word s then
        if is_upper c || (c =? 95) then Some (TVar s)
        else if str_eqb s (lit "true") then Some (TBool true)
        else if str_eqb s (lit "false") then Some (TBool false)
        else None
      else None
  | [] => None
  end.
Definition pt_scalar (s : str) : option term :=
  match parse_i64 s with
  | Some z => Some (TInt z)
  | None =>
    match (match parse_f64 s with
           | Some b => if f64_is_finite b then Some b else None | None => None end) with
    | Some b => Some (TFloat b)
    | None =>
      if has_arith_op s [] 0 then option_map TArith (parse_arith s)
      else match pt_neg s with
           | Some res => res
           | None => pt_ident s
           end
    end
  end.
Definition parse_term_step (rec : str -> option term) (s : str) : option term :=
  if str_eqb s [95] then Some TPh
  else if first_is 91 s && last_is 93 s then parse_vector s
  else if first_is 34 s && last_is 34 s && (2 <=? length s)%nat then Some (TStr (inner s))
  else match pt_agg s with
       | Some res => res
       | None =>
         match pt_fcall rec s with
         | Some res => res
         | None => pt_scalar s
         end
       end.
(* parse_term; `n` bounds the nesting of function calls *)
Fixpoint parse_term (n : nat) (s0 : str) {struct n} : option term :=
  match n with
  | O => None
  | S n' => parse_term_step (parse_term n') (trim s0)
  end.
Definition term_fuel (s : str) : nat := S (length s).

(* parse_atom (after the `fix:` commit: exactly one closing parenthesis is dropped) *)
Definition parse_atom (s0 : str) : option atom :=
  let s := trim s0 in
  match find_char 40 s [] with
  | None => None
  | Some (relname, rest) =>
      let a := trim (if last_is 41 rest then removelast rest else rest) in
      match a with
      | [] => Some (Atom (trim relname) [])
      | _ => option_map (Atom (trim relname))
               (all_some (List.map (parse_term (term_fuel s)) (split_args a [] 0 0 0)))
      end
  end.

(* three-valued results: None = error, Some None = "not this kind of predicate" *)
Definition hnsw_prefix : str := lit "hnsw_nearest(".
Definition try_hnsw (s0 : str) : option (option bpred) :=
  let s := trim s0 in
  if negb (starts_with hnsw_prefix s && last_is 41 s) then Some None
  else
    let i := removelast (skipn (length hnsw_prefix) s) in
    match split_args i [] 0 0 0 with
    | a0 :: a1 :: a2 :: a3 :: a4 :: rest =>
        match rest with
        | _ :: _ :: _ => None
        | _ =>
          let a0 := trim a0 in
          if negb (first_is 34 a0 && last_is 34 a0 && (2 <=? length a0)%nat) then None else
          match parse_term (term_fuel s) a1, parse_usize (trim a2) with
          | Some q, Some k =>
              if k =? 0 then None else
              let idv := trim a3 in let dv := trim a4 in
              if negb (match idv with c :: _ => is_upper c | [] => false end) then None else
              if negb (match dv with c :: _ => is_upper c | [] => false end) then None else
              match rest with
              | [] => Some (Some (BHnsw (inner a0) q k idv dv None))
              | e :: _ => match parse_usize (trim e) with
                          | Some ef => Some (Some (BHnsw (inner a0) q k idv dv (Some ef)))
                          | None => None end
              end
          | _, _ => None
          end
        end
    | _ => None
    end.

Definition cmp_ops : list (str * cmpop) :=
  [(lit "!=", CNe); (lit "<=", CLe); (lit ">=", CGe); (lit "<", CLt); (lit ">", CGt); (lit "=", CEq)].
Fixpoint try_ops (ops : list (str * cmpop)) (s : str) : option (option bpred) :=
  match ops with
  | [] => Some None
  | (o, c) :: rest =>
      match find_op o s [] 0 with
      | Some (le, ri) =>
          match parse_term (term_fuel s) le, parse_term (term_fuel s) ri with
          | Some a, Some b => Some (Some (BCmp a c b))
          | _, _ => None
          end
      | None => try_ops rest s
      end
  end.
Definition try_cmp (s : str) : option (option bpred) :=
  if has_eqeq s then None else try_ops cmp_ops s.

Fixpoint drop_bangs (s : str) : str :=
  match s with c :: t => if c =? 33 then drop_bangs t else s | [] => [] end.

Definition parse_bpred (p0 : str) : option bpred :=
  let p := trim p0 in
  if first_is 33 p then option_map BNeg (parse_atom (trim (drop_bangs p)))
  else
    match try_hnsw p with
    | None => None
    | Some (Some b) => Some b
    | Some None =>
        match try_cmp p with
        | None => None
        | Some (Some b) => Some b
        | Some None => option_map BPos (parse_atom p)
        end
    end.
Definition parse_body (s : str) : option (list bpred) :=
  all_some (List.map parse_bpred (split_body s [] 0 0)).

Definition is_tvar (t : term) : bool := match t with TVar _ => true | _ => false end.
Definition parse_rule (line : str) : option rule :=
  match split_arrow (trim line) [] with
  | [h] => option_map (fun a => Rule a []) (parse_atom (trim h))
  | [h; b] =>
      match parse_atom (trim h), parse_body (trim b) with
      | Some (Atom r args), Some body =>
          match body with
          | [] => if existsb is_tvar args then None else Some (Rule (Atom r args) [])
          | _ => Some (Rule (Atom r args) body)
          end
      | _, _ => None
      end
  | _ => None
  end.

End WithEnv.

(* ------------------------------------------------------------------ equality on ASTs *)
Definition aop_eqb (a b : aop) : bool :=
  match a, b with OAdd, OAdd | OSub, OSub | OMul, OMul | ODiv, ODiv | OMod, OMod => true | _, _ => false end.
Fixpoint arith_eqb (a b : arith) : bool :=
  match a, b with
  | AVar x, AVar y => str_eqb x y
  | AInt x, AInt y => (x =? y)%Z
  | AFloat x, AFloat y => x =? y
  | ABin o l r, ABin o' l' r' => aop_eqb o o' && arith_eqb l l' && arith_eqb r r'
  | _, _ => false
  end.
Fixpoint list_eqb {A} (e : A -> A -> bool) (a b : list A) : bool :=
  match a, b with
  | [], [] => true
  | x :: a', y :: b' => e x y && list_eqb e a' b'
  | _, _ => false
  end.
Definition aggf_eqb (a b : aggf) : bool :=
  match a, b with
  | GCount, GCount | GCountDistinct, GCountDistinct | GSum, GSum | GMin, GMin | GMax, GMax
  | GAvg, GAvg => true
  | GTopK k o l d, GTopK k' o' l' d' =>
      (k =? k') && str_eqb o o' && list_eqb str_eqb l l' && Bool.eqb d d'
  | GTopKThr k o l t d, GTopKThr k' o' l' t' d' =>
      (k =? k') && str_eqb o o' && list_eqb str_eqb l l' && (t =? t') && Bool.eqb d d'
  | GWithin o l m, GWithin o' l' m' => str_eqb o o' && list_eqb str_eqb l l' && (m =? m')
  | _, _ => false
  end.
Fixpoint term_eqb (a b : term) : bool :=
  match a, b with
  | TVar x, TVar y => str_eqb x y
  | TInt x, TInt y => (x =? y)%Z
  | TPh, TPh => true
  | TAgg g v, TAgg g' v' => aggf_eqb g g' && str_eqb v v'
  | TArith x, TArith y => arith_eqb x y
  | TFun f l, TFun f' l' =>
      str_eqb f f' &&
      (fix go (l l' : list term) : bool :=
         match l, l' with
         | [], [] => true
         | x :: t, y :: t' => term_eqb x y && go t t'
         | _, _ => false
         end) l l'
  | TVec x, TVec y => list_eqb N.eqb x y
  | TFloat x, TFloat y => x =? y
  | TStr x, TStr y => str_eqb x y
  | TBool x, TBool y => Bool.eqb x y
  | _, _ => false
  end.
Definition atom_eqb (a b : atom) : bool :=
  match a, b with Atom r l, Atom r' l' => str_eqb r r' && list_eqb term_eqb l l' end.
Definition cmpop_eqb (a b : cmpop) : bool :=
  match a, b with
  | CEq, CEq | CNe, CNe | CLt, CLt | CLe, CLe | CGt, CGt | CGe, CGe => true | _, _ => false end.
Definition optN_eqb (a b : option N) : bool :=
  match a, b with Some x, Some y => x =? y | None, None => true | _, _ => false end.
Definition bpred_eqb (a b : bpred) : bool :=
  match a, b with
  | BPos x, BPos y | BNeg x, BNeg y => atom_eqb x y
  | BCmp l o r, BCmp l' o' r' => term_eqb l l' && cmpop_eqb o o' && term_eqb r r'
  | BHnsw i q k a b e, BHnsw i' q' k' a' b' e' =>
      str_eqb i i' && term_eqb q q' && (k =? k') && str_eqb a a' && str_eqb b b' && optN_eqb e e'
  | _, _ => false
  end.
Definition rule_eqb (a b : rule) : bool :=
  match a, b with Rule h l, Rule h' l' => atom_eqb h h' && list_eqb bpred_eqb l l' end.
Definition orule_eqb (a b : option rule) : bool :=
  match a, b with Some x, Some y => rule_eqb x y | None, None => true | _, _ => false end.
