(* Model of one base relation of one knowledge graph as the storage engine keeps it:
     - the live, in-memory relation (`KnowledgeGraph::insert_in_memory` / `delete_in_memory`,
       src/storage_engine/mod.rs) with the reports the engine returns,
     - the durable update log of the relation's shard (`FilePersist`: WAL + buffer + batch files,
       abstracted here to ONE list of `(data, time, diff)` updates; Model/StorePersist.v refines it),
     - `consolidate` (src/storage/persist/consolidate.rs) used by compaction,
     - recovery of the relation from the log at start-up
       (`load_knowledge_graph_from_persist` -> `replay_to_current`).
   Executable definitions only.  Orders are never relied on: relation contents are compared as sets. *)
From IL Require Export Model.Value.
Open Scope N_scope.

Record update := mkU { u_data : tuple; u_time : N; u_diff : Z }.

(* ---------------------------------------------------------------- live relation *)

(* `insert_in_memory`: every tuple of the batch that is not yet stored is appended
   (so an in-batch duplicate counts as a duplicate); returns (new_count, dup_count) *)
Fixpoint ins_mem (s : list tuple) (ts : list tuple) : list tuple * (N * N) :=
  match ts with
  | [] => (s, (0, 0))
  | t :: r =>
      if mem_tuple t s
      then let '(s', (n, d)) := ins_mem s r in (s', (n, d + 1))
      else let '(s', (n, d)) := ins_mem (s ++ [t]) r in (s', (n + 1, d))
  end.

(* `delete_in_memory`: retain the tuples not in the remove set; report the size difference *)
Definition del_mem (s : list tuple) (ts : list tuple) : list tuple * N :=
  let s' := filter (fun t => negb (mem_tuple t ts)) s in
  (s', N.of_nat (length s - length s')).

(* ---------------------------------------------------------------- log *)

Definition same_data (t : tuple) (u : update) : bool := tuple_eqb t (u_data u).
Definition same_key (t : tuple) (tm : N) (u : update) : bool :=
  tuple_eqb t (u_data u) && N.eqb tm (u_time u).

Definition zsum (l : list Z) : Z := fold_right Z.add 0%Z l.

(* highest logical time at which the log mentions `t` *)
Fixpoint max_time (t : tuple) (l : list update) : option N :=
  match l with
  | [] => None
  | u :: r =>
      if same_data t u
      then match max_time t r with
           | Some m => Some (N.max (u_time u) m)
           | None => Some (u_time u)
           end
      else max_time t r
  end.

(* sum of the diffs the log holds for `t` at time `tm` *)
Definition sum_at (t : tuple) (tm : N) (l : list update) : Z :=
  zsum (map u_diff (filter (same_key t tm) l)).

(* sum of all diffs of `t` (what `consolidate_to_current` computes) *)
Definition sum_all (t : tuple) (l : list update) : Z :=
  zsum (map u_diff (filter (same_data t) l)).

(* `consolidate`: merge updates with equal (data, time) by summing diffs, drop zero sums.
   The code sorts by `Ord for Value` first; the model keeps first-appearance order instead and
   is used only through per-key sums, so any total order consistent with equality gives the
   same multiset of (data, time, sum). *)
Fixpoint add_diff (u : update) (acc : list update) : list update :=
  match acc with
  | [] => [u]
  | v :: r =>
      if same_key (u_data u) (u_time u) v
      then mkU (u_data v) (u_time v) (u_diff v + u_diff u) :: r
      else v :: add_diff u r
  end.

Definition merge_all (l : list update) : list update :=
  fold_left (fun acc u => add_diff u acc) l [].

Definition consolidate (l : list update) : list update :=
  filter (fun u => negb (Z.eqb (u_diff u) 0)) (merge_all l).

(* Recovery (repaired code, `replay_to_current`): a tuple is present iff the updates of its most
   recent logical time sum to a positive diff — i.e. its last logged operation was an insert. *)
Definition present (l : list update) (t : tuple) : bool :=
  match max_time t l with
  | Some tm => Z.ltb 0 (sum_at t tm l)
  | None => false
  end.

Definition recover (l : list update) : list tuple :=
  filter (present l) (dedup_tuples (map u_data l)).

(* Recovery as the pinned tree did it (`consolidate_to_current` + `to_tuples`):
   sum ALL diffs of a tuple, keep the positive ones.  Kept for the refutation lemmas. *)
Definition recover_sum (l : list update) : list tuple :=
  filter (fun t => Z.ltb 0 (sum_all t l)) (dedup_tuples (map u_data l)).

(* ---------------------------------------------------------------- engine state and steps *)

Record st := mkSt {
  live : list tuple;          (* input_tuples[relation] *)
  rel_arity : option nat;     (* arity recorded in KnowledgeGraphMetadata for the relation *)
  log : list update;          (* everything persisted for the shard *)
  clock : N                   (* StorageEngine::logical_time *)
}.

Definition st0 : st := mkSt [] None [] 1.

Inductive op :=
| OIns (ts : list tuple)
| ODel (ts : list tuple)
| OSave
| OCompact
| ORestart.

Inductive report :=
| RIns (new dup : N)
| RDel (n : N)
| RErr
| ROk.

Definition uniform_arity (a : nat) (ts : list tuple) : bool :=
  forallb (fun t => Nat.eqb (length t) a) ts.

Definition arity_of_first (ts : list tuple) : nat :=
  match ts with t :: _ => length t | [] => 0%nat end.

(* `insert_tuples_into`: empty batch is a no-op; arity checks come BEFORE anything is logged;
   then every requested tuple is logged with diff +1 at the op's logical time, and only
   afterwards the batch is applied in memory with set semantics. *)
Definition step_ins (s : st) (ts : list tuple) : st * report :=
  match ts with
  | [] => (s, RIns 0 0)
  | _ =>
      let a := arity_of_first ts in
      if negb (uniform_arity a ts) then (s, RErr)
      else if match rel_arity s with Some a' => negb (Nat.eqb a' a) | None => false end then (s, RErr)
      else
        let '(l', (n, d)) := ins_mem (live s) ts in
        (mkSt l' (Some a) (log s ++ map (fun t => mkU t (clock s) 1%Z) ts) (clock s + 1), RIns n d)
  end.

(* `delete_tuples_from`: same arity checks as insert (repaired code); then every requested tuple
   is logged with diff -1 and the batch is applied in memory *)
Definition step_del (s : st) (ts : list tuple) : st * report :=
  match ts with
  | [] => (s, RDel 0)
  | _ =>
      let a := arity_of_first ts in
      if negb (uniform_arity a ts) then (s, RErr)
      else if match rel_arity s with Some a' => negb (Nat.eqb a' a) | None => false end then (s, RErr)
      else
        let '(l', n) := del_mem (live s) ts in
        (mkSt l' (rel_arity s) (log s ++ map (fun t => mkU t (clock s) (-1)%Z) ts) (clock s + 1), RDel n)
  end.

(* clean restart: memory is rebuilt from the log; metadata exists only for non-empty relations.
   (The real clock restarts above every logged time; times are not observable, so the model
   simply keeps its clock.) *)
Definition step_restart (s : st) : st :=
  let l := recover (log s) in
  mkSt l (match l with t :: _ => Some (length t) | [] => None end) (log s) (clock s).

Definition step (s : st) (o : op) : st * report :=
  match o with
  | OIns ts => step_ins s ts
  | ODel ts => step_del s ts
  | OSave => (s, ROk)
  | OCompact => (mkSt (live s) (rel_arity s) (consolidate (log s)) (clock s), ROk)
  | ORestart => (step_restart s, ROk)
  end.

Definition run_from (s : st) (h : list op) : st := fold_left (fun s o => fst (step s o)) h s.
Definition run (h : list op) : st := run_from st0 h.

(* ---------------------------------------------------------------- set comparison *)
Definition incl_b (a b : list tuple) : bool := forallb (fun t => mem_tuple t b) a.
Definition set_eqb (a b : list tuple) : bool := incl_b a b && incl_b b a.
Fixpoint nodup_b (l : list tuple) : bool :=
  match l with [] => true | t :: r => negb (mem_tuple t r) && nodup_b r end.
