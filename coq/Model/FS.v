(* Model/FS.v — a POSIX-style crash model of a file system (properties C13, C16).

   Assumption about the operating system (DESIGN.md §6; the same model is implemented by
   tools/fsreplay.py, which reconstructs real directories from strace logs):
   - file DATA is durable only after fsync of that file; the not-yet-synced data operations of
     one file (truncate, append) reach the disk in order: a crash keeps a PREFIX of them, the
     last kept write possibly TORN after any number of elements;
   - directory operations (link = creation of a name, unlink, rename within the directory) are
     durable only after fsync of the directory; the pending operations of one directory reach
     the disk in order (a crash keeps a prefix of them);
   - different files and different directories are independent of each other.
   A file system is a total map from directory ids to directories; a directory owns its inodes
   (all renames in the modelled code stay inside one directory).  Executable definitions only. *)
From Coq Require Import List NArith Bool Arith.
Import ListNotations.

Section FS.
Context {A : Type}.                       (* element of file content: byte / token / record *)

Inductive pend := PTrunc | PWrite (bs : list A).
Record inode := mkInode { dur : list A; pends : list pend }.

Definition apply_pend (c : list A) (p : pend) : list A :=
  match p with PTrunc => [] | PWrite bs => c ++ bs end.

(* content seen by a running process *)
Definition vol (i : inode) : list A := fold_left apply_pend (pends i) (dur i).

(* content after a crash that kept the first [n] pending operations and [t] elements of the next write *)
Definition crash_content (n t : nat) (i : inode) : list A :=
  let base := fold_left apply_pend (firstn n (pends i)) (dur i) in
  match nth_error (pends i) n with
  | Some (PWrite bs) => base ++ firstn t bs
  | _ => base
  end.

Inductive dop := DLink (name : N) (ino : nat) | DUnlink (name : N) | DRename (src dst : N).

Definition dmap := N -> option nat.
Definition dm_set (m : dmap) (n : N) (v : option nat) : dmap := fun x => if N.eqb x n then v else m x.

Definition apply_dop (m : dmap) (o : dop) : dmap :=
  match o with
  | DLink n i => dm_set m n (Some i)
  | DUnlink n => dm_set m n None
  | DRename s t => match m s with
                   | Some i => dm_set (dm_set m s None) t (Some i)
                   | None => m
                   end
  end.

Record dir := mkDir { ino : nat -> inode; next : nat; dent : dmap; dpend : list dop }.

Definition empty_inode : inode := mkInode [] [].
Definition empty_dir : dir := mkDir (fun _ => empty_inode) 0 (fun _ => None) [].

Definition vdent (d : dir) : dmap := fold_left apply_dop (dpend d) (dent d).

Definition set_ino (d : dir) (i : nat) (x : inode) : dir :=
  mkDir (fun j => if Nat.eqb j i then x else ino d j) (next d) (dent d) (dpend d).

(* open(name, O_CREAT|O_TRUNC|O_WRONLY): truncate an existing file, or create a new one *)
Definition d_create (n : N) (d : dir) : dir :=
  match vdent d n with
  | Some i => set_ino d i (mkInode (dur (ino d i)) (pends (ino d i) ++ [PTrunc]))
  | None => mkDir (fun j => if Nat.eqb j (next d) then empty_inode else ino d j)
                  (S (next d)) (dent d) (dpend d ++ [DLink n (next d)])
  end.

(* open(name, O_CREAT|O_APPEND): create if missing, keep content otherwise *)
Definition d_open_append (n : N) (d : dir) : dir :=
  match vdent d n with
  | Some _ => d
  | None => mkDir (fun j => if Nat.eqb j (next d) then empty_inode else ino d j)
                  (S (next d)) (dent d) (dpend d ++ [DLink n (next d)])
  end.

Definition d_write (n : N) (bs : list A) (d : dir) : dir :=
  match vdent d n with
  | Some i => set_ino d i (mkInode (dur (ino d i)) (pends (ino d i) ++ [PWrite bs]))
  | None => d
  end.

Definition d_fsync (n : N) (d : dir) : dir :=
  match vdent d n with
  | Some i => set_ino d i (mkInode (vol (ino d i)) [])
  | None => d
  end.

Definition d_rename (s t : N) (d : dir) : dir := mkDir (ino d) (next d) (dent d) (dpend d ++ [DRename s t]).
Definition d_unlink (n : N) (d : dir) : dir := mkDir (ino d) (next d) (dent d) (dpend d ++ [DUnlink n]).
Definition d_fsync_dir (d : dir) : dir := mkDir (ino d) (next d) (vdent d) [].

(* what a running process reads *)
Definition d_read (d : dir) (n : N) : option (list A) :=
  match vdent d n with Some i => Some (vol (ino d i)) | None => None end.

(* A crash choice for one directory: how many pending directory operations survive, and for every
   inode how many pending data operations survive (+ elements of the torn write). *)
Definition dchoice := (nat * (nat -> nat * nat))%type.

Definition crash_dir (ch : dchoice) (d : dir) : dir :=
  mkDir (fun i => mkInode (crash_content (fst (snd ch i)) (snd (snd ch i)) (ino d i)) [])
        (next d)
        (fold_left apply_dop (firstn (fst ch) (dpend d)) (dent d))
        [].

(* ---- whole file system *)
Definition fsys := N -> dir.
Definition empty_fs : fsys := fun _ => empty_dir.
Definition fs_upd (f : fsys) (d : N) (x : dir) : fsys := fun e => if N.eqb e d then x else f e.
Definition crash_fs (ch : N -> dchoice) (f : fsys) : fsys := fun d => crash_dir (ch d) (f d).

(* micro-steps: at most one file-system mutation each *)
Inductive mstep :=
| MCreate (d n : N) | MOpenAppend (d n : N) | MWrite (d n : N) (bs : list A) | MFsync (d n : N)
| MRename (d s t : N) | MUnlink (d n : N) | MFsyncDir (d : N).

Definition step_dir (m : mstep) : N :=
  match m with
  | MCreate d _ | MOpenAppend d _ | MWrite d _ _ | MFsync d _ | MRename d _ _ | MUnlink d _ | MFsyncDir d => d
  end.

Definition step_on (m : mstep) (x : dir) : dir :=
  match m with
  | MCreate _ n => d_create n x
  | MOpenAppend _ n => d_open_append n x
  | MWrite _ n bs => d_write n bs x
  | MFsync _ n => d_fsync n x
  | MRename _ s t => d_rename s t x
  | MUnlink _ n => d_unlink n x
  | MFsyncDir _ => d_fsync_dir x
  end.

Definition exec_step (f : fsys) (m : mstep) : fsys := fs_upd f (step_dir m) (step_on m (f (step_dir m))).
Definition exec (ms : list mstep) (f : fsys) : fsys := fold_left exec_step ms f.

(* the abstract event a micro-step shows up as in a system-call trace *)
Inductive aev :=
| ECreate (d n : N) | EWrite (d n : N) | EFsync (d n : N) | ERename (d s t : N) | EUnlink (d n : N)
| EFsyncDir (d : N) | EAck | EOther (code : N).

Definition ev_of (m : mstep) : aev :=
  match m with
  | MCreate d n | MOpenAppend d n => ECreate d n
  | MWrite d n _ => EWrite d n
  | MFsync d n => EFsync d n
  | MRename d s t => ERename d s t
  | MUnlink d n => EUnlink d n
  | MFsyncDir d => EFsyncDir d
  end.

Definition aev_eqb (a b : aev) : bool :=
  match a, b with
  | ECreate d n, ECreate d' n' | EWrite d n, EWrite d' n' | EFsync d n, EFsync d' n'
  | EUnlink d n, EUnlink d' n' => N.eqb d d' && N.eqb n n'
  | ERename d s t, ERename d' s' t' => N.eqb d d' && N.eqb s s' && N.eqb t t'
  | EFsyncDir d, EFsyncDir d' => N.eqb d d'
  | EAck, EAck => true
  | EOther c, EOther c' => N.eqb c c'
  | _, _ => false
  end.

End FS.

Arguments pend : clear implicits.
Arguments inode : clear implicits.
Arguments dir : clear implicits.
Arguments fsys : clear implicits.
Arguments mstep : clear implicits.
