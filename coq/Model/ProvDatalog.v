(* Group E (C21-C23): a small Datalog with stratified negation and comparisons, used as
   the SPECIFICATION against which proof trees and why-not explanations of
   src/provenance/* are judged.  Executable definitions and the inductive specification
   `valid_proof` only; lemmas are in Proofs/ProvDatalog.v.

   Fragment: terms are variables or constants; literals are positive atoms, negated atoms
   and comparisons; values are the shared `value` type (the harness produces Int64 and
   String; Int32 is normalised to Int64 because `values_equal` in
   src/provenance/unification.rs identifies the two widths). *)
From IL Require Export Model.Value.
Open Scope N_scope.

Definition rel := N.
Definition var := N.

Inductive term := TVar (v : var) | TConst (c : value).
Record atom := mkAtom { arel : rel; aargs : list term }.
Inductive cmpop := CEq | CNe | CLt | CLe | CGt | CGe.
Inductive literal :=
| LPos (a : atom)
| LNeg (a : atom)
| LCmp (l : term) (o : cmpop) (r : term).
Record clause := mkClause { chead : atom; cbody : list literal }.
Definition program := list clause.

(* a database: relation id -> tuples; several entries for one relation are unioned *)
Definition db := list (rel * list tuple).

Definition rel_tuples (d : db) (r : rel) : list tuple :=
  flat_map (fun e => if N.eqb (fst e) r then snd e else []) d.
Definition in_rel (d : db) (r : rel) (t : tuple) : bool := mem_tuple t (rel_tuples d r).

(* ---- integer width normalisation (Int32 n ~ Int64 n) *)
Definition norm_value (v : value) : value := match v with VI32 z => VI64 z | _ => v end.
Definition norm_tuple (t : tuple) : tuple := map norm_value t.
Definition norm_db (d : db) : db := map (fun e => (fst e, map norm_tuple (snd e))) d.
Definition norm_term (t : term) : term := match t with TConst c => TConst (norm_value c) | _ => t end.
Definition norm_atom (a : atom) : atom := mkAtom (arel a) (map norm_term (aargs a)).
Definition norm_lit (l : literal) : literal :=
  match l with
  | LPos a => LPos (norm_atom a)
  | LNeg a => LNeg (norm_atom a)
  | LCmp x o y => LCmp (norm_term x) o (norm_term y)
  end.
Definition norm_clause (c : clause) : clause := mkClause (norm_atom (chead c)) (map norm_lit (cbody c)).
Definition norm_program (P : program) : program := map norm_clause P.

(* ---- valuations *)
Definition subst := list (var * value).
Fixpoint lookup (th : subst) (v : var) : option value :=
  match th with
  | [] => None
  | (w, x) :: r => if N.eqb w v then Some x else lookup r v
  end.
Definition term_val (th : subst) (t : term) : option value :=
  match t with TConst c => Some c | TVar v => lookup th v end.

Fixpoint opt_all {A} (l : list (option A)) : option (list A) :=
  match l with
  | [] => Some []
  | None :: _ => None
  | Some x :: r => match opt_all r with Some r' => Some (x :: r') | None => None end
  end.

(* an atom under a (partial) valuation: a pattern whose unbound positions keep their
   variable (`BoundTerm` of src/provenance/unification.rs) *)
Inductive pterm := PC (v : value) | PV (x : var).
Definition pattern := list pterm.
Definition term_pat (th : subst) (t : term) : pterm :=
  match t with
  | TConst c => PC c
  | TVar x => match lookup th x with Some v => PC v | None => PV x end
  end.
Definition atom_pat (th : subst) (a : atom) : pattern := map (term_pat th) (aargs a).
Definition atom_tuple (th : subst) (a : atom) : option tuple := opt_all (map (term_val th) (aargs a)).

(* a tuple against a pattern (`find_matching_tuples`): the bindings of the pattern's
   variables, a repeated variable must see equal values *)
Fixpoint match_pat (nb : subst) (p : pattern) (t : tuple) : option subst :=
  match p, t with
  | [], [] => Some nb
  | PC v :: p', x :: t' => if value_eqb v x then match_pat nb p' t' else None
  | PV y :: p', x :: t' =>
      match lookup nb y with
      | Some z => if value_eqb z x then match_pat nb p' t' else None
      | None => match_pat ((y, x) :: nb) p' t'
      end
  | _, _ => None
  end.
Definition pat_matches (p : pattern) (t : tuple) : bool :=
  match match_pat [] p t with Some _ => true | None => false end.
Definition concretes (p : pattern) : list value :=
  flat_map (fun q => match q with PC v => [v] | PV _ => [] end) p.
Definition pterm_eqb (a b : pterm) : bool :=
  match a, b with PC x, PC y => value_eqb x y | PV x, PV y => N.eqb x y | _, _ => false end.
Definition pat_eqb (a b : pattern) : bool := list_eqb pterm_eqb a b.
Definition opt_value_eqb (a b : option value) : bool :=
  match a, b with Some x, Some y => value_eqb x y | None, None => true | _, _ => false end.

(* the pattern p names the atom's argument t under (some of) the bindings th: a constant
   stays, a variable is either replaced by its binding or left in place *)
Definition pos_gen (th : subst) (t : term) (p : pterm) : bool :=
  match t, p with
  | TConst c, PC v => value_eqb c v
  | TVar x, PC v => opt_value_eqb (lookup th x) (Some v)
  | TVar x, PV y => N.eqb x y
  | TConst _, PV _ => false
  end.
Fixpoint pat_gen (th : subst) (args : list term) (p : pattern) : bool :=
  match args, p with
  | [], [] => true
  | t :: args', q :: p' => pos_gen th t q && pat_gen th args' p'
  | _, _ => false
  end.

(* ---- comparisons: `evaluate_comparison` on ints and strings *)
Definition as_int (v : value) : option Z :=
  match v with VI32 z => Some z | VI64 z => Some z | _ => None end.
Definition kind_rank (v : value) : N :=
  match v with
  | VNull => 0 | VBool _ => 1 | VI32 _ => 2 | VI64 _ => 2 | VF64 _ => 3
  | VTs _ => 4 | VStr _ => 5 | VVec _ => 6 | VVec8 _ => 7
  end.
Definition vcmp (a b : value) : comparison :=
  match as_int a, as_int b with
  | Some x, Some y => Z.compare x y
  | _, _ =>
      match a, b with
      | VStr x, VStr y => lex_cmp N.compare x y
      | _, _ => N.compare (kind_rank a) (kind_rank b)
      end
  end.
(* `values_equal`: cross-width integer equality, otherwise `==` *)
Definition veq (a b : value) : bool :=
  match as_int a, as_int b with
  | Some x, Some y => Z.eqb x y
  | _, _ => value_eqb a b
  end.
Definition cmp_eval (o : cmpop) (a b : value) : bool :=
  match o with
  | CEq => veq a b
  | CNe => negb (veq a b)
  | CLt => match vcmp a b with Lt => true | _ => false end
  | CLe => match vcmp a b with Gt => false | _ => true end
  | CGt => match vcmp a b with Gt => true | _ => false end
  | CGe => match vcmp a b with Lt => false | _ => true end
  end.
Definition cmp_ok (th : subst) (l : term) (o : cmpop) (r : term) : bool :=
  match term_val th l, term_val th r with
  | Some x, Some y => cmp_eval o x y
  | _, _ => false
  end.

(* ---- bottom-up reference evaluation *)
Fixpoint match_args (th : subst) (args : list term) (t : tuple) : option subst :=
  match args, t with
  | [], [] => Some th
  | TConst c :: args', x :: t' => if value_eqb c x then match_args th args' t' else None
  | TVar v :: args', x :: t' =>
      match lookup th v with
      | Some y => if value_eqb y x then match_args th args' t' else None
      | None => match_args ((v, x) :: th) args' t'
      end
  | _, _ => None
  end.

Definition pos_atoms (b : list literal) : list atom :=
  flat_map (fun l => match l with LPos a => [a] | _ => [] end) b.

(* all extensions of th that send every atom into L *)
Fixpoint sat_pos (L : db) (ats : list atom) (th : subst) : list subst :=
  match ats with
  | [] => [th]
  | a :: r =>
      flat_map (fun t => match match_args th (aargs a) t with
                         | Some th' => sat_pos L r th'
                         | None => []
                         end) (rel_tuples L (arel a))
  end.

(* negated atoms (existential reading of unbound positions) and comparisons, against M *)
Definition neg_ok (M : db) (th : subst) (a : atom) : bool :=
  negb (existsb (pat_matches (atom_pat th a)) (rel_tuples M (arel a))).
Definition side_ok (M : db) (th : subst) (l : literal) : bool :=
  match l with
  | LPos _ => true
  | LNeg a => neg_ok M th a
  | LCmp x o y => cmp_ok th x o y
  end.

(* valuations satisfying the clause body: positive atoms in L, negation against M *)
Definition clause_thetas (L M : db) (c : clause) : list subst :=
  filter (fun th => forallb (side_ok M th) (cbody c)) (sat_pos L (pos_atoms (cbody c)) []).
Definition clause_heads (L M : db) (c : clause) : list tuple :=
  flat_map (fun th => match atom_tuple th (chead c) with Some t => [t] | None => [] end)
           (clause_thetas L M c).

(* declarative reading of a clause body under a valuation (positive atoms in L, negation
   against M), and one-step derivability from a model *)
Definition lit_sat (L M : db) (s : subst) (l : literal) : Prop :=
  match l with
  | LPos a => exists tu, atom_tuple s a = Some tu /\ In tu (rel_tuples L (arel a))
  | LNeg a => forall tu, In tu (rel_tuples M (arel a)) -> pat_matches (atom_pat s a) tu = false
  | LCmp x o y => cmp_ok s x o y = true
  end.
Definition clause_derives (M : db) (c : clause) (t : tuple) : Prop :=
  exists s, Forall (lit_sat M M s) (cbody c) /\ atom_tuple s (chead c) = Some t.

Definition fresh_tuples (I : db) (r : rel) (ts : list tuple) : list tuple :=
  dedup_tuples (filter (fun t => negb (in_rel I r t)) ts).
Definition add_fresh (I : db) (r : rel) (ts : list tuple) : db :=
  match fresh_tuples I r ts with [] => I | new => I ++ [(r, new)] end.

Definition clauses_of (P : program) (r : rel) : list clause :=
  filter (fun c => N.eqb (arel (chead c)) r) P.

(* least fixpoint of the clauses of one relation over the lower layers (fuel-bounded) *)
Fixpoint lfp_rel (fuel : nat) (P : program) (r : rel) (I : db) : db :=
  match fuel with
  | O => I
  | S f =>
      match fresh_tuples I r (flat_map (clause_heads I I) (clauses_of P r)) with
      | [] => I
      | new => lfp_rel f P r (I ++ [(r, new)])
      end
  end.

(* the perfect model of a program layered by relation number *)
Definition perfect (fuel : nat) (P : program) (edb : db) (rels : list rel) : db :=
  fold_left (fun I r => lfp_rel fuel P r I) rels edb.

Definition rel_seq (n : nat) : list rel := map N.of_nat (seq 0 n).

(* Stored facts of a relation that also has rules (engine behaviour, src/lib.rs execution of
   rule heads): they are the implicit base of the relation only when EVERY clause of the
   relation is self-recursive; as soon as one clause is not, the rule results shadow the
   stored facts completely.  `eff_base` keeps the stored facts that are part of the relation. *)
Definition self_recursive (c : clause) : bool :=
  existsb (fun l => match l with LPos a => N.eqb (arel a) (arel (chead c)) | _ => false end) (cbody c).
Definition shadowed (P : program) (r : rel) : bool :=
  existsb (fun c => N.eqb (arel (chead c)) r && negb (self_recursive c)) P.
Definition eff_base (P : program) (base : db) : db :=
  map (fun e => if shadowed P (fst e) then (fst e, []) else e) base.

(* layering: positive dependencies on relations <= head, negative on relations < head *)
Definition lit_layered (h : rel) (l : literal) : bool :=
  match l with
  | LPos a => N.leb (arel a) h
  | LNeg a => N.ltb (arel a) h
  | LCmp _ _ _ => true
  end.
Definition well_layered (nrel : nat) (P : program) : bool :=
  forallb (fun c => N.ltb (arel (chead c)) (N.of_nat nrel) && forallb (lit_layered (arel (chead c))) (cbody c)) P.

(* every clause is closed in I (fuel was sufficient and I is a model) *)
Definition saturated (P : program) (I : db) : bool :=
  forallb (fun c => forallb (in_rel I (arel (chead c))) (clause_heads I I c)) P.

(* variables *)
Definition term_vars (t : term) : list var := match t with TVar v => [v] | TConst _ => [] end.
Definition atom_vars (a : atom) : list var := flat_map term_vars (aargs a).
Definition memN (x : N) (l : list N) : bool := existsb (N.eqb x) l.
Definition subsetN (a b : list N) : bool := forallb (fun x => memN x b) a.

(* safety: head, negation and comparison variables occur in a positive atom *)
Definition clause_safe (c : clause) : bool :=
  let pv := flat_map atom_vars (pos_atoms (cbody c)) in
  subsetN (atom_vars (chead c)) pv &&
  forallb (fun l => match l with
                    | LPos _ => true
                    | LNeg a => subsetN (atom_vars a) pv
                    | LCmp x _ y => subsetN (term_vars x ++ term_vars y) pv
                    end) (cbody c).

(* `bound_before_use`: scanning left to right with the head variables bound at the start
   (the backward chainer's discipline), every comparison and negated atom only mentions
   variables bound by an earlier positive atom or by the head *)
Fixpoint bbu_body (bound : list var) (b : list literal) : bool :=
  match b with
  | [] => true
  | LPos a :: r => bbu_body (atom_vars a ++ bound) r
  | LNeg a :: r => subsetN (atom_vars a) bound && bbu_body bound r
  | LCmp x _ y :: r => subsetN (term_vars x ++ term_vars y) bound && bbu_body bound r
  end.
Definition bound_before_use (c : clause) : bool := bbu_body (atom_vars (chead c)) (cbody c).

(* ---- derivation depth: level k = tuples with a derivation of height <= k+1,
   negation evaluated against the fixed model M *)
Definition level_step (P : program) (M L : db) : db :=
  fold_left (fun acc c => add_fresh acc (arel (chead c)) (clause_heads L M c)) P L.
Fixpoint level (P : program) (edb M : db) (k : nat) : db :=
  match k with O => edb | S k' => level_step P M (level P edb M k') end.

(* least k <= fuel with t in level k *)
Fixpoint depth_from (P : program) (M L : db) (fuel k : nat) (r : rel) (t : tuple) : option nat :=
  if in_rel L r t then Some k
  else match fuel with
       | O => None
       | S f => depth_from P M (level_step P M L) f (S k) r t
       end.
Definition depth_of (P : program) (edb M : db) (fuel : nat) (r : rel) (t : tuple) : option nat :=
  depth_from P M edb fuel 0 r t.

(* ---- proof trees (the DAG of src/provenance/proof_tree.rs unfolded from its root) *)
Inductive ptree :=
| PFact (derived : bool) (r : rel) (t : tuple)            (* NodeKind::Fact, source Edb / Derived *)
| PRule (r : rel) (t : tuple) (ci : nat) (th : subst) (kids : list ptree)
                                                          (* NodeKind::Rule: clause index, bindings *)
| PNeg (r : rel) (pat : pattern) (args : list value)      (* NodeKind::Negation: pattern, concrete args *)
| PTrunc (r : rel) (t : tuple)                            (* NodeKind::Truncated *)
| POther.                                                 (* aggregate / vector / why_not / dangling id *)

Definition concl (t : ptree) : option (rel * tuple) :=
  match t with
  | PFact _ r tu => Some (r, tu)
  | PRule r tu _ _ _ => Some (r, tu)
  | PTrunc r tu => Some (r, tu)
  | _ => None
  end.

Fixpoint height (t : ptree) : nat :=
  match t with
  | PRule _ _ _ _ kids => S (fold_right (fun k m => Nat.max (height k) m) O kids)
  | _ => 1
  end.

(* no hole anywhere: no Truncated node, no Derived-source leaf, no foreign node *)
Fixpoint complete (t : ptree) : bool :=
  match t with
  | PFact d _ _ => negb d
  | PRule _ _ _ _ kids => forallb complete kids
  | PNeg _ _ _ => true
  | PTrunc _ _ => false
  | POther => false
  end.

(* C22's notion of "explained" (the property's wording): the root is not the Truncated
   fallback and no leaf is a Derived-source fallback; `complete` above is stronger *)
Fixpoint no_fallback_leaf (t : ptree) : bool :=
  match t with
  | PFact d _ _ => negb d
  | PRule _ _ _ _ kids => forallb no_fallback_leaf kids
  | POther => false
  | _ => true
  end.
Definition explained (t : ptree) : bool :=
  match t with PTrunc _ _ => false | _ => no_fallback_leaf t end.

Definition norm_pattern (p : pattern) : pattern :=
  map (fun q => match q with PC v => PC (norm_value v) | PV x => PV x end) p.

Fixpoint norm_ptree (t : ptree) : ptree :=
  match t with
  | PFact d r tu => PFact d r (norm_tuple tu)
  | PRule r tu ci th kids =>
      PRule r (norm_tuple tu) ci (map (fun b => (fst b, norm_value (snd b))) th) (map norm_ptree kids)
  | PNeg r pat args => PNeg r (norm_pattern pat) (map norm_value args)
  | PTrunc r tu => PTrunc r (norm_tuple tu)
  | POther => POther
  end.

(* leading comparisons of a body must hold; returns the rest (empty or starting with an atom) *)
Fixpoint strip_cmps (th : subst) (ls : list literal) : option (list literal) :=
  match ls with
  | LCmp l o r :: ls' => if cmp_ok th l o r then strip_cmps th ls' else None
  | _ => Some ls
  end.

Section Spec.
  (* lenient = true: a Truncated node or a Derived-source leaf is tolerated as an honest
     hole provided its conclusion is in the model (C21 judges the steps that are there);
     lenient = false: no holes (C22) *)
  Variable lenient : bool.
  Variable P : program.
  Variable edb : db.     (* stored facts *)
  Variable M : db.       (* the perfect model (stored and derived facts) *)

  (* ---- the specification *)
  Inductive valid_proof : ptree -> Prop :=
  | V_fact r tu :
      In tu (rel_tuples edb r) -> valid_proof (PFact false r tu)
  | V_hole_derived r tu :
      lenient = true -> In tu (rel_tuples M r) -> valid_proof (PFact true r tu)
  | V_hole_trunc r tu :
      lenient = true -> In tu (rel_tuples M r) -> valid_proof (PTrunc r tu)
  | V_rule r tu ci th kids c :
      nth_error P ci = Some c ->                (* a real clause *)
      arel (chead c) = r ->
      atom_tuple th (chead c) = Some tu ->      (* the bindings make the head the conclusion *)
      valid_body th (cbody c) kids ->
      valid_proof (PRule r tu ci th kids)
  with valid_body : subst -> list literal -> list ptree -> Prop :=
  | B_nil th : valid_body th [] []
  | B_pos th a ls k ks tu :                     (* positive atom = conclusion of the next child *)
      atom_tuple th a = Some tu -> concl k = Some (arel a, tu) -> valid_proof k ->
      valid_body th ls ks -> valid_body th (LPos a :: ls) (k :: ks)
  | B_neg th a ls ks pat :                      (* negation leaf: names the negated atom under (some of)
                                                   the bindings; the pattern matches no fact of the model *)
      pat_gen th (aargs a) pat = true ->
      (forall tu, In tu (rel_tuples M (arel a)) -> pat_matches pat tu = false) ->
      valid_body th ls ks ->
      valid_body th (LNeg a :: ls) (PNeg (arel a) pat (concretes pat) :: ks)
  | B_cmp th l o r ls ks x y :                  (* comparisons hold, no child *)
      term_val th l = Some x -> term_val th r = Some y -> cmp_eval o x y = true ->
      valid_body th ls ks -> valid_body th (LCmp l o r :: ls) ks.

  (* ---- the checker *)
  Definition neg_leaf_ok (th : subst) (a : atom) (k : ptree) : bool :=
    match k with
    | PNeg r pat args =>
        N.eqb r (arel a) && pat_gen th (aargs a) pat &&
        list_eqb value_eqb args (concretes pat) &&
        negb (existsb (pat_matches pat) (rel_tuples M r))
    | _ => false
    end.
  Definition pos_kid_ok (th : subst) (a : atom) (k : ptree) : bool :=
    match atom_tuple th a, concl k with
    | Some tu, Some (r, tu') => N.eqb r (arel a) && tuple_eqb tu tu'
    | _, _ => false
    end.

  Definition check_body (chk : ptree -> bool) (th : subst) : list ptree -> list literal -> bool :=
    fix go (ks : list ptree) (ls : list literal) {struct ks} : bool :=
    match strip_cmps th ls with
    | None => false
    | Some [] => match ks with [] => true | _ :: _ => false end
    | Some (LPos a :: ls') =>
        match ks with
        | k :: ks' => pos_kid_ok th a k && chk k && go ks' ls'
        | [] => false
        end
    | Some (LNeg a :: ls') =>
        match ks with
        | k :: ks' => neg_leaf_ok th a k && go ks' ls'
        | [] => false
        end
    | Some (LCmp _ _ _ :: _) => false
    end.

  Fixpoint check_proof (t : ptree) : bool :=
    match t with
    | PFact false r tu => in_rel edb r tu
    | PFact true r tu => lenient && in_rel M r tu
    | PTrunc r tu => lenient && in_rel M r tu
    | PNeg _ _ _ => false
    | POther => false
    | PRule r tu ci th kids =>
        match nth_error P ci with
        | None => false
        | Some c =>
            N.eqb (arel (chead c)) r &&
            match atom_tuple th (chead c) with Some hu => tuple_eqb hu tu | None => false end &&
            check_body check_proof th kids (cbody c)
        end
    end.
End Spec.

(* root concludes the queried tuple *)
Definition concludes (t : ptree) (r : rel) (tu : tuple) : bool :=
  match concl t with Some (r', tu') => N.eqb r r' && tuple_eqb tu tu' | None => false end.
