(* Generic interleaving model for the schedule properties (C15, C17, C19, C20).
   A system is a global state G, one local state L per thread, and a total function
   `step t l g` that runs thread number t from its current scheduling point to its next one
   (one atomic section of the code: the span between two `sched_point` hooks, which is either
   lock-free or exactly one lock scope).  A thread that is finished or blocked stutters.
   A schedule is a list of thread numbers; there is no bound on threads or operations.
   Executable definitions only. *)
From Coq Require Export List NArith Bool Lia.
Export ListNotations.

Section Sched.
  Context {G L : Type}.
  Variable step : nat -> L -> G -> L * G.

  Fixpoint upd (ls : list L) (t : nat) (l : L) : list L :=
    match ls, t with
    | [], _ => []
    | _ :: r, O => l :: r
    | x :: r, S t' => x :: upd r t' l
    end.

  Fixpoint run_sched (sched : list nat) (ls : list L) (g : G) : list L * G :=
    match sched with
    | [] => (ls, g)
    | t :: r =>
        match nth_error ls t with
        | None => run_sched r ls g
        | Some l => let '(l', g') := step t l g in run_sched r (upd ls t l') g'
        end
    end.
End Sched.

(* small executable helpers shared by the instances *)
Definition count_N (x : N) (l : list N) : nat := length (filter (N.eqb x) l).
Definition perm_Nb (a b : list N) : bool :=
  forallb (fun x => Nat.eqb (count_N x a) (count_N x b)) (a ++ b).
Definition subset_Nb (a b : list N) : bool := forallb (fun x => existsb (N.eqb x) b) a.
Fixpoint seq_nat (n : nat) : list nat := match n with O => [O] | S k => seq_nat k ++ [n] end.
