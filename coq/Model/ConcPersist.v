(* C15 — model of the write path down to the persist layer for one knowledge graph
   (src/storage_engine/mod.rs: insert_tuples_into, delete_tuples_from, save_knowledge_graph,
   compact_all; src/storage/persist/mod.rs: FilePersist::ensure_shard, append, flush, compact;
   src/storage/persist/wal.rs: append_batch, remove_shard_entries; recovery = FilePersist::new
   (WAL replay + flush) followed by load_knowledge_graph_from_persist with replay_to_current).
   A shard is a relation (numbers), tuples are interned to numbers.
   Atomic sections (one `pstep` each) and the hook label the thread parks at afterwards:
     insert/delete: [view/arity checks; dropping guard; time := fetch_add(clock)]  -> 1 se:*:after_time
                    [ensure_shard; WAL lock: append lines + fsync]                  -> 2 persist:append:after_wal
                      (pinned tree only; with the fix this and the next section are one)
                    [shards lock: buffer push, upper]  (buffer full ->  7 persist:flush:entry)
                                                                                    -> 3 se:*:after_persist
                    [release guard]                                                 -> 4 se:*:before_kg_lock
                    [KG write lock: set-semantics apply, publish; return = ack]     -> next op
     flush:         [shards lock held throughout: batch write, meta save, buffer clear,
                     WAL lock: rewrite without the shard's lines]                   (one section)
     save (flush op): [list shards] -> 7 persist:flush:entry ; [flush; sync] -> next op
     compact op:      [list shards] -> 7 ; [flush] -> 8 persist:compact:after_flush ;
                      [consolidate batches, meta save, unlink old; sync] -> next op
   The disk is (batches, wal); a crash keeps exactly that (Immediate durability: every WAL append
   is fsynced inside its section; files written by flush are fsynced before the metadata rename).
   Ghost fields: `persisted` (every update ever appended to the WAL), `windowed` (a flush rewrote
   the WAL while it held a line of the shard that was not yet in the buffer), `inverted` (an
   operation was applied after one with a later logical time on a common tuple), `lasttime`.
   Executable definitions only. *)
From Coq Require Export ZArith.
From IL Require Export Model.Conc.
Open Scope N_scope.

Record wupd := mkUpd { u_shard : N; u_tuple : N; u_time : nat; u_ins : bool; u_op : N; u_idx : nat }.
Definition upd_eqb (a b : wupd) : bool :=
  N.eqb (u_shard a) (u_shard b) && N.eqb (u_tuple a) (u_tuple b) && Nat.eqb (u_time a) (u_time b)
  && Bool.eqb (u_ins a) (u_ins b) && N.eqb (u_op a) (u_op b) && Nat.eqb (u_idx a) (u_idx b).
Definition mem_upd (u : wupd) (l : list wupd) : bool := existsb (upd_eqb u) l.

Definition pfact := (N * N)%type.                       (* shard, tuple *)
Definition pfact_eqb (a b : pfact) : bool := N.eqb (fst a) (fst b) && N.eqb (snd a) (snd b).

Inductive pop :=
| PIns (id shard : N) (ts : list N)
| PDel (id shard : N) (ts : list N)
| PFlush (id shard : N)
| PCompact (id shard : N).
Definition pop_id (o : pop) : N :=
  match o with PIns i _ _ | PDel i _ _ | PFlush i _ | PCompact i _ => i end.

Record gP := mkGP {
  clock : nat;
  wal : list wupd;
  bufs : list wupd;
  batches : list wupd;
  known : list N;                       (* shards that exist in the shard map *)
  liveP : list pfact;                   (* the engine's relations *)
  applied : list pop;                   (* data operations in apply order *)
  ackedP : list N;
  persisted : list wupd;                (* ghost: every update ever appended to the WAL *)
  acked_upds : list wupd;               (* ghost: the updates of acknowledged operations *)
  windowed : bool;                      (* ghost *)
  inverted : bool;                      (* ghost *)
  lasttime : list (pfact * nat) }.      (* ghost: logical time of the last applied op per tuple *)

Inductive pres := PRIns (new dup : N) | PRDel (n : N) | PRDone.
Record lP := mkLP { ppc : nat; ptodo : list pop; mytime : nat; presults : list (N * pres) }.
Definition pinit_l (p : list pop) : lP := mkLP 0 p 0 [].
Definition pinit_g : gP := mkGP 1 [] [] [] [] [] [] [] [] [] false false [].

Definition pfinish (l : lP) (rest : list pop) (id : N) (r : pres) : lP :=
  mkLP 0 rest (mytime l) (presults l ++ [(id, r)]).
Definition pgoto (l : lP) (pc : nat) : lP := mkLP pc (ptodo l) (mytime l) (presults l).

Fixpoint mk_updates (s : N) (ts : list N) (time : nat) (ins : bool) (op : N) (i : nat) : list wupd :=
  match ts with
  | [] => []
  | x :: r => mkUpd s x time ins op i :: mk_updates s r time ins op (S i)
  end.

Definition of_shard (s : N) (u : wupd) : bool := N.eqb (u_shard u) s.
Definition not_shard (s : N) (u : wupd) : bool := negb (N.eqb (u_shard u) s).

(* FilePersist::flush *)
Definition flush_section (s : N) (g : gP) : gP :=
  let b := filter (of_shard s) (bufs g) in
  match b with
  | [] => g
  | _ =>
      let stray := existsb (fun u => of_shard s u && negb (mem_upd u b)) (wal g) in
      mkGP (clock g) (filter (not_shard s) (wal g)) (filter (not_shard s) (bufs g))
           (batches g ++ b) (known g) (liveP g) (applied g) (ackedP g) (persisted g) (acked_upds g)
           (windowed g || stray) (inverted g) (lasttime g)
  end.

Definition facts_insP (s : N) (ts : list N) (fs : list pfact) : list pfact :=
  fold_left (fun acc x => if existsb (pfact_eqb (s, x)) acc then acc else acc ++ [(s, x)]) ts fs.
Definition facts_delP (s : N) (ts : list N) (fs : list pfact) : list pfact :=
  filter (fun f => negb (N.eqb (fst f) s && existsb (N.eqb (snd f)) ts)) fs.

Definition last_of (f : pfact) (lt : list (pfact * nat)) : nat :=
  match find (fun e => pfact_eqb (fst e) f) lt with Some e => snd e | None => O end.
Definition set_last (f : pfact) (t : nat) (lt : list (pfact * nat)) : list (pfact * nat) :=
  (f, t) :: filter (fun e => negb (pfact_eqb (fst e) f)) lt.

Definition apply_section (g : gP) (o : pop) (id s : N) (ts : list N) (ins : bool) (time : nat) : gP * pres :=
  let f' := if ins then facts_insP s ts (liveP g) else facts_delP s ts (liveP g) in
  let r := if ins
           then let new := N.of_nat (length f' - length (liveP g)) in PRIns new (N.of_nat (length ts) - new)
           else PRDel (N.of_nat (length (liveP g) - length f')) in
  let inv := existsb (fun x => Nat.ltb time (last_of (s, x) (lasttime g))) ts in
  let lt' := fold_left (fun acc x => set_last (s, x) (Nat.max time (last_of (s, x) acc)) acc) ts (lasttime g) in
  (mkGP (clock g) (wal g) (bufs g) (batches g) (known g) f' (applied g ++ [o]) (ackedP g ++ [id])
        (persisted g) (acked_upds g ++ mk_updates s ts time ins id 0)
        (windowed g) (inverted g || inv) lt', r).

(* `bsz` = persist.buffer_size (0 = never flush from append) *)
Definition buffer_full (bsz : nat) (s : N) (b : list wupd) : bool :=
  match bsz with O => false | _ => Nat.leb bsz (length (filter (of_shard s) b)) end.

(* `fx` = with the `fix:` commit that keeps the shard map lock from the WAL append to the buffer
   push (then `persist:append:after_wal` lies inside a lock scope and is not a parking point) *)
Definition pstep (fx : bool) (bsz : nat) (t : nat) (l : lP) (g : gP) : lP * gP :=
  match ptodo l with
  | [] => (l, g)
  | o :: rest =>
      match o with
      | PIns id s ts | PDel id s ts =>
          let ins := match o with PIns _ _ _ => true | _ => false end in
          match ppc l with
          | O => (mkLP 1 (ptodo l) (clock g) (presults l),
                  mkGP (S (clock g)) (wal g) (bufs g) (batches g) (known g) (liveP g) (applied g)
                       (ackedP g) (persisted g) (acked_upds g) (windowed g) (inverted g) (lasttime g))
          | 1%nat =>
              let us := mk_updates s ts (mytime l) ins id 0 in
              let known' := if existsb (N.eqb s) (known g) then known g else known g ++ [s] in
              if fx then
                (* with the fix: WAL append and buffer push in one shard-map lock scope *)
                let bufs' := bufs g ++ us in
                (pgoto l (if buffer_full bsz s bufs' then 3 else 4),
                 mkGP (clock g) (wal g ++ us) bufs' (batches g) known'
                      (liveP g) (applied g) (ackedP g) (persisted g ++ us) (acked_upds g)
                      (windowed g) (inverted g) (lasttime g))
              else
                (pgoto l 2,
                 mkGP (clock g) (wal g ++ us) (bufs g) (batches g) known'
                      (liveP g) (applied g) (ackedP g) (persisted g ++ us) (acked_upds g)
                      (windowed g) (inverted g) (lasttime g))
          | 2%nat =>
              let us := mk_updates s ts (mytime l) ins id 0 in
              let bufs' := bufs g ++ us in
              (pgoto l (if buffer_full bsz s bufs' then 3 else 4),
               mkGP (clock g) (wal g) bufs' (batches g) (known g) (liveP g) (applied g) (ackedP g)
                    (persisted g) (acked_upds g) (windowed g) (inverted g) (lasttime g))
          | 3%nat => (pgoto l 4, flush_section s g)
          | 4%nat => (pgoto l 5, g)
          | _ => let '(g', r) := apply_section g o id s ts ins (mytime l) in (pfinish l rest id r, g')
          end
      | PFlush id s =>
          match ppc l with
          | O => if existsb (N.eqb s) (known g) then (pgoto l 1, g) else (pfinish l rest id PRDone, g)
          | _ => (pfinish l rest id PRDone, flush_section s g)
          end
      | PCompact id s =>
          match ppc l with
          | O => if existsb (N.eqb s) (known g) then (pgoto l 1, g) else (pfinish l rest id PRDone, g)
          | 1%nat => (pgoto l 2, flush_section s g)
          | _ => (pfinish l rest id PRDone, g)      (* consolidation keeps the replayed content *)
          end
      end
  end.

Definition plabel (l : lP) : N :=
  match ptodo l with
  | [] => 9
  | o :: _ =>
      match o, ppc l with
      | _, O => 0
      | (PIns _ _ _ | PDel _ _ _), 1%nat => 1
      | (PIns _ _ _ | PDel _ _ _), 2%nat => 2
      | (PIns _ _ _ | PDel _ _ _), 3%nat => 7
      | (PIns _ _ _ | PDel _ _ _), 4%nat => 3
      | (PIns _ _ _ | PDel _ _ _), _ => 4
      | PFlush _ _, _ => 7
      | PCompact _ _, 1%nat => 7
      | PCompact _ _, _ => 8
      end
  end.

(* ---- recovery: replay_to_current over everything durable *)
Definition disk (g : gP) : list wupd := batches g ++ wal g.

Definition touches (f : pfact) (u : wupd) : bool := N.eqb (u_shard u) (fst f) && N.eqb (u_tuple u) (snd f).
Definition max_time (f : pfact) (log : list wupd) : nat :=
  fold_left (fun m u => if touches f u then Nat.max m (u_time u) else m) log O.
Definition net_at (f : pfact) (t : nat) (log : list wupd) : Z :=
  fold_left (fun (z : Z) u => if touches f u && Nat.eqb (u_time u) t
                              then (if u_ins u then (z + 1)%Z else (z - 1)%Z) else z) log 0%Z.
Definition present (log : list wupd) (f : pfact) : bool := Z.ltb 0 (net_at f (max_time f log) log).

Fixpoint dedup_pf (l : list pfact) : list pfact :=
  match l with
  | [] => []
  | x :: r => if existsb (pfact_eqb x) r then dedup_pf r else x :: dedup_pf r
  end.
Definition recover (log : list wupd) : list pfact :=
  filter (present log) (dedup_pf (map (fun u => (u_shard u, u_tuple u)) log)).

Definition same_pfacts (a b : list pfact) : bool :=
  Nat.eqb (length a) (length b)
  && forallb (fun f => existsb (pfact_eqb f) b) a && forallb (fun f => existsb (pfact_eqb f) a) b.

(* SPECIFICATION: the effect of one whole data operation *)
Definition papply (fs : list pfact) (o : pop) : list pfact :=
  match o with
  | PIns _ s ts => facts_insP s ts fs
  | PDel _ s ts => facts_delP s ts fs
  | _ => fs
  end.
Definition pstate_after (ops : list pop) : list pfact := fold_left papply ops [].
