(* Model of src/bloom_filter.rs (BloomFilter) and src/hash_index.rs (HashIndex).
   The bit array Vec<u64> is one N: bit i of the array is `N.testbit arr i`
   (word i/64, offset i mod 64).  Hash values are inputs: `hash_pair` is SipHash
   through DefaultHasher and is not modelled; every theorem holds for every hash. *)
From IL Require Export Model.Value.
Open Scope N_scope.

Record bloom := { nbits : N; nhash : nat; arr : N; cnt : N }.

Definition clampN (x lo hi : N) : N := N.min (N.max x lo) hi.

(* BloomFilter::with_params *)
Definition with_params (num_bits num_hashes : N) : bloom :=
  let words := (N.max num_bits 64 + 63) / 64 in
  {| nbits := words * 64; nhash := N.to_nat (clampN num_hashes 1 32); arr := 0; cnt := 0 |}.

Definition two64 : N := 2 ^ 64.

(* get_bit_index: (h1.wrapping_add((i as u64).wrapping_mul(h2)) % num_bits *)
Definition bit_index (m h1 h2 i : N) : N :=
  ((h1 + (i * h2) mod two64) mod two64) mod m.

Definition indices (b : bloom) (h1 h2 : N) : list N :=
  map (fun i => bit_index (nbits b) h1 h2 (N.of_nat i)) (seq 0 (nhash b)).

Definition bloom_insert (b : bloom) (h1 h2 : N) : bloom :=
  {| nbits := nbits b; nhash := nhash b;
     arr := fold_left N.setbit (indices b h1 h2) (arr b);
     cnt := cnt b + 1 |}.

Definition might_contain (b : bloom) (h1 h2 : N) : bool :=
  forallb (N.testbit (arr b)) (indices b h1 h2).

Definition bloom_clear (b : bloom) : bloom :=
  {| nbits := nbits b; nhash := nhash b; arr := 0; cnt := 0 |}.

Inductive bop := BIns (h1 h2 : N) | BClear.

Definition bstep (b : bloom) (o : bop) : bloom :=
  match o with BIns h1 h2 => bloom_insert b h1 h2 | BClear => bloom_clear b end.

Definition brun (b : bloom) (ops : list bop) : bloom := fold_left bstep ops b.

(* keys inserted since the last clear, starting from `acc` *)
Fixpoint live_keys (acc : list (N * N)) (ops : list bop) : list (N * N) :=
  match ops with
  | [] => acc
  | BIns h1 h2 :: r => live_keys ((h1, h2) :: acc) r
  | BClear :: r => live_keys [] r
  end.

(* ------------------------------------------------------------------ HashIndex *)
Definition project (t : tuple) (cols : list nat) : tuple :=
  flat_map (fun i => match nth_error t i with Some v => [v] | None => [] end) cols.

Record hidx := { keycols : list nat; entries : list (tuple * list tuple); hbloom : bloom }.

Fixpoint e_lookup (k : tuple) (es : list (tuple * list tuple)) : option (list tuple) :=
  match es with
  | [] => None
  | (k', ts) :: r => if tuple_eqb k k' then Some ts else e_lookup k r
  end.

Fixpoint e_push (k : tuple) (t : tuple) (es : list (tuple * list tuple)) : list (tuple * list tuple) :=
  match es with
  | [] => [(k, [t])]
  | (k', ts) :: r => if tuple_eqb k k' then (k', ts ++ [t]) :: r else (k', ts) :: e_push k t r
  end.

(* remove the first occurrence of t *)
Fixpoint remove_first (t : tuple) (ts : list tuple) : option (list tuple) :=
  match ts with
  | [] => None
  | x :: r => if tuple_eqb x t then Some r
              else match remove_first t r with Some r' => Some (x :: r') | None => None end
  end.

Fixpoint e_remove (k t : tuple) (es : list (tuple * list tuple)) : option (list (tuple * list tuple)) :=
  match es with
  | [] => None
  | (k', ts) :: r =>
      if tuple_eqb k k' then
        match remove_first t ts with
        | Some [] => Some r
        | Some ts' => Some ((k', ts') :: r)
        | None => None
        end
      else match e_remove k t r with Some r' => Some ((k', ts) :: r') | None => None end
  end.

Section WithHash.
  Variable hf : tuple -> N * N.        (* BloomFilter::hash_pair on a key tuple *)

  Definition hi_insert (h : hidx) (t : tuple) : hidx :=
    let k := project t (keycols h) in
    {| keycols := keycols h;
       entries := e_push k t (entries h);
       hbloom := bloom_insert (hbloom h) (fst (hf k)) (snd (hf k)) |}.

  Definition hi_remove (h : hidx) (t : tuple) : hidx * bool :=
    let k := project t (keycols h) in
    match e_remove k t (entries h) with
    | Some es => ({| keycols := keycols h; entries := es; hbloom := hbloom h |}, true)
    | None => (h, false)
    end.

  Definition hi_build (h : hidx) (ts : list tuple) : hidx :=
    fold_left hi_insert ts
      {| keycols := keycols h; entries := []; hbloom := bloom_clear (hbloom h) |}.

  Definition hi_get_with_bloom (h : hidx) (k : tuple) : option (list tuple) :=
    if might_contain (hbloom h) (fst (hf k)) (snd (hf k)) then e_lookup k (entries h) else None.

  Inductive hop := HIns (t : tuple) | HRem (t : tuple) | HBuild (ts : list tuple).

  Definition hstep (h : hidx) (o : hop) : hidx :=
    match o with
    | HIns t => hi_insert h t
    | HRem t => fst (hi_remove h t)
    | HBuild ts => hi_build h ts
    end.

  Definition hrun (h : hidx) (ops : list hop) : hidx := fold_left hstep ops h.

  (* ---- the specification: the multiset of stored tuples as a plain list *)
  Definition sstep (s : list tuple) (o : hop) : list tuple :=
    match o with
    | HIns t => s ++ [t]
    | HRem t => match remove_first t s with Some s' => s' | None => s end
    | HBuild ts => ts
    end.
  Definition srun (s : list tuple) (ops : list hop) : list tuple := fold_left sstep ops s.

  (* stored tuples whose key columns equal the probe key, in insertion order *)
  Definition spec_lookup (cols : list nat) (s : list tuple) (k : tuple) : list tuple :=
    filter (fun t => tuple_eqb k (project t cols)) s.
End WithHash.

Definition opt_list {A} (o : option (list A)) : list A := match o with Some l => l | None => [] end.
