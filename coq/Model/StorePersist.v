(* Physical layout of one shard in `FilePersist` (src/storage/persist/mod.rs) under a persist
   configuration: WAL entries, in-memory buffer, batch files; buffer-full flush, WAL-size flush_all,
   `save_all` (flush), `compact_all` (flush + consolidate all batches into one), graceful shutdown
   (`Handler::shutdown` = save_all) + reopen, and drop + reopen without a save (WAL replay).
   The logical part of every operation (arity checks, set semantics, reports, clock) is
   Model/Store.v's `step`; this file adds WHERE the logged updates live.
   Executable definitions only. *)
From IL Require Export Model.Value Model.Store.
Open Scope N_scope.

Inductive dmode := DImmediate | DBatched | DAsync.
Record pcfg := mkCfg { buffer_size : N; max_wal : N (* bytes, 0 = unlimited *); dur : dmode }.

Record pst := mkP {
  batches : list (list update);   (* batch files of the shard, oldest first *)
  buf : list update;              (* ShardState.buffer *)
  wal : list update               (* the shard's entries in current.wal *)
}.
Definition p0 : pst := mkP [] [] [].

(* `FilePersist::read(shard, 0)`: all batches, then the buffer *)
Definition log_of (p : pst) : list update := concat (batches p) ++ buf p.

(* `flush`: buffer -> new batch file, then the shard's WAL entries are removed *)
Definition flush (p : pst) : pst :=
  match buf p with
  | [] => p
  | _ => mkP (batches p ++ [buf p]) [] []
  end.

(* `wal.file_size() > max_wal_size_bytes`.  A WAL line (crc + JSON of shard name and update) is
   longer than 64 bytes; the model is exact for limits below 64 bytes and for limits no WAL of a
   run reaches.  In batched mode the lines sit in an 8 KB user-space buffer, so the FILE size stays 0
   for the small WALs of a run and the size trigger does not fire; in async mode there is no WAL. *)
Definition wal_over (c : pcfg) (w : list update) : bool :=
  match dur c with
  | DImmediate => negb (N.eqb (max_wal c) 0) && N.ltb (max_wal c) (64 * N.of_nat (length w))
  | _ => false
  end.

(* `append`: WAL (unless async), buffer, then buffer-full flush, else WAL-size flush_all *)
Definition append (c : pcfg) (p : pst) (us : list update) : pst :=
  match us with
  | [] => p
  | _ =>
      let w := match dur c with DAsync => wal p | _ => wal p ++ us end in
      let p1 := mkP (batches p) (buf p ++ us) w in
      if N.leb (buffer_size c) (N.of_nat (length (buf p1))) then flush p1
      else if wal_over c w then flush p1
      else p1
  end.

(* `compact(shard, 0)`: flush, read all batches, consolidate, write ONE batch (none if empty) *)
Definition compact (p : pst) : pst :=
  let p1 := flush p in
  let f := consolidate (concat (batches p1)) in
  mkP (match f with [] => [] | _ => [f] end) [] (wal p1).

(* `FilePersist::new` on an existing directory: batches as referenced by the metadata, the WAL is
   replayed into the buffer and flushed at once *)
Definition reopen (p : pst) : pst := flush (mkP (batches p) (wal p) (wal p)).

Record fst_ := mkF { f_live : list tuple; f_arity : option nat; f_p : pst; f_clock : N }.
Definition f0 : fst_ := mkF [] None p0 1.

Definition abs (s : fst_) : st := mkSt (f_live s) (f_arity s) (log_of (f_p s)) (f_clock s).

Inductive pop :=
| PIns (ts : list tuple)
| PDel (ts : list tuple)
| PSave                 (* StorageEngine::save_all *)
| PCompact              (* StorageEngine::compact_all *)
| PRestart              (* graceful shutdown (save_all) + drop + StorageEngine::new *)
| PDropReopen.          (* drop + StorageEngine::new, nothing saved first *)

Definition abs_op (o : pop) : op :=
  match o with
  | PIns ts => OIns ts | PDel ts => ODel ts | PSave => OSave | PCompact => OCompact
  | PRestart => ORestart | PDropReopen => ORestart
  end.

Definition logged (o : pop) (c : N) : list update :=
  match o with
  | PIns ts => map (fun t => mkU t c 1%Z) ts
  | PDel ts => map (fun t => mkU t c (-1)%Z) ts
  | _ => []
  end.

Definition pstep (c : pcfg) (s : fst_) (o : pop) : fst_ * report :=
  let '(a, rep) := step (abs s) (abs_op o) in
  match o with
  | PIns _ | PDel _ =>
      (* something is logged exactly when the operation got a logical time *)
      let p' := if N.eqb (clock a) (f_clock s) then f_p s else append c (f_p s) (logged o (f_clock s)) in
      (mkF (live a) (rel_arity a) p' (clock a), rep)
  | PSave => (mkF (f_live s) (f_arity s) (flush (f_p s)) (f_clock s), rep)
  | PCompact => (mkF (f_live s) (f_arity s) (compact (f_p s)) (f_clock s), rep)
  | PRestart =>
      let p' := reopen (flush (f_p s)) in
      let l := recover (log_of p') in
      (mkF l (match l with t :: _ => Some (length t) | [] => None end) p' (f_clock s), rep)
  | PDropReopen =>
      let p' := reopen (f_p s) in
      let l := recover (log_of p') in
      (mkF l (match l with t :: _ => Some (length t) | [] => None end) p' (f_clock s), rep)
  end.

Definition prun (c : pcfg) (h : list pop) : fst_ := fold_left (fun s o => fst (pstep c s o)) h f0.

(* histories the refinement covers: in async mode nothing is dropped without a save first *)
Definition clean (c : pcfg) (h : list pop) : bool :=
  match dur c with
  | DAsync => forallb (fun o => match o with PDropReopen => false | _ => true end) h
  | _ => true
  end.
