(* Model of parts of src/vector_ops.rs for C26:
   (a) lsh_probes                                  -- exact, over Z bit operations
   (b) the global LRU hyperplane cache             -- get_or_create_hyperplanes as two atomic sections
                                                      (read-locked lookup, write-locked insert), clear,
                                                      configure_lsh_cache_size; `generate` is abstract
   (c) the distance functions                      -- over an abstract float interface (Section FloatLaws)
   (d) int8 quantisation                           -- in exact arithmetic over Z (scaled integers)
   Executable definitions only. *)
From Coq Require Export List NArith ZArith Bool Lia.
Export ListNotations.
Open Scope Z_scope.

(* ================================================================ (a) lsh_probes *)
Definition pow2 (i : nat) : Z := 2 ^ Z.of_nat i.

(* single, double and triple bit flips in the order of the three loop nests *)
Definition masks1 (nb : nat) : list Z := map pow2 (seq 0 nb).
Definition masks2 (nb : nat) : list Z :=
  flat_map (fun i => map (fun j => Z.lxor (pow2 i) (pow2 j)) (seq (S i) (nb - S i))) (seq 0 nb).
Definition masks3 (nb : nat) : list Z :=
  flat_map (fun i =>
    flat_map (fun j => map (fun k => Z.lxor (Z.lxor (pow2 i) (pow2 j)) (pow2 k)) (seq (S j) (nb - S j)))
             (seq (S i) (nb - S i))) (seq 0 nb).
Definition all_masks (nb : nat) : list Z := 0 :: masks1 nb ++ masks2 nb ++ masks3 nb.

(* lsh_probes(bucket, num_hyperplanes, num_probes): every early `return probes` is a truncation of
   the full enumeration at num_probes; bits below 62 never touch the sign of an i64 *)
Definition lsh_probes (bucket : Z) (num_hyperplanes num_probes : N) : list Z :=
  firstn (N.to_nat num_probes)
         (map (Z.lxor bucket) (all_masks (N.to_nat (N.min num_hyperplanes 62)))).

(* number of one bits *)
Fixpoint pop_pos (p : positive) : nat :=
  match p with xH => 1 | xO q => pop_pos q | xI q => S (pop_pos q) end.
Definition popZ (z : Z) : nat := match z with Zpos p => pop_pos p | _ => 0 end.
(* hamming_distance(a, b) = (a ^ b).count_ones() on 64-bit two's complement *)
Definition hamming64 (a b : Z) : nat :=
  let x := Z.lxor a b in if x <? 0 then 64 - popZ (- x - 1) else popZ x.

Fixpoint nondec_nat (l : list nat) : bool :=
  match l with
  | a :: ((b :: _) as r) => Nat.leb a b && nondec_nat r
  | _ => true
  end.

(* ================================================================ (b) the hyperplane cache *)
Definition key : Type := (Z * N * N)%type.            (* (table_idx, num_hyperplanes, dimension) *)
Definition key_eqb (a b : key) : bool :=
  let '(t1, h1, d1) := a in let '(t2, h2, d2) := b in Z.eqb t1 t2 && N.eqb h1 h2 && N.eqb d1 d2.

Section Cache.
  Variable P : Type.                    (* CachedHyperplanes *)
  Variable generate : key -> P.         (* generate_hyperplanes: a pure function of the key *)

  Record centry := { e_key : key; e_planes : P; e_last : N }.
  Record cache := { entries : list centry; max_entries : N; clock : N }.

  Definition empty_cache (n : N) : cache := {| entries := []; max_entries := n; clock := 0 |}.

  Definition find_entry (k : key) (es : list centry) : option centry :=
    find (fun e => key_eqb (e_key e) k) es.
  (* entry.touch() *)
  Definition touch (k : key) (now : N) (es : list centry) : list centry :=
    map (fun e => if key_eqb (e_key e) k
                  then {| e_key := e_key e; e_planes := e_planes e; e_last := now |} else e) es.
  (* remove the entry with the smallest last-access time (one of them, on ties) *)
  Fixpoint min_last (es : list centry) (best : N) : N :=
    match es with [] => best | e :: r => min_last r (N.min best (e_last e)) end.
  Fixpoint remove_first (f : centry -> bool) (es : list centry) : list centry :=
    match es with [] => [] | e :: r => if f e then r else e :: remove_first f r end.
  Definition evict_lru (es : list centry) : list centry :=
    match es with
    | [] => []
    | e :: r => let m := min_last r (e_last e) in remove_first (fun x => N.eqb (e_last x) m) es
    end.

  (* the atomic sections *)
  Inductive cstep :=
  | CRead (k : key)          (* read-locked fast path of get_or_create_hyperplanes *)
  | CWrite (k : key)         (* write-locked slow path (double check, evict, generate, insert) *)
  | CClear                   (* clear_lsh_cache *)
  | CResize (n : N).         (* configure_lsh_cache_size *)

  Definition run_step (c : cache) (s : cstep) : cache * option P :=
    match s with
    | CRead k =>
        match find_entry k (entries c) with
        | Some e => ({| entries := touch k (clock c) (entries c); max_entries := max_entries c;
                        clock := N.succ (clock c) |}, Some (e_planes e))
        | None => (c, None)
        end
    | CWrite k =>
        match find_entry k (entries c) with
        | Some e => ({| entries := touch k (clock c) (entries c); max_entries := max_entries c;
                        clock := N.succ (clock c) |}, Some (e_planes e))
        | None =>
            let es := if (max_entries c <=? N.of_nat (List.length (entries c)))%N
                      then evict_lru (entries c) else entries c in
            let p := generate k in
            ({| entries := {| e_key := k; e_planes := p; e_last := clock c |} :: es;
                max_entries := max_entries c; clock := N.succ (clock c) |}, Some p)
        end
    | CClear => ({| entries := []; max_entries := max_entries c; clock := clock c |}, None)
    | CResize n => ({| entries := entries c; max_entries := n; clock := clock c |}, None)
    end.

  (* a schedule is any sequence of atomic sections, whoever issues them *)
  Fixpoint run_steps (c : cache) (ss : list cstep) : cache * list (cstep * option P) :=
    match ss with
    | [] => (c, [])
    | s :: r => let '(c1, o) := run_step c s in
                let '(c2, os) := run_steps c1 r in (c2, (s, o) :: os)
    end.

  (* get_or_create_hyperplanes(key) by one thread, with arbitrary sections of other threads before
     it (`pre`) and between its read section and its write section (`mid`) *)
  Definition get_or_create (c : cache) (pre mid : list cstep) (k : key) : option P :=
    let c1 := fst (run_steps c pre) in
    let '(c2, r) := run_step c1 (CRead k) in
    match r with
    | Some p => Some p
    | None => let c3 := fst (run_steps c2 mid) in snd (run_step c3 (CWrite k))
    end.
End Cache.
Arguments e_key {P}. Arguments e_planes {P}. Arguments e_last {P}.
Arguments entries {P}. Arguments max_entries {P}. Arguments clock {P}.

(* ================================================================ (c) distances over an abstract float *)
Section FloatDist.
  Variable F : Type.                                 (* f32 and f64 values alike *)
  Variable fzero : F.
  Variable fadd fsub fmul : F -> F -> F.
  Variable fabs fsqrt : F -> F.
  Variable widen : F -> F.                           (* f64::from(f32) *)

  Fixpoint zipw {A} (f : F -> F -> A) (a b : list F) : list A :=
    match a, b with x :: a', y :: b' => f x y :: zipw f a' b' | _, _ => [] end.
  Definition fsum (l : list F) : F := fold_left fadd l fzero.

  (* euclidean_distance_squared / euclidean_distance (equal lengths) *)
  Definition sq_diff (x y : F) : F := let d := fsub x y in fmul d d.
  Definition euclid_sq (a b : list F) : F := widen (fsum (zipw sq_diff a b)).
  Definition euclid (a b : list F) : F := fsqrt (euclid_sq a b).
  (* manhattan_distance *)
  Definition manhattan (a b : list F) : F := fsum (zipw (fun x y => fabs (widen (fsub x y))) a b).
  (* dot_product *)
  Definition dotp (a b : list F) : F := fsum (zipw (fun x y => fmul (widen x) (widen y)) a b).
End FloatDist.

(* ================================================================ (d) int8 quantisation, exact arithmetic *)
(* round half away from zero of the rational a / b, b > 0 (f32::round) *)
Definition round_div (a b : Z) : Z :=
  if 0 <=? a then (2 * a + b) / (2 * b) else - ((2 * (- a) + b) / (2 * b)).
Definition clampZ (lo hi x : Z) : Z := Z.max lo (Z.min hi x).

(* quantize_vector_symmetric on integers (a common unit factored out): x -> round(x * 127 / max_abs) *)
Definition max_abs (v : list Z) : Z := fold_right (fun x m => Z.max (Z.abs x) m) 0 v.
Definition quant_sym (v : list Z) : list Z :=
  let m := max_abs v in
  if m =? 0 then map (fun _ => 0) v else map (fun x => clampZ (-127) 127 (round_div (x * 127) m)) v.

(* quantize_vector_linear: x -> round((x - min) * 255 / range - 128) *)
Definition min_of (v : list Z) : Z := match v with [] => 0 | x :: r => fold_right Z.min x r end.
Definition max_of (v : list Z) : Z := match v with [] => 0 | x :: r => fold_right Z.max x r end.
Definition quant_lin (v : list Z) : list Z :=
  let lo := min_of v in let range := max_of v - lo in
  if range =? 0 then map (fun _ => 0) v
  else map (fun x => clampZ (-128) 127 (round_div ((x - lo) * 255 - 128 * range) range)) v.
