(* Hand-written classification of statement kinds (reviewed by eye; trusted base of C27-C29).
   Definitions only: the case checkers depend on this file, not on the proofs. *)
From IL Require Export Gen.AuthTable.
From Coq Require Import List Bool.
Import ListNotations.

(* statement kinds whose execution changes persistent state (facts, rules, schemas, indexes,
   knowledge graphs, ACLs, users, API keys, on-disk layout).  Session-scoped commands
   (.session *, session rules) and agent/chat commands are ephemeral. A new enum variant makes
   this match non-exhaustive and the build fails until it is classified. *)
Definition mutates (k : stmt_kind) : bool :=
  match k with
  | SInsert | SDelete | SUpdate | STypeDecl | SFact | SSchemaDecl | SPersistentRule
  | SDeleteRelationOrRule => true
  | SSessionRule | SQuery => false
  | MKgCreate | MKgDrop | MRelDrop
  | MRuleDrop | MRuleDropPrefix | MRuleEdit | MRuleClear | MRuleRemove
  | MIndexCreate | MIndexDrop | MIndexRebuild | MClearPrefix | MLoad | MCompact
  | MUserCreate | MUserDrop | MUserPassword | MUserRole | MApiKeyCreate | MApiKeyRevoke
  | MKgAclGrant | MKgAclRevoke => true
  | MKgShow | MKgList | MKgUse | MRelList | MRelDescribe | MRuleList | MRuleQuery | MRuleShowDef
  | MSessionList | MSessionClear | MSessionDrop | MSessionDropName
  | MIndexList | MIndexStats | MStatus | MDebug | MWhy | MWhyFull | MWhyNot
  | MAgentMessage | MAgentStart | MAgentSetup | MAgentExamples | MHelp | MQuit
  | MUserList | MApiKeyList | MKgAclList => false
  end.

(* user management, API keys, compaction *)
Definition admin_only (k : stmt_kind) : bool :=
  match k with
  | MCompact | MUserList | MUserCreate | MUserDrop | MUserPassword | MUserRole
  | MApiKeyCreate | MApiKeyList | MApiKeyRevoke => true
  | _ => false
  end.

Definition role_eqb (a b : role) : bool :=
  match a, b with RAdmin, RAdmin | REditor, REditor | RViewer, RViewer => true | _, _ => false end.

