(* Model of `inputlayer::value::Value` / `Tuple` (src/value/mod.rs).
   Floats are carried as their IEEE-754 bit patterns (N); strings as lists of
   Unicode code points (Rust compares `str` bytewise on UTF-8, which is code-point
   lexicographic order).  Executable definitions only. *)
From Coq Require Export List NArith ZArith Bool Lia.
Export ListNotations.
Open Scope N_scope.

Inductive value :=
| VNull
| VBool (b : bool)
| VI32 (z : Z)
| VI64 (z : Z)
| VF64 (bits : N)
| VTs (z : Z)
| VStr (s : list N)
| VVec (bits : list N)      (* f32 bit patterns *)
| VVec8 (xs : list Z).

Definition tuple := list value.

(* ---- generic list helpers *)
Fixpoint list_eqb {A} (eqb : A -> A -> bool) (a b : list A) : bool :=
  match a, b with
  | [], [] => true
  | x :: a', y :: b' => eqb x y && list_eqb eqb a' b'
  | _, _ => false
  end.

Fixpoint lex_cmp {A} (cmp : A -> A -> comparison) (a b : list A) : comparison :=
  match a, b with
  | [], [] => Eq
  | [], _ :: _ => Lt
  | _ :: _, [] => Gt
  | x :: a', y :: b' =>
      match cmp x y with Eq => lex_cmp cmp a' b' | c => c end
  end.

(* ---- IEEE helpers on bit patterns *)
Definition f64_sign (b : N) : bool := N.testbit b 63.
Definition f64_mag (b : N) : N := N.land b (N.ones 63).
Definition f64_is_nan (b : N) : bool := N.ltb 0x7FF0000000000000 (f64_mag b).
Definition f64_is_zero (b : N) : bool := N.eqb (f64_mag b) 0.

Definition f32_sign (b : N) : bool := N.testbit b 31.
Definition f32_mag (b : N) : N := N.land b (N.ones 31).
Definition f32_is_nan (b : N) : bool := N.ltb 0x7F800000 (f32_mag b).
Definition f32_is_zero (b : N) : bool := N.eqb (f32_mag b) 0.

(* Rust `f32 == f32` (IEEE equality) on bit patterns *)
Definition f32_ieee_eqb (a b : N) : bool :=
  negb (f32_is_nan a) && negb (f32_is_nan b) &&
  (N.eqb a b || (f32_is_zero a && f32_is_zero b)).

(* Key of `f64::total_cmp`: order-isomorphic image in Z. *)
Definition f64_total_key (b : N) : Z :=
  if f64_sign b then (- Z.of_N (f64_mag b) - 1)%Z else Z.of_N (f64_mag b).

(* IEEE partial order on non-NaN doubles: sign-magnitude with -0 = +0 *)
Definition f64_ieee_key (b : N) : Z :=
  if f64_sign b then (- Z.of_N (f64_mag b))%Z else Z.of_N (f64_mag b).

(* Rust `a.partial_cmp(b)`: None if either is NaN *)
Definition f64_partial_cmp (a b : N) : option comparison :=
  if f64_is_nan a || f64_is_nan b then None
  else Some (Z.compare (f64_ieee_key a) (f64_ieee_key b)).

(* ---- equality: `impl PartialEq for Value` *)
Definition value_eqb (a b : value) : bool :=
  match a, b with
  | VNull, VNull => true
  | VBool x, VBool y => Bool.eqb x y
  | VI32 x, VI32 y => Z.eqb x y
  | VI64 x, VI64 y => Z.eqb x y
  | VF64 x, VF64 y => N.eqb x y                    (* to_bits equality *)
  | VTs x, VTs y => Z.eqb x y
  | VStr x, VStr y => list_eqb N.eqb x y
  | VVec x, VVec y => list_eqb N.eqb x y           (* to_bits equality, elementwise *)
  | VVec8 x, VVec8 y => list_eqb Z.eqb x y
  | _, _ => false
  end.

Definition tuple_eqb (a b : tuple) : bool := list_eqb value_eqb a b.

Definition mem_tuple (t : tuple) (l : list tuple) : bool := existsb (tuple_eqb t) l.

Fixpoint dedup_tuples (l : list tuple) : list tuple :=
  match l with
  | [] => []
  | t :: r => if mem_tuple t r then dedup_tuples r else t :: dedup_tuples r
  end.
