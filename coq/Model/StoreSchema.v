(* Declared schemas (src/schema/mod.rs, src/schema/validator.rs, src/schema/catalog.rs) and the
   write statements of the handler on a relation that may have a declared schema.
     - `code_matches`: `SchemaType::matches`, read through the table Gen/SchemaMatches.v that the
       translator regenerates from the Rust source on every run;
     - `conforms`: the SPECIFICATION of type conformance, written by hand from
       docs/internals/validation.md / type-system.md;
     - `validate_batch`: `ValidationEngine::validate_batch` (arity first, then every column; the
       batch is accepted only if every tuple is);
     - `sexec`: the Insert / Delete / Update arms of the handler and schema declaration
       (`register_or_update_schema`), with the repaired behaviour: every path that stores tuples
       validates the whole set of tuples it is about to store BEFORE changing anything, and a
       declaration is rejected when stored tuples do not conform to it.
   Executable definitions only. *)
From IL Require Export Model.Value Model.Store Model.StoreStmt Gen.SchemaMatches.
Open Scope N_scope.

Inductive stype :=
| TyInt | TyFloat | TySymbol | TyString | TyBool | TyTimestamp
| TyVector (dim : option nat) | TyAny | TyNamed.

Definition schema := list stype.

(* ---- specification: which values a declared column type admits *)
Definition vec_len (v : value) : option nat :=
  match v with VVec b => Some (length b) | VVec8 b => Some (length b) | _ => None end.

Definition conforms (t : stype) (v : value) : bool :=
  match t with
  | TyInt => match v with VI32 _ | VI64 _ => true | _ => false end
  | TyFloat => match v with VF64 _ | VI32 _ | VI64 _ => true | _ => false end     (* ints widen to float *)
  | TySymbol | TyString => match v with VStr _ => true | _ => false end
  | TyBool => match v with VBool _ => true | _ => false end
  | TyTimestamp => match v with VTs _ | VI64 _ => true | _ => false end           (* unix millis *)
  | TyVector None => match vec_len v with Some _ => true | None => false end
  | TyVector (Some n) => match vec_len v with Some m => Nat.eqb m n | None => false end
  | TyAny => true
  | TyNamed => true   (* a named alias is not resolvable at validation time: no constraint *)
  end.

(* ---- the code: kind abstraction + generated table *)
Definition tkind_of (t : stype) : tkind :=
  match t with
  | TyInt => TInt | TyFloat => TFloat | TySymbol => TSymbol | TyString => TString | TyBool => TBool
  | TyTimestamp => TTimestamp | TyVector (Some _) => TVectorDim | TyVector None => TVectorAny
  | TyAny => TAny | TyNamed => TNamed
  end.

Definition vkind_of (v : value) : vkind :=
  match v with
  | VNull => KNull | VBool _ => KBool | VI32 _ => KInt32 | VI64 _ => KInt64 | VF64 _ => KFloat64
  | VTs _ => KTimestamp | VStr _ => KString | VVec _ => KVector | VVec8 _ => KVectorInt8
  end.

Definition code_matches (t : stype) (v : value) : bool :=
  match matches_table (tkind_of t) (vkind_of v) with
  | MYes => true
  | MNo => false
  | MLen => match t, vec_len v with
            | TyVector (Some n), Some m => Nat.eqb m n
            | _, _ => false
            end
  end.

(* `validate_tuple`: arity, then each column *)
Fixpoint row_ok (f : stype -> value -> bool) (sc : schema) (t : tuple) : bool :=
  match sc, t with
  | [], [] => true
  | ty :: sr, v :: tr => f ty v && row_ok f sr tr
  | _, _ => false
  end.

Definition conforms_row (sc : schema) (t : tuple) : bool := row_ok conforms sc t.

(* `validate_batch` as the code computes it (through `SchemaType::matches`) *)
Definition validate_batch (sc : schema) (ts : list tuple) : bool := forallb (row_ok code_matches sc) ts.

(* `KnowledgeGraph::validate_tuples`: no schema = no constraint *)
Definition validate_opt (sc : option schema) (ts : list tuple) : bool :=
  match sc with Some s => validate_batch s ts | None => true end.

(* ---- statements on a relation with an optional declared schema *)
Record sst := mkSst { base : st; decl : option schema }.
Definition sst0 : sst := mkSst st0 None.

Inductive sstmt :=
| QDeclare (sc : schema)         (* +r(c1: t1, ...)   persistent schema declaration *)
| QStmt (q : stmt).              (* any write statement of Model/StoreStmt.v *)

Inductive sres := SAccepted (r : sreport) | SRejected.   (* rejected = "... rejected ..." message, nothing changed *)

(* tuples a statement is about to store *)
Definition to_store (q : stmt) (cur : list tuple) : list tuple :=
  match q with
  | SIns ts => ts
  | SUpd _ it c => insts it (matches [AX; AY] c cur)
  | _ => []
  end.

Definition sexec (s : sst) (q : sstmt) : sst * sres :=
  match q with
  | QDeclare sc =>
      if validate_batch sc (live (base s)) then (mkSst (base s) (Some sc), SAccepted (SRIns 0))
      else (s, SRejected)
  | QStmt q =>
      if validate_opt (decl s) (to_store q (live (base s))) then
        let '(b, r) := exec (base s) q in (mkSst b (decl s), SAccepted r)
      else (s, SRejected)
  end.

Definition srun (s : sst) (h : list sstmt) : sst := fold_left (fun s q => fst (sexec s q)) h s.
