(* Model of `impl Ord for Value`, `impl Hash for Value`, `Ord`/`Hash` for `Tuple`
   (src/value/mod.rs), on top of Model/Value.v (the value type and `value_eqb` = `impl PartialEq`).
   The cross-kind arms of `cmp` and the enum declaration order come from Gen/ValueRank.v, which
   tools/translate.py regenerates from the Rust source on every run.
   Executable definitions only. *)
From IL Require Export Model.Value Gen.ValueRank.
Open Scope N_scope.

(* the variant of a model value, in the generated kind type *)
Definition kind_of (v : value) : vkind :=
  match v with
  | VNull => KNull | VBool _ => KBool | VI32 _ => KInt32 | VI64 _ => KInt64 | VF64 _ => KFloat64
  | VTs _ => KTimestamp | VStr _ => KString | VVec _ => KVector | VVec8 _ => KVectorInt8
  end.

(* `a.len().cmp(&b.len())` first, then element by element (the Vector / VectorInt8 arms) *)
Definition len_then_lex {A} (cmp : A -> A -> comparison) (a b : list A) : comparison :=
  match Nat.compare (length a) (length b) with
  | Eq => lex_cmp cmp a b
  | c => c
  end.

Definition bool_cmp (a b : bool) : comparison :=
  match a, b with false, true => Lt | true, false => Gt | _, _ => Eq end.

(* `f64::total_cmp` *)
Definition f64_total_cmp (a b : N) : comparison := Z.compare (f64_total_key a) (f64_total_key b).

(* the same-kind arms of `cmp` (payload comparison) *)
Definition payload_cmp (a b : value) : comparison :=
  match a, b with
  | VI32 x, VI32 y => Z.compare x y
  | VI64 x, VI64 y => Z.compare x y
  | VF64 x, VF64 y => f64_total_cmp x y               (* a.total_cmp(b) *)
  | VStr x, VStr y => lex_cmp N.compare x y            (* str::cmp, bytewise = code-point lexicographic *)
  | VBool x, VBool y => bool_cmp x y
  | VNull, VNull => Eq
  | VVec x, VVec y => len_then_lex N.compare x y       (* lengths, then to_bits() as unsigned *)
  | VVec8 x, VVec8 y => len_then_lex Z.compare x y
  | VTs x, VTs y => Z.compare x y
  | _, _ => Eq                                         (* not reached: cross-kind pairs are decided by cross_cmp *)
  end.

(* `impl Ord for Value :: cmp` *)
Definition value_cmp (a b : value) : comparison :=
  match cross_cmp (kind_of a) (kind_of b) with
  | Some c => c
  | None => payload_cmp a b
  end.

(* `impl Ord for Tuple`: `self.values.iter().cmp(other.values.iter())` *)
Definition tuple_cmp (a b : tuple) : comparison := lex_cmp value_cmp a b.

(* ---- what `Hash` feeds to the hasher: the sequence of `Hasher::write` calls, each a list of bytes
   (a Hasher that implements only `write` sees exactly these; little-endian target) *)
Fixpoint le_bytes (n : nat) (x : N) : list N :=
  match n with O => [] | S n' => N.modulo x 256 :: le_bytes n' (N.div x 256) end.

Definition z_bytes (n : nat) (z : Z) : list N :=           (* two's complement, n bytes *)
  le_bytes n (Z.to_N (Z.modulo z (2 ^ (8 * Z.of_nat n)))).

(* UTF-8 encoding of one code point *)
Definition utf8 (c : N) : list N :=
  if c <? 0x80 then [c]
  else if c <? 0x800 then [0xC0 + c / 64; 0x80 + c mod 64]
  else if c <? 0x10000 then [0xE0 + c / 4096; 0x80 + (c / 64) mod 64; 0x80 + c mod 64]
  else [0xF0 + c / 262144; 0x80 + (c / 4096) mod 64; 0x80 + (c / 64) mod 64; 0x80 + c mod 64].

Definition usize_bytes (n : nat) : list N := le_bytes 8 (N.of_nat n).

Definition hash_feed (v : value) : list (list N) :=
  le_bytes 8 (vkind_discr (kind_of v)) ::                    (* mem::discriminant(self).hash: write_isize *)
  match v with
  | VNull => []
  | VBool b => [[if b then 1 else 0]]                          (* write_u8 *)
  | VI32 z => [z_bytes 4 z]
  | VI64 z => [z_bytes 8 z]
  | VF64 b => [le_bytes 8 b]                                   (* to_bits().hash *)
  | VTs z => [z_bytes 8 z]
  | VStr s => [flat_map utf8 s; [0xFF]]                        (* str::hash: bytes, then write_u8(0xff) *)
  | VVec xs => usize_bytes (length xs) :: map (le_bytes 4) xs  (* len, then every to_bits() *)
  | VVec8 xs => usize_bytes (length xs) :: map (z_bytes 1) xs
  end.

(* derived `Hash for Tuple`: Vec<Value>::hash = write_length_prefix(len), then every element *)
Definition tuple_hash_feed (t : tuple) : list (list N) :=
  usize_bytes (length t) :: flat_map hash_feed t.

(* ---- executable forms of the order laws (used as the oracle on the implementation's answers) *)
Definition comparison_eqb (a b : comparison) : bool :=
  match a, b with Eq, Eq | Lt, Lt | Gt, Gt => true | _, _ => false end.

Definition is_eq (c : comparison) : bool := comparison_eqb c Eq.
Definition not_gt (c : comparison) : bool := negb (comparison_eqb c Gt).

(* given the implementation's answers on a pair: cmp a b, cmp b a, a == b, equal hash feeds? *)
Definition pair_laws (cab cba : comparison) (eq_ab eq_ba : bool) (same_hash : bool) : bool :=
  Bool.eqb (is_eq cab) eq_ab &&                 (* compare equal exactly when equal *)
  Bool.eqb eq_ab eq_ba &&                       (* == symmetric *)
  comparison_eqb cab (CompOpp cba) &&           (* antisymmetry *)
  (if eq_ab then same_hash else true).          (* equal values hash equally *)

(* transitivity of <= and of == on a triple *)
Definition triple_laws (cab cbc cac : comparison) (eq_ab eq_bc eq_ac : bool) : bool :=
  (if not_gt cab && not_gt cbc then not_gt cac else true) &&
  (if not_gt (CompOpp cab) && not_gt (CompOpp cbc) then not_gt (CompOpp cac) else true) &&
  (if eq_ab && eq_bc then eq_ac else true).
