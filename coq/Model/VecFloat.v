(* Small executable helpers for the vector group (C24-C26): list equality / sorting on N, and exact
   decoding of IEEE-754 bit patterns into dyadic rationals m * 2^e (no rounding anywhere here). *)
From Coq Require Export List NArith ZArith Bool Lia.
Export ListNotations.
Open Scope N_scope.

Fixpoint list_eqb' {A} (eqb : A -> A -> bool) (a b : list A) : bool :=
  match a, b with
  | [], [] => true
  | x :: a', y :: b' => eqb x y && list_eqb' eqb a' b'
  | _, _ => false
  end.
Definition list_eqbN : list N -> list N -> bool := list_eqb' N.eqb.
Definition list_eqbZ : list Z -> list Z -> bool := list_eqb' Z.eqb.

Fixpoint insN (x : N) (l : list N) : list N :=
  match l with
  | [] => [x]
  | y :: r => if x <=? y then x :: l else y :: insN x r
  end.
Definition sortN (l : list N) : list N := fold_right insN [] l.

Fixpoint dedupN (l : list N) : list N :=
  match l with
  | [] => []
  | x :: r => if existsb (N.eqb x) r then dedupN r else x :: dedupN r
  end.

(* ---- dyadic rationals: Some (m, e) is m * 2^e; None is "not a finite number" *)
Definition dyadic := option (Z * Z).

Definition f64_dyadic (b : N) : dyadic :=
  let sign := N.testbit b 63 in
  let ef := Z.of_N ((b / 2 ^ 52) mod 2 ^ 11) in
  let mant := Z.of_N (b mod 2 ^ 52) in
  let sg (z : Z) := if sign then (- z)%Z else z in
  if (ef =? 2047)%Z then None
  else if (ef =? 0)%Z then Some (sg mant, (-1074)%Z)
  else Some (sg (mant + 2 ^ 52)%Z, (ef - 1075)%Z).

Definition f32_dyadic (b : N) : dyadic :=
  let sign := N.testbit b 31 in
  let ef := Z.of_N ((b / 2 ^ 23) mod 2 ^ 8) in
  let mant := Z.of_N (b mod 2 ^ 23) in
  let sg (z : Z) := if sign then (- z)%Z else z in
  if (ef =? 255)%Z then None
  else if (ef =? 0)%Z then Some (sg mant, (-149)%Z)
  else Some (sg (mant + 2 ^ 23)%Z, (ef - 150)%Z).

(* numerators of two dyadics over their common (smaller) exponent *)
Definition dy_align (m1 e1 m2 e2 : Z) : Z * Z * Z :=
  let e := Z.min e1 e2 in
  ((m1 * 2 ^ (e1 - e))%Z, (m2 * 2 ^ (e2 - e))%Z, e).

Definition dy_add (a b : dyadic) : dyadic :=
  match a, b with
  | Some (m1, e1), Some (m2, e2) => let '(n1, n2, e) := dy_align m1 e1 m2 e2 in Some ((n1 + n2)%Z, e)
  | _, _ => None
  end.
Definition dy_neg (a : dyadic) : dyadic :=
  match a with Some (m, e) => Some ((- m)%Z, e) | None => None end.
Definition dy_mul (a b : dyadic) : dyadic :=
  match a, b with
  | Some (m1, e1), Some (m2, e2) => Some ((m1 * m2)%Z, (e1 + e2)%Z)
  | _, _ => None
  end.
Definition dy_abs (a : dyadic) : dyadic :=
  match a with Some (m, e) => Some (Z.abs m, e) | None => None end.

(* a <= b ; false when either is not finite *)
Definition dy_leb (a b : dyadic) : bool :=
  match a, b with
  | Some (m1, e1), Some (m2, e2) => let '(n1, n2, _) := dy_align m1 e1 m2 e2 in (n1 <=? n2)%Z
  | _, _ => false
  end.
Definition dy_ltb (a b : dyadic) : bool :=
  match a, b with
  | Some (m1, e1), Some (m2, e2) => let '(n1, n2, _) := dy_align m1 e1 m2 e2 in (n1 <? n2)%Z
  | _, _ => false
  end.
Definition dy_eqb (a b : dyadic) : bool := dy_leb a b && dy_leb b a.
Definition dy_of_Z (z : Z) : dyadic := Some (z, 0%Z).
Definition dy_pow2 (k : Z) : dyadic := Some (1%Z, k).

(* |a| <= 2^k *)
Definition dy_abs_le_pow2 (a : dyadic) (k : Z) : bool := dy_leb (dy_abs a) (dy_pow2 k).

(* the integer a finite dyadic denotes, if it is one *)
Definition dy_to_Z (a : dyadic) : option Z :=
  match a with
  | Some (m, e) =>
      if (0 <=? e)%Z then Some (m * 2 ^ e)%Z
      else if (m mod 2 ^ (- e) =? 0)%Z then Some (m / 2 ^ (- e))%Z else None
  | None => None
  end.

(* ---- IEEE rounding on dyadics (round to nearest, ties to even).  Overflow to infinity is not
   modelled: callers stay far below 2^127. *)
Definition rnd (prec emin : Z) (d : dyadic) : dyadic :=
  match d with
  | None => None
  | Some (m, e) =>
      if (m =? 0)%Z then Some (0, 0)%Z else
      let a := Z.abs m in
      let nb := (Z.log2 a + 1)%Z in
      let e' := Z.max (e + nb - prec) emin in
      if (e' <=? e)%Z then Some (m, e)
      else
        let sh := (e' - e)%Z in
        let q := (a / 2 ^ sh)%Z in
        let r := (a mod 2 ^ sh)%Z in
        let half := (2 ^ (sh - 1))%Z in
        let q' := if (half <? r)%Z || ((r =? half)%Z && Z.odd q) then (q + 1)%Z else q in
        Some (if (m <? 0)%Z then (- q')%Z else q', e')
  end.
Definition rnd32 : dyadic -> dyadic := rnd 24 (-149).
Definition rnd64 : dyadic -> dyadic := rnd 53 (-1074).

Definition dy_sub (a b : dyadic) : dyadic := dy_add a (dy_neg b).

(* square root with a sticky bit, to be rounded by rnd (correct for prec <= 60) *)
Definition dy_sqrt_sticky (d : dyadic) : dyadic :=
  match d with
  | None => None
  | Some (m, e) =>
      if (m <? 0)%Z then None
      else if (m =? 0)%Z then Some (0, 0)%Z
      else
        let '(m1, e1) := if Z.even e then (m, e) else ((2 * m)%Z, (e - 1)%Z) in
        (* widen to at least 2*64 bits below the leading bit *)
        let t := Z.max 0 (64 - Z.log2 m1 / 2) in
        let m2 := (m1 * 2 ^ (2 * t))%Z in
        let s := Z.sqrt m2 in
        let sticky := if (s * s =? m2)%Z then 0%Z else 1%Z in
        Some ((2 * s + sticky)%Z, (e1 / 2 - t - 1)%Z)
  end.

(* quotient with a sticky bit *)
Definition dy_div_sticky (a b : dyadic) : dyadic :=
  match a, b with
  | Some (m1, e1), Some (m2, e2) =>
      if (m2 =? 0)%Z then None
      else
        let t := (70 + Z.log2 (Z.abs m2) + 1)%Z in
        let n := (Z.abs m1 * 2 ^ t)%Z in
        let q := (n / Z.abs m2)%Z in
        let sticky := if (n mod Z.abs m2 =? 0)%Z then 0%Z else 1%Z in
        let v := (2 * q + sticky)%Z in
        Some (if Bool.eqb (m1 <? 0)%Z (m2 <? 0)%Z then v else (- v)%Z, (e1 - e2 - t - 1)%Z)
  | _, _ => None
  end.

(* f32 / f64 operations on decoded values *)
Definition f32_add a b := rnd32 (dy_add a b).
Definition f32_sub a b := rnd32 (dy_sub a b).
Definition f32_mul a b := rnd32 (dy_mul a b).
Definition f32_div a b := rnd32 (dy_div_sticky a b).
Definition f32_sqrt a := rnd32 (dy_sqrt_sticky a).
Definition f64_add a b := rnd64 (dy_add a b).
Definition f64_sub a b := rnd64 (dy_sub a b).
Definition f64_mul a b := rnd64 (dy_mul a b).
Definition f64_div a b := rnd64 (dy_div_sticky a b).
Definition f64_sqrt a := rnd64 (dy_sqrt_sticky a).

Definition dy_zero : dyadic := Some (0, 0)%Z.
Definition dy_one : dyadic := Some (1, 0)%Z.
Definition dy_half : dyadic := Some (1, -1)%Z.

(* anndists scalar_l2_f32: sqrt (sum ((a-b)*(a-b))) with every operation in f32, summed left to right *)
Fixpoint f32_sqdiff_sum (acc : dyadic) (a b : list dyadic) : dyadic :=
  match a, b with
  | x :: a', y :: b' => let d := f32_sub x y in f32_sqdiff_sum (f32_add acc (f32_mul d d)) a' b'
  | _, _ => acc
  end.
Definition f32_l2 (a b : list dyadic) : dyadic := f32_sqrt (f32_sqdiff_sum dy_zero a b).

(* HnswIndex::manhattan_distance: sum |x as f64 - y as f64| in f64 *)
Fixpoint f64_absdiff_sum (acc : dyadic) (a b : list dyadic) : dyadic :=
  match a, b with
  | x :: a', y :: b' => f64_absdiff_sum (f64_add acc (dy_abs (f64_sub x y))) a' b'
  | _, _ => acc
  end.
Definition f64_l1 (a b : list dyadic) : dyadic := f64_absdiff_sum dy_zero a b.

(* ---- exact (unrounded) quantities for the oracles *)
Fixpoint ex_sqdiff_sum (a b : list dyadic) : dyadic :=
  match a, b with
  | x :: a', y :: b' => let d := dy_sub x y in dy_add (dy_mul d d) (ex_sqdiff_sum a' b')
  | _, _ => dy_zero
  end.
Fixpoint ex_absdiff_sum (a b : list dyadic) : dyadic :=
  match a, b with
  | x :: a', y :: b' => dy_add (dy_abs (dy_sub x y)) (ex_absdiff_sum a' b')
  | _, _ => dy_zero
  end.
Fixpoint ex_dot (a b : list dyadic) : dyadic :=
  match a, b with
  | x :: a', y :: b' => dy_add (dy_mul x y) (ex_dot a' b')
  | _, _ => dy_zero
  end.

(* floor (d * 2^k) *)
Definition dy_fix (k : Z) (d : dyadic) : option Z :=
  match d with
  | Some (m, e) => let s := (e + k)%Z in Some (if (0 <=? s)%Z then (m * 2 ^ s)%Z else (m / 2 ^ (- s))%Z)
  | None => None
  end.

(* cos(a,b) = a.b / sqrt(a.a * b.b) in fixed point with 40 fractional bits (error below 2^-38);
   None when a norm is zero or something is not finite *)
Definition cos_fix (a b : list dyadic) : option Z :=
  match ex_dot a b, ex_dot a a, ex_dot b b with
  | Some (p, ep), Some (qa, ea), Some (qb, eb) =>
      if (qa <=? 0)%Z || (qb <=? 0)%Z then None
      else
        (* value = p 2^ep / sqrt (qa qb 2^(ea+eb)); make ea+eb even *)
        let '(qq, eq) := if Z.even (ea + eb) then ((qa * qb)%Z, (ea + eb)%Z) else ((2 * qa * qb)%Z, (ea + eb - 1)%Z) in
        let s := Z.sqrt (qq * 2 ^ 160) in            (* sqrt(qq) * 2^80 *)
        (* p 2^ep / (s 2^-80 2^(eq/2)) * 2^40 = p 2^(ep + 120 - eq/2) / s *)
        let sh := (ep + 120 - eq / 2)%Z in
        Some (if (0 <=? sh)%Z then (p * 2 ^ sh / s)%Z else (p / (s * 2 ^ (- sh)))%Z)
  | _, _, _ => None
  end.
