(* C21/C22: executable model of the backward chainer —
     build_proof_tree / build_node     (src/provenance/backward_chaining.rs)
     prove_body / enumerate_derived_candidates (src/provenance/prove_body.rs)
     ProofTreeBuilder                  (src/provenance/proof_tree.rs)
   on width-normalised values, for the fragment of Model/ProvDatalog.v (no aggregates, no
   vector search, no wildcards).  Fuel bounds the call nesting; the depth limit is max_depth
   as in the code.  The `visited` set is restored by every function before it returns, so it
   is passed down as an argument.  Executable definitions only. *)
From IL Require Export Model.ProvDatalog Model.ProvWhyNot.
Open Scope N_scope.

Inductive node :=
| NFact (derived : bool) (r : rel) (t : tuple)
| NRule (r : rel) (t : tuple) (ci : nat) (th : subst) (kids : list nat)
| NNeg (r : rel) (pat : pattern) (args : list value)
| NTrunc (r : rel) (t : tuple).

(* ProofTreeBuilder: nodes by id (id = position), `seen` = latest id per (relation, values) *)
Record builder := mkB { bnodes : list node; bseen : list (rel * tuple * nat) }.
Definition empty_builder : builder := mkB [] [].

Definition key_eqb (a b : rel * tuple) : bool := N.eqb (fst a) (fst b) && tuple_eqb (snd a) (snd b).
Fixpoint seen_get (s : list (rel * tuple * nat)) (k : rel * tuple) : option nat :=
  match s with
  | [] => None
  | (k', id) :: r => if key_eqb k' k then Some id else seen_get r k
  end.
Definition node_key (n : node) : rel * tuple :=
  match n with
  | NFact _ r t => (r, t)
  | NRule r t _ _ _ => (r, t)
  | NNeg r _ args => (r, args)
  | NTrunc r t => (r, t)
  end.
Definition is_fact (n : node) : bool := match n with NFact _ _ _ => true | _ => false end.

(* `insert`: fact nodes are deduplicated by conclusion; every inserted node becomes the
   latest `seen` entry of its conclusion *)
Definition b_insert (b : builder) (n : node) : nat * builder :=
  let k := node_key n in
  match (if is_fact n then seen_get (bseen b) k else None) with
  | Some id => (id, b)
  | None => let id := length (bnodes b) in (id, mkB (bnodes b ++ [n]) ((k, id) :: bseen b))
  end.
(* `insert_unique` *)
Definition b_insert_unique (b : builder) (n : node) : nat * builder :=
  let id := length (bnodes b) in (id, mkB (bnodes b ++ [n]) (bseen b)).

Definition has_key (d : db) (r : rel) : bool := existsb (fun e => N.eqb (fst e) r) d.
Definition mem_key (k : rel * tuple) (l : list (rel * tuple)) : bool := existsb (key_eqb k) l.

Record cctx := mkCtx {
  c_prog : program; c_base : db; c_der : option db; c_max_depth : nat; c_max_proofs : nat }.

Definition is_derived (cx : cctx) (r : rel) : bool := existsb (fun c => N.eqb (arel (chead c)) r) (c_prog cx).
(* clauses of a relation with their position in the program *)
Definition indexed_clauses (cx : cctx) (r : rel) : list (nat * clause) :=
  filter (fun ic => N.eqb (arel (chead (snd ic))) r) (combine (seq 0 (length (c_prog cx))) (c_prog cx)).

Definition in_data (d : db) (r : rel) (t : tuple) : bool := mem_tuple t (rel_tuples d r).
Definition in_data_opt (d : option db) (r : rel) (t : tuple) : bool :=
  match d with Some d' => in_data d' r t | None => false end.

(* head bindings of enumerate_derived_candidates: concrete pattern positions bind head variables *)
Fixpoint enum_head_bind (th : subst) (bound : pattern) (hargs : list term) : subst :=
  match bound, hargs with
  | PC v :: b', TVar x :: h' => enum_head_bind ((x, v) :: th) b' h'
  | _ :: b', _ :: h' => enum_head_bind th b' h'
  | _, _ => th
  end.
Fixpoint enum_pattern_ok (bound : pattern) (t : tuple) : bool :=
  match bound, t with
  | PC v :: b', x :: t' => value_eqb v x && enum_pattern_ok b' t'
  | PV _ :: b', _ :: t' => enum_pattern_ok b' t'
  | _, _ => true
  end.
(* bindings of the pattern's unbound positions; a variable that occurs twice must see equal
   values (the candidate is dropped otherwise), as in find_matching_tuples *)
Fixpoint enum_new_binds (bound : pattern) (t : tuple) (acc : subst) : option subst :=
  match bound, t with
  | PV y :: b', x :: t' =>
      match lookup acc y with
      | Some z => if value_eqb z x then enum_new_binds b' t' acc else None
      | None => enum_new_binds b' t' ((y, x) :: acc)
      end
  | _ :: b', _ :: t' => enum_new_binds b' t' acc
  | _, _ => Some acc
  end.

(* states of prove_body: bindings and children so far *)
Definition pstate := (subst * list nat)%type.

Section Chain.
  Variable cx : cctx.

  (* one positive atom for one state: every match is proved by build_node and kept when it
     yields a node; the builder is threaded *)
  Fixpoint pos_matches (bn : rel * tuple -> builder -> list nat * builder)
           (r : rel) (th : subst) (kids : list nat)
           (ms : list (tuple * subst)) (b : builder) (acc : list pstate) : list pstate * builder :=
    match ms with
    | [] => (acc, b)
    | (mt, nb) :: ms' =>
        let '(ids, b') := bn (r, mt) b in
        let acc' := match ids with id :: _ => acc ++ [(nb ++ th, kids ++ [id])] | [] => acc end in
        pos_matches bn r th kids ms' b' acc'
    end.

  Definition bn_ty := (rel * tuple) -> nat -> list (rel * tuple) -> builder -> list nat * builder.
  Definition pb_ty := list literal -> subst -> nat -> list (rel * tuple) -> builder
                      -> option (list pstate) * builder.
  Definition enum_ty := rel -> pattern -> nat -> list (rel * tuple) -> list (tuple * subst).

  (* enumerate_derived_candidates: forward evaluation of every clause of the relation in a
     temporary builder; candidates that fit the bound pattern *)
  Definition enum_step (pb : pb_ty) (bound : pattern) (depth : nat) (vis : list (rel * tuple))
             (acc : list (tuple * subst) * builder) (ic : nat * clause) : list (tuple * subst) * builder :=
    let '(cands, tb) := acc in
    let c := snd ic in
    let hb := enum_head_bind [] bound (aargs (chead c)) in
    match pb (cbody c) hb (S depth) vis tb with
    | (Some sts, tb') =>
        (cands ++ flat_map (fun st : pstate =>
           match atom_tuple (fst st) (chead c) with
           | Some tu => if enum_pattern_ok bound tu
                        then match enum_new_binds bound tu [] with Some nb => [(tu, nb)] | None => [] end
                        else []
           | None => []
           end) sts, tb')
    | (None, tb') => (cands, tb')
    end.
  Definition enumerate_with (pb : pb_ty) : enum_ty :=
    fun r bound depth vis =>
      if Nat.leb (c_max_depth cx) depth then []
      else fst (fold_left (enum_step pb bound depth vis) (indexed_clauses cx r) ([], empty_builder)).

  (* the candidate tuples of a positive atom: stored facts, else derived data, else (only
     when the relation was not materialized) enumeration *)
  Definition atom_matches (enum : enum_ty) (th : subst) (a : atom) (depth : nat) (vis : list (rel * tuple))
    : list (tuple * subst) :=
    let bound := atom_pat th a in
    let r := arel a in
    let m1 := find_matches (c_base cx) r bound in
    let m2 := match m1 with
              | [] => if is_derived cx r then find_matches_opt (c_der cx) r bound else []
              | _ => m1
              end in
    let materialized := match c_der cx with Some d => has_key d r | None => false end in
    match m2 with
    | [] => if is_derived cx r && negb materialized then enum r bound depth vis else []
    | _ => m2
    end.

  (* one body predicate applied to one state *)
  Definition lit_step (bn : bn_ty) (enum : enum_ty) (l : literal) (depth : nat) (vis : list (rel * tuple))
             (acc : list pstate * builder) (st : pstate) : list pstate * builder :=
    let '(nx, bb) := acc in
    let '(th, kids) := st in
    match l with
    | LPos a =>
        pos_matches (fun k bb' => bn k depth vis bb') (arel a) th kids (atom_matches enum th a depth vis) bb nx
    | LNeg a =>
        let bound := atom_pat th a in
        let r := arel a in
        match find_matches (c_base cx) r bound ++ find_matches_opt (c_der cx) r bound with
        | [] =>
            let '(id, bb') := b_insert_unique bb (NNeg r bound (concretes bound)) in
            (nx ++ [(th, kids ++ [id])], bb')
        | _ => (nx, bb)
        end
    | LCmp x o y =>
        if cmp_ok th x o y then (nx ++ [(th, kids)], bb) else (nx, bb)
    end.

  Fixpoint body_loop (bn : bn_ty) (enum : enum_ty) (depth : nat) (vis : list (rel * tuple))
           (body : list literal) (states : list pstate) (b : builder) : option (list pstate) * builder :=
    match body with
    | [] => (Some states, b)
    | l :: body' =>
        let '(next, b') := fold_left (lit_step bn enum l depth vis) states ([], b) in
        match next with
        | [] => (None, b')
        | _ => body_loop bn enum depth vis body' next b'
        end
    end.
  Definition prove_body_with (bn : bn_ty) (enum : enum_ty) : pb_ty :=
    fun body th0 depth vis b0 => body_loop bn enum depth vis body [(th0, [])] b0.

  (* one Rule node per body result, up to max_proofs_per_tuple *)
  Definition rule_step (r : rel) (t : tuple) (ci : nat) (acc : list nat * builder) (st : pstate)
    : list nat * builder :=
    let '(res, b) := acc in
    if Nat.leb (c_max_proofs cx) (length res) then acc
    else
      let '(id, b') := b_insert b (NRule r t ci (fst st) (snd st)) in
      (res ++ [id], b').
  Definition clause_step (pb : pb_ty) (r : rel) (t : tuple) (depth : nat) (vis : list (rel * tuple))
             (acc : list nat * builder) (ic : nat * clause) : list nat * builder :=
    let '(res, bb) := acc in
    if Nat.leb (c_max_proofs cx) (length res) then acc
    else
      let c := snd ic in
      match unify_head t (chead c) with
      | None => acc
      | Some th0 =>
          match pb (cbody c) th0 (S depth) vis bb with
          | (Some sts, bb') => fold_left (rule_step r t (fst ic)) sts (res, bb')
          | (None, bb') => (res, bb')
          end
      end.
  Definition build_node_with (pb : pb_ty) : bn_ty :=
    fun k depth vis b =>
      let '(r, t) := k in
      if Nat.leb (c_max_depth cx) depth then
        let '(id, b') := b_insert_unique b (NTrunc r t) in ([id], b')
      else
        match seen_get (bseen b) k with
        | Some id => ([id], b)
        | None =>
            if mem_key k vis then ([], b)
            else
              let vis' := k :: vis in
              let in_base := in_data (c_base cx) r t in
              let in_der := in_data_opt (c_der cx) r t in
              if negb (is_derived cx r) then
                if in_base || in_der then let '(id, b') := b_insert b (NFact false r t) in ([id], b')
                else ([], b)
              else
                let '(res0, b0) :=
                  if in_base then let '(id, b') := b_insert b (NFact false r t) in ([id], b') else ([], b) in
                let '(res, b1) := fold_left (clause_step pb r t depth vis') (indexed_clauses cx r) (res0, b0) in
                match res with
                | [] => if in_der then let '(id, b') := b_insert b1 (NFact true r t) in ([id], b') else ([], b1)
                | _ => (res, b1)
                end
        end.

  (* the three functions call each other with a growing depth; fuel bounds the nesting *)
  Fixpoint chain (fuel : nat) : bn_ty * pb_ty :=
    match fuel with
    | O => (fun _ _ _ b => ([], b), fun _ _ _ _ b => (None, b))
    | S f =>
        let lower := chain f in
        let pb := prove_body_with (fst lower) (enumerate_with (snd lower)) in
        (build_node_with pb, pb)
    end.

  (* the DAG unfolded from a node id *)
  Fixpoint unfold (fuel : nat) (nodes : list node) (id : nat) : ptree :=
    match fuel with
    | O => POther
    | S f =>
        match nth_error nodes id with
        | None => POther
        | Some (NFact d r t) => PFact d r t
        | Some (NRule r t ci th kids) => PRule r t ci th (map (unfold f nodes) kids)
        | Some (NNeg r p a) => PNeg r p a
        | Some (NTrunc r t) => PTrunc r t
        end
    end.

  (* build_proof_tree *)
  Definition build_proof_tree (r : rel) (t : tuple) : option ptree :=
    let fuel := (3 * c_max_depth cx + 6)%nat in
    let '(ids, b) := fst (chain fuel) (r, t) O [] empty_builder in
    match ids with
    | [] => None
    | id :: _ => Some (unfold (S (length (bnodes b))) (bnodes b) id)
    end.
End Chain.

(* ---- comparing a model tree with an implementation tree: bindings as finite maps, rule
   identity by clause content (the harness maps the printed rule text to the first clause
   with that text) *)
Fixpoint insert_binding (b : var * value) (l : subst) : subst :=
  match l with
  | [] => [b]
  | c :: r => if N.ltb (fst b) (fst c) then b :: l
              else if N.eqb (fst b) (fst c) then l      (* earlier entries shadow later ones *)
              else c :: insert_binding b r
  end.
Definition canon_subst (th : subst) : subst := fold_right insert_binding [] (rev th).

Definition term_eqb (a b : term) : bool :=
  match a, b with TVar x, TVar y => N.eqb x y | TConst c, TConst d => value_eqb c d | _, _ => false end.
Definition atom_eqb (a b : atom) : bool := N.eqb (arel a) (arel b) && list_eqb term_eqb (aargs a) (aargs b).
Definition cmpop_eqb (a b : cmpop) : bool :=
  match a, b with
  | CEq, CEq | CNe, CNe | CLt, CLt | CLe, CLe | CGt, CGt | CGe, CGe => true
  | _, _ => false
  end.
Definition lit_eqb (a b : literal) : bool :=
  match a, b with
  | LPos x, LPos y => atom_eqb x y
  | LNeg x, LNeg y => atom_eqb x y
  | LCmp l o r, LCmp l' o' r' => term_eqb l l' && cmpop_eqb o o' && term_eqb r r'
  | _, _ => false
  end.
Definition clause_eqb (a b : clause) : bool := atom_eqb (chead a) (chead b) && list_eqb lit_eqb (cbody a) (cbody b).
Definition same_clause (P : program) (i j : nat) : bool :=
  match nth_error P i, nth_error P j with
  | Some a, Some b => clause_eqb a b
  | _, _ => false
  end.
Definition binding_eqb (a b : var * value) : bool := N.eqb (fst a) (fst b) && value_eqb (snd a) (snd b).

Fixpoint ptree_eqb (P : program) (a b : ptree) : bool :=
  match a, b with
  | PFact d r t, PFact d' r' t' => Bool.eqb d d' && N.eqb r r' && tuple_eqb t t'
  | PRule r t ci th kids, PRule r' t' ci' th' kids' =>
      N.eqb r r' && tuple_eqb t t' && same_clause P ci ci' &&
      list_eqb binding_eqb (canon_subst th) (canon_subst th') &&
      (fix go (x y : list ptree) : bool :=
         match x, y with
         | [], [] => true
         | k :: x', k' :: y' => ptree_eqb P k k' && go x' y'
         | _, _ => false
         end) kids kids'
  | PNeg r p a, PNeg r' p' a' => N.eqb r r' && pat_eqb p p' && list_eqb value_eqb a a'
  | PTrunc r t, PTrunc r' t' => N.eqb r r' && tuple_eqb t t'
  | _, _ => false
  end.
Definition optree_eqb (P : program) (a b : option ptree) : bool :=
  match a, b with
  | Some x, Some y => ptree_eqb P x y
  | None, None => true
  | _, _ => false
  end.
