(* The two on-disk encodings of logged tuples, at the level of typed columns / typed JSON values:
     - batch files (src/storage/persist/mod.rs `write_updates_parquet` / `read_updates_parquet`,
       src/value/arrow_convert.rs): the column types of a batch are inferred from its FIRST update
       (`infer_schema_from_updates`; a vector column keeps a fixed dimension only if every vector of
       the column has it), every value is coerced into its column (`build_column_array`:
       `as_i32` / `as_i64` / `as_f64` / ... yielding null on mismatch) and read back by the Arrow
       array type (`extract_value_from_array`: a timestamp column IS an Int64 array);
     - WAL lines (src/storage/persist/wal.rs, `Serialize for Value`): typed JSON
       `{"type": .., "value": ..}`; JSON has no NaN / infinity, such a line does not parse back and
       the entry is skipped at replay.
   `roundtrip` is decode after encode.  Executable definitions only. *)
From IL Require Export Model.Value Model.Store Model.StorePersist.
Open Scope N_scope.

Inductive ckind :=
| KI32 | KI64 | KF64 | KStr | KBool | KNull | KTs
| KVec (dim : option nat) | KVec8 (dim : option nat).

(* `Value::data_type` *)
Definition kind_of (v : value) : ckind :=
  match v with
  | VNull => KNull | VBool _ => KBool | VI32 _ => KI32 | VI64 _ => KI64 | VF64 _ => KF64
  | VTs _ => KTs | VStr _ => KStr
  | VVec b => KVec (Some (length b)) | VVec8 b => KVec8 (Some (length b))
  end.

(* IEEE-754 binary64 bits of an integer (exact for |z| < 2^53, which is all the model is used on) *)
Definition f64_of_Z (z : Z) : N :=
  match z with
  | Z0 => 0
  | Zpos p =>
      let e := N.log2 (Npos p) in
      (e + 1023) * 2 ^ 52 + (Npos p * 2 ^ (52 - e)) mod 2 ^ 52
  | Zneg p =>
      let e := N.log2 (Npos p) in
      2 ^ 63 + (e + 1023) * 2 ^ 52 + (Npos p * 2 ^ (52 - e)) mod 2 ^ 52
  end.

Definition fits_i32 (z : Z) : bool := Z.leb (-2147483648) z && Z.leb z 2147483647.

(* what is read back when `v` was written into a column of type `k` *)
Definition rt (k : ckind) (v : value) : value :=
  match k with
  | KI32 => match v with VI32 z => VI32 z | VI64 z => if fits_i32 z then VI32 z else VNull | _ => VNull end
  | KI64 => match v with VI32 z | VI64 z | VTs z => VI64 z | _ => VNull end
  | KF64 => match v with VF64 b => VF64 b | VI32 z | VI64 z => VF64 (f64_of_Z z) | _ => VNull end
  | KStr => match v with VStr s => VStr s | _ => VNull end
  | KBool => match v with VBool b => VBool b | _ => VNull end
  | KNull => VNull
  | KTs => match v with VTs z | VI64 z => VI64 z | _ => VNull end       (* an Int64 array on disk *)
  | KVec (Some d) => match v with VVec b => VVec b | _ => VVec (repeat 0 d) end   (* zero padding *)
  | KVec None => match v with VVec b => VVec b | _ => VVec [] end
  | KVec8 (Some d) => match v with VVec8 b => VVec8 b | _ => VVec8 (repeat 0%Z d) end
  | KVec8 None => match v with VVec8 b => VVec8 b | _ => VVec8 [] end
  end.

(* column types of a batch: first update, vector dimensions checked against the whole column *)
Definition col_values (i : nat) (b : list update) : list value :=
  flat_map (fun u => match nth_error (u_data u) i with Some v => [v] | None => [] end) b.

Definition col_type (i : nat) (first : value) (b : list update) : ckind :=
  match kind_of first with
  | KVec (Some d) =>
      if negb (Nat.eqb d 0) &&
         forallb (fun v => match v with VVec x => Nat.eqb (length x) d | _ => true end) (col_values i b)
      then KVec (Some d) else KVec None
  | KVec8 (Some d) =>
      if negb (Nat.eqb d 0) &&
         forallb (fun v => match v with VVec8 x => Nat.eqb (length x) d | _ => true end) (col_values i b)
      then KVec8 (Some d) else KVec8 None
  | k => k
  end.

Fixpoint col_types_from (i : nat) (first : tuple) (b : list update) : list ckind :=
  match first with
  | [] => []
  | v :: r => col_type i v b :: col_types_from (S i) r b
  end.

Definition col_types (b : list update) : list ckind :=
  match b with [] => [] | u :: _ => col_types_from 0 (u_data u) b end.

Fixpoint rt_tuple (ks : list ckind) (t : tuple) : tuple :=
  match ks, t with
  | k :: kr, v :: tr => rt k v :: rt_tuple kr tr
  | _, _ => []
  end.

(* a batch whose schema has a Null-typed column cannot be written: the flush fails (and the
   startup flush of the replayed WAL fails, so the store does not open) *)
Definition batch_unwritable (b : list update) : bool :=
  existsb (fun k => match k with KNull => true | _ => false end) (col_types b).

Definition roundtrip_batch (b : list update) : list update :=
  let ks := col_types b in
  map (fun u => mkU (rt_tuple ks (u_data u)) (u_time u) (u_diff u)) b.

(* ---- WAL *)
Definition f64_finite (b : N) : bool := N.ltb (f64_mag b) 0x7FF0000000000000.
Definition f32_finite (b : N) : bool := N.ltb (f32_mag b) 0x7F800000.
Definition json_ok (v : value) : bool :=
  match v with
  | VF64 b => f64_finite b
  | VVec bs => forallb f32_finite bs
  | _ => true
  end.
(* entries whose line parses back *)
Definition wal_roundtrip (w : list update) : list update :=
  filter (fun u => forallb json_ok (u_data u)) w.

(* ---- restart of a physical store: the WAL is replayed (unparsable lines skipped), flushed as one
   more batch, then every batch file is read back and the log replayed to the current set *)
Definition restart_batches (p : pst) : list (list update) :=
  match wal_roundtrip (wal p) with
  | [] => batches p
  | w => batches p ++ [w]
  end.

Definition reopens (p : pst) : bool := negb (existsb batch_unwritable (restart_batches p)).

Definition recovered (p : pst) : list tuple :=
  recover (concat (map roundtrip_batch (restart_batches p))).

(* ---- hypotheses of the round-trip theorem, as decidable predicates *)
Definition storable_kind (k : ckind) : bool :=
  match k with KNull | KTs => false | _ => true end.

(* every tuple of the batch has, column by column, exactly the kind of the first tuple (vectors:
   any lengths), and that kind is neither Null nor Timestamp *)
Definition same_shape (a b : value) : bool :=
  match a, b with
  | VNull, VNull | VBool _, VBool _ | VI32 _, VI32 _ | VI64 _, VI64 _ | VF64 _, VF64 _
  | VTs _, VTs _ | VStr _, VStr _ | VVec _, VVec _ | VVec8 _, VVec8 _ => true
  | _, _ => false
  end.
Fixpoint same_shape_t (a b : tuple) : bool :=
  match a, b with
  | [], [] => true
  | x :: ar, y :: br => same_shape x y && same_shape_t ar br
  | _, _ => false
  end.
Definition homogeneous (b : list update) : bool :=
  match b with
  | [] => true
  | u :: _ =>
      forallb (fun v => storable_kind (kind_of v)) (u_data u) &&
      forallb (fun w => same_shape_t (u_data u) (u_data w)) b
  end.

(* ---- known-finding classes, decided on the input (history + buffer size) through the model:
   5 a batch starts with a Null (unwritable, store does not reopen); 4 a WAL entry holds a non-finite
   float; 1 a value does not fit its batch column (read back as Null / zero vector) or the arity
   differs; 2 an integer is widened / narrowed / turned into a float by its column; 3 a timestamp
   (read back as Int64) *)
Definition coerced_numeric (k : ckind) (v : value) : bool :=
  match k, v with
  | KI64, VI32 _ | KI32, VI64 _ | KF64, VI32 _ | KF64, VI64 _ => true
  | _, _ => false
  end.

Fixpoint tuple_changes (ks : list ckind) (t : tuple) : bool * bool :=   (* (non-numeric change, numeric coercion) *)
  match ks, t with
  | k :: kr, v :: tr =>
      let '(a, b) := tuple_changes kr tr in
      if value_eqb (rt k v) v then (a, b)
      else match v with
           | VTs _ => (a, b)                       (* class 3, counted separately *)
           | _ => if coerced_numeric k v then (a, true) else (true, b)
           end
  | [], [] => (false, false)
  | _, _ => (true, false)                          (* arity differs from the batch's first tuple *)
  end.

Definition batch_changes (b : list update) : bool * bool :=
  let ks := col_types b in
  fold_right (fun u acc => let '(x, y) := tuple_changes ks (u_data u) in (x || fst acc, y || snd acc)) (false, false) b.

Definition has_ts (l : list update) : bool :=
  existsb (fun u => existsb (fun v => match v with VTs _ => true | _ => false end) (u_data u)) l.

Definition c12_class (p : pst) : N :=
  let bs := restart_batches p in
  if negb (reopens p) then 5
  else if negb (Nat.eqb (length (wal_roundtrip (wal p))) (length (wal p))) then 4
  else if existsb (fun b => fst (batch_changes b)) bs then 1
  else if existsb (fun b => snd (batch_changes b)) bs then 2
  else if has_ts (concat bs) then 3
  else 0.

