(* Datalog-level model of query evaluation (Group A: C01, C02, C04, C06, C07, C08, C34).
   - clause semantics `eval_clause` (what IRBuilder::build_ir + CodeGenerator compute for one rule,
     at the level of satisfying valuations),
   - the SPECIFICATION `perfect_model` (stratified least model, iterated least fixpoints),
   - the engine's evaluation STRATEGY `eval_engine` (src/lib.rs execute_tuples_profiled:
     get_rule_heads, topological_sort_ir_nodes, detect_recursion_info, per-head single pass or
     local fixpoint, accumulated results shadowing stored relations, answer = last node).
   Executable definitions only. *)
From IL Require Export Model.Value.
Open Scope N_scope.

Definition rel := N.
Definition db := list (rel * list tuple).

Fixpoint get (d : db) (r : rel) : list tuple :=
  match d with
  | [] => []
  | (r', ts) :: d' => if N.eqb r r' then ts else get d' r
  end.

Definition set_rel (d : db) (r : rel) (ts : list tuple) : db := (r, ts) :: d.

Inductive term := TVar (x : N) | TConst (v : value) | TWild.
Inductive cmpop := OEq | ONe | OLt | OLe | OGt | OGe.
Inductive aexp := AVar (x : N) | AConst (z : Z) | AAdd (a b : aexp) | ASub (a b : aexp) | AMul (a b : aexp).
Inductive lit :=
| LPos (r : rel) (args : list term)
| LNeg (r : rel) (args : list term)
| LCmp (op : cmpop) (l r : term)
| LAssign (x : N) (e : aexp).
Inductive aggfun := ACount | ASum | AMin | AMax | ACountDistinct.
Inductive hterm := HVar (x : N) | HConst (v : value) | HAgg (f : aggfun) (x : N).
Record clause := { chead : rel; cargs : list hterm; cbody : list lit }.
Definition program := list clause.

Definition valuation := list (N * value).
Fixpoint lookup (th : valuation) (x : N) : option value :=
  match th with
  | [] => None
  | (y, v) :: r => if N.eqb x y then Some v else lookup r x
  end.

(* match an atom's argument list against a tuple, extending the valuation *)
Fixpoint match_args (args : list term) (t : tuple) (th : valuation) : option valuation :=
  match args, t with
  | [], [] => Some th
  | a :: args', v :: t' =>
      match a with
      | TWild => match_args args' t' th
      | TConst c => if value_eqb c v then match_args args' t' th else None
      | TVar x =>
          match lookup th x with
          | Some w => if value_eqb w v then match_args args' t' th else None
          | None => match_args args' t' ((x, v) :: th)
          end
      end
  | _, _ => None
  end.

Definition extend_pos (d : db) (r : rel) (args : list term) (ths : list valuation) : list valuation :=
  flat_map (fun th => flat_map (fun t => match match_args args t th with Some th' => [th'] | None => [] end) (get d r)) ths.

Fixpoint aeval (th : valuation) (e : aexp) : option Z :=
  match e with
  | AVar x => match lookup th x with Some (VI64 z) => Some z | Some (VI32 z) => Some z | _ => None end
  | AConst z => Some z
  | AAdd a b => match aeval th a, aeval th b with Some x, Some y => Some (x + y)%Z | _, _ => None end
  | ASub a b => match aeval th a, aeval th b with Some x, Some y => Some (x - y)%Z | _, _ => None end
  | AMul a b => match aeval th a, aeval th b with Some x, Some y => Some (x * y)%Z | _, _ => None end
  end.

Definition term_val (th : valuation) (t : term) : option value :=
  match t with TVar x => lookup th x | TConst v => Some v | TWild => None end.

(* comparison on the generator's fragment: integers numerically, anything else only (in)equality *)
Definition int_of (v : value) : option Z :=
  match v with VI64 z => Some z | VI32 z => Some z | _ => None end.

Definition cmp_vals (op : cmpop) (a b : value) : bool :=
  match int_of a, int_of b with
  | Some x, Some y =>
      match op with
      | OEq => Z.eqb x y | ONe => negb (Z.eqb x y)
      | OLt => Z.ltb x y | OLe => Z.leb x y | OGt => Z.ltb y x | OGe => Z.leb y x
      end
  | _, _ =>
      match op with
      | OEq => value_eqb a b | ONe => negb (value_eqb a b)
      | _ => false
      end
  end.

Definition holds_cmp (th : valuation) (op : cmpop) (l r : term) : bool :=
  match term_val th l, term_val th r with
  | Some a, Some b => cmp_vals op a b
  | _, _ => false
  end.

(* a negated atom holds when no stored tuple matches its pattern under th *)
Definition holds_neg (d : db) (th : valuation) (r : rel) (args : list term) : bool :=
  negb (existsb (fun t => match match_args args t th with Some _ => true | None => false end) (get d r)).

(* body evaluation: positive atoms in order, then assignments, then comparisons and negations *)
Fixpoint pos_pass (d : db) (body : list lit) (ths : list valuation) : list valuation :=
  match body with
  | [] => ths
  | LPos r args :: b => pos_pass d b (extend_pos d r args ths)
  | _ :: b => pos_pass d b ths
  end.

Fixpoint assign_pass (body : list lit) (ths : list valuation) : list valuation :=
  match body with
  | [] => ths
  | LAssign x e :: b =>
      assign_pass b
        (flat_map (fun th =>
           match aeval th e with
           | Some z =>
               match lookup th x with
               | Some w => if cmp_vals OEq w (VI64 z) then [th] else []
               | None => [(x, VI64 z) :: th]
               end
           | None => []
           end) ths)
  | _ :: b => assign_pass b ths
  end.

Definition filter_lit (d : db) (th : valuation) (l : lit) : bool :=
  match l with
  | LCmp op a b => holds_cmp th op a b
  | LNeg r args => holds_neg d th r args
  | _ => true
  end.

Definition eval_body (d : db) (body : list lit) : list valuation :=
  filter (fun th => forallb (filter_lit d th) body) (assign_pass body (pos_pass d body [[]])).

Definition inst_hterm (th : valuation) (h : hterm) : option value :=
  match h with
  | HVar x => lookup th x
  | HConst v => Some v
  | HAgg _ _ => None
  end.

Fixpoint inst_head (th : valuation) (hs : list hterm) : option tuple :=
  match hs with
  | [] => Some []
  | h :: r => match inst_hterm th h, inst_head th r with Some v, Some t => Some (v :: t) | _, _ => None end
  end.

Definition opt_to_list {A} (o : option A) : list A := match o with Some a => [a] | None => [] end.

Definition has_agg (c : clause) : bool :=
  existsb (fun h => match h with HAgg _ _ => true | _ => false end) (cargs c).

(* plain (non-aggregate) clause: head instances of all satisfying valuations, as a set *)
Definition eval_clause_plain (d : db) (c : clause) : list tuple :=
  dedup_tuples (flat_map (fun th => opt_to_list (inst_head th (cargs c))) (eval_body d (cbody c))).

(* ---------------------------------------------------------------- aggregates (C06) *)
(* distinct satisfying valuations restricted to the clause's NAMED body variables (wildcards are
   projected away by the IR builder before aggregation, see Checks/C06 for how this is validated) *)
Fixpoint vars_of_terms (ts : list term) : list N :=
  match ts with [] => [] | TVar x :: r => x :: vars_of_terms r | _ :: r => vars_of_terms r end.
Fixpoint body_vars (body : list lit) : list N :=
  match body with
  | [] => []
  | LPos _ args :: b => vars_of_terms args ++ body_vars b
  | LAssign x _ :: b => x :: body_vars b
  | _ :: b => body_vars b
  end.
Fixpoint nodupN (l : list N) : list N :=
  match l with [] => [] | x :: r => if existsb (N.eqb x) r then nodupN r else x :: nodupN r end.

Definition row_of (th : valuation) (xs : list N) : option tuple :=
  inst_head th (map HVar xs).

(* a wildcard is an anonymous variable: for counting valuations each wildcard of a positive atom is
   its own variable (distinct values of it are distinct valuations) *)
Fixpoint freshen_args (k : N) (args : list term) : list term * N :=
  match args with
  | [] => ([], k)
  | TWild :: r => let '(r', k') := freshen_args (k + 1) r in (TVar (1000000 + k) :: r', k')
  | a :: r => let '(r', k') := freshen_args k r in (a :: r', k')
  end.
Fixpoint freshen_body (k : N) (body : list lit) : list lit :=
  match body with
  | [] => []
  | LPos r args :: b => let '(args', k') := freshen_args k args in LPos r args' :: freshen_body k' b
  | l :: b => l :: freshen_body k b
  end.

Definition sat_rows (d : db) (c : clause) : list tuple :=
  let body := freshen_body 0 (cbody c) in
  let xs := nodupN (body_vars body) in
  dedup_tuples (flat_map (fun th => opt_to_list (row_of th xs)) (eval_body d body)).

Fixpoint index_of (x : N) (xs : list N) : option nat :=
  match xs with
  | [] => None
  | y :: r => if N.eqb x y then Some 0%nat else option_map S (index_of x r)
  end.

Definition group_key (xs : list N) (hs : list hterm) (row : tuple) : option tuple :=
  inst_head (combine xs row) (filter (fun h => match h with HAgg _ _ => false | _ => true end) hs).

Definition zmin_list (l : list Z) : option Z :=
  match l with [] => None | x :: r => Some (fold_left Z.min r x) end.
Definition zmax_list (l : list Z) : option Z :=
  match l with [] => None | x :: r => Some (fold_left Z.max r x) end.

Fixpoint dedupZ (l : list Z) : list Z :=
  match l with [] => [] | x :: r => if existsb (Z.eqb x) r then dedupZ r else x :: dedupZ r end.

(* value of one aggregate over the rows of a group; sums saturate like i64 *)
Definition i64_min : Z := (- 2 ^ 63)%Z.
Definition i64_max : Z := (2 ^ 63 - 1)%Z.
Definition sat_add (a b : Z) : Z := Z.max i64_min (Z.min i64_max (a + b)).

Definition agg_value (f : aggfun) (vals : list value) : option value :=
  match f with
  | ACount => Some (VI64 (Z.of_nat (length vals)))
  | ACountDistinct => Some (VI64 (Z.of_nat (length (dedup_tuples (map (fun v => [v]) vals)))))
  | ASum =>
      (fix go (vs : list value) (acc : Z) : option value :=
         match vs with
         | [] => Some (VI64 acc)
         | v :: r => match int_of v with Some z => go r (sat_add acc z) | None => None end
         end) vals 0%Z
  | AMin =>
      match zmin_list (flat_map (fun v => opt_to_list (int_of v)) vals) with
      | Some z => if Nat.eqb (length (flat_map (fun v => opt_to_list (int_of v)) vals)) (length vals)
                  then Some (VI64 z) else None
      | None => None
      end
  | AMax =>
      match zmax_list (flat_map (fun v => opt_to_list (int_of v)) vals) with
      | Some z => if Nat.eqb (length (flat_map (fun v => opt_to_list (int_of v)) vals)) (length vals)
                  then Some (VI64 z) else None
      | None => None
      end
  end.

Fixpoint agg_go (xs : list N) (grp : list tuple) (hs : list hterm) (key : tuple) : option tuple :=
  match hs with
  | [] => Some []
  | HAgg f x :: r =>
      match index_of x xs with
      | Some i =>
          match agg_value f (flat_map (fun row => opt_to_list (nth_error row i)) grp), agg_go xs grp r key with
          | Some v, Some t => Some (v :: t)
          | _, _ => None
          end
      | None => None
      end
  | _ :: r =>
      match key with
      | k :: key' => match agg_go xs grp r key' with Some t => Some (k :: t) | None => None end
      | [] => None
      end
  end.

Definition agg_head (xs : list N) (rows : list tuple) (key : tuple) (hs : list hterm) : option tuple :=
  let grp := filter (fun row => match group_key xs hs row with Some k => tuple_eqb k key | None => false end) rows in
  agg_go xs grp hs key.

(* aggregation spec: one output row per group of distinct satisfying valuations *)
Definition eval_clause_agg (d : db) (c : clause) : list tuple :=
  let xs := nodupN (body_vars (freshen_body 0 (cbody c))) in
  let rows := sat_rows d c in
  let keys := dedup_tuples (flat_map (fun row => opt_to_list (group_key xs (cargs c) row)) rows) in
  flat_map (fun k => opt_to_list (agg_head xs rows k (cargs c))) keys.

Definition eval_clause (d : db) (c : clause) : list tuple :=
  if has_agg c then eval_clause_agg d c else eval_clause_plain d c.

(* ---------------------------------------------------------------- program structure *)
Fixpoint heads_of (p : program) (seen : list rel) : list rel :=
  match p with
  | [] => []
  | c :: r => if existsb (N.eqb (chead c)) seen then heads_of r seen
              else chead c :: heads_of r (chead c :: seen)
  end.
Definition heads (p : program) : list rel := heads_of p [].

Definition clauses_of (p : program) (h : rel) : list clause := filter (fun c => N.eqb (chead c) h) p.

Definition lit_rel (l : lit) : list (rel * bool) :=   (* (relation, negative?) *)
  match l with LPos r _ => [(r, false)] | LNeg r _ => [(r, true)] | _ => [] end.
Definition clause_refs (c : clause) : list (rel * bool) := flat_map lit_rel (cbody c).
Definition head_refs (p : program) (h : rel) : list (rel * bool) := flat_map clause_refs (clauses_of p h).
Definition memN (x : N) (l : list N) : bool := existsb (N.eqb x) l.

Definition self_rec (p : program) (h : rel) : bool := memN h (map fst (head_refs p h)).

(* all results of the clauses of h on database d, as a set *)
Definition apply_head (p : program) (d : db) (h : rel) : list tuple :=
  dedup_tuples (flat_map (eval_clause d) (clauses_of p h)).

Definition incl_b (a b : list tuple) : bool := forallb (fun t => mem_tuple t b) a.
Definition set_eqb (a b : list tuple) : bool := incl_b a b && incl_b b a.

(* ---------------------------------------------------------------- specification: perfect model *)
(* stratum numbers by relaxation: level h >= level b (positive), > level b (negative) *)
Definition lvl (ls : list (rel * nat)) (r : rel) : nat :=
  match find (fun e => N.eqb r (fst e)) ls with Some e => snd e | None => 0%nat end.

(* for stratification an aggregate clause depends on its body relations like a negation does:
   they must be complete before the aggregate is taken *)
Definition clause_refs_s (c : clause) : list (rel * bool) :=
  if has_agg c then map (fun rb => (fst rb, true)) (clause_refs c) else clause_refs c.
Definition head_refs_s (p : program) (h : rel) : list (rel * bool) := flat_map clause_refs_s (clauses_of p h).

Definition relax_head (p : program) (ls : list (rel * nat)) (h : rel) : nat :=
  fold_left Nat.max
    (map (fun rb => if snd rb : bool then S (lvl ls (fst rb)) else lvl ls (fst rb)) (head_refs_s p h))
    (lvl ls h).

Definition relax (p : program) (ls : list (rel * nat)) : list (rel * nat) :=
  map (fun h => (h, relax_head p ls h)) (heads p).

Fixpoint iter {A} (n : nat) (f : A -> A) (x : A) : A :=
  match n with O => x | S n' => iter n' f (f x) end.

Definition levels (p : program) : list (rel * nat) :=
  let n := length (heads p) in
  iter (S (n * n)) (relax p) (map (fun h => (h, 0%nat)) (heads p)).

(* stratifiable iff the relaxation has stabilised with all levels <= number of heads *)
Definition stratified (p : program) : bool :=
  let ls := levels p in
  forallb (fun h => Nat.eqb (relax_head p ls h) (lvl ls h)) (heads p) &&
  forallb (fun h => Nat.leb (lvl ls h) (length (heads p))) (heads p).

(* one joint round for the heads hs: every head gets its old tuples plus all consequences *)
Definition joint_round (p : program) (hs : list rel) (d : db) : db :=
  fold_left (fun acc h => set_rel acc h (dedup_tuples (get d h ++ apply_head p d h))) hs d.

Definition grown (hs : list rel) (d d' : db) : bool :=
  existsb (fun h => negb (Nat.eqb (length (get d h)) (length (get d' h)))) hs.

Fixpoint joint_lfp (fuel : nat) (p : program) (hs : list rel) (d : db) : option db :=
  match fuel with
  | O => None
  | S f => let d' := joint_round p hs d in
           if grown hs d d' then joint_lfp f p hs d' else Some d
  end.

Fixpoint strata_eval (fuel : nat) (p : program) (ls : list (rel * nat)) (k n : nat) (d : db) : option db :=
  match n with
  | O => Some d
  | S n' =>
      match joint_lfp fuel p (filter (fun h => Nat.eqb (lvl ls h) k) (heads p)) d with
      | Some d' => strata_eval fuel p ls (S k) n' d'
      | None => None
      end
  end.

Definition perfect_model (fuel : nat) (p : program) (edb : db) : option db :=
  if stratified p then
    strata_eval fuel p (levels p) 0 (S (length (heads p))) edb
  else None.

(* ---------------------------------------------------------------- the engine's strategy *)
Definition deps (p : program) (hs : list rel) (h : rel) : list rel :=
  filter (fun r => memN r hs && negb (N.eqb r h)) (nodupN (map fst (head_refs p h))).

(* Kahn's algorithm with a min-index queue, as topological_sort_ir_nodes:
   `done` = already output (in order, reversed); pick the first head (in index order) not done
   all of whose deps are done; stop when none qualifies *)
Fixpoint kahn (fuel : nat) (p : program) (hs : list rel) (done : list rel) : list rel :=
  match fuel with
  | O => rev done
  | S f =>
      match find (fun h => negb (memN h done) && forallb (fun r => memN r done) (deps p hs h)) hs with
      | Some h => kahn f p hs (h :: done)
      | None => rev done
      end
  end.

Definition topo_order (p : program) : list rel :=
  let hs := heads p in
  let o := kahn (length hs) p hs [] in
  let o' := o ++ filter (fun h => negb (memN h o)) hs in   (* cycle: remaining in original order *)
  match rev hs with
  | [] => o'
  | q :: _ => filter (fun h => negb (N.eqb h q)) o' ++ [q]  (* the last head (the query) runs last *)
  end.

(* local fixpoint for a self-recursive head: Kleene iteration from the empty relation *)
Fixpoint local_lfp (fuel : nat) (p : program) (env : db) (h : rel) (cur : list tuple) : option (list tuple) :=
  match fuel with
  | O => None
  | S f =>
      let nxt := dedup_tuples (cur ++ apply_head p (set_rel env h cur) h) in
      if Nat.eqb (length nxt) (length cur) then Some cur else local_lfp f p env h nxt
  end.

Definition run_node (fuel : nat) (p : program) (env : db) (h : rel) : option (list tuple) :=
  if self_rec p h then local_lfp fuel p env h [] else Some (apply_head p env h).

Fixpoint run_nodes (fuel : nat) (p : program) (order : list rel) (env : db) (last : list tuple)
  : option (db * list tuple) :=
  match order with
  | [] => Some (env, last)
  | h :: r =>
      match run_node fuel p env h with
      | Some res => run_nodes fuel p r (set_rel env h res) res
      | None => None
      end
  end.

Definition eval_engine (fuel : nat) (p : program) (edb : db) : option (list tuple) :=
  match run_nodes fuel p (topo_order p) edb [] with
  | Some (_, last) => Some last
  | None => None
  end.

(* the query relation = head of the last clause *)
Definition query_rel (p : program) : option rel :=
  match rev p with c :: _ => Some (chead c) | [] => None end.

(* known-finding class C01/C04 "mutual recursion": two distinct heads that reach each other *)
Fixpoint reach (fuel : nat) (p : program) (hs : list rel) (front : list rel) (seen : list rel) : list rel :=
  match fuel with
  | O => seen
  | S f =>
      let nxt := nodupN (flat_map (fun h => filter (fun r => memN r hs) (map fst (head_refs p h))) front) in
      let fresh := filter (fun r => negb (memN r seen)) nxt in
      match fresh with
      | [] => seen
      | _ => reach f p hs fresh (seen ++ fresh)
      end
  end.
Definition reaches (p : program) (a b : rel) : bool :=
  memN b (reach (S (length (heads p))) p (heads p) [a] []).
Definition mutual_recursion (p : program) : bool :=
  existsb (fun a => existsb (fun b => negb (N.eqb a b) && reaches p a b && reaches p b a) (heads p)) (heads p).

(* decidable side conditions of the theorem (hypotheses of C01_engine_is_perfect_model; evaluated on every generated case by Checks/C01.v) *)
Definition no_aggb (p : program) : bool := forallb (fun c => negb (has_agg c)) p.
Definition heads_fresh (p : program) (edb : db) : bool :=
  forallb (fun h => match get edb h with [] => true | _ => false end) (heads p).
Fixpoint order_okb (p : program) (hs done o : list rel) : bool :=
  match o with
  | [] => true
  | h :: r => memN h hs && forallb (fun g => memN g done) (deps p hs h) && order_okb p hs (h :: done) r
  end.
Definition order_ok (p : program) : bool := order_okb p (heads p) [] (topo_order p).
Definition engine_query (p : program) : rel := last (topo_order p) 0.


(* ---------------------------------------------------------------- C34: the acceptance check *)
(* rule_catalog::validate_rules_stratification: a negative dependency inside a dependency cycle.
   `reaches` follows dependencies among heads; an edge to a non-head cannot close a cycle. *)
Definition neg_cycle (p : program) : bool :=
  existsb (fun h =>
    existsb (fun rb => (snd rb : bool) && (N.eqb (fst rb) h || reaches p (fst rb) h)) (head_refs p h))
    (heads p).

(* safety as Rule::is_safe / validate_rule: head variables and variables of negated atoms are bound
   by positive body atoms (or assignments) *)
Definition hterm_vars (hs : list hterm) : list N :=
  flat_map (fun h => match h with HVar x => [x] | HAgg _ x => [x] | HConst _ => [] end) hs.
Definition clause_safe (c : clause) : bool :=
  let bound := body_vars (cbody c) in
  forallb (fun x => memN x bound) (hterm_vars (cargs c)) &&
  forallb (fun l => match l with
                    | LNeg _ args => forallb (fun x => memN x bound) (vars_of_terms args)
                    | _ => true end) (cbody c).
Definition accepts (p : program) : bool := forallb clause_safe p && negb (neg_cycle p).

(* ---------------------------------------------------------------- C08: row limit *)
(* the repaired engine truncates only the answer (last node); `pick` is whichever rows the dataflow
   happens to emit first *)
Definition eval_limit (pick : list tuple -> list tuple) (fuel : nat) (p : program) (edb : db) : option (list tuple) :=
  option_map pick (eval_engine fuel p edb).

(* the pinned engine truncated EVERY node's result (first n rows), kept for the refutation lemma *)
Fixpoint run_nodes_trunc (n : nat) (fuel : nat) (p : program) (order : list rel) (env : db) (last : list tuple)
  : option (db * list tuple) :=
  match order with
  | [] => Some (env, last)
  | h :: r =>
      match run_node fuel p env h with
      | Some res => run_nodes_trunc n fuel p r (set_rel env h (firstn n res)) (firstn n res)
      | None => None
      end
  end.
Definition eval_engine_trunc_all (n fuel : nat) (p : program) (edb : db) : option (list tuple) :=
  match run_nodes_trunc n fuel p (topo_order p) edb [] with Some (_, l) => Some l | None => None end.

(* known-finding class 4: a variable defined by an arithmetic assignment is ALSO constrained by an
   equality comparison in the same clause (`V = X - 2, V = X`); the IR builder treats every equality on
   a variable that is not bound by a body atom as "the" assignment and drops the other one *)
Definition assign_eq_conflict (c : clause) : bool :=
  existsb (fun l => match l with
                    | LAssign x _ =>
                        existsb (fun l' => match l' with
                                           | LCmp OEq (TVar y) _ => N.eqb x y
                                           | LCmp OEq _ (TVar y) => N.eqb x y
                                           | _ => false end) (cbody c)
                    | _ => false end) (cbody c).

(* known-finding class 5 (C02): a rule with at least two positive atoms one of which repeats a variable
   (e(X, X)); with join planning on, the reordered join's projection indexes the wrong column *)
Fixpoint has_dupN (l : list N) : bool :=
  match l with [] => false | x :: r => existsb (N.eqb x) r || has_dupN r end.
Definition repeated_var_join (c : clause) : bool :=
  let pos := flat_map (fun l => match l with LPos _ args => [args] | _ => [] end) (cbody c) in
  Nat.leb 2 (length pos) && existsb (fun args => has_dupN (vars_of_terms args)) pos.
