(* Statement level of the write path (src/protocol/handler.rs, `Handler::query_program`):
   `+r[...]`, `-r(..)`, `-r[...]`, conditional delete `-r(h1,h2) <- cond`, and
   update `-r(d1,d2), +r(i1,i2) <- r(X,Y), cond`, all on one binary relation `r`.
   Every statement is executed as a sequence of engine operations of Model/Store.v
   (`step_ins` / `step_del`), exactly as the handler calls `insert_tuples_into` /
   `delete_tuples_from`; the reports are the counts the handler prints.
   Executable definitions only. *)
From IL Require Export Model.Value Model.Store.
Open Scope N_scope.

(* template argument of a head / target atom: the variables X, Y or a constant *)
Inductive arg := AX | AY | AC (v : value).
Inductive cmpop := OLt | OLe | OGt | OGe | OEq | ONe.
(* body condition: none, <var> op <int constant> (var: false = X, true = Y), or X op Y *)
Inductive cond := CTrue | CVC (y : bool) (o : cmpop) (k : Z) | CVV (o : cmpop).

Definition zcmp (o : cmpop) (a b : Z) : bool :=
  match o with
  | OLt => Z.ltb a b | OLe => Z.leb a b | OGt => Z.ltb b a | OGe => Z.leb b a
  | OEq => Z.eqb a b | ONe => negb (Z.eqb a b)
  end.

Definition as_int (v : value) : option Z :=
  match v with VI64 z => Some z | VI32 z => Some z | _ => None end.

(* a (partial) binding of X and Y *)
Definition binding := (option value * option value)%type.

Definition eval_cond (c : cond) (b : binding) : bool :=
  match c with
  | CTrue => true
  | CVC false o k => match fst b with Some v => match as_int v with Some a => zcmp o a k | None => false end | None => false end
  | CVC true o k => match snd b with Some v => match as_int v with Some a => zcmp o a k | None => false end | None => false end
  | CVV o =>
      match fst b, snd b with
      | Some v, Some w => match as_int v, as_int w with Some a, Some c' => zcmp o a c' | _, _ => false end
      | _, _ => false
      end
  end.

(* variables a condition mentions are bound by the atom pattern (otherwise the rule is unsafe
   and the engine rejects the query) *)
Definition cond_vars_bound (c : cond) (pat : list arg) : bool :=
  let hasx := existsb (fun a => match a with AX => true | _ => false end) pat in
  let hasy := existsb (fun a => match a with AY => true | _ => false end) pat in
  match c with
  | CTrue => true
  | CVC false _ _ => hasx
  | CVC true _ _ => hasy
  | CVV _ => hasx && hasy
  end.

(* match a stored tuple against an atom pattern *)
Fixpoint unify (pat : list arg) (t : tuple) (b : binding) : option binding :=
  match pat, t with
  | [], [] => Some b
  | AX :: pr, v :: tr =>
      match fst b with
      | None => unify pr tr (Some v, snd b)
      | Some x => if value_eqb x v then unify pr tr b else None
      end
  | AY :: pr, v :: tr =>
      match snd b with
      | None => unify pr tr (fst b, Some v)
      | Some y => if value_eqb y v then unify pr tr b else None
      end
  | AC c :: pr, v :: tr => if value_eqb c v then unify pr tr b else None
  | _, _ => None
  end.

(* instantiate a template under a binding (None when it uses an unbound variable) *)
Fixpoint inst (tm : list arg) (b : binding) : option tuple :=
  match tm with
  | [] => Some []
  | a :: r =>
      match (match a with AX => fst b | AY => snd b | AC v => Some v end), inst r b with
      | Some v, Some t => Some (v :: t)
      | _, _ => None
      end
  end.

(* bindings of `r(pat), cond` over the stored relation, one per matching tuple *)
Definition matches (pat : list arg) (c : cond) (s : list tuple) : list binding :=
  flat_map (fun t => match unify pat t (None, None) with
                     | Some b => if eval_cond c b then [b] else []
                     | None => []
                     end) s.

Definition insts (tm : list arg) (bs : list binding) : list tuple :=
  flat_map (fun b => match inst tm b with Some t => [t] | None => [] end) bs.

(* one `delete_tuples_from(.., vec![t])` per tuple; sum of the reported counts; None on error *)
Fixpoint del_each (s : st) (ds : list tuple) : st * option N :=
  match ds with
  | [] => (s, Some 0)
  | d :: r =>
      match step_del s [d] with
      | (s1, RDel n) => let '(s2, m) := del_each s1 r in (s2, option_map (N.add n) m)
      | (s1, _) => (s1, None)
      end
  end.

(* one `insert_tuples_into(.., vec![t])` per tuple; sum of the new counts *)
Fixpoint ins_each (s : st) (is : list tuple) : st * option N :=
  match is with
  | [] => (s, Some 0)
  | i :: r =>
      match step_ins s [i] with
      | (s1, RIns n _) => let '(s2, m) := ins_each s1 r in (s2, option_map (N.add n) m)
      | (s1, _) => (s1, None)
      end
  end.

Inductive stmt :=
| SIns (ts : list tuple)                          (* +r[(..),(..)]           *)
| SDel (t : tuple)                                (* -r(a, b)                *)
| SBulk (ts : list tuple)                         (* -r[(..),(..)]           *)
| SCond (head : list arg) (c : cond)              (* -r(h1, h2) <- cond      *)
| SUpd (dt it : list arg) (c : cond).             (* -r(dt), +r(it) <- r(X, Y), cond *)

Inductive sreport :=
| SRIns (n : N) | SRDel (n : N) | SRCond (n : N) | SRUpd (d i : N) | SRErr.

Definition exec (s : st) (q : stmt) : st * sreport :=
  match q with
  | SIns ts =>
      match step_ins s ts with
      | (s', RIns n _) => (s', SRIns n)
      | (s', _) => (s', SRErr)
      end
  | SDel t =>
      match step_del s [t] with
      | (s', RDel n) => (s', SRDel n)
      | (s', _) => (s', SRErr)
      end
  | SBulk ts =>
      match del_each s ts with
      | (s', Some n) => (s', SRDel n)
      | (s', None) => (s', SRErr)
      end
  | SCond head c =>
      if negb (cond_vars_bound c head) then (s, SRErr)
      else
        match del_each s (insts head (matches head c (live s))) with
        | (s', Some n) => (s', SRCond n)
        | (s', None) => (s', SRErr)
        end
  | SUpd dt it c =>
      (* repaired handler: all deletes of all matched bindings first, then all inserts *)
      let bs := matches [AX; AY] c (live s) in
      match del_each s (insts dt bs) with
      | (s1, Some d) =>
          match ins_each s1 (insts it bs) with
          | (s2, Some i) => (s2, SRUpd d i)
          | (s2, None) => (s2, SRErr)
          end
      | (s1, None) => (s1, SRErr)
      end
  end.

(* ---- the result-row limit (`max_result_rows`, 0 = unlimited) on the statement's match query *)
Definition ov_eqb (a b : option value) : bool :=
  match a, b with Some x, Some y => value_eqb x y | None, None => true | _, _ => false end.
Definition b_eqb (a b : binding) : bool := ov_eqb (fst a) (fst b) && ov_eqb (snd a) (snd b).
Fixpoint dedup_b (l : list binding) : list binding :=
  match l with
  | [] => []
  | b :: r => if existsb (b_eqb b) r then dedup_b r else b :: dedup_b r
  end.
Definition uses_x (l : list arg) : bool := existsb (fun a => match a with AX => true | _ => false end) l.
Definition uses_y (l : list arg) : bool := existsb (fun a => match a with AY => true | _ => false end) l.

(* rows of the match query: one per distinct binding of the variables the statement's atoms mention *)
Definition query_rows (q : stmt) (cur : list tuple) : option (list binding) :=
  match q with
  | SCond h c => Some (matches h c cur)
  | SUpd dt it c =>
      let ux := uses_x (dt ++ it) in
      let uy := uses_y (dt ++ it) in
      Some (dedup_b (map (fun b : binding => (if ux then fst b else None, if uy then snd b else None))
                         (matches [AX; AY] c cur)))
  | _ => None
  end.

(* KNOWN CLASS 1: the match query has more rows than the configured limit *)
Definition stmt_truncated (limit : N) (q : stmt) (cur : list tuple) : bool :=
  match query_rows q cur with
  | Some rows => negb (N.eqb limit 0) && N.ltb limit (N.of_nat (length rows))
  | None => false
  end.

(* the handler under a row limit: when the query is truncated the engine returns SOME `limit` of
   its rows; which ones is not specified, so the choice is a parameter *)
Definition exec_lim (limit : N) (pick : list binding -> list binding) (s : st) (q : stmt) : st * sreport :=
  if stmt_truncated limit q (live s) then
    match q, query_rows q (live s) with
    | SCond head c, Some rows =>
        match del_each s (insts head (pick rows)) with
        | (s', Some n) => (s', SRCond n)
        | (s', None) => (s', SRErr)
        end
    | SUpd dt it c, Some rows =>
        let bs := pick rows in
        match del_each s (insts dt bs) with
        | (s1, Some d) =>
            match ins_each s1 (insts it bs) with
            | (s2, Some i) => (s2, SRUpd d i)
            | (s2, None) => (s2, SRErr)
            end
        | (s1, None) => (s1, SRErr)
        end
    | _, _ => exec s q
    end
  else exec s q.

(* the pinned handler interleaved per binding: delete(s) of binding 1, insert(s) of binding 1,
   delete(s) of binding 2, ... — kept for the refutation lemma *)
Fixpoint upd_interleaved (s : st) (dt it : list arg) (bs : list binding) : st * (N * N) :=
  match bs with
  | [] => (s, (0, 0))
  | b :: r =>
      let '(s1, d) := del_each s (insts dt [b]) in
      let '(s2, i) := ins_each s1 (insts it [b]) in
      let '(s3, (d', i')) := upd_interleaved s2 dt it r in
      (s3, (match d with Some n => n | None => 0 end + d', match i with Some n => n | None => 0 end + i'))
  end.

(* ---------------------------------------------------------------- set specification *)
Definition count_b (f : tuple -> bool) (l : list tuple) : N := N.of_nat (length (filter f l)).

(* does a stored tuple satisfy `r(pat), cond` ? *)
Definition sat (pat : list arg) (c : cond) (t : tuple) : bool :=
  match unify pat t (None, None) with Some b => eval_cond c b | None => false end.

(* SPECIFICATION of one statement on a relation seen as a duplicate-free set: the contents
   afterwards and the report, written without reference to the engine operations *)
Definition spec_after (before : list tuple) (q : stmt) : list tuple * sreport :=
  match q with
  | SIns ts =>
      let fresh := filter (fun t => negb (mem_tuple t before)) (dedup_tuples ts) in
      (before ++ fresh, SRIns (N.of_nat (length fresh)))
  | SDel t =>
      (filter (fun u => negb (tuple_eqb u t)) before, SRDel (count_b (fun u => tuple_eqb u t) before))
  | SBulk ts =>
      (filter (fun u => negb (mem_tuple u ts)) before, SRDel (count_b (fun u => mem_tuple u ts) before))
  | SCond head c =>
      (filter (fun u => negb (sat head c u)) before, SRCond (count_b (sat head c) before))
  | SUpd dt it c =>
      let bs := matches [AX; AY] c before in
      let D := insts dt bs in
      let I := insts it bs in
      let kept := filter (fun u => negb (mem_tuple u D)) before in
      let fresh := filter (fun t => negb (mem_tuple t kept)) (dedup_tuples I) in
      (kept ++ fresh, SRUpd (count_b (fun u => mem_tuple u D) before) (N.of_nat (length fresh)))
  end.

Definition sreport_eqb (a b : sreport) : bool :=
  match a, b with
  | SRIns x, SRIns y | SRDel x, SRDel y | SRCond x, SRCond y => N.eqb x y
  | SRUpd d i, SRUpd d' i' => N.eqb d d' && N.eqb i i'
  | SRErr, SRErr => true
  | _, _ => false
  end.
