(* Model of CodeGenerator::execute_with_config (src/code_generator/mod.rs): multi-worker execution.
     num_workers == 1           -> plain execution
     contains_join(ir)          -> plain execution (single worker "for correctness")
     otherwise                  -> every base relation is hash-partitioned over the workers
                                   (partition_data_for_worker: hash(tuple) % n == worker), the plan
                                   is executed on every partition and the results are merged into
                                   a HashSet.
   [guard] is contains_join; its per-kind behaviour is NOT written here: it is
   Gen/PartitionGuard.v, regenerated from the Rust source by tools/translate.py on every run.
   The hash is a parameter (the theorems hold for every hash function).
   Executable definitions only. *)
From IL Require Export Model.IR Gen.PartitionGuard.
Open Scope nat_scope.

Definition gkind_of (t : ir) : gkind :=
  match t with
  | Scan _ _ => GScan | Map _ _ _ => GMap | Filter _ _ => GFilter | Join _ _ _ _ _ => GJoin
  | Distinct _ => GDistinct | Union _ => GUnion | Aggregate _ _ _ _ => GAggregate
  | Antijoin _ _ _ _ _ => GAntijoin | Compute _ _ => GCompute | HnswScan _ => GHnswScan
  | FlatMap _ _ _ _ => GFlatMap | JoinFlatMap _ _ _ _ _ _ _ => GJoinFlatMap
  end.

(* CodeGenerator::contains_join, driven by the generated table *)
Fixpoint guard (t : ir) {struct t} : bool :=
  let sub :=
    match t with
    | Scan _ _ | HnswScan _ => false
    | Map x _ _ | Filter x _ | Distinct x | Aggregate x _ _ _ | Compute x _ | FlatMap x _ _ _ => guard x
    | Join l r _ _ _ | Antijoin l r _ _ _ | JoinFlatMap l r _ _ _ _ _ => guard l || guard r
    | Union ts => existsb guard ts
    end in
  match guard_action (gkind_of t) with
  | GForce => true
  | GFree => false
  | GRec | GPartial => sub
  end.

(* Node kinds whose denotation distributes over a partition of every base relation, at set
   level:  den t (U_w d_w) = U_w den t d_w.  Operators that combine tuples (joins, antijoin,
   aggregation) do not. *)
Definition distributive_kind (k : gkind) : bool :=
  match k with
  | GScan | GMap | GFilter | GDistinct | GUnion | GCompute | GHnswScan | GFlatMap => true
  | _ => false
  end.

(* the obligation on the generated table: a kind that does not force single-worker execution is
   distributive, and the guard looks into every input of it *)
Definition kind_ok (k : gkind) : bool :=
  match guard_action k with
  | GForce => true
  | GFree => distributive_kind k && Nat.eqb (gkind_inputs k) 0
  | GRec => distributive_kind k
  | GPartial => false
  end.
Definition guard_ok : bool := forallb kind_ok all_gkinds.

Section Workers.
Variable h : tuple -> nat.

Definition part_rel (n w : nat) (ts : list tuple) : list tuple :=
  filter (fun t => Nat.eqb (h t mod n) w) ts.
Definition partition (n w : nat) (d : db) : db :=
  map (fun rt => (fst rt, part_rel n w (snd rt))) d.

Definition exec_workers (n : nat) (t : ir) (d : db) : list tuple :=
  if Nat.eqb n 1 || guard t then dens t d
  else dedup_tuples (flat_map (fun w => dens t (partition n w d)) (seq 0 n)).
End Workers.
