#!/bin/sh
# (re)generate the Makefile from _CoqProject + every .v file, then build the given targets.
# Only the Makefile generation is serialised: callers may wrap this script in
# `flock /verif/cache/coq.lock`; the inherited lock is released before `make` starts so that one
# long proof does not block every other check.
cd "$(dirname "$0")"
mkdir -p ../cache
(
  flock 9
  { cat _CoqProject; find Model Gen Proofs Props Checks -name '*.v' | sort; } > .CoqProject.full.$$
  if ! cmp -s .CoqProject.full.$$ .CoqProject.full 2>/dev/null || [ ! -f Makefile ]; then
    mv .CoqProject.full.$$ .CoqProject.full
    coq_makefile -f .CoqProject.full -o Makefile >/dev/null 2>&1
  else
    rm -f .CoqProject.full.$$
  fi
) 9>../cache/coq-gen.lock
for fd in /proc/$$/fd/*; do
  if [ "$(readlink "$fd" 2>/dev/null)" = "/verif/cache/coq.lock" ]; then flock -u "${fd##*/}" 2>/dev/null; fi
done
exec timeout 2400 make -j8 "$@"
