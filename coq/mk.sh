#!/bin/sh
# (re)generate the Makefile from _CoqProject + every .v file, then build the given targets
cd "$(dirname "$0")"
{ cat _CoqProject; find Model Gen Proofs Props Checks -name '*.v' | sort; } > .CoqProject.full
coq_makefile -f .CoqProject.full -o Makefile >/dev/null 2>&1
exec make -j16 "$@"
