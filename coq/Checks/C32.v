(* C32 case checker: one case = one history of write statements sent through
   `Handler::query_program` (plus direct engine calls for the (new, dup) pair), with the counts
   parsed from the reply messages and the relation contents observed after every statement. *)
From IL Require Export Model.Value Model.Store Model.StoreStmt Checks.Common.
Open Scope N_scope.

Inductive c32op :=
| C32Stmt (q : stmt) (res : sreport)                 (* statement through the handler *)
| C32ApiIns (ts : list tuple) (res : option (N * N)) (* StorageEngine::insert_tuples_into *)
| C32ApiDel (ts : list tuple) (res : option N).      (* StorageEngine::delete_tuples_from *)

(* (operation, raw base tuples afterwards, answer of `?r(X, Y)` afterwards) *)
Inductive c32case := C32Case (limit : N) (steps : list (c32op * (list tuple * list tuple))).

Definition truncated (limit : N) (o : c32op) (cur : list tuple) : bool :=
  match o with
  | C32Stmt q _ => stmt_truncated limit q cur
  | _ => false
  end.

Definition obs_ok (limit : N) (raw q : list tuple) : bool :=
  nodup_b raw && nodup_b q &&
  (if N.eqb limit 0 || N.leb (N.of_nat (length raw)) limit then set_eqb q raw else incl_b q raw).

(* model vs implementation.  After a truncated statement the model cannot know WHICH matches the
   engine picked: it checks the observed outcome is a legal truncation and continues from it. *)
Fixpoint c32_corr (limit : N) (s : st) (steps : list (c32op * (list tuple * list tuple))) : bool :=
  match steps with
  | [] => true
  | (o, (raw, q)) :: r =>
      if truncated limit o (live s) then
        match o with
        | C32Stmt (SCond h c) (SRCond n) =>
            let removed := filter (fun t => negb (mem_tuple t raw)) (live s) in
            incl_b raw (live s) && forallb (sat h c) removed && N.eqb n (N.of_nat (length removed)) &&
            N.leb n limit && nodup_b raw &&
            c32_corr limit (mkSt raw (rel_arity s) (log s) (clock s)) r
        | C32Stmt (SUpd _ _ _) (SRUpd _ _) =>
            nodup_b raw && c32_corr limit (mkSt raw (rel_arity s) (log s) (clock s)) r
        | _ => false
        end
      else
        let '(s', ok) :=
          match o with
          | C32Stmt qs res => let '(s', rep) := exec s qs in (s', sreport_eqb rep res)
          | C32ApiIns ts res =>
              let '(s', rep) := step_ins s ts in
              (s', match rep, res with
                   | RIns n d, Some (n', d') => N.eqb n n' && N.eqb d d'
                   | RErr, None => true
                   | _, _ => false
                   end)
          | C32ApiDel ts res =>
              let '(s', rep) := step_del s ts in
              (s', match rep, res with RDel n, Some n' => N.eqb n n' | RErr, None => true | _, _ => false end)
          end in
        ok && set_eqb raw (live s') && obs_ok limit raw q && c32_corr limit s' r
  end.

(* the property, judged on the implementation's own observations: contents before -> statement ->
   report and contents after must be exactly what the set specification says *)
Definition spec_step_ok (before : list tuple) (o : c32op) (after : list tuple) : bool :=
  match o with
  | C32Stmt qs res =>
      match res with
      | SRErr => set_eqb after before      (* a rejected statement leaves the relation alone *)
      | _ => let '(a, rep) := spec_after before qs in set_eqb after a && sreport_eqb rep res
      end
  | C32ApiIns ts (Some (n, d)) =>
      let '(a, rep) := spec_after before (SIns ts) in
      set_eqb after a && sreport_eqb rep (SRIns n) && N.eqb (n + d) (N.of_nat (length ts))
  | C32ApiDel ts (Some n) =>
      let '(a, rep) := spec_after before (SBulk ts) in set_eqb after a && sreport_eqb rep (SRDel n)
  | C32ApiIns _ None | C32ApiDel _ None => set_eqb after before
  end.

Fixpoint c32_prop (before : list tuple) (steps : list (c32op * (list tuple * list tuple))) : bool :=
  match steps with
  | [] => true
  | (o, (raw, q)) :: r => nodup_b raw && nodup_b q && spec_step_ok before o raw && c32_prop raw r
  end.

Fixpoint c32_known (limit : N) (s : st) (steps : list (c32op * (list tuple * list tuple))) : N :=
  match steps with
  | [] => 0
  | (o, (raw, _)) :: r =>
      if truncated limit o (live s) then 1
      else
        let s' := match o with
                  | C32Stmt qs _ => fst (exec s qs)
                  | C32ApiIns ts _ => fst (step_ins s ts)
                  | C32ApiDel ts _ => fst (step_del s ts)
                  end in
        c32_known limit s' r
  end.

Definition c32_one (c : c32case) : N * (bool * bool) :=
  match c with
  | C32Case limit steps => (c32_known limit st0 steps, (c32_corr limit st0 steps, c32_prop [] steps))
  end.

Definition c32_check := run_checker c32_one.
