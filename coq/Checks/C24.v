(* Case checker for C24: a history on the real HnswIndex followed/interleaved with searches.
   For every search the harness records: the arguments, the raw result of the hnsw_rs graph search
   (hook verif_raw_search, called with the arguments K, E the wrapper uses), the graph's node list
   (hook verif_graph_nodes) and what Index::search returned.
   corr_ok : (1) the state machine of Model/Hnsw.v predicts the graph nodes; (2) the wrapper model
             `search`, given the recorded raw result as `ann`, returns exactly what Index::search
             returned (same identifiers in the same order, same f64 values), with f32/f64 arithmetic
             of DistL2 / transform_distance / manhattan_distance replayed on decoded bit patterns
             (when the graph fits in the search breadth the model scans it itself, as the code does);
             (3) when the graph search is consulted, its recorded result satisfies the `ann`
             contract the theorems of Props/C24.v assume.
   prop_ok : `is_valid_knn`, the executable form of the property, on what Index::search returned,
             against the live vectors obtained by replaying the abstract index `spec` of C25 on the
             history with the vectors as given by the caller (no normalisation), distances recomputed
             exactly over dyadic rationals from the f32 bit patterns.
   Tolerances (the only inexact comparisons), on the reported distance d:
     l2      |d^2 - S| <= S * 2^-18           S = exact sum of squared differences
     l1      |d - M|   <= M * 2^-40           M = exact sum of absolute differences
     cosine  |d - (1 - c)| <= 2^-16           c = exact cosine of query and inserted vector
     dot     |d + c|   <= 2^-16               (the index reports the negated cosine of the
                                               normalised vectors for DotProduct)
   and "true k nearest" is judged on the exact quantities with the same slack. *)
From IL Require Export Model.Hnsw Model.VecFloat Checks.Common.
Open Scope N_scope.

Definition bvec := list N.
Definition bvec_eqb (a b : bvec) : bool := list_eqbN a b.
Definition bvlen (v : bvec) : N := N.of_nat (List.length v).
Definition dvec (v : bvec) : list dyadic := map f32_dyadic v.

Definition ntable := list (bvec * (bvec * bool)).
Definition tab_find (t : ntable) (v : bvec) : option (bvec * bool) :=
  match find (fun e => bvec_eqb v (fst e)) t with Some e => Some (snd e) | None => None end.
Definition tab_normalize (t : ntable) (v : bvec) : bvec :=
  match tab_find t v with Some (n, _) => n | None => v end.
Definition tab_tiny (t : ntable) (v : bvec) : bool :=
  match tab_find t v with Some (_, b) => b | None => false end.

Inductive c24search :=
  C24Search (q : bvec) (k : N) (ef : option N)
            (K E : N) (raw : list (N * N))        (* raw graph search: arguments, (index, f32 bits) *)
            (nodes : list (N * bvec))             (* graph nodes: (tuple id, vector) per internal index *)
            (res : list (N * N)).                 (* Index::search: (tuple id, f64 bits) *)
Inductive c24step := C24Op (o : op bvec) | C24Q (s : c24search).
Inductive c24case := C24Case (c : config) (t : ntable) (steps : list c24step) (panicked : bool).

(* ---------------------------------------------------------------- the wrapper's float arithmetic *)
(* transform_distance on the decoded f32 distance; the result is the (exact) f64 widening *)
Definition transform_dy (m : metric) (r : dyadic) : dyadic :=
  match m with
  | Euclidean | Manhattan => r
  | Cosine => f32_mul (f32_mul r r) dy_half                                   (* dist * dist / 2.0 *)
  | DotProduct => dy_neg (f32_sub dy_one (f32_mul (f32_mul r r) dy_half))     (* -(1.0 - dist * dist / 2.0) *)
  end.
Definition l1_dy (a b : bvec) : dyadic := f64_l1 (dvec a) (dvec b).
Definition l2_dy (a b : bvec) : dyadic := f32_l2 (dvec a) (dvec b).

Definition entry_eqb (a b : N * bvec) : bool := N.eqb (fst a) (fst b) && bvec_eqb (snd a) (snd b).

Fixpoint all2 {A B} (f : A -> B -> bool) (a : list A) (b : list B) : bool :=
  match a, b with
  | [], [] => true
  | x :: a', y :: b' => f x y && all2 f a' b'
  | _, _ => false
  end.

Fixpoint nodup_nat (l : list nat) : bool :=
  match l with [] => true | x :: r => negb (existsb (Nat.eqb x) r) && nodup_nat r end.

Section WithTable.
  Variable t : ntable.
  Notation st := (state bvec).

  Definition m_step (s : st) (o : op bvec) : st :=
    step bvec bvlen (tab_normalize t) (tab_tiny t) s o.

  (* ---- the `ann` contract on one recorded raw result: distinct in-range internal indices, each
     with the f32 L2 distance of that node's vector, at most K of them *)
  Definition contract_ok (g : list (N * bvec)) (pq : bvec) (K : N) (raw : list (nat * dyadic)) : bool :=
    nodup_nat (map fst raw)
    && (N.of_nat (List.length raw) <=? K)
    && forallb (fun nb => match nth_error g (fst nb) with
                          | Some (_, v) => dy_eqb (snd nb) (l2_dy pq v)
                          | None => false end) raw.

  Definition search_corr (s : st) (q : c24search) : bool :=
    let 'C24Search qv k ef K E raw nodes res := q in
    let g := match graph s with Some g => g | None => [] end in
    let rawd := map (fun e => (N.to_nat (fst e), f32_dyadic (snd e))) raw in
    let efs := match ef with Some e => e | None => c_efs (cfg s) end in
    let nt := N.of_nat (List.length (tombs s)) in
    let pq := prepare bvec (tab_normalize t) (cfg s) qv in
    let mres := search bvec (tab_normalize t) dyadic dyadic dy_leb dy_leb l2_dy (fun _ _ _ _ => rawd)
                       transform_dy l1_dy s qv k ef in
    list_eqb' entry_eqb g nodes
    && N.eqb K (search_k (c_metric (cfg s)) k efs nt) && N.eqb E (efs + nt)
    && all2 (fun (a : N * dyadic) (b : N * N) => N.eqb (fst a) (fst b) && dy_eqb (snd a) (f64_dyadic (snd b))) mres res
    (* what the theorems assume about the graph search, whenever the wrapper consults it *)
    && (if N.of_nat (List.length g) <=? E then true else contract_ok g pq K rawd).

  Fixpoint corr (s : st) (steps : list c24step) : bool :=
    match steps with
    | [] => true
    | C24Op o :: r => corr (m_step s o) r
    | C24Q q :: r => search_corr s q && corr s r
    end.
End WithTable.

(* ---------------------------------------------------------------- is_valid_knn: the property *)
Definition TOL16 : Z := 2 ^ 24.          (* 2^-16 in 40-bit fixed point *)

(* exact reference of the configured metric between the caller's query and the caller's vector,
   and the acceptance test of a reported distance *)
Definition dist_ok (m : metric) (q v : bvec) (d : dyadic) : bool :=
  match m with
  | Euclidean =>
      let S := ex_sqdiff_sum (dvec q) (dvec v) in
      dy_leb dy_zero d &&
      dy_leb (dy_abs (dy_sub (dy_mul d d) S)) (dy_mul S (dy_pow2 (-18)))
  | Manhattan =>
      let M := ex_absdiff_sum (dvec q) (dvec v) in
      dy_leb (dy_abs (dy_sub d M)) (dy_mul M (dy_pow2 (-40)))
  | Cosine =>
      match cos_fix (dvec q) (dvec v), dy_fix 40 d with
      | Some c, Some df => (Z.abs (df - (2 ^ 40 - c)) <=? TOL16)%Z
      | _, _ => false
      end
  | DotProduct =>
      match cos_fix (dvec q) (dvec v), dy_fix 40 d with
      | Some c, Some df => (Z.abs (df + c) <=? TOL16)%Z
      | _, _ => false
      end
  end.

(* "a is not farther from q than b", on exact quantities, with the slack of the tolerances *)
Definition not_farther (m : metric) (q a b : bvec) : bool :=
  match m with
  | Euclidean =>
      let Sa := ex_sqdiff_sum (dvec q) (dvec a) in let Sb := ex_sqdiff_sum (dvec q) (dvec b) in
      dy_leb Sa (dy_add Sb (dy_mul Sb (dy_pow2 (-17))))
  | Manhattan =>
      let Ma := ex_absdiff_sum (dvec q) (dvec a) in let Mb := ex_absdiff_sum (dvec q) (dvec b) in
      dy_leb Ma (dy_add Mb (dy_mul Mb (dy_pow2 (-39))))
  | Cosine | DotProduct =>
      match cos_fix (dvec q) (dvec a), cos_fix (dvec q) (dvec b) with
      | Some ca, Some cb => (cb <=? ca + 2 * TOL16)%Z        (* larger cosine = nearer *)
      | _, _ => false
      end
  end.

Fixpoint nodupN_b (l : list N) : bool :=
  match l with [] => true | x :: r => negb (memN x r) && nodupN_b r end.

Fixpoint nondecreasing (l : list dyadic) : bool :=
  match l with
  | a :: ((b :: _) as r) => dy_leb a b && nondecreasing r
  | _ => true
  end.

(* live : the live identifiers with the vectors the caller gave; efs : the search breadth in force *)
Definition is_valid_knn (m : metric) (live : list (N * bvec)) (q : bvec) (k efs : N) (res : list (N * N)) : bool :=
  let ids := map fst res in
  let ds := map (fun e => f64_dyadic (snd e)) res in
  (N.of_nat (List.length res) <=? k)
  && nodupN_b ids
  && nondecreasing ds
  && forallb (fun e => match lookup bvec (fst e) live with
                       | Some v => dist_ok m q v (f64_dyadic (snd e))
                       | None => false end) res
  && (if N.of_nat (List.length live) <=? efs then
        N.eqb (N.of_nat (List.length res)) (N.min k (N.of_nat (List.length live)))
        && forallb (fun e =>
             match lookup bvec (fst e) live with
             | Some v => forallb (fun l => memN (fst l) ids || not_farther m q v (snd l)) live
             | None => false end) res
      else true).

Section Oracle.
  Variable t : ntable.
  Notation ast := (astate bvec).
  (* the abstract index of C25 on the caller's vectors: normalize := identity *)
  Definition a_step (a : ast) (o : op bvec) : ast :=
    astep bvec bvlen (fun v => v) (tab_tiny t) a o.

  Definition live_of (universe : list N) (a : ast) : list (N * bvec) :=
    flat_map (fun i => match a_live a i with Some v => [(i, v)] | None => [] end) universe.

  Definition search_prop (universe : list N) (a : ast) (q : c24search) : bool :=
    let 'C24Search qv k ef _ _ _ _ res := q in
    let efs := match ef with Some e => e | None => c_efs (a_cfg a) end in
    is_valid_knn (c_metric (a_cfg a)) (live_of universe a) qv k efs res.

  Fixpoint prop (universe : list N) (a : ast) (steps : list c24step) : bool :=
    match steps with
    | [] => true
    | C24Op o :: r => prop universe (a_step a o) r
    | C24Q q :: r => search_prop universe a q && prop universe a r
    end.
End Oracle.

Definition op_ids (o : op bvec) : list N :=
  match o with
  | OIns id _ | ODel id => [id]
  | OBatch es | ORebuild es => map fst es
  | OSaveLoad => []
  end.

(* well-formed steps: rebuild() is given "the current valid (id, vector) pairs": distinct ids, one
   non-zero dimension and, for the normalising metrics, vectors insert() would accept (non-zero norm:
   a zero vector has no cosine) *)
Definition step_wf (cf : config) (t : ntable) (s : c24step) : bool :=
  match s with
  | C24Op o =>
      wf_op bvec bvlen o
      && match o with
         | ORebuild vs => negb (needs_norm (c_metric cf)) || forallb (fun e => negb (tab_tiny t (snd e))) vs
         | _ => true
         end
  | C24Q _ => true
  end.

(* known-finding classes (decidable on the input): see KNOWN_FINDINGS.json *)
Definition known_class (c : config) (steps : list c24step) : N := 0.

Definition c24_one (c : c24case) : N * (bool * bool) :=
  let 'C24Case cf t steps panicked := c in
  let universe := dedupN (flat_map (fun s => match s with C24Op o => op_ids o | C24Q _ => [] end) steps) in
  (known_class cf steps,
   (corr t (init bvec cf) steps && negb panicked,
    negb (forallb (step_wf cf t) steps) || (prop t universe (ainit bvec cf) steps && negb panicked))).

Definition c24_check := run_checker c24_one.
