(* C29 case checker: the internal knowledge graph is unreachable for non-admins. *)
From IL Require Export Model.HandlerAuth Checks.Common.
Open Scope N_scope.

Inductive c29case := C29Case (c : hcase).

Definition c29_one (cc : c29case) : N * (bool * bool) :=
  let 'C29Case c := cc in
  let req := h_req c in
  let w0 := h_world c in
  let o := h_obs c in
  let roles := role_of (w_acls w0) (q_user req) in
  let prop :=
    if role_eqb (q_role req) RAdmin then true
    else
      (* not modified: facts / rules / schemas of _internal, its users and api_keys, and it still exists *)
      content_eqb (lookup internal_kg (w_kgs w0)) (lookup internal_kg (w_kgs (o_world o))) &&
      negb (o_auth_changed o) &&
      (* not read *)
      negb (o_leak o) &&
      (* not switched to: a request addressed at it (explicitly, or through a session bound to it)
         gets nothing executed; a session not bound to it is not bound to it afterwards *)
      implb (N.eqb (q_cur req) internal_kg) (N.eqb (o_dec o) 0) &&
      implb (negb (opt_kg_eqb (q_bound req) (Some internal_kg)))
            (negb (opt_kg_eqb (o_bound o) (Some internal_kg))) &&
      (* its own ACL rows are untouched unless the caller was made an owner of it *)
      (set_eqb aclrow_eqb (acl_rows_of internal_kg (w_acls w0)) (acl_rows_of internal_kg (w_acls (o_world o))) ||
       match roles internal_kg with Some KOwner => true | _ => false end) in
  (0, (hcase_corr c, prop)).

Definition c29_check := run_checker c29_one.
