(* C30 case checker: a program with a syntax error has no effect; otherwise program order. *)
From IL Require Export Model.HandlerAuth Checks.Common.
Open Scope N_scope.

Inductive c30case := C30Case (c : hcase).

(* known finding 1: the request is handled by execute_program itself on the whole-text parse
   (session / user / API-key / ACL command, or a session rule / fact with a session): the
   remaining lines are never looked at, so a syntax error in them does not reject the request *)
Definition c30_class (c : hcase) : N :=
  if goes_direct (h_req c) && existsb is_none (q_lines (h_req c)) then 1 else 0.

Definition c30_one (cc : c30case) : N * (bool * bool) :=
  let 'C30Case c := cc in
  let req := h_req c in
  let w0 := h_world c in
  let o := h_obs c in
  let prop :=
    if existsb is_none (q_lines req)
    then (* rejected, nothing applied *)
      negb (N.eqb (o_dec o) 2) && world_eqb w0 (o_world o) && negb (o_auth_changed o)
    else (* every statement applied, in program order (when the request is executed line by line) *)
      if N.eqb (o_dec o) 2 && negb (goes_direct req) && kg_exists w0 (q_cur req)
      then match all_parsed (q_lines req) with
           | Some ss => set_eqb kgentry_eqb (r_kgs (fold_left step ss (RState (w_kgs w0) (q_cur req) None false false [])))
                                (w_kgs (o_world o))
           | None => false
           end
      else true in
  (c30_class c, (hcase_corr c, prop)).

Definition c30_check := run_checker c30_one.
