(* C31 case checker: the implementation's `==`, `cmp` and hasher input on pairs / triples of values and
   tuples, against Model/ValueOrd.v (correspondence) and against the order laws themselves (property). *)
From IL Require Export Model.Value Model.ValueOrd Model.Consolidate Checks.Common.
Open Scope N_scope.

Definition feed := list (list N).
Definition feed_eqb (a b : feed) : bool := list_eqb (list_eqb N.eqb) a b.

Inductive c31case :=
(* a b, cmp(a,b) cmp(b,a), a==b b==a, hasher input of a and of b, DefaultHasher(a)==DefaultHasher(b) *)
| C31Pair (a b : value) (cab cba : comparison) (eab eba : bool) (ha hb : feed) (dh : bool)
| C31Triple (a b c : value) (cab cbc cac : comparison) (eab ebc eac : bool)
| C31TPair (a b : tuple) (cab cba : comparison) (eab eba : bool) (ha hb : feed) (dh : bool)
| C31TTriple (a b c : tuple) (cab cbc cac : comparison) (eab ebc eac : bool)
(* consolidate_to_current(input) = output (or it panicked) *)
| C31Cons (input : list update) (panicked : bool) (output : list update).

Definition wfb (v : value) : bool := match v with VF64 b => b <? 18446744073709551616 | _ => true end.

Definition c31_one (c : c31case) : N * (bool * bool) :=
  match c with
  | C31Pair a b cab cba eab eba ha hb dh =>
      (0, (wfb a && wfb b &&
           comparison_eqb (value_cmp a b) cab && comparison_eqb (value_cmp b a) cba &&
           Bool.eqb (value_eqb a b) eab && Bool.eqb (value_eqb b a) eba &&
           feed_eqb (hash_feed a) ha && feed_eqb (hash_feed b) hb,
           pair_laws cab cba eab eba (feed_eqb ha hb && dh)))
  | C31Triple a b c cab cbc cac eab ebc eac =>
      (0, (comparison_eqb (value_cmp a b) cab && comparison_eqb (value_cmp b c) cbc &&
           comparison_eqb (value_cmp a c) cac &&
           Bool.eqb (value_eqb a b) eab && Bool.eqb (value_eqb b c) ebc && Bool.eqb (value_eqb a c) eac,
           triple_laws cab cbc cac eab ebc eac))
  | C31TPair a b cab cba eab eba ha hb dh =>
      (0, (forallb wfb a && forallb wfb b &&
           comparison_eqb (tuple_cmp a b) cab && comparison_eqb (tuple_cmp b a) cba &&
           Bool.eqb (tuple_eqb a b) eab && Bool.eqb (tuple_eqb b a) eba &&
           feed_eqb (tuple_hash_feed a) ha && feed_eqb (tuple_hash_feed b) hb,
           pair_laws cab cba eab eba (feed_eqb ha hb && dh)))
  | C31TTriple a b c cab cbc cac eab ebc eac =>
      (0, (comparison_eqb (tuple_cmp a b) cab && comparison_eqb (tuple_cmp b c) cbc &&
           comparison_eqb (tuple_cmp a c) cac &&
           Bool.eqb (tuple_eqb a b) eab && Bool.eqb (tuple_eqb b c) ebc && Bool.eqb (tuple_eqb a c) eac,
           triple_laws cab cbc cac eab ebc eac))
  | C31Cons input panicked output =>
      (0, (negb panicked && list_eqb upd_eqb (consolidate_to_current input) output,
           negb panicked && consolidate_spec input output))
  end.

Definition c31_check := run_checker c31_one.
