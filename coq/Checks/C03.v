From IL Require Export Model.Value Model.IR Model.Workers Checks.Common.
Open Scope N_scope.

(* C03Guard: translator cross-check — the real contains_join on one tree vs the generated table.
   C03IR:    one plan on one database through CodeGenerator::execute_with_config for several
             worker counts; [hashes] maps every base tuple to (its real hash mod 24).
   C03Prog:  one IQL program through IQLEngine with set_num_workers(n); also used for plans with
             constructs outside the IR model.  [runs] = (num_workers, result or None on error);
             the first run is the single-worker one. *)
Inductive c03case :=
| C03Guard (t : ir) (impl_guard : bool)
| C03IR (d : db) (hashes : list (tuple * nat)) (t : ir) (impl_guard : bool)
        (runs : list (nat * option (list tuple)))
| C03Prog (runs : list (nat * option (list tuple))).

Definition table_hash (table : list (tuple * nat)) (t : tuple) : nat :=
  match find (fun e => tuple_eqb t (fst e)) table with Some e => snd e | None => 0%nat end.

Definition nodup_tuples (l : list tuple) : bool := Nat.eqb (length (dedup_tuples l)) (length l).
Definition res_matches (model : list tuple) (impl : option (list tuple)) : bool :=
  match impl with Some r => same_set model r && nodup_tuples r | None => false end.

(* the PROPERTY on the implementation's own outputs: every run succeeded and returned the
   single-worker answer *)
Definition all_agree (runs : list (nat * option (list tuple))) : bool :=
  match runs with
  | (_, Some base) :: rest =>
      forallb (fun nr => match snd nr with Some r => same_set base r | None => false end) rest
  | (_, None) :: rest =>
      (* the program is rejected: it must be rejected for every worker count *)
      forallb (fun nr => match snd nr with None => true | Some _ => false end) rest
  | [] => true
  end.

Definition c03_one (c : c03case) : N * (bool * bool) :=
  match c with
  | C03Guard t g => (0, (Bool.eqb (guard t) g, true))
  | C03IR d hashes t g runs =>
      let h := table_hash hashes in
      (0, (Bool.eqb (guard t) g &&
           forallb (fun nr => res_matches (exec_workers h (fst nr) t d) (snd nr)) runs,
           all_agree runs))
  | C03Prog runs => (0, (true, all_agree runs))
  end.

Definition c03_check := run_checker c03_one.
