From IL Require Export Model.Value Model.IR Model.Opt Checks.Common.
Open Scope N_scope.

(* One case = one plan tree on one database, run through the REAL pipeline:
   [t]      the input tree, [topt] the tree the real pass returned (None: the pass panicked),
   [r_in]   CodeGenerator::execute on [t]    (None = Err / panic)
   [r_out]  CodeGenerator::execute on [topt]
   pass: 0 = Optimizer::optimize, 1 = JoinPlanner::plan_joins, 2 = BooleanSpecializer::specialize
         (r_out executed with the semiring the specializer chose), 3 = the three in pipeline order.
   [wf_claim]: the generator's claim that the tree is well-formed (checked against the model's
   [wfd]).  C05Oracle: a tree using constructs outside the model; only the property oracle runs. *)
Inductive c05case :=
| C05Case (pass : N) (wf_claim : bool) (d : db) (t : ir) (topt : option ir)
          (r_in r_out : option (list tuple))
| C05Oracle (pass : N) (r_in r_out : option (list tuple)).

Definition nodup_tuples (l : list tuple) : bool :=
  Nat.eqb (length (dedup_tuples l)) (length l).

(* implementation output = model output, as duplicate-free sets *)
Definition res_matches (model : list tuple) (impl : option (list tuple)) : bool :=
  match impl with
  | Some r => same_set model r && nodup_tuples r
  | None => false
  end.

(* the PROPERTY on the implementation's own outputs: both runs succeed with the same answer set *)
Definition same_answers (r_in r_out : option (list tuple)) : bool :=
  match r_in, r_out with
  | Some a, Some b => same_set a b
  | _, _ => false
  end.

(* The IR model covers Compute arithmetic on INTEGER operands only (Model/IR.v header).  A
   malformed plan (broken index) can feed a missing column = Null into an arithmetic expression,
   where the code continues in f64; [den_in_fragment] tells whether every arithmetic node
   evaluated by the plan on this database stays inside the modelled fragment.  Well-formed
   generated plans must stay inside it (checked); for malformed plans outside it the
   model/implementation comparison is not meaningful and is skipped (the oracle still runs). *)
Fixpoint expr_in_fragment (e : expr) (t : tuple) : bool :=
  match e with
  | EArith _ l r =>
      expr_in_fragment l t && expr_in_fragment r t &&
      match is_int (eval_expr l t), is_int (eval_expr r t) with Some _, Some _ => true | _, _ => false end
  | _ => true
  end.

Definition compute_in_fragment (es : list (N * expr)) (t : tuple) : bool :=
  snd (fold_left (fun (st : tuple * bool) ne =>
                    (fst st ++ [eval_expr (snd ne) (fst st)], snd st && expr_in_fragment (snd ne) (fst st)))
                 es (t, true)).

Fixpoint den_in_fragment (t : ir) (d : db) {struct t} : bool :=
  match t with
  | Scan _ _ | HnswScan _ => true
  | Compute x es => den_in_fragment x d && forallb (compute_in_fragment es) (den x d)
  | Map x _ _ | Filter x _ | Distinct x | Aggregate x _ _ _ | FlatMap x _ _ _ => den_in_fragment x d
  | Join l r _ _ _ | Antijoin l r _ _ _ | JoinFlatMap l r _ _ _ _ _ =>
      den_in_fragment l d && den_in_fragment r d
  | Union ts => forallb (fun x => den_in_fragment x d) ts
  end.

Definition c05_one (c : c05case) : N * (bool * bool) :=
  match c with
  | C05Case pass wf_claim d t topt r_in r_out =>
      let wf := wfd d t in
      let corr_in := res_matches (dens t d) r_in in
      let corr_out := match topt with
                      | Some t' => res_matches (dens t' d) r_out
                      | None => false
                      end in
      (* the model of the optimizer returns the very tree the real optimizer returned *)
      let corr_tree := if pass =? 0 then
                         match topt with Some t' => ir_eqb (optimize t) t' | None => false end
                       else true in
      if wf then
        (0, (den_in_fragment t d && corr_in && corr_out && corr_tree, same_answers r_in r_out))
      else
        (* ill-formed tree: the property makes no claim; the model must still agree with whatever
           the implementation managed to compute *)
        (0, (negb wf_claim &&
             (match r_in with Some _ => corr_in || negb (den_in_fragment t d) | None => true end) &&
             (match topt, r_out with
              | Some t', Some _ => corr_out || negb (den_in_fragment t' d)
              | _, _ => true
              end), true))
  | C05Oracle pass r_in r_out => (0, (true, same_answers r_in r_out))
  end.

Definition c05_check := run_checker c05_one.
