From IL Require Export Checks.GroupA.
Open Scope N_scope.
Inductive c08case := C08Case (fuel : nat) (p : program) (edb : db) (full : option (list tuple))
                             (runs : list (nat * option (list tuple))).
Definition c08_one (c : c08case) : N * (bool * bool) :=
  match c with
  | C08Case fuel p edb full runs =>
      let prop :=
        match full with
        | Some a =>
            forallb (fun nr => match snd nr with
                               | Some l => incl_b l a && Nat.eqb (length l) (Nat.min (fst nr) (length a)) && nodup_b l
                               | None => false end) runs
        | None => true
        end in
      (known_of p, (corr_model fuel p edb full || mutual_recursion p, prop))
  end.
Definition c08_check := run_checker c08_one.
