(* helpers shared by the Group A case checkers *)
From IL Require Export Model.Value Model.Datalog Checks.Common.
Open Scope N_scope.

Definition ans_eq (a b : option (list tuple)) : bool :=
  match a, b with Some x, Some y => set_eqb x y | None, None => true | _, _ => false end.
Definition nodup_b (l : list tuple) : bool := Nat.eqb (length (dedup_tuples l)) (length l).
Definition qrel (p : program) : rel := match query_rel p with Some q => q | None => 0 end.
Definition spec_q (fuel : nat) (p : program) (edb : db) : option (list tuple) :=
  match perfect_model fuel p edb with Some m => Some (get m (qrel p)) | None => None end.
(* programs for which the strategy model is expected to predict the implementation *)
Definition modelled (p : program) : bool :=
  negb (existsb (fun h => self_rec p h && existsb has_agg (clauses_of p h)) (heads p)) &&
  negb (existsb (fun c => match rev (cargs c) with
                          | _ :: r => existsb (fun h => match h with HAgg _ _ => true | _ => false end) r
                          | [] => false end) p).
Definition corr_model (fuel : nat) (p : program) (edb : db) (impl : option (list tuple)) : bool :=
  if negb (modelled p) then true else
  if negb (stratified p) then match impl with None => true | Some _ => false end else
  if modelled p then
    match eval_engine fuel p edb with
    | Some a => match impl with Some ans => set_eqb ans a | None => false end
    | None => true
    end
  else true.
(* the aggregate is not the last head argument (outside the documented `head(groups.., agg<V>)` form) *)
Definition agg_not_last (c : clause) : bool :=
  match rev (cargs c) with
  | _ :: r => existsb (fun h => match h with HAgg _ _ => true | _ => false end) r
  | [] => false
  end.
Definition known_of (p : program) : N :=
  if existsb agg_not_last p then 3 else
  if existsb (fun h => self_rec p h && existsb has_agg (clauses_of p h)) (heads p) then 2
  else if mutual_recursion p then 1 else 0.
