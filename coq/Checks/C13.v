(* Checks/C13.v — case checker for C13 (acknowledged writes survive any crash, recovery always succeeds).
   One case = one history (inserts / deletes of small batches into two relations, save, compact,
   restart) run by the real engine in a child process under strace, plus every crash state
   reconstructed from the system-call log (tools/fsreplay.py) and what StorageEngine::new recovered.
   corr_ok : (i) per operation ok/err and live contents equal the model's; (ii) the abstracted
             system-call trace equals the model's micro-step trace; (iii) for every crash state the
             model's recovery of the model's crashed file system equals the real engine's.
   prop_ok : the property on the implementation's own output ([pallowed], the oracle of Props/C13.v):
             every crash state reopens and holds the contents before or after the operation in
             flight, the contents after it once it completed; a clean restart changes nothing.
   known class 1: the operation in flight writes >= 2 tuples and the crash tears its WAL write
             between records (a multi-tuple insert/delete is not atomic under a crash). *)
From IL Require Export Model.FS Model.Persist Checks.Common.
Open Scope N_scope.

(* does the checked tree sync the persist directories after rename/unlink/creation? *)
Definition C13_DSYNC : bool := true.

(* loss choice: surviving directory operations per directory; per inode (dir, index, surviving data
   operations, surviving elements of the torn write) *)
Inductive c13loss := mkPLoss (dirs : list (N * nat)) (inodes : list (N * nat * nat * nat)).
Inductive c13crash := C13Crash (k : nat) (l : c13loss) (outcome : option (list (list N))).
Inductive c13case :=
| C13Case (bufsz : nat) (h : list pop) (results : list (bool * option (list (list N)))) (trace : list aev)
          (crashes : list c13crash) (replayer_clean : bool)
| C13Broken (bufsz : nat).

Definition PBIG : nat := 1000.

Definition mk_pchoice (l : c13loss) : N -> dchoice :=
  let '(mkPLoss ds inos) := l in
  fun d =>
    (match find (fun e => N.eqb (fst e) d) ds with Some e => snd e | None => PBIG end,
     fun i =>
       match find (fun e => N.eqb (fst (fst (fst e))) d && Nat.eqb (snd (fst (fst e))) i) inos with
       | Some (_, _, n, t) => (n, t)
       | None => (PBIG, 0%nat)
       end).

Definition orels_eqb (a b : option (list (list N))) : bool :=
  match a, b with
  | Some x, Some y => rels_eqb x y
  | None, None => true
  | _, _ => false
  end.

Fixpoint presults_eqb (m : list (bool * list (list N))) (r : list (bool * option (list (list N)))) : bool :=
  match m, r with
  | [], [] => true
  | (ok, c) :: m', (ok', o) :: r' => Bool.eqb ok ok' && orels_eqb (Some c) o && presults_eqb m' r'
  | _, _ => false
  end.

Fixpoint ptrace_eqb (a b : list aev) : bool :=
  match a, b with
  | [], [] => true
  | x :: a', y :: b' => aev_eqb x y && ptrace_eqb a' b'
  | _, _ => false
  end.

Fixpoint prestart_ok (prev : option (list (list N))) (h : list pop) (r : list (bool * option (list (list N)))) : bool :=
  match h, r with
  | o :: h', (ok, cur) :: r' =>
      (match o with
       | PRestart _ => ok && orels_eqb prev cur
       | _ => true
       end) && prestart_ok cur h' r'
  | _, _ => true
  end.

Definition torn_wal (l : c13loss) : bool :=
  let '(mkPLoss _ inos) := l in
  existsb (fun e => N.eqb (fst (fst (fst e))) D_WAL && Nat.ltb 0 (snd e)) inos.

Definition multi_write (o : option pop) : bool :=
  match o with
  | Some (PIns _ vs) | Some (PDel _ vs) => Nat.ltb 1 (length vs)
  | _ => false
  end.

(* (model = implementation, property holds, in known class 1) *)
Definition pcheck_crash (pts : list ppoint) (c : c13crash) : bool * bool * bool :=
  let '(C13Crash k l outcome) := c in
  match nth_error pts k with
  | None => (false, true, false)
  | Some p =>
      let model := precover C13_DSYNC (crash_fs (mk_pchoice l) (ppfs p)) in
      (orels_eqb model outcome, pallowed p outcome,
       multi_write (ppop p) && negb (ppdone p) && torn_wal l)
  end.

Definition c13_one (c : c13case) : N * (bool * bool) :=
  match c with
  | C13Broken _ => (0, (false, true))
  | C13Case bufsz h results trace crashes clean =>
      let corr1 := presults_eqb (prun C13_DSYNC bufsz ps_init h) results &&
                   ptrace_eqb (ptrace C13_DSYNC bufsz ps_init h) trace in
      let pts := ppoints C13_DSYNC bufsz ps_init h in
      let per := map (pcheck_crash pts) crashes in
      let bad := filter (fun x => negb (snd (fst x))) per in
      let prop := match bad with [] => true | _ => false end in
      let known := match bad with
                   | [] => 0
                   | _ => if forallb (fun x => snd x) bad then 1 else 0
                   end in
      (known, (clean && corr1 && forallb (fun x => fst (fst x)) per,
               prop && prestart_ok (Some [[]; []]) h results))
  end.

Definition c13_check := run_checker c13_one.
