From IL Require Export Checks.GroupA.
Open Scope N_scope.
Inductive c34case := C34Case (p : program) (engine_ok validate_ok handler_ok : bool).
Definition c34_one (c : c34case) : N * (bool * bool) :=
  match c with
  | C34Case p e v h =>
      let ok := accepts p in
      (* every path accepts exactly the safe rule sets without a negative dependency inside a cycle *)
      let prop := Bool.eqb e ok && Bool.eqb v ok && Bool.eqb h ok in
      (* the acceptance check and the evaluator's stratification agree (converse of C34_relaxation...) *)
      let corr := Bool.eqb (neg_cycle p) (negb (stratified p)) in
      (0, (corr, prop))
  end.
Definition c34_check := run_checker c34_one.
