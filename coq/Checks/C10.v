(* Case checker for C10.  A case is one sequential schedule of handler calls (an enumerated
   interleaving of several sessions' operation lists, or the linearisation the harness found for a
   free-running multi-threaded execution) with the answer the real Handler gave to every query. *)
From IL Require Export Model.Value Model.Mat Model.Session Checks.Common.
Open Scope N_scope.

Inductive c10obs :=
| OAns (a : list tuple)     (* rows of a query result *)
| OErr                      (* the query failed *)
| ONone.                    (* not a query *)
Inductive c10case := C10Case (steps : list (hop * c10obs)).

Definition s_incl (a b : list tuple) : bool := forallb (fun t => mem_tuple t b) a.
Definition s_eq (a b : list tuple) : bool := s_incl a b && s_incl b a.

Definition obs_matches (m : option (list tuple)) (o : c10obs) : bool :=
  match m, o with
  | Some a, OAns b => s_eq a b
  | None, ONone => true
  | _, _ => false
  end.

(* correspondence: the model run on the same schedule gives the observed answers *)
Fixpoint corr_walk (st : hst) (steps : list (hop * c10obs)) : bool :=
  match steps with
  | [] => true
  | (o, ob) :: r => let '(st', a) := hstep st o in obs_matches a ob && corr_walk st' r
  end.

(* the property on the implementation's own answers: a query of session s answers what the
   specification answers after the persistent operations and s's OWN operations of the prefix alone
   (other sessions' session-local operations erased); a session-less query what it answers after
   the persistent operations alone *)
Definition spec_answer (pre : list hop) (o : hop) : option (list tuple) :=
  match o with
  | SQuery s _ | SCount s _ => snd (hstep (hrun hinit (view_of s pre)) o)
  | PQuery _ _ => snd (hstep (hrun hinit (filter is_pers pre)) o)
  | _ => None
  end.
Definition is_query (o : hop) : bool :=
  match o with SQuery _ _ | SCount _ _ | PQuery _ _ => true | _ => false end.

Fixpoint prop_walk (pre : list hop) (steps : list (hop * c10obs)) : bool :=
  match steps with
  | [] => true
  | (o, ob) :: r =>
      (if is_query o then obs_matches (spec_answer pre o) ob else true) && prop_walk (pre ++ [o]) r
  end.

Definition c10_one (c : c10case) : N * (bool * bool) :=
  match c with
  | C10Case steps => (c10_known (map fst steps), (corr_walk hinit steps, prop_walk [] steps))
  end.

Definition c10_check := run_checker c10_one.
