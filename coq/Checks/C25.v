(* Case checker for C25: histories on the real HnswIndex with an observation after every operation.
   corr_ok : Model/Hnsw.v (state machine) predicts every observation.
   prop_ok : the abstract index `spec` (the specification of Props/C25.v) predicts everything the
             property talks about, evaluated on the implementation's own output. *)
From IL Require Export Model.Hnsw Model.VecFloat Checks.Common.
Open Scope N_scope.

Definition bvec := list N.                     (* f32 bit patterns *)
Definition bvec_eqb (a b : bvec) : bool := list_eqbN a b.
Definition bvlen (v : bvec) : N := N.of_nat (List.length v).

Definition ntable := list (bvec * (bvec * bool)).
Definition tab_find (t : ntable) (v : bvec) : option (bvec * bool) :=
  match find (fun e => bvec_eqb v (fst e)) t with Some e => Some (snd e) | None => None end.
Definition tab_normalize (t : ntable) (v : bvec) : bvec :=
  match tab_find t v with Some (n, _) => n | None => v end.
Definition tab_tiny (t : ntable) (v : bvec) : bool :=
  match tab_find t v with Some (_, b) => b | None => false end.

Record c25obs := {
  o_len : N; o_tombs : N; o_dim : N;
  o_members : list N;                 (* sorted identifiers returned by an exhaustive search *)
  o_self : list (N * N);              (* id, f64 bits of its distance when searching with its own stored vector *)
  o_pers : persisted bvec             (* index.json as saved right now *)
}.
Inductive c25step := C25Step (o : op bvec) (ok : bool) (obs : c25obs).
Inductive c25case := C25Case (c : config) (t : ntable) (steps : list c25step) (panicked : bool).

Definition entry_eqb (a b : N * bvec) : bool := N.eqb (fst a) (fst b) && bvec_eqb (snd a) (snd b).
Definition entries_eqb (a b : list (N * bvec)) : bool := list_eqb' entry_eqb a b.

(* ---------------------------------------------------------------- model vs implementation *)
Section WithTable.
  Variable t : ntable.
  Notation st := (state bvec).
  Definition m_step (s : st) (o : op bvec) : st * bool :=
    match o with
    | OIns id v => insert bvec bvlen (tab_normalize t) (tab_tiny t) s id v
    | OBatch es => insert_batch bvec bvlen (tab_normalize t) (tab_tiny t) s es
    | _ => (step bvec bvlen (tab_normalize t) (tab_tiny t) s o, true)
    end.

  Definition obs_matches_model (s : st) (ob : c25obs) : bool :=
    N.eqb (len bvec s) (o_len ob) && N.eqb (tombstone_count bvec s) (o_tombs ob) && N.eqb (dim s) (o_dim ob)
    && list_eqbN (sortN (map fst (reachable bvec s))) (o_members ob)
    && (let p := save bvec s in let q := o_pers ob in
        N.eqb (p_m p) (p_m q) && N.eqb (p_efc p) (p_efc q) && N.eqb (p_efs p) (p_efs q)
        && String.eqb (p_metric p) (p_metric q) && N.eqb (p_dim p) (p_dim q)
        && entries_eqb (p_vectors p) (p_vectors q) && list_eqbN (sortN (p_tombs p)) (sortN (p_tombs q))).

  Fixpoint corr (s : st) (steps : list c25step) : bool :=
    match steps with
    | [] => true
    | C25Step o ok ob :: r =>
        let '(s', mok) := m_step s o in
        Bool.eqb mok ok && obs_matches_model s' ob && corr s' r
    end.

  (* ---------------------------------------------------------------- specification vs implementation *)
  Notation ast := (astate bvec).
  Definition a_step (a : ast) (o : op bvec) : ast * bool :=
    match o with
    | OIns id v => a_insert bvec bvlen (tab_normalize t) (tab_tiny t) a id v
    | OBatch es => a_insert_batch bvec bvlen (tab_normalize t) (tab_tiny t) a es
    | _ => (astep bvec bvlen (tab_normalize t) (tab_tiny t) a o, true)
    end.

  (* distance of a vector to itself: exactly +0.0 for l2 / l1; within 2^-20 of 0 (cosine) or of -1 (dot) *)
  Definition self_dist_ok (m : metric) (bits : N) : bool :=
    match m with
    | Euclidean | Manhattan => N.eqb bits 0
    | Cosine => dy_abs_le_pow2 (f64_dyadic bits) (-20)
    | DotProduct => dy_abs_le_pow2 (dy_add (f64_dyadic bits) (Some (1, 0)%Z)) (-20)
    end.

  Definition obs_matches_spec (universe : list N) (a : ast) (ob : c25obs) : bool :=
    let p := o_pers ob in
    N.eqb (a_nlive a + a_ndead a) (o_len ob) && N.eqb (a_ndead a) (o_tombs ob) && N.eqb (a_dim a) (o_dim ob)
    && N.eqb (c_m (a_cfg a)) (p_m p) && N.eqb (c_efc (a_cfg a)) (p_efc p) && N.eqb (c_efs (a_cfg a)) (p_efs p)
    && (match parse_metric (p_metric p) with Some m => metric_eqb m (c_metric (a_cfg a)) | None => false end)
    && N.eqb (a_dim a) (p_dim p)
    && N.eqb (N.of_nat (List.length (p_vectors p))) (o_len ob) && N.eqb (N.of_nat (List.length (p_tombs p))) (o_tombs ob)
    (* the index contains exactly the live identifiers ... *)
    && list_eqbN (sortN (filter (fun i => match a_live a i with Some _ => true | None => false end) universe)) (o_members ob)
    && forallb (fun i => memN i universe) (o_members ob)
    (* ... with their latest vectors: stored, not tombstoned, and at distance zero from themselves in the graph *)
    && forallb (fun i =>
         match a_live a i with
         | Some v =>
             negb (memN i (p_tombs p))
             && (match lookup bvec i (p_vectors p) with Some w => bvec_eqb v w | None => false end)
             && (match find (fun e => N.eqb (fst e) i) (o_self ob) with
                 | Some e => self_dist_ok (c_metric (a_cfg a)) (snd e) | None => false end)
         | None => Bool.eqb (a_dead a i) (memN i (p_tombs p))
         end) universe.

  Fixpoint prop (universe : list N) (a : ast) (steps : list c25step) : bool :=
    match steps with
    | [] => true
    | C25Step o ok ob :: r =>
        let '(a', aok) := a_step a o in
        Bool.eqb aok ok && obs_matches_spec universe a' ob && prop universe a' r
    end.
End WithTable.

Definition op_ids (o : op bvec) : list N :=
  match o with
  | OIns id _ | ODel id => [id]
  | OBatch es | ORebuild es => map fst es
  | OSaveLoad => []
  end.

Definition step_wf (s : c25step) : bool := let 'C25Step o _ _ := s in wf_op bvec bvlen o.

Definition c25_one (c : c25case) : N * (bool * bool) :=
  let 'C25Case cf t steps panicked := c in
  let universe := dedupN (flat_map (fun s => let 'C25Step o _ _ := s in op_ids o) steps) in
  (0, (corr t (init bvec cf) steps && negb panicked,
       (* outside well-formed histories the property says nothing *)
       negb (forallb step_wf steps) || (prop t universe (ainit bvec cf) steps && negb panicked))).

Definition c25_check := run_checker c25_one.
