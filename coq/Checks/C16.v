(* Checks/C16.v — case checker for C16 (catalogs are durable and crash-safe).
   One case = one history of catalog operations run by the real engine in a child process under
   strace, plus every crash state reconstructed from the system-call log (tools/fsreplay.py) and what
   the real StorageEngine::new recovered from it.
   corr_ok : (i) per operation, ok/err and the live catalogs equal the model's; (ii) the abstracted
             system-call trace equals the model's micro-step trace; (iii) for every crash state, the
             model's recovery of the model's crashed file system (same crash point, same loss choice)
             equals what the real engine recovered.
   prop_ok : the property on the implementation's own output: every crash state reopens, every
             catalog is the old or the new one of the operation in flight, acknowledged operations
             are reflected, and a clean restart changes nothing ([allowed], the oracle of Props/C16.v). *)
From IL Require Export Model.FS Model.Catalog Checks.Common.
Open Scope N_scope.

(* loss choice: surviving directory operations per directory; per inode (dir, index, surviving data
   operations, class of the torn write: 0 none, 1 first element, 2 half, 3 all but the last element) *)
Inductive c16loss := mkLoss (dirs : list (N * nat)) (inodes : list (N * nat * nat * N)).

Definition obs := list (option (cat * cat)).
Inductive c16crash := C16Crash (k : nat) (l : c16loss) (outcome : option obs).
Inductive c16case :=
| C16Case (nkg : nat) (h : list cop) (results : list (bool * option obs)) (trace : list aev)
          (crashes : list c16crash) (replayer_clean : bool)
| C16Broken (nkg : nat).

Definition BIG : nat := 1000.

Definition torn_len (cls : N) (len : nat) : nat :=
  match cls with 1 => 1%nat | 2 => Nat.div2 len | 3 => Nat.pred len | _ => 0%nat end.

Definition mk_choice (f : fsys tok) (l : c16loss) : N -> dchoice :=
  let '(mkLoss ds inos) := l in
  fun d =>
    (match find (fun e => N.eqb (fst e) d) ds with Some e => snd e | None => BIG end,
     fun i =>
       match find (fun e => N.eqb (fst (fst (fst e))) d && Nat.eqb (snd (fst (fst e))) i) inos with
       | Some (_, _, n, cls) =>
           (n, match nth_error (pends (ino (f d) i)) n with
               | Some (PWrite bs) => torn_len cls (length bs)
               | _ => 0%nat
               end)
       | None => (BIG, 0%nat)
       end).

Definition obs_to_mems (o : obs) : option (list kgmem) :=
  fold_right (fun x acc => match x, acc with
                           | Some (r, s), Some l => Some (mkKg r s :: l)
                           | _, _ => None
                           end) (Some []) o.

Definition opt_mems (o : option obs) : option (list kgmem) :=
  match o with Some x => obs_to_mems x | None => None end.

Definition opt_mems_eqb (a b : option (list kgmem)) : bool :=
  match a, b with
  | Some x, Some y => mems_eqb x y
  | None, None => true
  | _, _ => false
  end.

Fixpoint results_eqb (m : list (bool * list kgmem)) (r : list (bool * option obs)) : bool :=
  match m, r with
  | [], [] => true
  | (ok, ms) :: m', (ok', o) :: r' => Bool.eqb ok ok' && opt_mems_eqb (Some ms) (opt_mems o) && results_eqb m' r'
  | _, _ => false
  end.

Fixpoint trace_eqb (a b : list aev) : bool :=
  match a, b with
  | [], [] => true
  | x :: a', y :: b' => aev_eqb x y && trace_eqb a' b'
  | _, _ => false
  end.

(* a clean restart must not change the live catalogs (implementation's own observations) *)
Fixpoint restart_ok (prev : option (list kgmem)) (h : list cop) (r : list (bool * option obs)) : bool :=
  match h, r with
  | o :: h', (ok, ob) :: r' =>
      let cur := opt_mems ob in
      (match o with
       | CRestart => ok && opt_mems_eqb prev cur
       | _ => true
       end) && restart_ok cur h' r'
  | _, _ => true
  end.

Definition check_crash (nkg : nat) (pts : list cpoint) (c : c16crash) : bool * bool :=
  let '(C16Crash k l outcome) := c in
  match nth_error pts k with
  | None => (false, true)
  | Some p =>
      let impl := opt_mems outcome in
      let model := recover nkg (crash_fs (mk_choice (pfs p) l) (pfs p)) in
      (opt_mems_eqb model impl, allowed p impl)
  end.

Definition c16_one (c : c16case) : N * (bool * bool) :=
  match c with
  | C16Broken _ => (0, (false, true))
  | C16Case nkg h results trace crashes clean =>
      let st0 := init_state nkg in
      let corr1 := results_eqb (run_hist true st0 h) results && trace_eqb (trace_hist true st0 h) trace in
      let pts := points true st0 h in
      let per := map (check_crash nkg pts) crashes in
      (0, (clean && corr1 && forallb fst per,
           forallb snd per && restart_ok (Some (repeat kg_empty nkg)) h results))
  end.

Definition c16_check := run_checker c16_one.
