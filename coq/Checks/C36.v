From IL Require Export Model.Value Model.Bloom Checks.Common.
Open Scope N_scope.

Inductive c36op := C36Ins (kid h1 h2 : N) | C36Clear | C36Query (kid h1 h2 : N) (res : bool).
Inductive c36hop :=
| C36HIns (t : tuple) | C36HRem (t : tuple) (res : bool)
| C36Build (ts : list tuple) | C36HGet (k : tuple) (res : list tuple).
Inductive c36case :=
| C36Bloom (num_bits num_hashes : N) (ops : list c36op) (impl_nbits impl_nhash impl_arr : N)
| C36Index (cols : list nat) (nbits nhash : N) (table : list (tuple * (N * N)))
           (ops : list c36hop) (impl_arr : N).

(* model vs implementation on one bloom history; returns (model state, all queries agreed) *)
Fixpoint bloom_corr (b : bloom) (ops : list c36op) : bloom * bool :=
  match ops with
  | [] => (b, true)
  | C36Ins _ h1 h2 :: r => bloom_corr (bloom_insert b h1 h2) r
  | C36Clear :: r => bloom_corr (bloom_clear b) r
  | C36Query _ h1 h2 res :: r =>
      let '(b', ok) := bloom_corr b r in (b', Bool.eqb (might_contain b h1 h2) res && ok)
  end.

(* the property on the implementation's own answers: a key inserted since the last clear
   is never reported absent *)
Fixpoint bloom_prop (live : list N) (ops : list c36op) : bool :=
  match ops with
  | [] => true
  | C36Ins kid _ _ :: r => bloom_prop (kid :: live) r
  | C36Clear :: r => bloom_prop [] r
  | C36Query kid _ _ res :: r =>
      (if existsb (N.eqb kid) live then res else true) && bloom_prop live r
  end.

Definition table_hf (table : list (tuple * (N * N))) (k : tuple) : N * N :=
  match find (fun e => tuple_eqb k (fst e)) table with Some e => snd e | None => (0, 0) end.

Definition tuples_eqb (a b : list tuple) : bool := list_eqb tuple_eqb a b.

Fixpoint index_corr (hf : tuple -> N * N) (h : hidx) (ops : list c36hop) : hidx * bool :=
  match ops with
  | [] => (h, true)
  | C36HIns t :: r => index_corr hf (hi_insert hf h t) r
  | C36Build ts :: r => index_corr hf (hi_build hf h ts) r
  | C36HRem t res :: r =>
      let '(h1, b) := hi_remove h t in
      let '(h', ok) := index_corr hf h1 r in (h', Bool.eqb b res && ok)
  | C36HGet k res :: r =>
      let '(h', ok) := index_corr hf h r in
      (h', tuples_eqb (opt_list (hi_get_with_bloom hf h k)) res && ok)
  end.

Fixpoint index_prop (cols : list nat) (s : list tuple) (ops : list c36hop) : bool :=
  match ops with
  | [] => true
  | C36HIns t :: r => index_prop cols (s ++ [t]) r
  | C36Build ts :: r => index_prop cols ts r
  | C36HRem t res :: r =>
      match remove_first t s with
      | Some s' => res && index_prop cols s' r
      | None => negb res && index_prop cols s r
      end
  | C36HGet k res :: r => tuples_eqb (spec_lookup cols s k) res && index_prop cols s r
  end.

Definition c36_one (c : c36case) : N * (bool * bool) :=
  match c with
  | C36Bloom nb nh ops inb inh iarr =>
      let b0 := with_params nb nh in
      let '(b, ok) := bloom_corr b0 ops in
      (0, (ok && N.eqb (nbits b) inb && N.eqb (N.of_nat (nhash b)) inh && N.eqb (arr b) iarr,
           bloom_prop [] ops))
  | C36Index cols nb nh table ops iarr =>
      let hf := table_hf table in
      let h0 := {| keycols := cols; entries := [];
                   hbloom := {| nbits := nb; nhash := N.to_nat nh; arr := 0; cnt := 0 |} |} in
      let '(h, ok) := index_corr hf h0 ops in
      (0, (ok && N.eqb (arr (hbloom h)) iarr, index_prop cols [] ops))
  end.

Definition c36_check := run_checker c36_one.
