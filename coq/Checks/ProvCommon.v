(* Shared by Checks/C21.v, C22.v, C23.v: the case types printed by harness/src/prov_gen.rs,
   the reference model of a case and the per-item verdict folding. *)
From IL Require Export Model.Value Model.ProvDatalog Model.ProvWhyNot Model.ProvChain Checks.Common.
Open Scope N_scope.

(* path: 0 = Handler (.why / .why_not), 1 = library call with the model as derived data,
         2 = library call without derived data *)
Inductive whycase :=
| WhyCase (nrel : nat) (P : program) (base : db) (derived : option db) (path : N) (max_depth : nat)
          (answers : list (rel * list (tuple * option ptree))).
Inductive whynotcase :=
| WhyNotCase (nrel : nat) (P : program) (base : db) (derived : option db) (path : N)
             (targets : list (rel * list (tuple * bool * report))).

Definition ref_fuel : nat := 80.
Definition ref_model (nrel : nat) (P : program) (base : db) : db := perfect ref_fuel P base (rel_seq nrel).

(* the reference is trustworthy on this case: the program is in the layered, safe fragment
   and the computed model is closed under every clause *)
Definition ref_ok (nrel : nat) (P : program) (M : db) : bool :=
  well_layered nrel P && forallb clause_safe P && saturated P M.

Definition set_eq_tuples (a b : list tuple) : bool :=
  forallb (fun t => mem_tuple t b) a && forallb (fun t => mem_tuple t a) b.
(* the derived data handed to the provenance code is the model *)
Definition ctx_ok (nrel : nat) (base der M : db) : bool :=
  forallb (fun r => set_eq_tuples (rel_tuples base r ++ rel_tuples der r) (rel_tuples M r)) (rel_seq nrel).

(* relations that have rules AND stored facts *)
Definition stored_and_derived (P : program) (base : db) : bool :=
  existsb (fun e => match snd e with [] => false | _ => existsb (fun c => N.eqb (arel (chead c)) (fst e)) P end) base.
(* ... whose stored facts the engine ignores (some clause is not self-recursive) *)
Definition shadowed_facts (P : program) (base : db) : bool :=
  existsb (fun e => match snd e with [] => false | _ => shadowed P (fst e) end) base.

Definition has_clauses (P : program) (r : rel) : bool := existsb (fun c => N.eqb (arel (chead c)) r) P.
Definition negates_derived (P : program) : bool :=
  existsb (fun c => existsb (fun l => match l with LNeg a => has_clauses P (arel a) | _ => false end) (cbody c)) P.

Fixpoint ptree_wf (t : ptree) : bool :=
  match t with
  | POther => false
  | PRule _ _ _ _ kids => forallb ptree_wf kids
  | _ => true
  end.

(* fold per-item results (class, ok): an item failing outside every class makes the case a
   violation (class 0); otherwise the case carries the class of its failing items *)
Definition fold_items (items : list (N * bool)) : N * bool :=
  if existsb (fun i => negb (snd i) && N.eqb (fst i) 0) items then (0, false)
  else match find (fun i => negb (snd i)) items with
       | Some i => (fst i, false)
       | None => (0, true)
       end.

(* integer constants in clauses: without derived data the real chainer builds goal tuples from
   them (Int32, `term_to_value`) next to stored Int64 values, and its node-sharing table and
   visited set are keyed by exact values; the model works on width-normalised values, so the
   tree SHAPE (sharing) is only comparable when no such constant occurs *)
Definition term_int_const (t : term) : bool :=
  match t with TConst (VI32 _) => true | TConst (VI64 _) => true | _ => false end.
Definition atom_int_const (a : atom) : bool := existsb term_int_const (aargs a).
Definition has_int_const (P : program) : bool :=
  existsb (fun c => atom_int_const (chead c) ||
                    existsb (fun l => match l with LPos a => atom_int_const a | LNeg a => atom_int_const a | LCmp _ _ _ => false end)
                            (cbody c)) P.

(* a self-recursive relation whose closure contains a cycle (a tuple r(x, x)) *)
Definition cyclic_recursion (P : program) (M : db) : bool :=
  existsb (fun c =>
    let q := arel (chead c) in
    existsb (fun l => match l with LPos a => N.eqb (arel a) q | _ => false end) (cbody c) &&
    existsb (fun t => match t with [x; y] => value_eqb x y | _ => false end) (rel_tuples M q)) P.

(* model of the backward chainer vs the implementation's trees (library paths: the context is
   identical on both sides; on the Handler path the order of the engine's derived tuples is
   not observable, so only the validator runs there) *)
Definition chain_corr (P : program) (base : db) (der : option db) (path : N) (md : nat)
           (answers : list (rel * list (tuple * option ptree))) : bool :=
  if N.eqb path 0 then true
  else if N.eqb path 2 && has_int_const P then true
  else
    let cx := mkCtx P base der md 5 in
    forallb (fun ra : rel * list (tuple * option ptree) =>
      forallb (fun a : tuple * option ptree =>
        optree_eqb P (build_proof_tree cx (fst ra) (norm_tuple (fst a))) (option_map norm_ptree (snd a)))
        (snd ra)) answers.
