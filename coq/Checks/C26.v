(* Case checker for C26 (public functions of inputlayer::vector_ops).
   corr_ok : the models of Model/VecOps.v (lsh_probes, bucket computation from given hyperplanes,
             hamming) and float replays of the distance / quantisation functions on decoded bit
             patterns (Model/VecFloat.v) reproduce the implementation's outputs.  The float replays do
             not model overflow / NaN: they are compared only on "moderate" inputs (all non-zero
             magnitudes between 2^-40 and 2^40).
   prop_ok : the laws of the property evaluated on the implementation's own outputs:
             probes: first = bucket, distinct, Hamming distance non-decreasing, length <= num_probes;
             buckets: every value returned by lsh_bucket under the 8-thread cache thrash is the same;
             distances: d(a,b) and d(b,a) have equal bits, d >= 0 (not NaN, sign clear or zero),
             d(a,a) is a zero, cosine in [0,2];
             quantisation: codes in range and reconstruction within one step, in exact dyadic arithmetic. *)
From IL Require Export Model.VecOps Model.VecFloat Checks.Common.
Open Scope Z_scope.

Record distobs := {
  eu_ab : N; eu_ba : N; eu_aa : N;          (* euclidean_distance, f64 bits *)
  es_ab : N; es_ba : N; es_aa : N;          (* euclidean_distance_squared *)
  ma_ab : N; ma_ba : N; ma_aa : N;          (* manhattan_distance *)
  co_ab : N; co_ba : N; co_aa : N;          (* cosine_distance *)
  do_ab : N; do_ba : N                      (* dot_product *)
}.

Inductive c26case :=
| C26Probes (bucket : Z) (nh np : N) (out : list Z)
| C26Bucket (v : list N) (table : Z) (nh : N) (planes : list (list N)) (observed : list Z)
| C26Dist (a b : list N) (o : distobs)
| C26DistI8 (a b : list Z) (o : distobs)
| C26Hamming (a b : Z) (ab ba aa : Z)
| C26Quant (v : list N) (sym lin : list Z).

(* ---------------------------------------------------------------- helpers on f64 bit patterns *)
Definition f64_nan (b : N) : bool := (0x7FF0000000000000 <? N.land b (N.ones 63))%N.
Definition f64_zero (b : N) : bool := N.eqb (N.land b (N.ones 63)) 0.
Definition f64_nonneg (b : N) : bool := negb (f64_nan b) && (negb (N.testbit b 63) || f64_zero b).
Definition f32_finite (b : N) : bool := (N.land b (N.ones 31) <? 0x7F800000)%N.

Fixpoint nodupZ (l : list Z) : bool :=
  match l with [] => true | x :: r => negb (existsb (Z.eqb x) r) && nodupZ r end.

(* ---------------------------------------------------------------- (a) *)
Definition probes_prop (bucket : Z) (np : N) (out : list Z) : bool :=
  (if N.eqb np 0 then true else match out with x :: _ => Z.eqb x bucket | [] => false end)
  && nodupZ out
  && nondec_nat (map (hamming64 bucket) out)
  && (N.of_nat (List.length out) <=? np)%N.

(* ---------------------------------------------------------------- (b) compute_bucket_from_hyperplanes *)
Fixpoint f32_dot (acc : dyadic) (a b : list dyadic) : dyadic :=
  match a, b with
  | x :: a', y :: b' => f32_dot (f32_add acc (f32_mul x y)) a' b'
  | _, _ => acc
  end.
Fixpoint bucket_bits (v : list dyadic) (planes : list (list N)) (h : nat) : Z :=
  match planes with
  | [] => 0
  | hp :: r =>
      (if dy_ltb dy_zero (f32_dot dy_zero v (map f32_dyadic hp)) then 2 ^ Z.of_nat h else 0)
      + bucket_bits v r (S h)
  end.

(* ---------------------------------------------------------------- (c) float replays *)
Definition dv (v : list N) : list dyadic := map f32_dyadic v.
Definition moderate1 (d : dyadic) : bool :=
  match d with
  | Some (m, e) => (m =? 0) || ((-40 <=? e + Z.log2 (Z.abs m)) && (e + Z.log2 (Z.abs m) <=? 40))
  | None => false
  end.
Definition moderate (v : list dyadic) : bool := forallb moderate1 v.

Fixpoint f32_sqdiff (acc : dyadic) (a b : list dyadic) : dyadic :=
  match a, b with
  | x :: a', y :: b' => let d := f32_sub x y in f32_sqdiff (f32_add acc (f32_mul d d)) a' b'
  | _, _ => acc
  end.
Definition m_euclid_sq (a b : list dyadic) : dyadic := f32_sqdiff dy_zero a b.
Definition m_euclid (a b : list dyadic) : dyadic := f64_sqrt (m_euclid_sq a b).
Fixpoint m_manh (acc : dyadic) (a b : list dyadic) : dyadic :=
  match a, b with
  | x :: a', y :: b' => m_manh (f64_add acc (dy_abs (f32_sub x y))) a' b'
  | _, _ => acc
  end.
Fixpoint m_dot64 (acc : dyadic) (a b : list dyadic) : dyadic :=
  match a, b with
  | x :: a', y :: b' => m_dot64 (f64_add acc (f64_mul x y)) a' b'
  | _, _ => acc
  end.
Definition dy_clamp11 (d : dyadic) : dyadic :=
  if dy_ltb d (dy_neg dy_one) then dy_neg dy_one else if dy_ltb dy_one d then dy_one else d.
(* cosine_distance (repaired: f64 accumulation, sqrt of the product) *)
Definition m_cosine (a b : list dyadic) : dyadic :=
  let d := m_dot64 dy_zero a b in
  let na := m_dot64 dy_zero a a in
  let nb := m_dot64 dy_zero b b in
  if dy_eqb na dy_zero || dy_eqb nb dy_zero then dy_zero
  else f64_sub dy_one (dy_clamp11 (f64_div d (f64_sqrt (f64_mul na nb)))).

Definition veq (model : dyadic) (bits : N) : bool := dy_eqb model (f64_dyadic bits).

Definition dist_corr (a b : list dyadic) (o : distobs) : bool :=
  if negb (moderate a && moderate b) || negb (Nat.eqb (List.length a) (List.length b)) then true else
  veq (m_euclid a b) (eu_ab o) && veq (m_euclid a a) (eu_aa o)
  && veq (m_euclid_sq a b) (es_ab o)
  && veq (m_manh dy_zero a b) (ma_ab o)
  && veq (m_cosine a b) (co_ab o) && veq (m_cosine b a) (co_ba o) && veq (m_cosine a a) (co_aa o)
  && veq (m_dot64 dy_zero a b) (do_ab o).

(* the laws, on the implementation's outputs *)
Definition in_0_2 (b : N) : bool :=
  negb (f64_nan b) && dy_leb dy_zero (f64_dyadic b) && dy_leb (f64_dyadic b) (Some (2, 0)).
Definition dist_prop (a b : list N) (o : distobs) : bool :=
  if negb (forallb f32_finite a && forallb f32_finite b) then true      (* the laws are about finite vectors *)
  else
  (* symmetric *)
  N.eqb (eu_ab o) (eu_ba o) && N.eqb (es_ab o) (es_ba o) && N.eqb (ma_ab o) (ma_ba o)
  && N.eqb (co_ab o) (co_ba o) && N.eqb (do_ab o) (do_ba o)
  (* non-negative *)
  && f64_nonneg (eu_ab o) && f64_nonneg (es_ab o) && f64_nonneg (ma_ab o) && f64_nonneg (co_ab o)
  && f64_nonneg (eu_aa o) && f64_nonneg (ma_aa o) && f64_nonneg (co_aa o)
  (* zero on identical inputs *)
  && f64_zero (eu_aa o) && f64_zero (es_aa o) && f64_zero (ma_aa o) && f64_zero (co_aa o)
  (* cosine within [0,2] (vectors of different lengths get the documented +inf) *)
  && in_0_2 (co_aa o)
  && (if Nat.eqb (List.length a) (List.length b) then in_0_2 (co_ab o) && in_0_2 (co_ba o) else true).

(* int8 variants: exact integer sums, then f64 *)
Definition zsum (f : Z -> Z -> Z) (a b : list Z) : Z :=
  fold_left Z.add (map (fun p => f (fst p) (snd p)) (combine a b)) 0.
Definition m_cosine_i8 (a b : list Z) : dyadic :=
  let d := zsum Z.mul a b in let na := zsum Z.mul a a in let nb := zsum Z.mul b b in
  if (na =? 0) || (nb =? 0) then dy_one
  else f64_sub dy_one (dy_clamp11 (f64_div (rnd64 (dy_of_Z d)) (f64_sqrt (f64_mul (rnd64 (dy_of_Z na)) (rnd64 (dy_of_Z nb)))))).
Definition dist_corr_i8 (a b : list Z) (o : distobs) : bool :=
  if negb (Nat.eqb (List.length a) (List.length b)) then true else
  veq (f64_sqrt (rnd64 (dy_of_Z (zsum (fun x y => (x - y) * (x - y)) a b)))) (eu_ab o)
  && veq (rnd64 (dy_of_Z (zsum (fun x y => Z.abs (x - y)) a b))) (ma_ab o)
  && veq (rnd64 (dy_of_Z (zsum Z.mul a b))) (do_ab o)
  && veq (m_cosine_i8 a b) (co_ab o) && veq (m_cosine_i8 a a) (co_aa o).
Definition i8_zero (a : list Z) : bool := forallb (Z.eqb 0) a.
Definition dist_prop_i8 (a b : list Z) (o : distobs) : bool :=
  N.eqb (eu_ab o) (eu_ba o) && N.eqb (ma_ab o) (ma_ba o) && N.eqb (co_ab o) (co_ba o) && N.eqb (do_ab o) (do_ba o)
  && f64_nonneg (eu_ab o) && f64_nonneg (ma_ab o) && f64_nonneg (co_ab o)
  && f64_zero (eu_aa o) && f64_zero (ma_aa o) && f64_zero (co_aa o)
  && in_0_2 (co_aa o)
  && (if Nat.eqb (List.length a) (List.length b) then in_0_2 (co_ab o) else true).

(* ---------------------------------------------------------------- (d) quantisation *)
(* f32::round: half away from zero; result as an integer *)
Definition dy_round (d : dyadic) : option Z :=
  match d with
  | Some (m, e) =>
      if 0 <=? e then Some (m * 2 ^ e)
      else let a := Z.abs m in let p := 2 ^ (- e) in
           let q := a / p in let r := a mod p in
           let q' := if p <=? 2 * r then q + 1 else q in
           Some (if m <? 0 then - q' else q')
  | None => None
  end.
Definition dy_max (a b : dyadic) : dyadic := if dy_leb a b then b else a.
Definition dy_min (a b : dyadic) : dyadic := if dy_leb a b then a else b.
Definition m_quant_sym (v : list dyadic) : list (option Z) :=
  let ma := fold_left (fun m x => dy_max m (dy_abs x)) v dy_zero in
  if dy_eqb ma dy_zero then map (fun _ => Some 0) v
  else let scale := f32_div (dy_of_Z 127) ma in
       map (fun x => option_map (clampZ (-127) 127) (dy_round (f32_mul x scale))) v.
Definition m_quant_lin (v : list dyadic) : list (option Z) :=
  match v with
  | [] => []
  | x0 :: _ =>
      let lo := fold_left dy_min v x0 in
      let hi := fold_left dy_max v x0 in
      let range := f32_sub hi lo in
      if dy_eqb range dy_zero then map (fun _ => Some 0) v
      else map (fun x => option_map (clampZ (-128) 127)
                  (dy_round (f32_sub (f32_mul (f32_div (f32_sub x lo) range) (dy_of_Z 255)) (dy_of_Z 128)))) v
  end.
Definition optz_eqb (a : option Z) (b : Z) : bool := match a with Some x => Z.eqb x b | None => false end.
Fixpoint all2z (a : list (option Z)) (b : list Z) : bool :=
  match a, b with
  | [], [] => true
  | x :: a', y :: b' => optz_eqb x y && all2z a' b'
  | _, _ => false
  end.

(* the property: reconstruction within one step, exact dyadic arithmetic *)
Definition quant_prop (v : list dyadic) (sym lin : list Z) : bool :=
  let ma := fold_left (fun m x => dy_max m (dy_abs x)) v dy_zero in
  let okS := forallb (fun p => let '(x, q) := p in
                 (-127 <=? q) && (q <=? 127)
                 && dy_leb (dy_abs (dy_sub (dy_mul (dy_of_Z q) ma) (dy_mul (dy_of_Z 127) x))) ma) (combine v sym) in
  let okL := match v with
             | [] => true
             | x0 :: _ =>
                 let lo := fold_left dy_min v x0 in let hi := fold_left dy_max v x0 in
                 let range := dy_sub hi lo in
                 forallb (fun p => let '(x, q) := p in
                   (-128 <=? q) && (q <=? 127)
                   && (dy_eqb range dy_zero
                       || dy_leb (dy_abs (dy_sub (dy_mul (dy_of_Z (q + 128)) range) (dy_mul (dy_of_Z 255) (dy_sub x lo)))) range))
                   (combine v lin)
             end in
  Nat.eqb (List.length sym) (List.length v) && Nat.eqb (List.length lin) (List.length v) && okS && okL.

(* ---------------------------------------------------------------- known-finding classes (on the input)
   1: quantisation arithmetic overflows f32: 0 < max_abs < 2^-120 (127 / max_abs is +inf) or
      max - min > f32::MAX (the range is +inf)
   2: cosine_distance_int8 of an all-zero (or empty) vector with itself is 1 ("maximum distance for
      zero vectors"), not 0 *)
Definition f32_max_dy : dyadic := Some (2 ^ 24 - 1, 104).
Definition quant_overflows (v : list dyadic) : bool :=
  let ma := fold_left (fun m x => dy_max m (dy_abs x)) v dy_zero in
  (dy_ltb dy_zero ma && dy_ltb ma (dy_pow2 (-120)))
  || match v with
     | [] => false
     | x0 :: _ => dy_ltb f32_max_dy (dy_sub (fold_left dy_max v x0) (fold_left dy_min v x0))
     end.

Definition c26_one (c : c26case) : N * (bool * bool) :=
  match c with
  | C26Probes bucket nh np out =>
      (0%N, (list_eqbZ (lsh_probes bucket nh np) out, probes_prop bucket np out))
  | C26Bucket v table nh planes observed =>
      let m := bucket_bits (dv v) planes 0 in
      (0%N, (forallb (Z.eqb m) observed,
             match observed with [] => false | x :: r => forallb (Z.eqb x) r end))
  | C26Dist a b o => (0%N, (dist_corr (dv a) (dv b) o, dist_prop a b o))
  | C26DistI8 a b o => ((if i8_zero a then 2 else 0)%N, (dist_corr_i8 a b o, dist_prop_i8 a b o))
  | C26Hamming a b ab ba aa =>
      (0%N, (Z.eqb (Z.of_nat (hamming64 a b)) ab, Z.eqb ab ba && Z.eqb aa 0 && (0 <=? ab)))
  | C26Quant v sym lin =>
      ((if forallb f32_finite v && quant_overflows (dv v) then 1 else 0)%N, (if moderate (dv v) then all2z (m_quant_sym (dv v)) sym && all2z (m_quant_lin (dv v)) lin else true,
             if forallb f32_finite v then quant_prop (dv v) sym lin else true))
  end.

Definition c26_check := run_checker c26_one.
