(* C22 — every answer whose reference derivation depth is within the limit is explained:
   a tree is returned, its root is not the Truncated fallback and no leaf is a
   Derived-source fallback (`explained`, the property's wording). *)
From IL Require Export Checks.ProvCommon.
Open Scope N_scope.

Definition c22case := whycase.

Definition c22_one (c : c22case) : N * (bool * bool) :=
  match c with
  | WhyCase nrel P0 base0 der0 path md answers =>
      let P := norm_program P0 in
      let base_raw := norm_db base0 in
      let base := eff_base P base_raw in
      let M := ref_model nrel P base in
      if negb (ref_ok nrel P M) then (0, (false, true))
      else
        let cok := match der0 with Some d => ctx_ok nrel base (norm_db d) M | None => true end in
        if N.eqb path 0 && negb cok then (0, (true, true))
        else
          let cls := if negb (forallb bound_before_use P) then 1
                     else if stored_and_derived P base_raw then 4
                     else if cyclic_recursion P M then 3 else 0 in
          let items :=
            flat_map (fun ra : rel * list (tuple * option ptree) =>
              let r := fst ra in
              flat_map (fun a : tuple * option ptree =>
                let t := norm_tuple (fst a) in
                if in_rel M r t then
                  match depth_of P base M ref_fuel r t with
                  | Some d =>
                      if Nat.leb (S d) md then
                        [(cls, match snd a with
                               | Some tr0 => let tr := norm_ptree tr0 in concludes tr r t && explained tr
                               | None => false
                               end)]
                      else []
                  | None => [(0, false)]
                  end
                else []) (snd ra)) answers in
          let '(k, ok) := fold_items items in
          (k, (cok && chain_corr P base_raw (option_map norm_db der0) path md answers, ok))
  end.

Definition c22_check := run_checker c22_one.
