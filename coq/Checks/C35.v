(* C35 case checker: the implementation's comparator answers and its sort + total + pagination outputs
   against Model/WireSort.v (correspondence) and against the executable specification `c35_spec`
   (is the result a slice of a sorted arrangement of the full answer, is the total right, did it fail). *)
From IL Require Export Model.Value Model.WireSort Checks.Common.
Open Scope N_scope.

Inductive c35case :=
(* compare_wire_values(a, b), (b, a) *)
| C35Cmp (a b : option wire) (cab cba : comparison)
(* compare_wire_values on (a,b) (b,c) (a,c) *)
| C35Cmp3 (a b c : option wire) (cab cbc cac : comparison)
(* sort_rows; total_count; apply_pagination.  panicked = the call panicked (res/total then meaningless) *)
| C35Sort (keys : list (nat * bool)) (limit offset : option nat) (rows : list row)
          (panicked : bool) (res : list row) (total : nat)
(* Handler::query_program with annotations vs the un-annotated full answer. failed: 0 ok, 1 panic, 2 Err *)
| C35Query (keys : list (nat * bool)) (limit offset : option nat) (full : list row)
           (failed : nat) (res : list row) (total : nat).

(* known-finding class 1: a sort-key column mixing Float64 with Int64 values whose order changes under
   `as f64` (only possible beyond 2^53) *)
Definition class_of_cols (cols : list (list (option wire))) : N :=
  if forallb good_col cols then 0 else 1.

Definition not_gt (c : comparison) : bool := negb (cmp_eqb c Gt).

(* key-wise agreement of two answers (ties may be ordered differently when the input order is unknown) *)
Fixpoint keywise_eq (keys : list (nat * bool)) (a b : list row) : bool :=
  match a, b with
  | [], [] => true
  | x :: a', y :: b' => cmp_eqb (row_cmp keys x y) Eq && keywise_eq keys a' b'
  | _, _ => false
  end.

Definition c35_one (c : c35case) : N * (bool * bool) :=
  match c with
  | C35Cmp a b cab cba =>
      (0, (cmp_eqb (opt_wire_cmp a b) cab && cmp_eqb (opt_wire_cmp b a) cba,
           cmp_eqb cab (CompOpp cba)))
  | C35Cmp3 a b c cab cbc cac =>
      (class_of_cols [[a; b; c]],
       (cmp_eqb (opt_wire_cmp a b) cab && cmp_eqb (opt_wire_cmp b c) cbc && cmp_eqb (opt_wire_cmp a c) cac,
        (if not_gt cab && not_gt cbc then not_gt cac else true) &&
        (if not_gt (CompOpp cab) && not_gt (CompOpp cbc) then not_gt (CompOpp cac) else true)))
  | C35Sort keys limit offset rows panicked res total =>
      let k := if good_keys keys rows then 0 else 1 in
      let '(mres, mtotal) := query_out keys limit offset rows in
      (k, ((if k =? 0 then negb panicked && rows_eqb res mres && Nat.eqb total mtotal else true),
           negb panicked && c35_spec keys limit offset rows res total))
  | C35Query keys limit offset full failed res total =>
      let k := if good_keys keys full then 0 else 1 in
      let '(mres, mtotal) := query_out keys limit offset full in
      (k, ((if k =? 0 then Nat.eqb failed 0 && keywise_eq keys res mres && Nat.eqb total mtotal else true),
           (* the order in which the engine hands the full answer to the sort is not observable here, so
              without keys any arrangement is accepted (constant comparator) *)
           Nat.eqb failed 0 && Nat.eqb total (length full) &&
           is_sorted_slice_of row_eqb (row_cmp keys) full limit offset res))
  end.

Definition c35_check := run_checker c35_one.
