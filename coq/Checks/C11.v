(* C11 case checker: one case = one history executed on a real StorageEngine, with the
   implementation's reports and the relation contents observed after every step. *)
From IL Require Export Model.Value Model.Store Checks.Common.
Open Scope N_scope.

Inductive c11op :=
| C11Ins (ts : list tuple) (res : option (N * N))   (* Ok (new, dup) | Err *)
| C11Del (ts : list tuple) (res : option N)
| C11Save (ok : bool)
| C11Compact (ok : bool)
| C11Restart (ok : bool)
| C11Obs (q raw : list tuple).                      (* query answer, raw base tuples *)

Inductive c11case := C11Case (ops : list c11op).

Definition rep_ins_eqb (r : report) (res : option (N * N)) : bool :=
  match r, res with
  | RIns n d, Some (n', d') => N.eqb n n' && N.eqb d d'
  | RErr, None => true
  | _, _ => false
  end.
Definition rep_del_eqb (r : report) (res : option N) : bool :=
  match r, res with
  | RDel n, Some n' => N.eqb n n'
  | RErr, None => true
  | _, _ => false
  end.

(* model vs implementation: every report and every observation *)
Fixpoint c11_corr (s : st) (ops : list c11op) : bool :=
  match ops with
  | [] => true
  | C11Ins ts res :: r => let '(s', rep) := step s (OIns ts) in rep_ins_eqb rep res && c11_corr s' r
  | C11Del ts res :: r => let '(s', rep) := step s (ODel ts) in rep_del_eqb rep res && c11_corr s' r
  | C11Save ok :: r => ok && c11_corr (fst (step s OSave)) r
  | C11Compact ok :: r => ok && c11_corr (fst (step s OCompact)) r
  | C11Restart ok :: r => ok && c11_corr (fst (step s ORestart)) r
  | C11Obs q raw :: r => set_eqb q (live s) && set_eqb raw (live s) && nodup_b raw && c11_corr s r
  end.

(* the property on the implementation's own observations: the contents served right before a
   restart are the contents served right after it, and every restart succeeds *)
Fixpoint c11_prop (last : list tuple) (pending : option (list tuple)) (ops : list c11op) : bool :=
  match ops with
  | [] => true
  | C11Restart ok :: r => ok && c11_prop last (Some last) r
  | C11Obs q _ :: r =>
      match pending with
      | Some before => set_eqb before q && nodup_b q && c11_prop q None r
      | None => c11_prop q None r
      end
  | _ :: r => c11_prop last pending r
  end.

Definition c11_one (c : c11case) : N * (bool * bool) :=
  match c with
  | C11Case ops => (0, (c11_corr st0 ops, c11_prop [] None ops))
  end.

Definition c11_check := run_checker c11_one.
