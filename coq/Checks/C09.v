(* Checks/C09.v — per-case checker for C09 (rule text round trip + submission paths). *)
From IL Require Export Model.Syntax Model.SyntaxWf Checks.Common.
Open Scope N_scope.

Inductive c09tabs := Tabs (f : list (str * N)) (d g : list (N * str)) (c : list (N * N)).
Inductive c09case :=
| C09RT (t : c09tabs) (text : str) (r1 : option rule) (out : str) (r2 : option rule)
| C09E2E (t : c09tabs) (rule_text : str) (r1 : option rule) (answers : list str).

Fixpoint lookup_str {A} (k : str) (l : list (str * A)) : option A :=
  match l with [] => None | (k', v) :: t => if str_eqb k k' then Some v else lookup_str k t end.
Fixpoint lookup_N {A} (k : N) (l : list (N * A)) : option A :=
  match l with [] => None | (k', v) :: t => if k =? k' then Some v else lookup_N k t end.

Definition env_of (t : c09tabs) : env :=
  match t with
  | Tabs f d g c =>
      mkEnv (fun ch => match lookup_N ch c with Some b => b | None => 0 end)
            (fun s => lookup_str s f)
            (fun b => match lookup_N b d with Some s => s | None => [] end)
            (fun b => match lookup_N b g with Some s => s | None => [] end)
  end.

(* the facts the model takes from Rust, checked against what the model and the theorems assume *)
Definition tabs_ok (t : c09tabs) : bool :=
  let E := env_of t in
  match t with
  | Tabs f d g c =>
      forallb (fun '(ch, bits) =>
                 Bool.eqb (is_ws ch) (N.testbit bits 3) &&
                 (if ch <? 128 then
                    Bool.eqb (is_digit ch || is_aupper ch || is_alower ch) (N.testbit bits 0) &&
                    Bool.eqb (is_aupper ch) (N.testbit bits 1) && Bool.eqb (is_alower ch) (N.testbit bits 2)
                  else true)) c
      && forallb (fun '(s, b) => f64_lexeme s && (f64_canon b =? b)) f
      && forallb (fun '(b, _) => disp_ok E b) d
      && forallb (fun '(b, _) => dbg_ok E b) g
  end.

Definition c09_one (c : c09case) : N * (bool * bool) :=
  match c with
  | C09RT t text r1 out r2 =>
      let E := env_of t in
      let m1 := parse_rule E text in
      let k := match m1 with Some r => known_class E r | None => 0 end in
      match r1 with
      | None => (k, (tabs_ok t && orule_eqb m1 None, true))
      | Some r =>
          (k, (tabs_ok t && orule_eqb m1 r1 && str_eqb (show_rule E r) out
               && orule_eqb (parse_rule E out) r2,
               orule_eqb r2 (Some r)))
      end
  | C09E2E t text r1 answers =>
      let E := env_of t in
      let m1 := parse_rule E text in
      let k := match m1 with Some r => known_class_paths E r | None => 0 end in
      (k, (tabs_ok t && orule_eqb m1 r1,
           match answers with [] => false | a :: rest => forallb (str_eqb a) rest end))
  end.

Definition c09_check := run_checker c09_one.
