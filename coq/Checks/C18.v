(* Case checker for C18.  A case is one history applied to two real StorageEngines (one with
   incremental maintenance, one without); after every operation the harness queries a fixed list of
   relation names on both and records the incremental engine's materialized-relation set. *)
From IL Require Export Model.Value Model.Mat Checks.Common.
Open Scope N_scope.

(* what the two engines showed after one operation *)
Record c18obs := C18Obs {
  o_sane : bool;                     (* both engines returned the same Ok/Err status for the operation *)
  o_mat : list name;                 (* snapshot.materialized_relations of the incremental engine *)
  o_ans : list (name * (option (list tuple) * option (list tuple)))
                                     (* name, answer with incremental maintenance, answer without *)
}.
Inductive c18case := C18Case (steps : list (op * c18obs)).

Definition incl_t (a b : list tuple) : bool := forallb (fun t => mem_tuple t b) a.
Definition set_eq_t (a b : list tuple) : bool := incl_t a b && incl_t b a.
Definition inclN (a b : list N) : bool := forallb (fun x => memN x b) a.

Definition valid_names (s : st) : list name :=
  map fst (filter (fun e => snd (snd e)) (mats s)).

(* model vs implementation after one step *)
Definition corr_step (s : st) (o : c18obs) : bool :=
  o_sane o &&
  inclN (o_mat o) (valid_names s) && inclN (valid_names s) (o_mat o) &&
  forallb (fun e => match e with
                    | (n, (Some a, _)) => set_eq_t a (query_inc s n)
                    | (_, (None, _)) => false
                    end) (o_ans o).

(* the property on the implementation's own answers: with and without incremental maintenance the
   answer is the same, and it is the reference evaluation of the current rules over the current
   facts *)
Definition prop_step (s : st) (o : c18obs) : bool :=
  forallb (fun e => match e with
                    | (n, (Some a, Some b)) => set_eq_t a b && set_eq_t b (query_fresh s n)
                    | _ => false
                    end) (o_ans o).

Fixpoint c18_walk (s : st) (steps : list (op * c18obs)) : bool * bool :=
  match steps with
  | [] => (true, true)
  | (o, ob) :: r =>
      let s' := step s o in
      let '(c, p) := c18_walk s' r in
      (corr_step s' ob && c, prop_step s' ob && p)
  end.

Definition c18_one (c : c18case) : N * (bool * bool) :=
  match c with
  | C18Case steps => (known_class (map fst steps), c18_walk init steps)
  end.

Definition c18_check := run_checker c18_one.
