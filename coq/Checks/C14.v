(* C14 case checker: one case = a persist configuration and a history of writes interleaved with
   save / compact / graceful restart / drop-and-reopen on a real StorageEngine, with reports, relation
   contents and the number of batch files / WAL lines observed after every step. *)
From IL Require Export Model.Value Model.Store Model.StorePersist Checks.Common.
Open Scope N_scope.

Inductive c14op :=
| C14Ins (ts : list tuple) (res : option (N * N))
| C14Del (ts : list tuple) (res : option N)
| C14Save (ok : bool)
| C14Compact (ok : bool)
| C14Restart (ok : bool)
| C14DropReopen (ok : bool).

(* observation after a step: query answer, number of batch files, WAL lines (None = not compared) *)
Inductive c14obs := C14Obs (q : list tuple) (nbatches : N) (wal_lines : option N).

Inductive c14case := C14Case (cfg : pcfg) (steps : list (c14op * c14obs)).

Definition pop_of (o : c14op) : pop :=
  match o with
  | C14Ins ts _ => PIns ts | C14Del ts _ => PDel ts | C14Save _ => PSave | C14Compact _ => PCompact
  | C14Restart _ => PRestart | C14DropReopen _ => PDropReopen
  end.

Definition rep_ok (o : c14op) (r : report) : bool :=
  match o, r with
  | C14Ins _ (Some (n, d)), RIns n' d' => N.eqb n n' && N.eqb d d'
  | C14Ins _ None, RErr => true
  | C14Del _ (Some n), RDel n' => N.eqb n n'
  | C14Del _ None, RErr => true
  | C14Save ok, ROk | C14Compact ok, ROk | C14Restart ok, ROk | C14DropReopen ok, ROk => ok
  | _, _ => false
  end.

Fixpoint c14_corr (c : pcfg) (s : fst_) (steps : list (c14op * c14obs)) : bool :=
  match steps with
  | [] => true
  | (o, C14Obs q nb wl) :: r =>
      let '(s', rep) := pstep c s (pop_of o) in
      rep_ok o rep && set_eqb q (f_live s') && nodup_b q &&
      N.eqb nb (N.of_nat (length (batches (f_p s')))) &&
      (match wl with Some n => N.eqb n (N.of_nat (length (wal (f_p s')))) | None => true end) &&
      c14_corr c s' r
  end.

(* The property on the implementation's own observations: a maintenance step (save, compact,
   restart) leaves the served contents unchanged, and — judged by the SET model of the history's
   writes alone, which knows nothing about buffers, WAL or batches — the contents after every step
   are what the writes so far produce. *)
Definition is_maint (o : c14op) : bool :=
  match o with C14Ins _ _ | C14Del _ _ => false | _ => true end.
Definition maint_ok (o : c14op) : bool :=
  match o with C14Save ok | C14Compact ok | C14Restart ok | C14DropReopen ok => ok | _ => true end.

Definition set_apply (cur : list tuple) (o : c14op) : list tuple :=
  match o with
  | C14Ins ts (Some _) => cur ++ filter (fun t => negb (mem_tuple t cur)) (dedup_tuples ts)
  | C14Del ts (Some _) => filter (fun t => negb (mem_tuple t ts)) cur
  | _ => cur
  end.

Fixpoint c14_prop (before : list tuple) (spec : list tuple) (steps : list (c14op * c14obs)) : bool :=
  match steps with
  | [] => true
  | (o, C14Obs q _ _) :: r =>
      let spec' := set_apply spec o in
      maint_ok o && (if is_maint o then set_eqb q before else true) && set_eqb q spec' && c14_prop q spec' r
  end.

Definition c14_one (c : c14case) : N * (bool * bool) :=
  match c with
  | C14Case cfg steps => (0, (c14_corr cfg f0 steps, c14_prop [] [] steps))
  end.

Definition c14_check := run_checker c14_one.
