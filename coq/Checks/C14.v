(* C14 case checker: one case = a persist configuration and a history of writes interleaved with
   save / compact / graceful restart / drop-and-reopen on a real StorageEngine, with reports, relation
   contents and the number of batch files / WAL lines observed after every step. *)
From IL Require Export Model.Value Model.Store Model.StorePersist Checks.Common.
Open Scope N_scope.

Inductive c14op :=
| C14Ins (ts : list tuple) (res : option (N * N))
| C14Del (ts : list tuple) (res : option N)
| C14Save (ok : bool)
| C14Compact (ok : bool)
| C14Restart (ok : bool)
| C14DropReopen (ok : bool).

(* observation after a step: query answer, number of batch files, WAL lines (None = not compared) *)
Inductive c14obs := C14Obs (q : list tuple) (nbatches : N) (wal_lines : option N).

Inductive c14obs2 := C14Obs2 (q1 q2 : list tuple) (nbatches : N) (wal_lines : option N).

Inductive c14case :=
| C14Case (cfg : pcfg) (steps : list (c14op * c14obs))
| C14Case2 (cfg : pcfg) (steps : list (bool * c14op * c14obs2)).

Definition pop_of (o : c14op) : pop :=
  match o with
  | C14Ins ts _ => PIns ts | C14Del ts _ => PDel ts | C14Save _ => PSave | C14Compact _ => PCompact
  | C14Restart _ => PRestart | C14DropReopen _ => PDropReopen
  end.

Definition rep_ok (o : c14op) (r : report) : bool :=
  match o, r with
  | C14Ins _ (Some (n, d)), RIns n' d' => N.eqb n n' && N.eqb d d'
  | C14Ins _ None, RErr => true
  | C14Del _ (Some n), RDel n' => N.eqb n n'
  | C14Del _ None, RErr => true
  | C14Save ok, ROk | C14Compact ok, ROk | C14Restart ok, ROk | C14DropReopen ok, ROk => ok
  | _, _ => false
  end.

Fixpoint c14_corr (c : pcfg) (s : fst_) (steps : list (c14op * c14obs)) : bool :=
  match steps with
  | [] => true
  | (o, C14Obs q nb wl) :: r =>
      let '(s', rep) := pstep c s (pop_of o) in
      rep_ok o rep && set_eqb q (f_live s') && nodup_b q &&
      N.eqb nb (N.of_nat (length (batches (f_p s')))) &&
      (match wl with Some n => N.eqb n (N.of_nat (length (wal (f_p s')))) | None => true end) &&
      c14_corr c s' r
  end.

(* The property on the implementation's own observations: a maintenance step (save, compact,
   restart) leaves the served contents unchanged, and — judged by the SET model of the history's
   writes alone, which knows nothing about buffers, WAL or batches — the contents after every step
   are what the writes so far produce. *)
Definition is_maint (o : c14op) : bool :=
  match o with C14Ins _ _ | C14Del _ _ => false | _ => true end.
Definition maint_ok (o : c14op) : bool :=
  match o with C14Save ok | C14Compact ok | C14Restart ok | C14DropReopen ok => ok | _ => true end.

Definition set_apply (cur : list tuple) (o : c14op) : list tuple :=
  match o with
  | C14Ins ts (Some _) => cur ++ filter (fun t => negb (mem_tuple t cur)) (dedup_tuples ts)
  | C14Del ts (Some _) => filter (fun t => negb (mem_tuple t ts)) cur
  | _ => cur
  end.

Fixpoint c14_prop (before : list tuple) (spec : list tuple) (steps : list (c14op * c14obs)) : bool :=
  match steps with
  | [] => true
  | (o, C14Obs q _ _) :: r =>
      let spec' := set_apply spec o in
      maint_ok o && (if is_maint o then set_eqb q before else true) && set_eqb q spec' && c14_prop q spec' r
  end.

(* ---- two relations of one knowledge graph (`r` and `r_weight`: one shard name is a prefix of the
   other).  With the WAL-size trigger off the shards only share the WAL file and the batch directory,
   so each relation is the single-shard model; writes go to one relation, maintenance to both.
   Observation: both relations' contents, total batch files, total WAL lines. *)
Fixpoint c14_corr2 (c : pcfg) (s1 s2 : fst_) (steps : list (bool * c14op * c14obs2)) : bool :=
  match steps with
  | [] => true
  | (second, o, C14Obs2 q1 q2 nb wl) :: r =>
      let w := negb (is_maint o) in
      let '(s1', rep1) := if w && second then (s1, ROk) else pstep c s1 (pop_of o) in
      let '(s2', rep2) := if w && negb second then (s2, ROk) else pstep c s2 (pop_of o) in
      (if w then (if second then rep_ok o rep2 else rep_ok o rep1) else rep_ok o rep1 && rep_ok o rep2) &&
      set_eqb q1 (f_live s1') && nodup_b q1 && set_eqb q2 (f_live s2') && nodup_b q2 &&
      N.eqb nb (N.of_nat (length (batches (f_p s1')) + length (batches (f_p s2')))) &&
      (match wl with Some n => N.eqb n (N.of_nat (length (wal (f_p s1')) + length (wal (f_p s2')))) | None => true end) &&
      c14_corr2 c s1' s2' r
  end.

Fixpoint c14_prop2 (b1 b2 sp1 sp2 : list tuple) (steps : list (bool * c14op * c14obs2)) : bool :=
  match steps with
  | [] => true
  | (second, o, C14Obs2 q1 q2 _ _) :: r =>
      let sp1' := if second then sp1 else set_apply sp1 o in
      let sp2' := if second then set_apply sp2 o else sp2 in
      maint_ok o &&
      (if is_maint o then set_eqb q1 b1 && set_eqb q2 b2 else true) &&
      set_eqb q1 sp1' && set_eqb q2 sp2' && c14_prop2 q1 q2 sp1' sp2' r
  end.

Definition c14_one (c : c14case) : N * (bool * bool) :=
  match c with
  | C14Case cfg steps => (0, (c14_corr cfg f0 steps, c14_prop [] [] steps))
  | C14Case2 cfg steps => (0, (c14_corr2 cfg f0 f0 steps, c14_prop2 [] [] [] [] steps))
  end.

Definition c14_check := run_checker c14_one.
