(* C19 case checker.  One case = one executed schedule of writer threads (inserts / deletes with
   duplicates and absent deletes) and consistent readers on a KG with incremental maintenance
   enabled.  Correspondence: replay in Model/ConcInc.v (labels, results incl. every read, final
   snapshot).  Property on the implementation's output: every consistent read succeeds and
   returns exactly the relation's tuples in the snapshot taken under the same lock, and no write
   fails.  Known class 1 (decided by replaying the input in the model): a writer applies with a
   logical time below an input session's advanced time — the worker thread panics. *)
From IL Require Export Model.Conc Model.ConcInc Checks.Common.
Open Scope N_scope.

Inductive c19read := C19Read (id rel : N) (ok : bool) (xs : list N) (snap : list ifact).
Inductive c19case :=
| C19Case (fx : bool) (progs : list (list iop)) (sched : list (nat * N))
          (impl_res : list (list (N * ires))) (impl_reads : list c19read) (impl_final : list ifact).

Definition ires_eqb (a b : ires) : bool :=
  match a, b with
  | IRIns x y, IRIns x' y' => N.eqb x x' && N.eqb y y'
  | IRDel x, IRDel x' => N.eqb x x'
  | IRErr, IRErr => true
  | IRRead xs, IRRead ys => same_Ns xs ys
  | _, _ => false
  end.
Fixpoint list_eqb5 {A} (eqb : A -> A -> bool) (a b : list A) : bool :=
  match a, b with
  | [], [] => true
  | x :: a', y :: b' => eqb x y && list_eqb5 eqb a' b'
  | _, _ => false
  end.
Fixpoint forall2b {A B} (f : A -> B -> bool) (a : list A) (b : list B) : bool :=
  match a, b with
  | [], [] => true
  | x :: a', y :: b' => f x y && forall2b f a' b'
  | _, _ => false
  end.
Definition iresl_eqb (a b : list (N * ires)) : bool :=
  list_eqb5 (fun x y => N.eqb (fst x) (fst y) && ires_eqb (snd x) (snd y)) a b.

Fixpoint irun_checked (fx : bool) (sched : list (nat * N)) (ls : list lI) (g : gI) : (list lI * gI) * bool :=
  match sched with
  | [] => ((ls, g), true)
  | (t, lab) :: r =>
      match nth_error ls t with
      | None => ((ls, g), false)
      | Some l =>
          let '(l', g') := istep fx t l g in
          let '(res, ok) := irun_checked fx r (upd ls t l') g' in
          (res, N.eqb (ilabel l') lab && ok)
      end
  end.

Definition c19_corr (c : c19case) : bool :=
  match c with
  | C19Case fx progs sched ires ireads_ ifinal =>
      let '((ls, g), ok) := irun_checked fx sched (map iinit_l progs) iinit_g in
      ok && forallb (fun l => match itodo l with [] => true | _ => false end) ls
         && list_eqb5 iresl_eqb (map iresults ls) ires
         && same_ifacts (isnap g) ifinal
         (* the snapshots the readers saw are the model's *)
         && forall2b (fun m r => match r with C19Read _ rel ok xs snap =>
                                    ok && N.eqb (fst (fst m)) rel && same_ifacts (snd m) snap end)
                      (ireads g) (filter (fun r => match r with C19Read _ _ ok _ _ => ok end) ireads_)
  end.

Definition c19_class (c : c19case) : N :=
  match c with
  | C19Case fx progs sched _ _ _ =>
      let g := snd (run_sched (istep fx) (map fst sched) (map iinit_l progs) iinit_g) in
      if idead g then 1 else 0
  end.

Definition c19_prop (c : c19case) : bool :=
  match c with
  | C19Case fx progs sched ires ireads_ ifinal =>
      forallb (fun r => match r with C19Read _ rel ok xs snap => ok && same_Ns xs (rel_of rel snap) end) ireads_
      && forallb (fun rs => forallb (fun x => match snd x with IRErr => false | _ => true end) rs) ires
  end.

Definition c19_one (c : c19case) : N * (bool * bool) := (c19_class c, (c19_corr c, c19_prop c)).
Definition c19_check := run_checker c19_one.
