From IL Require Export Checks.GroupA.
Open Scope N_scope.
Inductive c07case := C07Case (fuel : nat) (p : program) (edb : db) (impl : option (list tuple)).

Definition wf_instb (c : clause) (t : tuple) : bool :=
  Nat.eqb (length t) (length (cargs c)) &&
  forallb (fun hv => match fst hv with HConst v => value_eqb v (snd hv) | _ => true end) (combine (cargs c) t).

Definition c07_one (c : c07case) : N * (bool * bool) :=
  match c with
  | C07Case fuel p edb impl =>
      let prop :=
        match impl with
        | Some ans => nodup_b ans && forallb (fun t => existsb (fun c => wf_instb c t) (clauses_of p (qrel p))) ans
        | None => true       (* program not accepted: outside the property *)
        end in
      (known_of p, (corr_model fuel p edb impl || mutual_recursion p, prop))
  end.
Definition c07_check := run_checker c07_one.
