(* C33 case checker: histories of schema declarations and storing operations on relation `r`
   (statements through Handler::query_program, validation / session-insert / engine API calls),
   with the implementation's accept/reject decisions and the relation contents after every step. *)
From IL Require Export Model.Value Model.Store Model.StoreStmt Model.StoreSchema Checks.Common.
Open Scope N_scope.

Inductive c33op :=
| C33Declare (sc : schema) (ok : bool)             (* schema declaration accepted? *)
| C33Validate (ts : list tuple) (ok : bool)        (* Handler::validate_tuples_against_schema *)
| C33Session (ts : list tuple) (ok : bool)         (* Handler::session_insert_ephemeral accepted? *)
| C33Stmt (q : stmt) (res : sres)                  (* write statement through the handler *)
| C33ApiIns (ts : list tuple) (res : option (option (N * N))).
     (* validate_tuples_in + insert_tuples_into: None = rejected by validation,
        Some None = engine error, Some (Some (new, dup)) *)

Inductive c33case := C33Case (steps : list (c33op * list tuple)).

Definition sres_eqb (a b : sres) : bool :=
  match a, b with
  | SAccepted x, SAccepted y => sreport_eqb x y
  | SRejected, SRejected => true
  | _, _ => false
  end.

Fixpoint c33_corr (s : sst) (steps : list (c33op * list tuple)) : bool :=
  match steps with
  | [] => true
  | (o, raw) :: r =>
      let '(s', ok) :=
        match o with
        | C33Declare sc ok => let '(s', res) := sexec s (QDeclare sc) in
                              (s', Bool.eqb ok (match res with SAccepted _ => true | SRejected => false end))
        | C33Validate ts ok => (s, Bool.eqb ok (validate_opt (decl s) ts))
        | C33Session ts ok => (s, Bool.eqb ok (validate_opt (decl s) ts))
        | C33Stmt q res => let '(s', res') := sexec s (QStmt q) in (s', sres_eqb res res')
        | C33ApiIns ts res =>
            if validate_opt (decl s) ts then
              let '(b, rep) := step_ins (base s) ts in
              (mkSst b (decl s),
               match rep, res with
               | RIns n d, Some (Some (n', d')) => N.eqb n n' && N.eqb d d'
               | RErr, Some None => true
               | _, _ => false
               end)
            else (s, match res with None => true | _ => false end)
        end in
      ok && set_eqb raw (live (base s')) && nodup_b raw && c33_corr s' r
  end.

(* The property on the implementation's own behaviour.  `declared` = the schema of the last
   declaration the implementation accepted. *)
Definition all_conform (sc : schema) (ts : list tuple) : bool := forallb (conforms_row sc) ts.

Fixpoint c33_prop (declared : option schema) (before : list tuple) (steps : list (c33op * list tuple)) : bool :=
  match steps with
  | [] => true
  | (o, raw) :: r =>
      let declared' := match o with C33Declare sc true => Some sc | _ => declared end in
      (* (1) once declared, every stored tuple conforms *)
      (match declared' with Some sc => all_conform sc raw | None => true end) &&
      (* (2) all-or-nothing and (3) conforming inserts are accepted *)
      (match o, declared with
       | C33Stmt (SIns ts) res, Some sc =>
           if all_conform sc ts then match res with SAccepted _ => true | SRejected => false end
           else match res with SRejected => set_eqb raw before | SAccepted _ => false end
       | C33ApiIns ts res, Some sc =>
           if all_conform sc ts then match res with Some _ => true | None => false end
           else match res with None => set_eqb raw before | Some _ => false end
       | C33Validate ts ok, Some sc => Bool.eqb ok (all_conform sc ts) && set_eqb raw before
       | C33Session ts ok, Some sc => Bool.eqb ok (all_conform sc ts) && set_eqb raw before
       | C33Stmt _ SRejected, _ => set_eqb raw before
       | C33Declare _ false, _ => set_eqb raw before
       | _, _ => true
       end) &&
      c33_prop declared' raw r
  end.

Definition c33_one (c : c33case) : N * (bool * bool) :=
  match c with
  | C33Case steps => (0, (c33_corr sst0 steps, c33_prop None [] steps))
  end.

Definition c33_check := run_checker c33_one.
