(* C15 case checker.  One case = one executed schedule of writer / flush / compact threads, with a
   crash image (copy of the data directory, reopened) taken after every step.
   Correspondence: replay in Model/ConcPersist.v — same parking labels, same results, same apply
   order, same final served state, and after every step recover(model disk) = what the reopened
   copy serves.
   Property, on the implementation's output: (1) the final served state is the result of applying
   the acknowledged data operations in the recorded apply order (a serial order consistent with
   each thread's program order) and every report matches that order; (2) every crash image is the
   result of applying, in SOME serial order consistent with program order, all operations
   acknowledged before the crash plus possibly operations in flight; (3) the image taken after the
   last step (everything acknowledged, nothing in flight) equals the served state.
   Known classes (decided by replaying the input in the model): 1 = a flush rewrote the WAL while
   it held a line of an append that had not reached the buffer yet; 2 = two operations on a common
   tuple were applied in the opposite order of their logical times. *)
From IL Require Export Model.Conc Model.ConcPersist Checks.Common.
Open Scope N_scope.

Inductive c15case :=
| C15Case (fx : bool) (bsz : nat) (progs : list (list pop)) (sched : list (nat * N))
          (impl_res : list (list (N * pres))) (impl_order : list N) (impl_final : list pfact)
          (impl_crash : list (list pfact * list (nat * nat))).
          (* per step: recovered facts; per thread (data ops acknowledged, data ops started) *)

Definition pres_eqb (a b : pres) : bool :=
  match a, b with
  | PRIns x y, PRIns x' y' => N.eqb x x' && N.eqb y y'
  | PRDel x, PRDel x' => N.eqb x x'
  | PRDone, PRDone => true
  | _, _ => false
  end.
Fixpoint list_eqb4 {A} (eqb : A -> A -> bool) (a b : list A) : bool :=
  match a, b with
  | [], [] => true
  | x :: a', y :: b' => eqb x y && list_eqb4 eqb a' b'
  | _, _ => false
  end.
Definition presl_eqb (a b : list (N * pres)) : bool :=
  list_eqb4 (fun x y => N.eqb (fst x) (fst y) && pres_eqb (snd x) (snd y)) a b.

(* replay; after every step compare the label and the recovered state *)
Fixpoint prun_checked (fx : bool) (bsz : nat) (sched : list (nat * N)) (crash : list (list pfact * list (nat * nat)))
         (ls : list lP) (g : gP) : (list lP * gP) * bool :=
  match sched, crash with
  | [], _ => ((ls, g), true)
  | (t, lab) :: r, c :: cr =>
      match nth_error ls t with
      | None => ((ls, g), false)
      | Some l =>
          let '(l', g') := pstep fx bsz t l g in
          let '(res, ok) := prun_checked fx bsz r cr (upd ls t l') g' in
          (res, N.eqb (plabel l') lab && same_pfacts (recover (disk g')) (fst c) && ok)
      end
  | _ :: _, [] => ((ls, g), false)
  end.

Definition model_end (fx : bool) (bsz : nat) (progs : list (list pop)) (sched : list (nat * N)) : gP :=
  snd (run_sched (pstep fx bsz) (map fst sched) (map pinit_l progs) pinit_g).

Definition c15_corr (c : c15case) : bool :=
  match c with
  | C15Case fx bsz progs sched ires iorder ifinal icrash =>
      let '((ls, g), ok) := prun_checked fx bsz sched icrash (map pinit_l progs) pinit_g in
      ok && forallb (fun l => match ptodo l with [] => true | _ => false end) ls
         && list_eqb4 presl_eqb (map presults ls) ires
         && list_eqb4 N.eqb (map pop_id (applied g)) iorder
         && same_pfacts (liveP g) ifinal
  end.

Definition c15_class (c : c15case) : N :=
  match c with
  | C15Case fx bsz progs sched _ _ _ _ =>
      let g := model_end fx bsz progs sched in
      if windowed g then 1 else if inverted g then 2 else 0
  end.

(* ---- the specification on the implementation's output *)
Definition is_data (o : pop) : bool := match o with PIns _ _ _ | PDel _ _ _ => true | _ => false end.
Definition data_ops (p : list pop) : list pop := filter is_data p.

Fixpoint replace_nth {A} (i : nat) (x : A) (l : list A) : list A :=
  match l, i with
  | [], _ => []
  | _ :: r, O => x :: r
  | y :: r, S j => y :: replace_nth j x r
  end.

(* all interleavings of the given sequences *)
Fixpoint merges (fuel : nat) (ls : list (list pop)) : list (list pop) :=
  match fuel with
  | O => [[]]
  | S f =>
      if forallb (fun l => match l with [] => true | _ => false end) ls then [[]]
      else flat_map (fun i => match nth i ls [] with
                              | [] => []
                              | x :: r => map (cons x) (merges f (replace_nth i r ls))
                              end) (seq 0 (length ls))
  end.

(* per thread: either the acknowledged prefix or the started prefix of its data operations *)
Fixpoint choices (progs : list (list pop)) (counts : list (nat * nat)) : list (list (list pop)) :=
  match progs, counts with
  | p :: ps, (a, s) :: cs =>
      let rest := choices ps cs in
      let d := data_ops p in
      let opts := if Nat.eqb a s then [firstn a d] else [firstn a d; firstn s d] in
      flat_map (fun o => map (cons o) rest) opts
  | _, _ => [[]]
  end.

Definition crash_ok (progs : list (list pop)) (c : list pfact * list (nat * nat)) : bool :=
  existsb (fun sel =>
             existsb (fun order => same_pfacts (fst c) (pstate_after order))
                     (merges (length (concat sel)) sel))
          (choices progs (snd c)).

Definition find_pop (id : N) (ops : list pop) : option pop := find (fun o => N.eqb (pop_id o) id) ops.
Fixpoint lookup_pops (ids : list N) (ops : list pop) : option (list pop) :=
  match ids with
  | [] => Some []
  | i :: r => match find_pop i ops, lookup_pops r ops with
              | Some o, Some l => Some (o :: l)
              | _, _ => None
              end
  end.

Fixpoint preports_ok (fs : list pfact) (order : list pop) (all : list (N * pres)) : bool :=
  match order with
  | [] => true
  | o :: r =>
      let fs' := papply fs o in
      let ok := match find (fun x => N.eqb (fst x) (pop_id o)) all, o with
                | Some (_, PRIns n d), PIns _ _ ts =>
                    N.eqb n (N.of_nat (length fs' - length fs)) && N.eqb (n + d) (N.of_nat (length ts))
                | Some (_, PRDel n), PDel _ _ _ => N.eqb n (N.of_nat (length fs - length fs'))
                | _, _ => false
                end in
      ok && preports_ok fs' r all
  end.

(* program order: the apply order restricted to one thread is that thread's data operations *)
Definition thread_order_ok (order : list N) (p : list pop) : bool :=
  let ids := map pop_id (data_ops p) in
  list_eqb4 N.eqb (filter (fun i => existsb (N.eqb i) ids) order) ids.

Definition c15_prop (c : c15case) : bool :=
  match c with
  | C15Case fx bsz progs sched ires iorder ifinal icrash =>
      match lookup_pops iorder (concat progs) with
      | None => false
      | Some order =>
          same_pfacts ifinal (pstate_after order)
          && preports_ok [] order (concat ires)
          && forallb (thread_order_ok iorder) progs
          && forallb (crash_ok progs) icrash
          && match last icrash ([], []) with (rf, _) => same_pfacts rf ifinal end
      end
  end.

Definition c15_one (c : c15case) : N * (bool * bool) := (c15_class c, (c15_corr c, c15_prop c)).
Definition c15_check := run_checker c15_one.
