(* Conventions shared by all case checkers (see tools/check.py):
   a checker maps `list (N * case)` to `list N`; every element is
       idx * 1000 + known_class * 10 + code
   code bit 0 = model/implementation correspondence differs on this case,
   code bit 1 = the PROPERTY's oracle fails on the implementation's output,
   known_class = 0, or the number of the known-finding class the input falls in.
   Cases with code 0 are omitted. *)
From Coq Require Export List NArith Bool.
Export ListNotations.
Open Scope N_scope.

Definition verdict (idx : N) (known : N) (corr_ok prop_ok : bool) : list N :=
  let code := (if corr_ok then 0 else 1) + (if prop_ok then 0 else 2) in
  if N.eqb code 0 then [] else [idx * 1000 + known * 10 + code].

Definition run_checker {C} (chk : C -> (N * (bool * bool))) (cases : list (N * C)) : list N :=
  flat_map (fun '(idx, c) => let '(k, (co, pr)) := chk c in verdict idx k co pr) cases.
