(* C12 case checker: one case = inserts / deletes / saves of tuples of arbitrary value kinds into a
   schema-less relation under a buffer size, then drop + reopen; the relation (values and value
   types) before and after, or the failure to reopen. *)
From IL Require Export Model.Value Model.Store Model.StorePersist Model.StoreCodec Checks.Common.
Open Scope N_scope.

Inductive c12step :=
| C12Ins (ts : list tuple) (ok : bool)
| C12Del (ts : list tuple) (ok : bool)
| C12Save (ok : bool).

Inductive c12case :=
  C12Case (buffer : N) (steps : list c12step) (panicked : bool)
          (before : list tuple) (restart_ok : bool) (after : list tuple).

Definition pop12 (s : c12step) : pop :=
  match s with C12Ins ts _ => PIns ts | C12Del ts _ => PDel ts | C12Save _ => PSave end.
Definition step_ok (s : c12step) : bool :=
  match s with C12Ins _ ok | C12Del _ ok | C12Save ok => ok end.

Definition cfg12 (buffer : N) : pcfg := mkCfg buffer 0 DImmediate.

Definition c12_one (c : c12case) : N * (bool * bool) :=
  match c with
  | C12Case buffer steps panicked before restart_ok after =>
      let s := fold_left (fun s o => fst (pstep (cfg12 buffer) s (pop12 o))) steps f0 in
      let p := f_p s in
      let k := c12_class p in
      let prop := negb panicked && restart_ok && set_eqb before after in
      let corr :=
        if N.eqb k 5 then negb restart_ok
        else negb panicked && forallb step_ok steps && set_eqb before (f_live s) &&
             restart_ok && set_eqb after (recovered p) in
      (k, (corr, prop))
  end.

Definition c12_check := run_checker c12_one.
