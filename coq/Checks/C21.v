(* C21 — every proof tree returned for an answer tuple is a valid derivation.
   prop_ok: the PROVED checker `check_proof` (Props/C21.v: check_proof = true <-> valid_proof)
   run on the implementation's own trees against the reference perfect model. *)
From IL Require Export Checks.ProvCommon.
Open Scope N_scope.

Definition c21case := whycase.

Definition c21_one (c : c21case) : N * (bool * bool) :=
  match c with
  | WhyCase nrel P0 base0 der0 path md answers =>
      let P := norm_program P0 in
      let base_raw := norm_db base0 in          (* what the provenance code is handed *)
      let base := eff_base P base_raw in        (* the stored facts that belong to their relation *)
      let M := ref_model nrel P base in
      if negb (ref_ok nrel P M) then (0, (false, true))
      else
        let cok := match der0 with Some d => ctx_ok nrel base (norm_db d) M | None => true end in
        if N.eqb path 0 && negb cok then (0, (true, true))   (* the engine's evaluation differs: C01's business *)
        else
          let cls := if shadowed_facts P base_raw then 3
                     else if N.eqb path 2 && negates_derived P then 2 else 0 in
          let items :=
            flat_map (fun ra : rel * list (tuple * option ptree) =>
              let r := fst ra in
              flat_map (fun a : tuple * option ptree =>
                let t := norm_tuple (fst a) in
                match snd a with
                | None => []
                | Some tr0 =>
                    if in_rel M r t then
                      let tr := norm_ptree tr0 in
                      [(cls, concludes tr r t && check_proof true P base M tr)]
                    else []
                end) (snd ra)) answers in
          let wf := forallb (fun ra : rel * list (tuple * option ptree) =>
                      forallb (fun a : tuple * option ptree =>
                        match snd a with Some tr => ptree_wf tr | None => true end) (snd ra)) answers in
          let '(k, ok) := fold_items items in
          (k, (cok && wf && chain_corr P base_raw (option_map norm_db der0) path md answers, ok))
  end.

Definition c21_check := run_checker c21_one.
