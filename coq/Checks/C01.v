From IL Require Export Checks.GroupA.
Open Scope N_scope.

(* one engine run: program, EDB, and the implementation's answer (None = error) *)
Inductive c01case := C01Case (fuel : nat) (p : program) (edb : db) (impl : option (list tuple))
  (* the same program through the protocol handler as persistent rules: None = not run / rule refused *)
  (via_handler : option (option (list tuple))).

Definition c01_one (c : c01case) : N * (bool * bool) :=
  match c with
  | C01Case fuel p edb impl via =>
      let known := known_of p in
      let q := match query_rel p with Some q => q | None => 0 end in
      (* property oracle: the implementation's answer equals the query relation of the perfect model *)
      let prop :=
        match perfect_model fuel p edb with
        | Some m => match impl with Some ans => set_eqb ans (get m q) | None => false end &&
                    match via with Some (Some ans) => set_eqb ans (get m q) | Some None => false | None => true end
        | None => true     (* out of fuel / not stratified: not in the property's domain *)
        end in
      (* correspondence: the model of the engine's strategy predicts the implementation's answer *)
      let corr :=
        if stratified p then
          match eval_engine fuel p edb with
          | Some a => match impl with Some ans => set_eqb ans a | None => false end
          | None => true
          end
        else match impl with None => true | Some _ => false end   (* recursion through negation is rejected *) in
      (* the theorem's decidable hypotheses hold whenever no two heads are mutually recursive
         (validates the link `no mutual recursion -> order_ok`, which is checked, not proved) and the
         engine's answer relation is the head of the last clause *)
      let dom := implb (negb (mutual_recursion p)) (order_ok p) && N.eqb (engine_query p) q in
      (known, (corr && dom, prop))
  end.

Definition c01_check := run_checker c01_one.
