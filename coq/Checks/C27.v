(* C27 case checker: authorization holds for every program. *)
From IL Require Export Model.HandlerAuth Checks.Common.
Open Scope N_scope.

Inductive c27case := C27Case (c : hcase).

Definition c27_one (cc : c27case) : N * (bool * bool) :=
  let 'C27Case c := cc in
  let req := h_req c in
  let w0 := h_world c in
  let o := h_obs c in
  let roles := role_of (w_acls w0) (q_user req) in
  (* the property on the implementation's own observed effects *)
  let prop :=
    writes_permitted (q_role req) roles (w_kgs w0) (w_kgs (o_world o)) &&
    acl_changes_permitted (q_role req) (q_user req) roles w0 (o_world o) &&
    implb (negb (role_eqb (q_role req) RAdmin)) (negb (o_auth_changed o)) &&
    (* a refused request has no effect at all *)
    implb (N.ltb (o_dec o) 2) (world_eqb w0 (o_world o) && negb (o_auth_changed o)) in
  (0, (hcase_corr c, prop)).

Definition c27_check := run_checker c27_one.
