From IL Require Export Gen.AuthTable Model.AuthClass Checks.Common.
Open Scope N_scope.

Inductive c28case :=
| C28Row (k : stmt_kind) (g_admin g_editor g_viewer k_owner k_editor k_viewer : bool)
| C28Seen (ks : list stmt_kind).

Definition c28_one (c : c28case) : N * (bool * bool) :=
  match c with
  | C28Row k ga ge gv ko ke kv =>
      let corr :=
        Bool.eqb (global_ok RAdmin k) ga && Bool.eqb (global_ok REditor k) ge && Bool.eqb (global_ok RViewer k) gv &&
        Bool.eqb (kg_ok KOwner k) ko && Bool.eqb (kg_ok KEditor k) ke && Bool.eqb (kg_ok KViewer k) kv in
      (* the property, evaluated on the implementation's own decisions *)
      let prop :=
        implb kv ke && implb ke ko && implb gv ge && implb ge ga &&
        implb kv (negb (mutates k)) &&
        implb (admin_only k) (negb ge && negb gv) in
      (0, (corr, prop))
  | C28Seen ks =>
      (* every statement kind of the regenerated enum was exercised on the real code *)
      (0, (forallb (fun k => existsb (fun k' => N.eqb (kind_index k) (kind_index k')) ks) all_kinds, true))
  end.

Definition c28_check := run_checker c28_one.
