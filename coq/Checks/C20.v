(* C20 case checker: replays the executed schedule in Model/ConcSnap.v (correspondence, step by
   step: same parking labels, same results, same apply order, same final snapshot) and evaluates
   the property's specification on the implementation's own output (every read is the state after
   a prefix of the implementation's apply order of whole batches that contains the reader's own
   acknowledged writes; every acknowledged write is applied exactly once; the final snapshot is
   the state after the whole order). *)
From IL Require Export Model.Conc Model.ConcSnap Checks.Common.
Open Scope N_scope.

Inductive c20case :=
| C20Case (v0 : view) (progs : list (list sop)) (sched : list (nat * N))
          (impl_res : list (list (N * sres))) (impl_order : list N) (impl_final : view).

Definition sres_eqb (a b : sres) : bool :=
  match a, b with
  | RIns x y, RIns x' y' => N.eqb x x' && N.eqb y y'
  | RDel x, RDel x' => N.eqb x x'
  | RRule, RRule => true
  | RRem x, RRem y => Bool.eqb x y
  | RErrRule, RErrRule => true
  | RErrView, RErrView => true
  | RView v, RView v' => same_view v v'
  | _, _ => false
  end.

Fixpoint list_eqb2 {A} (eqb : A -> A -> bool) (a b : list A) : bool :=
  match a, b with
  | [], [] => true
  | x :: a', y :: b' => eqb x y && list_eqb2 eqb a' b'
  | _, _ => false
  end.

Definition res_eqb (a b : list (N * sres)) : bool :=
  list_eqb2 (fun x y => N.eqb (fst x) (fst y) && sres_eqb (snd x) (snd y)) a b.

(* replay with label comparison *)
Fixpoint run_checked (sched : list (nat * N)) (ls : list l20) (g : g20) : (list l20 * g20) * bool :=
  match sched with
  | [] => ((ls, g), true)
  | (t, lab) :: r =>
      match nth_error ls t with
      | None => ((ls, g), false)
      | Some l =>
          let '(l', g') := step20 t l g in
          let '(res, ok) := run_checked r (upd ls t l') g' in
          (res, N.eqb (label20 l') lab && ok)
      end
  end.

Definition c20_corr (c : c20case) : bool :=
  match c with
  | C20Case v0 progs sched ires iorder ifinal =>
      let '((ls, g), ok) := run_checked sched (map init_l progs) (init_g v0) in
      ok && forallb (fun l => match todo l with [] => true | _ => false end) ls
         && list_eqb2 res_eqb (map res ls) ires
         && list_eqb2 N.eqb (map sop_id (alog g)) iorder
         && same_view (snap g) ifinal
  end.

(* ---- the specification, on the implementation's output *)
Definition find_op (id : N) (ops : list sop) : option sop := find (fun o => N.eqb (sop_id o) id) ops.

Fixpoint lookup_all (ids : list N) (ops : list sop) : option (list sop) :=
  match ids with
  | [] => Some []
  | i :: r => match find_op i ops, lookup_all r ops with
              | Some o, Some l => Some (o :: l)
              | _, _ => None
              end
  end.

Definition is_prefix_state (v0 : view) (order : list sop) (v : view) (own : list N) : bool :=
  existsb (fun k => same_view v (state_after v0 (firstn k order))
                    && subset_Nb own (map sop_id (firstn k order)))
          (seq_nat (length order)).

(* one client's results in program order; `own` = ids of its acknowledged writes so far *)
Fixpoint client_ok (v0 : view) (order : list sop) (own : list N) (rs : list (N * sres)) : bool :=
  match rs with
  | [] => true
  | (id, RView v) :: r => is_prefix_state v0 order v own && client_ok v0 order own r
  | (id, RErrView) :: r => client_ok v0 order own r
  | (id, RErrRule) :: r => client_ok v0 order own r
  | (id, _) :: r => client_ok v0 order (own ++ [id]) r
  end.

Definition acked_ids (rs : list (N * sres)) : list N :=
  flat_map (fun x => match snd x with RView _ | RErrView | RErrRule => [] | _ => [fst x] end) rs.

(* the report of a write equals what the serial order says at its position *)
Fixpoint reports_ok (v : view) (order : list sop) (all : list (N * sres)) : bool :=
  match order with
  | [] => true
  | o :: r =>
      let v' := apply_op v o in
      let before := length (vfacts v) in
      let after := length (vfacts v') in
      let ok := match find (fun x => N.eqb (fst x) (sop_id o)) all with
                | Some (_, RIns n d) => match o with
                                        | SIns _ _ ts => N.eqb n (N.of_nat (after - before))
                                                         && N.eqb (n + d) (N.of_nat (length ts))
                                        | _ => false end
                | Some (_, RDel n) => match o with SDel _ _ _ => N.eqb n (N.of_nat (before - after)) | _ => false end
                | Some (_, r) =>
                    (* a catalog operation: the value returned is what the catalog at this position gives *)
                    match rule_step (vrules v) o with
                    | Some (_, r') => sres_eqb r r'
                    | None => false
                    end
                | None => false
                end in
      ok && reports_ok v' r all
  end.

Definition c20_prop (c : c20case) : bool :=
  match c with
  | C20Case v0 progs sched ires iorder ifinal =>
      match lookup_all iorder (concat progs) with
      | None => false
      | Some order =>
          forallb (client_ok v0 order []) ires
          && perm_Nb (flat_map acked_ids ires) iorder
          && same_view ifinal (state_after v0 order)
          && reports_ok v0 order (concat ires)
      end
  end.

Definition c20_one (c : c20case) : N * (bool * bool) := (0, (c20_corr c, c20_prop c)).
Definition c20_check := run_checker c20_one.
