(* C17 case checker.  Sequential histories: the model's result and full observation after every
   item must equal the implementation's (correspondence); the frame specification is evaluated on
   the implementation's own observations (an operation on KG k changes no other KG, a failed
   operation changes nothing, an acknowledged drop removes the KG, a re-created KG is empty, a
   restart changes nothing).  Concurrent cases: the executed schedule is replayed step by step
   (labels, results, final and post-restart observations); the drop-finality specification is
   evaluated on the implementation's output (nothing is present after the restart that was not
   present before it - except tuples a thread deletes concurrently, see deleted_by_thread -, tuples of failed inserts are nowhere, a dropped and not re-created KG is
   gone).
   Known class 2: the history uses two different shards whose file names coincide after
   `sanitize_name` (':' and '/' -> '_'). *)
From IL Require Export Model.Conc Model.ConcKG Checks.Common.
Open Scope N_scope.

Inductive c17case :=
| C17Seq (fx : bool) (hist : list hitem) (impl : list (kres * kobs))
| C17Conc (fx : bool) (setup : list hitem) (progs : list (list kop)) (sched : list (nat * N))
          (impl_res : list (list (N * kres))) (impl_final impl_restart : kobs).

Definition kres_eqb (a b : kres) : bool :=
  match a, b with
  | KOk, KOk => true
  | KCount x y, KCount x' y' => N.eqb x x' && N.eqb y y'
  | KErr c, KErr c' => N.eqb c c'
  | KSeen o, KSeen o' => same_obs o o'
  | _, _ => false
  end.

(* ---- sequential correspondence *)
Fixpoint seq_corr (fx : bool) (g : g17) (h : list hitem) (impl : list (kres * kobs)) : bool :=
  match h, impl with
  | [], [] => true
  | HOp o :: h', (r, ob) :: impl' =>
      let '(r', g') := seq_op fx g o in
      kres_eqb r' r && same_obs (observe g') ob && seq_corr fx g' h' impl'
  | HRestart :: h', (_, ob) :: impl' =>
      let g' := restart g in
      same_obs (observe g') ob && seq_corr fx g' h' impl'
  | _, _ => false
  end.

(* ---- the frame specification on the implementation's observations *)
Definition others_unchanged (k : name) (before after : kobs) : bool :=
  forallb (fun e => name_eqb (fst e) k
                    || match lookup (fst e) after with Some y => same_entry (snd e) y | None => false end) before
  && forallb (fun e => name_eqb (fst e) k
                       || match lookup (fst e) before with Some _ => true | None => false end) after.

Definition is_err (r : kres) : bool := match r with KErr _ => true | _ => false end.

Fixpoint seq_prop (prev : kobs) (h : list hitem) (impl : list (kres * kobs)) : bool :=
  match h, impl with
  | [], _ => true
  | HRestart :: h', (_, ob) :: impl' => same_obs prev ob && seq_prop ob h' impl'
  | HOp o :: h', (r, ob) :: impl' =>
      (match kop_target o with
       | None => same_obs prev ob
       | Some k =>
           others_unchanged k prev ob
           && (if is_err r then same_obs prev ob else true)
           && match o, r with
              | KDrop _ _, KOk => match lookup k ob with None => true | Some _ => false end
              | KCreate _ _, KOk => match lookup k ob with
                                    | Some (fs, rs) => match fs, rs with [], [] => true | _, _ => false end
                                    | None => false end
              | _, _ => true
              end
       end)
      && seq_prop ob h' impl'
  | _, [] => false
  end.

Definition obs0 : kobs := [(default_kg, ([], []))].

(* ---- known class 2: colliding shard file names *)
Definition sanitize (s : name) : name := map (fun c => if N.eqb c colon || N.eqb c 47 then 95 else c) s.
Definition shard_of_op (o : kop) : list name :=
  match o with
  | KIns _ k rel _ | KDel _ k rel _ => [shard_name k rel]
  | _ => []
  end.
Fixpoint has_collision (l : list name) : bool :=
  match l with
  | [] => false
  | x :: r => existsb (fun y => negb (name_eqb x y) && name_eqb (sanitize x) (sanitize y)) r || has_collision r
  end.
Definition ops_of_hist (h : list hitem) : list kop :=
  flat_map (fun i => match i with HOp o => [o] | HRestart => [] end) h.
Definition known_class (ops : list kop) : N :=
  if has_collision (flat_map shard_of_op ops) then 2 else 0.

(* ---- concurrent correspondence *)
Fixpoint krun_checked (fx : bool) (sched : list (nat * N)) (ls : list l17) (g : g17) : (list l17 * g17) * bool :=
  match sched with
  | [] => ((ls, g), true)
  | (t, lab) :: r =>
      match nth_error ls t with
      | None => ((ls, g), false)
      | Some l =>
          let '(l', g') := kstep fx t l g in
          let '(res, ok) := krun_checked fx r (upd ls t l') g' in
          (res, N.eqb (klabel l') lab && ok)
      end
  end.

Fixpoint list_eqb3 {A} (eqb : A -> A -> bool) (a b : list A) : bool :=
  match a, b with
  | [], [] => true
  | x :: a', y :: b' => eqb x y && list_eqb3 eqb a' b'
  | _, _ => false
  end.
Definition kresl_eqb (a b : list (N * kres)) : bool :=
  list_eqb3 (fun x y => N.eqb (fst x) (fst y) && kres_eqb (snd x) (snd y)) a b.

Definition conc_corr (fx : bool) (setup : list hitem) (progs : list (list kop)) (sched : list (nat * N))
           (ires : list (list (N * kres))) (ifinal irestart : kobs) : bool :=
  let g0 := seq_run fx kinit_g setup in
  let '((ls, g), ok) := krun_checked fx sched (map kinit_l progs) g0 in
  ok && forallb (fun l => match ktodo l with [] => true | _ => false end) ls
     && list_eqb3 kresl_eqb (map kresults ls) ires
     && same_obs (observe g) ifinal
     && same_obs (observe (restart g)) irestart.

(* ---- drop finality on the implementation's output *)
(* a tuple that a thread deletes concurrently with its insertion is excused: when the delete is
   logged before the insert but applied after it, the tuple is absent in memory and present after
   the restart.  That is the logical-time-vs-apply-order race of C15 (known finding there); it
   involves no drop and says nothing about C17. *)
Definition deleted_by_thread (ops : list kop) (k rel : name) (t : N) : bool :=
  existsb (fun o => match o with
                    | KDel _ k' rel' ts => name_eqb k k' && name_eqb rel rel' && existsb (N.eqb t) ts
                    | _ => false end) ops.
Definition obs_subset (ops : list kop) (a b : kobs) : bool :=
  forallb (fun e => match lookup (fst e) b with
                    | Some y => forallb (fun f => existsb (rfact_eqb f) (fst y)
                                                  || deleted_by_thread ops (fst e) (fst f) (snd f)) (fst (snd e))
                    | None => false end) a.

Definition res_of (id : N) (ires : list (list (N * kres))) : option kres :=
  match find (fun x => N.eqb (fst x) id) (concat ires) with Some (_, r) => Some r | None => None end.

Definition visible (k rel : name) (t : N) (ob : kobs) : bool :=
  match lookup k ob with
  | Some (fs, _) => existsb (rfact_eqb (rel, t)) fs
  | None => false
  end.

(* tuples some successful insert put into (k, rel) *)
Definition ok_inserted (setup ops : list kop) (ires : list (list (N * kres))) (k rel : name) (t : N) : bool :=
  existsb (fun o => match o with
                    | KIns id k' rel' ts =>
                        name_eqb k k' && name_eqb rel rel' && existsb (N.eqb t) ts
                        && match res_of id ires with Some (KCount _ _) => true | _ => false end
                    | _ => false end) ops
  || existsb (fun o => match o with
                       | KIns id k' rel' ts => name_eqb k k' && name_eqb rel rel' && existsb (N.eqb t) ts
                       | _ => false end) setup.

Definition conc_prop (setup : list hitem) (progs : list (list kop))
           (ires : list (list (N * kres))) (ifinal irestart : kobs) : bool :=
  let ops := concat progs in
  (* nothing is there after the restart that was not there before it *)
  obs_subset ops irestart ifinal
  (* a failed insert left nothing behind *)
  && forallb (fun o => match o with
                       | KIns id k rel ts =>
                           match res_of id ires with
                           | Some (KErr _) =>
                               forallb (fun t => ok_inserted (ops_of_hist setup) ops ires k rel t
                                                 || negb (visible k rel t ifinal || visible k rel t irestart)) ts
                           | _ => true end
                       | _ => true end) ops
  (* a KG that was dropped and never (re-)created by the threads is gone *)
  && forallb (fun o => match o with
                       | KDrop id k =>
                           match res_of id ires with
                           | Some KOk =>
                               existsb (fun o' => match o' with KCreate _ k' => name_eqb k k' | _ => false end) ops
                               || negb (match lookup k ifinal with Some _ => true | None => false end
                                        || match lookup k irestart with Some _ => true | None => false end)
                           | _ => true end
                       | _ => true end) ops.

Definition c17_one (c : c17case) : N * (bool * bool) :=
  match c with
  | C17Seq fx h impl =>
      let kc := known_class (ops_of_hist h) in
      (* the model does not describe what happens when two shards share a metadata file:
         inside class 2 only the property is evaluated *)
      (kc, (N.eqb kc 2 || seq_corr fx kinit_g h impl, seq_prop obs0 h impl))
  | C17Conc fx setup progs sched ires ifinal irestart =>
      let kc := known_class (ops_of_hist setup ++ concat progs) in
      (kc, (N.eqb kc 2 || conc_corr fx setup progs sched ires ifinal irestart,
            conc_prop setup progs ires ifinal irestart))
  end.
Definition c17_check := run_checker c17_one.
