(* C23 — why-not explanations are truthful.
   corr_ok: the model `explain` (Model/ProvWhyNot.v) reproduces the implementation's blockers
            (library path, identical context);
   prop_ok: `why_not_truthful` against the reference model on the implementation's blockers. *)
From IL Require Export Checks.ProvCommon.
Open Scope N_scope.

Definition c23case := whynotcase.

Definition c23_one (c : c23case) : N * (bool * bool) :=
  match c with
  | WhyNotCase nrel P0 base0 der0 path targets =>
      let P := norm_program P0 in
      let base_raw := norm_db base0 in
      let base := eff_base P base_raw in
      let der := option_map norm_db der0 in
      let M := ref_model nrel P base in
      if negb (ref_ok nrel P M) then (0, (false, true))
      else
        let cok := match der with Some d => ctx_ok nrel base d M | None => true end in
        let results :=
          flat_map (fun rt : rel * list (tuple * bool * report) =>
            let r := fst rt in
            let cs := clauses_of P r in
            let bbu := forallb bound_before_use cs in
            map (fun x : tuple * bool * report =>
              let t := norm_tuple (fst (fst x)) in
              let rep := snd x in
              let cls := if stored_and_derived P base_raw then 3
                         else if negb bbu then 2
                         else if forallb (clause_det M None t) cs then 0 else 1 in
              let corr := if N.eqb path 1 then report_eqb (explain P base_raw der r t) rep else true in
              (cls, why_not_truthful P M r t rep, corr)) (snd rt)) targets in
        let '(k, ok) := fold_items (map fst results) in
        (k, (cok && forallb snd results, ok))
  end.

Definition c23_check := run_checker c23_one.
