From IL Require Export Checks.GroupA.
Open Scope N_scope.
Inductive c06case := C06Case (fuel : nat) (p : program) (edb : db) (runs : list (N * option (list tuple))).
Definition c06_one (c : c06case) : N * (bool * bool) :=
  match c with
  | C06Case fuel p edb runs =>
      (* the property: under every configuration the answer is the aggregation specification
         (groups of distinct satisfying valuations) applied to the perfect model of the lower strata *)
      let prop :=
        match spec_q fuel p edb with
        | Some a => forallb (fun r => match snd r with Some ans => set_eqb ans a && nodup_b ans | None => false end) runs
        | None => true
        end in
      let corr := match runs with r0 :: _ => mutual_recursion p || corr_model fuel p edb (snd r0) | [] => true end in
      (known_of p, (corr, prop))
  end.
Definition c06_check := run_checker c06_one.
