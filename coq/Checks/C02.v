From IL Require Export Checks.GroupA.
Open Scope N_scope.
Inductive c02case := C02Case (fuel : nat) (p : program) (edb : db) (runs : list (N * option (list tuple))).
Definition c02_one (c : c02case) : N * (bool * bool) :=
  match c with
  | C02Case fuel p edb runs =>
      match runs with
      | [] => (0, (true, true))
      | r0 :: rest =>
          let prop := forallb (fun r => ans_eq (snd r) (snd r0)) rest in
          (known_of p, (mutual_recursion p || corr_model fuel p edb (snd r0), prop))
      end
  end.
Definition c02_check := run_checker c02_one.
