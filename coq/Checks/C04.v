From IL Require Export Checks.GroupA.
Open Scope N_scope.
Inductive c04case := C04Case (fuel : nat) (p : program) (edb : db) (base : option (list tuple))
                             (variants : list (program * option (list tuple))) (facts_unchanged : bool).
Definition c04_one (c : c04case) : N * (bool * bool) :=
  match c with
  | C04Case fuel p edb base variants unchanged =>
      (* the property on the implementation's answers: every variant answers like the original *)
      let prop := forallb (fun v => ans_eq (snd v) base) variants && unchanged in
      (* model side: the specification itself is invariant under the permutation/duplication (the
         `_partial` gap of C04_perm_partial), and the strategy model predicts each variant's answer *)
      let corr :=
        forallb (fun v =>
          (match spec_q fuel (fst v) edb, spec_q fuel p edb with
           | Some a, Some b => set_eqb a b | _, _ => true end) &&
          (mutual_recursion (fst v) || corr_model fuel (fst v) edb (snd v))) variants in
      (known_of p, (corr, prop))
  end.
Definition c04_check := run_checker c04_one.
