(* C28 — Role permissions form a lattice and viewers are read-only.
   The tables `global_ok` / `kg_ok` and the type `stmt_kind` are REGENERATED from
   src/auth.rs + the Statement / MetaCommand enums by tools/translate.py on every run
   (Gen/AuthTable.v); the theorems below are therefore re-proved against what the code says now.
   Hand-written (reviewed by eye, part of the trusted base): `mutates`, `admin_only`. *)
From IL Require Import Gen.AuthTable Model.AuthClass.
From Coq Require Import List Bool.
Import ListNotations.

Lemma all_kinds_complete : forall k, In k all_kinds.
Proof. intros k; destruct k; vm_compute; tauto. Qed.

Lemma forall_kinds (P : stmt_kind -> bool) :
  forallb P all_kinds = true -> forall k, P k = true.
Proof. intros H k. exact (proj1 (forallb_forall P all_kinds) H k (all_kinds_complete k)). Qed.

Theorem C28_lattice : forall k,
  (kg_ok KViewer k = true -> kg_ok KEditor k = true) /\
  (kg_ok KEditor k = true -> kg_ok KOwner k = true) /\
  (global_ok RViewer k = true -> global_ok REditor k = true) /\
  (global_ok REditor k = true -> global_ok RAdmin k = true).
Proof.
  intros k.
  pose proof (forall_kinds (fun k => implb (kg_ok KViewer k) (kg_ok KEditor k) &&
                                    implb (kg_ok KEditor k) (kg_ok KOwner k) &&
                                    implb (global_ok RViewer k) (global_ok REditor k) &&
                                    implb (global_ok REditor k) (global_ok RAdmin k))
                          ltac:(vm_compute; reflexivity) k) as H.
  cbv beta in H. repeat (apply andb_true_iff in H; destruct H as [H ?]).
  repeat split; intros E; rewrite E in *; cbn in *; assumption.
Qed.

Theorem C28_viewer_readonly : forall k, kg_ok KViewer k = true -> mutates k = false.
Proof.
  intros k E.
  pose proof (forall_kinds (fun k => implb (kg_ok KViewer k) (negb (mutates k)))
                          ltac:(vm_compute; reflexivity) k) as H.
  cbv beta in H. rewrite E in H. cbn in H. destruct (mutates k); [discriminate|reflexivity].
Qed.

Theorem C28_admin_only : forall r k, admin_only k = true -> global_ok r k = true -> r = RAdmin.
Proof.
  intros r k A G. destruct r; [reflexivity| |]; exfalso.
  - pose proof (forall_kinds (fun k => implb (admin_only k) (negb (global_ok REditor k)))
                            ltac:(vm_compute; reflexivity) k) as H.
    cbv beta in H. rewrite A, G in H. cbn in H. discriminate.
  - pose proof (forall_kinds (fun k => implb (admin_only k) (negb (global_ok RViewer k)))
                            ltac:(vm_compute; reflexivity) k) as H.
    cbv beta in H. rewrite A, G in H. cbn in H. discriminate.
Qed.

(* the per-KG table also refuses the admin-only commands to non-owners (defence in depth) *)
Theorem C28_kg_admin_only : forall k, admin_only k = true -> kg_ok KEditor k = false /\ kg_ok KViewer k = false.
Proof.
  intros k A.
  pose proof (forall_kinds (fun k => implb (admin_only k) (negb (kg_ok KEditor k) && negb (kg_ok KViewer k)))
                          ltac:(vm_compute; reflexivity) k) as H.
  cbv beta in H. rewrite A in H. unfold implb in H. apply andb_true_iff in H. destruct H as [H1 H2].
  apply negb_true_iff in H1, H2. split; assumption.
Qed.

(* non-vacuity: viewers are allowed something, editors strictly more, and something mutating is refused *)
Example C28_nonvacuous :
  kg_ok KViewer SQuery = true /\ kg_ok KViewer SInsert = false /\ kg_ok KEditor SInsert = true /\
  kg_ok KEditor MKgDrop = false /\ kg_ok KOwner MKgDrop = true /\
  global_ok RViewer MKgCreate = false /\ global_ok REditor MKgCreate = true /\ admin_only MCompact = true.
Proof. vm_compute. repeat split. Qed.

Print Assumptions C28_lattice.
Print Assumptions C28_viewer_readonly.
Print Assumptions C28_admin_only.
Print Assumptions C28_kg_admin_only.
