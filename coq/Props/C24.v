(* C24 — Vector index search returns valid nearest neighbours.
   Model: Model/Hnsw.v, Section Search (Index::search of src/hnsw_index.rs) on top of the index state
   machine of C25.  Proofs: Proofs/HnswSearch.v (+ the invariant of Proofs/Hnsw.v).

   What is assumed and what is not.  The graph search of hnsw_rs is the function `ann`; the ONLY
   thing assumed about it (`ann_contract`) is that it returns distinct internal indices, each in
   range and paired with the L2 distance between the prepared query and that node's vector.  In
   particular nothing is assumed about which nodes it finds: when the graph fits in the search
   breadth the wrapper scans it itself (modelled exactly), and that is where the exactness clause
   of the property lives.  Distances are abstract: `R` (f32, what DistL2 returns) and `D` (f64, what
   the caller gets) with total preorders; `transform` (transform_distance) is assumed monotone.
   "The distance of the configured metric" is `dist_of`: l1 on the stored vector for Manhattan,
   transform_distance of the L2 distance otherwise (for cosine / dot on unit vectors this is the
   identity |a-b|^2 = 2(1 - cos); its numerical agreement with the true cosine is validated by the
   per-run oracle with the tolerance stated in Checks/C24.v, not proved).

   History.  On the pinned tree the statement was false: search returned tombstoned identifiers;
   a re-inserted identifier stayed unreachable; Manhattan re-ranked only the 4k L2-nearest
   candidates, so the L1-nearest vector could be missing from an index smaller than the breadth;
   and the hnsw_rs graph search misses nodes of small or duplicate-heavy graphs (9 of 36 vectors
   returned with k = 36, ef = 200).  Each was reproduced by harness/src/bin/c24.rs and repaired by a
   `fix:` commit in /repo; the model is the repaired code. *)
From IL Require Import Model.Hnsw Proofs.Hnsw Proofs.HnswSearch.
From Coq Require Import Sorted.
Open Scope N_scope.

Section C24.
  Variable V : Type.
  Variable vlen : V -> N.
  Variable normalize : V -> V.
  Variable tiny_norm : V -> bool.
  Variable normalize_keeps_length : forall v, vlen (normalize v) = vlen v.
  Variable R : Type.
  Variable D : Type.
  Variable rle : R -> R -> bool.
  Variable dle : D -> D -> bool.
  Variable l2 : V -> V -> R.
  Variable ann : list V -> V -> N -> N -> list (nat * R).
  Variable transform : metric -> R -> D.
  Variable l1 : V -> V -> D.
  Variable rle_total : forall a b, rle a b = true \/ rle b a = true.
  Variable rle_trans : forall a b c, rle a b = true -> rle b c = true -> rle a c = true.
  Variable dle_total : forall a b, dle a b = true \/ dle b a = true.
  Variable dle_trans : forall a b c, dle a b = true -> dle b c = true -> dle a c = true.
  Variable transform_monotone : forall m a b, rle a b = true -> dle (transform m a) (transform m b) = true.
  Variable ann_contract : forall vs q k ef,
    NoDup (map fst (ann vs q k ef)) /\
    forall i d, In (i, d) (ann vs q k ef) -> exists v, nth_error vs i = Some v /\ d = l2 q v.

  Notation run := (run V vlen normalize tiny_norm).
  Notation search := (search V normalize R D rle dle l2 ann transform l1).
  Notation dist_of := (dist_of V R D l2 transform l1).

  (* For EVERY configuration, history (inserts, updates, batches, deletes, rebuilds, save/load),
     query, k and ef: at most k results, distinct identifiers, non-decreasing distances, every
     identifier live (stored, not deleted) and paired with the distance of the configured metric
     between the prepared query and the identifier's current stored vector. *)
  Theorem C24_valid :
    forall (c : config) (h : list (op V)) (q : V) (k : N) (ef : option N),
      forallb (wf_op V vlen) h = true ->
      let s := run (init V c) h in
      let r := search s q k ef in
      (List.length r <= N.to_nat k)%nat /\
      NoDup (map fst r) /\
      StronglySorted (fun x y => dle (snd x) (snd y) = true) r /\
      forall id d, In (id, d) r ->
        exists v, live_lookup V s id = Some v /\ In (id, v) (live_entries V s) /\
                  d = dist_of (c_metric (cfg s)) (prepare V normalize (cfg s) q) v.
  Proof.
    intros c h q k ef Hwf.
    exact (search_valid V vlen normalize tiny_norm R D rle dle l2 ann transform l1
             dle_total dle_trans ann_contract
             _ _ q k ef (refines V vlen normalize tiny_norm normalize_keeps_length c h Hwf)).
  Qed.

  (* ... and when the number of live vectors is at most the search breadth (ef, or the configured
     ef_search): exactly min(k, live) results, and they are the k nearest — no live vector outside
     the result is closer than a returned one. *)
  Theorem C24_exact :
    forall (c : config) (h : list (op V)) (q : V) (k : N) (ef : option N),
      forallb (wf_op V vlen) h = true ->
      let s := run (init V c) h in
      let r := search s q k ef in
      N.of_nat (List.length (live_entries V s)) <= (match ef with Some e => e | None => c_efs (cfg s) end) ->
      List.length r = Nat.min (N.to_nat k) (List.length (live_entries V s)) /\
      forall id d id' v', In (id, d) r -> In (id', v') (live_entries V s) -> ~ In id' (map fst r) ->
        dle d (dist_of (c_metric (cfg s)) (prepare V normalize (cfg s) q) v') = true.
  Proof.
    intros c h q k ef Hwf.
    exact (search_exact V vlen normalize tiny_norm R D rle dle l2 ann transform l1
             rle_total rle_trans dle_total dle_trans transform_monotone
             _ _ q k ef (refines V vlen normalize tiny_norm normalize_keeps_length c h Hwf)).
  Qed.
End C24.

(* non-vacuity: integer vectors, squared L2 as the raw distance, an `ann` that satisfies the
   contract (it returns nothing, which the contract allows), Manhattan and Euclidean searches over a
   history with a pending tombstone and an update; the Manhattan query is the one the pinned tree
   answered wrongly (L1-nearest (5,0) outside the 4 L2-nearest) *)
Definition zl2 (a b : list Z) : Z := fold_left Z.add (map (fun p => (fst p - snd p) * (fst p - snd p))%Z (combine a b)) 0%Z.
Definition zl1 (a b : list Z) : Z := fold_left Z.add (map (fun p => Z.abs (fst p - snd p)) (combine a b)) 0%Z.
Example C24_nonvacuous :
  let vlen := fun v : list Z => N.of_nat (List.length v) in
  let srch := search (list Z) (fun v => v) Z Z Z.leb Z.leb zl2 (fun _ _ _ _ => []) (fun _ r => r) zl1 in
  let cm := {| c_m := 16; c_efc := 100; c_efs := 32; c_metric := Manhattan |} in
  let hm := [ORebuild [(0, [3; 3]%Z); (1, [3; -3]%Z); (2, [-3; 3]%Z); (3, [-3; -3]%Z); (4, [5; 0]%Z)]] in
  let ce := {| c_m := 16; c_efc := 100; c_efs := 32; c_metric := Euclidean |} in
  let he := [OIns 0 [0; 0]%Z; OIns 1 [1; 0]%Z; OIns 2 [2; 0]%Z; OIns 3 [3; 0]%Z; OIns 4 [4; 0]%Z; OIns 5 [5; 0]%Z; OIns 6 [6; 0]%Z; ODel 0;
             ODel 2; OIns 2 [0; 1]%Z] in
  (forall a b, Z.leb a b = true \/ Z.leb b a = true) /\
  forallb (wf_op (list Z) vlen) hm = true /\ forallb (wf_op (list Z) vlen) he = true /\
  srch (run (list Z) vlen (fun v => v) (fun _ => false) (init (list Z) cm) hm) [0; 0]%Z 1 None = [(4, 5%Z)] /\
  srch (run (list Z) vlen (fun v => v) (fun _ => false) (init (list Z) ce) he) [0; 0]%Z 3 None
    = [(1, 1%Z); (2, 1%Z); (3, 9%Z)] /\
  tombs (run (list Z) vlen (fun v => v) (fun _ => false) (init (list Z) ce) he) = [0].
Proof.
  cbv zeta. split; [intros a b; destruct (Z.leb_spec a b); [left; reflexivity | right; apply Z.leb_le; lia]|].
  vm_compute. repeat split; reflexivity.
Qed.

Print Assumptions C24_valid.
Print Assumptions C24_exact.
