(* C23 — Why-not explanations are truthful.
   Model: Model/ProvWhyNot.v `explain` (src/provenance/why_not.rs explain_why_not: per clause,
   head unification, then a GREEDY left-to-right trace that follows the first matching tuple of
   every positive atom and reports the first failing predicate; negation looks at stored and
   derived data — the repaired behaviour).  Spec: `blocker_holds` (the blocker is a true
   statement about the clause, the target and the perfect model), `clause_derives` (one-step
   derivability), and the boolean form of the property `why_not_truthful`.
   Proofs: Proofs/ProvWhyNot.v. *)
From IL Require Import Model.Value Model.ProvDatalog Model.ProvWhyNot Proofs.ProvDatalog Proofs.ProvWhyNot.
Open Scope N_scope.

(* The full property on the model would be
     forall P base der M r t, data_is_model base der M ->
       why_not_truthful P M r t (explain P base der r t) = true.
   It is FALSE for the faithful model: the trace commits to the first match of every atom, so
   for a tuple that IS derived through a later match every clause can be reported blocked
   (C23_refuted_greedy).  What is true, for all programs, data and tuples: *)

(* (1) every reported blocker is a true statement — for every clause whose comparisons and
   negated atoms only use variables bound earlier (bound_before_use) *)
Theorem C23_reported_blockers_hold :
  forall (base : db) (der : option db) (M : db) (c : clause) (t : tuple) (b : blocker),
    data_is_model base der M -> bound_before_use c = true ->
    explain_clause base der t c = Some b -> blocker_holds M c t b = true.
Proof.
  intros base der M c t b HM Hb H.
  destruct (explain_blocker_holds base der M c t b HM H) as [H1|[i Hi]]; [exact H1|].
  exfalso. exact (explain_no_unbound_error base der c t b Hb H i Hi).
Qed.

(* (2) a clause reported as not blocked really derives the tuple; hence a tuple that no clause
   derives gets a blocker for every clause (no hypothesis on the program) *)
Theorem C23_unblocked_clause_derives :
  forall (base : db) (der : option db) (M : db) (c : clause) (t : tuple),
    data_is_model base der M -> explain_clause base der t c = None -> clause_derives M c t.
Proof. exact explain_unblocked_derives. Qed.

(* (3) the property itself, outside the known class: whenever the greedy trace never had a
   choice (clause_det: every positive atom it met had at most one match in the model), or the
   tuple is not derived at all, the whole report is truthful *)
Theorem C23_truthful_outside_greedy_class :
  forall (P : program) (base : db) (der : option db) (M : db) (r : rel) (t : tuple),
    data_is_model base der M ->
    (forall c, In c (clauses_of P r) -> bound_before_use c = true /\ clause_safe c = true) ->
    ((forall c, In c (clauses_of P r) -> clause_det M None t c = true) \/
     existsb (fun c => derives M c t) (clauses_of P r) = false) ->
    why_not_truthful P M r t (explain P base der r t) = true.
Proof. exact explain_truthful. Qed.

(* the boolean `derives` used by the oracle is one-step derivability *)
Theorem C23_derives_decides :
  forall (M : db) (c : clause) (t : tuple),
    clause_safe c = true -> (derives M c t = true <-> clause_derives M c t).
Proof. intros M c t Hs. split; [apply derives_sound | apply derives_complete; exact Hs]. Qed.

(* the witness: r2(V0) <- r0(V0, V1), r1(V1) with r0 = {(1,2),(1,3)}, r1 = {3};
   r2(1) is derived through r0(1,3), but the trace follows r0(1,2) and reports r1(2) missing *)
Definition greedy_P : program :=
  [mkClause (mkAtom 2 [TVar 0]) [LPos (mkAtom 0 [TVar 0; TVar 1]); LPos (mkAtom 1 [TVar 1])]].
Definition greedy_base : db := [(0, [[VI64 1; VI64 2]; [VI64 1; VI64 3]]); (1, [[VI64 3]])].
Definition greedy_M : db := greedy_base ++ [(2, [[VI64 1]])].

Theorem C23_refuted_greedy :
  exists P base der M r t,
    data_is_model base der M /\
    (forall c, In c (clauses_of P r) -> bound_before_use c = true /\ clause_safe c = true) /\
    why_not_truthful P M r t (explain P base der r t) = false.
Proof.
  exists greedy_P, greedy_base, (Some [(2, [[VI64 1]])]), greedy_M, 2, [VI64 1].
  split; [|split].
  - intros r tu. unfold greedy_M. rewrite rel_tuples_app. cbn [rel_tuples_opt]. rewrite in_app_iff. tauto.
  - intros c [<-|[]]. vm_compute. split; reflexivity.
  - vm_compute. reflexivity.
Qed.

(* non-vacuity of (3): same program, the target r2(5) is not derived and the report is truthful *)
Example C23_nonvacuous :
  why_not_truthful greedy_P greedy_M 2 [VI64 5] (explain greedy_P greedy_base (Some [(2, [[VI64 1]])]) 2 [VI64 5]) = true
  /\ explain greedy_P greedy_base (Some [(2, [[VI64 1]])]) 2 [VI64 5] = [Some (BAtom 0 0 [PC (VI64 5); PV 1])].
Proof. vm_compute. split; reflexivity. Qed.

Print Assumptions C23_reported_blockers_hold.
Print Assumptions C23_unblocked_clause_derives.
Print Assumptions C23_truthful_outside_greedy_class.
Print Assumptions C23_derives_decides.
Print Assumptions C23_refuted_greedy.
