(* C16 — Rule and schema catalogs are durable and crash-safe.
   Model: Model/FS.v (POSIX crash model: un-synced data lost in order / torn, un-dir-synced link /
   rename / unlink lost in order) and Model/Catalog.v (RuleCatalog / SchemaCatalog operations of
   src/rule_catalog.rs, src/schema/catalog.rs, the KnowledgeGraph wrappers of src/storage_engine/mod.rs,
   write_file_atomic of src/storage/metadata.rs, catalog loading in load_knowledge_graph_from_persist).
   Proofs: Proofs/Catalog.v, Proofs/CatalogHist.v.

   The statements are about [points true st h]: every crash point of history [h] (every micro-step
   boundary of every operation, the catalogs before/after the operation in flight, and whether it was
   completed), for the repaired tree (catalogs written by write_file_atomic).  [crash_fs ch] applies an
   arbitrary loss choice [ch]; [allowed] is the oracle that Checks/C16.v also evaluates on what the
   real StorageEngine::new recovered. *)
From Coq Require Import List NArith Bool.
From IL Require Import Model.FS Model.Catalog Proofs.Catalog Proofs.CatalogHist.
Import ListNotations.

(* Full statement of the property: for every number of knowledge graphs, every history of catalog
   operations (register / drop / clear / remove-clause / replace / drop-by-prefix, schema register /
   update / remove, relation drop, clean restart), every crash point and every loss choice:
   - recovery succeeds (no knowledge graph becomes unopenable),
   - every recovered catalog is the catalog before or after the operation in flight, and equals the
     new catalogs once the operation completed (acknowledged operations are never lost),
   - every catalog file that exists parses (nothing is silently replaced by an empty catalog),
   - the recovered store again satisfies the invariant, so the theorem applies to whatever is run
     after the restart (crashes during later operations included). *)
Theorem C16_crash_safe :
  forall (nkg : nat) (h : list cop),
    Forall (fun p => forall ch : N -> dchoice,
              let f := crash_fs ch (pfs p) in
              allowed p (recover (length (pold p)) f) = true /\
              all_clean f 0 (length (pold p)) = true /\
              exists r, recover (length (pold p)) f = Some r /\ Good f r)
           (points true (init_state nkg) h).
Proof. intros nkg h. apply points_safe. apply good_init. Qed.

(* the same from ANY store satisfying the invariant (in particular any recovered store) *)
Theorem C16_crash_safe_from :
  forall (st : cstate) (h : list cop), Good (fsy st) (mem st) ->
    Forall (fun p => forall ch : N -> dchoice, point_ok p ch) (points true st h).
Proof. intros st h G. apply points_safe. exact G. Qed.

(* durability across a clean restart: reloading the catalogs of a store satisfying the invariant
   returns exactly the in-memory catalogs *)
Theorem C16_restart_identity :
  forall st, Good (fsy st) (mem st) -> op_sem true st CRestart = (true, mem st, []).
Proof. exact restart_identity. Qed.

(* the only fact about the file format that is used: a torn catalog file never parses *)
Theorem C16_torn_never_parses :
  forall c t, (t < length (ser c))%nat -> parse (firstn t (ser c)) = None.
Proof. exact parse_strict_prefix. Qed.

(* ---- the pinned tree (catalogs rewritten in place with fs::write, never synced): the same statement
   is false.  [points false] is the model of that code; the witnesses were replayed on the real code
   (torn rules/catalog.json -> StorageEngine::new fails; torn schema.json -> empty schema catalog). *)
Definition h_two_rules : list cop := [CReg 0 0 0; CReg 0 2 1].
(* crash after the second save was acknowledged, keeping only the truncation: the rule catalog is empty
   on disk, the engine does not open *)
Definition ch_trunc_only : N -> dchoice := fun _ => (1000%nat, fun _ => (2%nat, 0%nat)).

Theorem C16_refuted_inplace_unopenable :
  exists h p ch, In p (points false (init_state 1) h) /\
                 recover 1 (crash_fs ch (pfs p)) = None.
Proof.
  exists h_two_rules, (nth 5 (points false (init_state 1) h_two_rules) (mkPt empty_fs [] [] true)), ch_trunc_only.
  split; [vm_compute; tauto|vm_compute; reflexivity].
Qed.

Definition h_two_schemas : list cop := [CSReg 0 0 0; CSReg 0 2 1].
Theorem C16_refuted_inplace_schema_emptied :
  exists h p ch, In p (points false (init_state 1) h) /\ pdone p = true /\
                 option_map (map schemas) (recover 1 (crash_fs ch (pfs p))) = Some [[]] /\
                 map schemas (pold p) <> [[]] /\ map schemas (pnew p) <> [[]].
Proof.
  exists h_two_schemas, (nth 5 (points false (init_state 1) h_two_schemas) (mkPt empty_fs [] [] true)), ch_trunc_only.
  split; [vm_compute; tauto|]. split; [reflexivity|]. split; [vm_compute; reflexivity|].
  split; vm_compute; discriminate.
Qed.

(* without any fsync an acknowledged registration can simply be lost *)
Theorem C16_refuted_inplace_ack_lost :
  exists h p ch, In p (points false (init_state 1) h) /\ pdone p = true /\
                 allowed p (recover 1 (crash_fs ch (pfs p))) = false.
Proof.
  exists [CReg 0 0 0], (nth 2 (points false (init_state 1) [CReg 0 0 0]) (mkPt empty_fs [] [] true)),
         (fun _ => (0%nat, fun _ => (0%nat, 0%nat))).
  split; [vm_compute; tauto|]. split; vm_compute; reflexivity.
Qed.

(* non-vacuity: a history with successful, failing and two-catalog operations and a restart has many
   crash points, the invariant holds initially, and the oracle accepts the expected recovery while
   rejecting a torn one *)
Example C16_nonvacuous :
  let h := [CReg 0 0 0; CSReg 0 0 1; CDrop 0 3; CDropRel 0 0; CRestart] in
  length (points true (init_state 1) h) = 26%nat /\
  Good (fsy (init_state 1)) (mem (init_state 1)) /\
  (let p := nth 3 (points true (init_state 1) h) (mkPt empty_fs [] [] true) in
   allowed p (recover 1 (crash_fs (fun _ => (0%nat, fun _ => (0%nat, 0%nat))) (pfs p))) = true /\
   allowed p None = false).
Proof. split; [vm_compute; reflexivity|]. split; [apply good_init|]. split; vm_compute; reflexivity. Qed.

Print Assumptions C16_crash_safe.
Print Assumptions C16_crash_safe_from.
Print Assumptions C16_restart_identity.
Print Assumptions C16_torn_never_parses.
Print Assumptions C16_refuted_inplace_unopenable.
Print Assumptions C16_refuted_inplace_schema_emptied.
Print Assumptions C16_refuted_inplace_ack_lost.
