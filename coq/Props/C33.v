(* C33 — Declared schemas are enforced.
   Model: Model/StoreSchema.v (SchemaType::matches through the translator-generated table
   Gen/SchemaMatches.v, ValidationEngine::validate_batch, schema declaration, and the handler's
   storing paths on top of Model/StoreStmt.v).  Proofs: Proofs/StoreSchema.v.

   On the pinned tree two paths broke the property and were repaired by `fix:` commits; the model
   is the repaired code and the historical refutations are kept below:
     - the Update statement stored its insert half without validation (C33_refuted_update_unvalidated);
     - a declaration was accepted over stored tuples that do not conform (C33_refuted_declare_unvalidated). *)
From IL Require Import Model.Value Proofs.ValueEq Model.Store Proofs.Store Model.StoreStmt Proofs.StoreStmt
  Model.StoreSchema Proofs.StoreSchema.
From IL Require Import Gen.SchemaMatches.
Open Scope N_scope.

(* The code's type-matching table, regenerated from `SchemaType::matches` on every run, IS the
   specification table `conforms` — for every declared type (every vector dimension) and every value. *)
Theorem C33_matches_is_conforms :
  forall (t : stype) (v : value), code_matches t v = conforms t v.
Proof. exact matches_is_conforms. Qed.

(* Once a schema is declared, every stored tuple conforms to it — after ANY history of
   declarations, re-declarations, inserts, updates, deletes, conditional deletes (accepted,
   rejected or failing half-way), starting from the empty store. *)
Theorem C33_enforced :
  forall (h : list sstmt) (sc : schema) (t : tuple),
    decl (srun sst0 h) = Some sc ->
    In t (live (base (srun sst0 h))) -> conforms_row sc t = true.
Proof. intros h sc t E H. exact (proj2 (srun_SInv h sst0 SInv_sst0) sc E t H). Qed.

(* An insert containing ANY non-conforming tuple is rejected as a whole: nothing changes. *)
Theorem C33_reject_whole_batch :
  forall (s : sst) (sc : schema) (ts : list tuple),
    decl s = Some sc -> existsb (fun t => negb (conforms_row sc t)) ts = true ->
    sexec s (QStmt (SIns ts)) = (s, SRejected).
Proof.
  intros s sc ts E X. cbn [sexec to_store]. rewrite E. cbn [validate_opt]. rewrite validate_batch_spec.
  assert (forallb (conforms_row sc) ts = false) as ->; [|reflexivity].
  apply existsb_exists in X. destruct X as [t [Ht Nt]]. apply negb_true_iff in Nt.
  destruct (forallb (conforms_row sc) ts) eqn:F; [|reflexivity].
  rewrite forallb_forall in F. rewrite (F t Ht) in Nt. discriminate.
Qed.

(* Every conforming insert passes validation and reaches the engine; it is then stored unless the
   engine itself rejects the batch (arity recorded for the relation differs, C32's model). *)
Theorem C33_accept_conforming :
  forall (s : sst) (sc : schema) (ts : list tuple),
    decl s = Some sc -> forallb (conforms_row sc) ts = true ->
    sexec s (QStmt (SIns ts)) =
      (mkSst (fst (exec (base s) (SIns ts))) (decl s), SAccepted (snd (exec (base s) (SIns ts)))).
Proof.
  intros s sc ts E F. cbn [sexec to_store]. rewrite E. cbn [validate_opt]. rewrite validate_batch_spec, F.
  destruct (exec (base s) (SIns ts)) as [b r]. reflexivity.
Qed.

(* ... and when the relation's recorded arity agrees with the schema, the conforming batch is stored *)
Theorem C33_accept_conforming_stored :
  forall (s : sst) (sc : schema) (ts : list tuple) (t : tuple),
    decl s = Some sc -> forallb (conforms_row sc) ts = true ->
    (rel_arity (base s) = None \/ rel_arity (base s) = Some (length sc)) ->
    In t ts -> In t (live (base (fst (sexec s (QStmt (SIns ts)))))).
Proof.
  intros s sc ts t E F A Ht. rewrite (C33_accept_conforming s sc ts E F). cbn [fst base exec].
  assert (L : forall u, In u ts -> length u = length sc).
  { intros u Hu. rewrite forallb_forall in F. specialize (F u Hu). unfold conforms_row in F.
    clear - F. revert u F. induction sc as [|ty sr IH]; intros [|v ur]; cbn; try discriminate; auto.
    intros H. apply andb_true_iff in H. destruct H as [_ H]. f_equal. apply IH, H. }
  unfold step_ins. destruct ts as [|x r]; [destruct Ht|]. set (tsx := x :: r) in *.
  assert (U : uniform_arity (arity_of_first tsx) tsx = true).
  { unfold uniform_arity. apply forallb_forall. intros u Hu. apply Nat.eqb_eq.
    unfold arity_of_first, tsx. rewrite (L u Hu), (L x (or_introl eq_refl)). reflexivity. }
  rewrite U. cbn [negb].
  assert (A' : match rel_arity (base s) with Some a' => negb (Nat.eqb a' (arity_of_first tsx)) | None => false end = false).
  { destruct A as [->| ->]; [reflexivity|]. unfold arity_of_first, tsx. rewrite (L x (or_introl eq_refl)).
    rewrite Nat.eqb_refl. reflexivity. }
  rewrite A'. pose proof (ins_mem_In (live (base s)) tsx t) as HI.
  destruct (ins_mem (live (base s)) tsx) as [l' [n d]]. cbn [fst live] in *. apply HI. auto.
Qed.

(* ---- historical refutations (pinned tree) *)
Definition typed : schema := [TyInt; TyString].
Definition row1 : tuple := [VI64 1; VStr [97]].

(* the pinned Update arm executed `exec` without validating: swapping the columns of typed(int,string) *)
Theorem C33_refuted_update_unvalidated :
  exists (s : sst) (q : stmt) (sc : schema) (t : tuple),
    SInv s /\ decl s = Some sc /\
    In t (live (fst (exec (base s) q))) /\ conforms_row sc t = false.
Proof.
  exists (srun sst0 [QDeclare typed; QStmt (SIns [row1])]), (SUpd [AX; AY] [AY; AX] CTrue), typed, [VStr [97]; VI64 1].
  split; [apply srun_SInv, SInv_sst0|]. vm_compute. repeat split; auto.
Qed.

(* the pinned declaration path stored the schema without looking at the data *)
Theorem C33_refuted_declare_unvalidated :
  exists (b : st) (sc : schema) (t : tuple),
    Inv b /\ In t (live b) /\ conforms_row sc t = false /\ validate_batch sc (live b) = false.
Proof.
  exists (run [OIns [[VStr [98]; VStr [101]]]]), typed, [VStr [98]; VStr [101]].
  split; [apply run_Inv|]. vm_compute. repeat split; auto.
Qed.

(* non-vacuity: a declared schema, an accepted insert, a rejected mixed batch, a rejected
   non-conforming update and an accepted conforming one *)
Example C33_nonvacuous :
  let h := [QDeclare typed; QStmt (SIns [row1]); QStmt (SIns [row1; [VStr [97]; VI64 1]]);
            QStmt (SUpd [AX; AY] [AY; AX] CTrue); QStmt (SUpd [AX; AY] [AX; AC (VStr [122])] CTrue)] in
  decl (srun sst0 h) = Some typed /\ live (base (srun sst0 h)) = [[VI64 1; VStr [122]]] /\
  snd (sexec (srun sst0 [QDeclare typed; QStmt (SIns [row1])]) (QStmt (SUpd [AX; AY] [AY; AX] CTrue))) = SRejected.
Proof. vm_compute. repeat split. Qed.

Print Assumptions C33_matches_is_conforms.
Print Assumptions C33_enforced.
Print Assumptions C33_reject_whole_batch.
Print Assumptions C33_accept_conforming.
Print Assumptions C33_accept_conforming_stored.
Print Assumptions C33_refuted_update_unvalidated.
Print Assumptions C33_refuted_declare_unvalidated.
