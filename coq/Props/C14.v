(* C14 — Maintenance operations are invisible.
   Model: Model/StorePersist.v (FilePersist: WAL / buffer / batch files, buffer-full flush, WAL-size
   flush_all, save_all, compact_all, graceful shutdown + reopen, drop + reopen) on top of
   Model/Store.v.  Proofs: Proofs/StorePersist.v (refinement), Proofs/StoreEquiv.v (congruence).

   "Clean" histories: in async durability mode nothing is dropped without a save first (there is no
   WAL in that mode; a drop without save is a crash, which is C13's subject). *)
From IL Require Import Model.Value Proofs.ValueEq Model.Store Proofs.Store Model.StorePersist
  Proofs.StorePersist Proofs.StoreEquiv.
Open Scope N_scope.

Definition pmaint (o : pop) : bool := match o with PSave | PCompact => true | _ => false end.

(* For EVERY configuration (buffer size, WAL size limit, durability mode) and every clean history,
   the physical store — whatever has been flushed, size-flushed, compacted or replayed on the way —
   is exactly the logical store of Model/Store.v: same served relation, same recorded arity, same
   clock and the same log as a reader of batches + buffer sees it. *)
Theorem C14_refines :
  forall (c : pcfg) (h : list pop), clean c h = true -> abs (prun c h) = run (map abs_op h).
Proof. exact prun_refines. Qed.

(* Hence buffer size, WAL limit and durability mode never matter. *)
Theorem C14_config_independent :
  forall (c1 c2 : pcfg) (h : list pop),
    clean c1 h = true -> clean c2 h = true -> abs (prun c1 h) = abs (prun c2 h).
Proof. intros c1 c2 h H1 H2. rewrite (prun_refines c1 h H1), (prun_refines c2 h H2). reflexivity. Qed.

(* A save or a compaction inserted ANYWHERE in ANY history, under ANY configuration, changes neither
   the relation served afterwards nor the relation a restart would recover afterwards. *)
Theorem C14_invisible :
  forall (c : pcfg) (h1 h2 : list pop) (m : pop),
    pmaint m = true -> clean c (h1 ++ m :: h2) = true ->
    let a := prun c (h1 ++ m :: h2) in
    let b := prun c (h1 ++ h2) in
    (forall t, In t (f_live a) <-> In t (f_live b)) /\
    (forall t, In t (recover (log_of (f_p a))) <-> In t (recover (log_of (f_p b)))).
Proof.
  intros c h1 h2 m M C a b.
  assert (C' : clean c (h1 ++ h2) = true).
  { unfold clean in *. destruct (dur c); auto. rewrite forallb_app in *. cbn [forallb] in C.
    apply andb_true_iff in C. destruct C as [C1 C2]. apply andb_true_iff in C2. destruct C2 as [_ C2].
    rewrite C1, C2. reflexivity. }
  pose proof (prun_refines c _ C) as Ra. pose proof (prun_refines c _ C') as Rb.
  rewrite map_app in Ra, Rb. cbn [map] in Ra.
  assert (MM : maint (abs_op m) = true) by (destruct m; try discriminate; reflexivity).
  destruct (maintenance_invisible (map abs_op h1) (abs_op m) (map abs_op h2) MM) as [L [R _]].
  rewrite <- Ra, <- Rb in L, R. exact (conj L R).
Qed.

(* ... and every later operation reports the same counts (logical level, any continuation) *)
Theorem C14_invisible_reports :
  forall (h1 h2 : list op) (m : op),
    maint m = true -> reports (run (h1 ++ [m])) h2 = reports (run h1) h2.
Proof. intros h1 h2 m. apply maintenance_invisible_reports. Qed.

(* At every moment of every clean history, under every configuration, a restart would recover
   exactly the relation being served (C11 transported to the physical layout). *)
Theorem C14_recovered_is_served :
  forall (c : pcfg) (h : list pop) (t : tuple),
    clean c h = true ->
    (In t (recover (log_of (f_p (prun c h)))) <-> In t (f_live (prun c h))).
Proof.
  intros c h t C. pose proof (prun_refines c h C) as R.
  pose proof (proj1 (restart_reproduces_live (map abs_op h)) t) as H. rewrite <- R in H. exact H.
Qed.

(* the layout operations themselves *)
Theorem C14_flush_keeps_log : forall p, log_of (flush p) = log_of p.
Proof. exact log_of_flush. Qed.
Theorem C14_append_extends_log : forall c p us, log_of (append c p us) = log_of p ++ us.
Proof. exact log_of_append. Qed.
Theorem C14_compact_consolidates_log : forall p, log_of (compact p) = consolidate (log_of p).
Proof. exact log_of_compact. Qed.

(* non-vacuity: buffer size 2 under immediate durability — the history flushes twice, compacts the
   two batches into one, and ends with a non-empty relation that equals the unbuffered run *)
Example C14_nonvacuous :
  let x : tuple := [VI64 1] in let y : tuple := [VI64 2] in
  let h := [PIns [x; y]; PIns [x]; PDel [y]; PCompact; PIns [y]; PSave; PRestart] in
  let s := prun (mkCfg 2 0 DImmediate) h in
  length (batches (f_p (prun (mkCfg 2 0 DImmediate) [PIns [x; y]; PIns [x]; PDel [y]]))) = 2%nat /\
  length (batches (f_p (prun (mkCfg 2 0 DImmediate) [PIns [x; y]; PIns [x]; PDel [y]; PCompact]))) = 1%nat /\
  f_live s = [x; y] /\ f_live (prun (mkCfg 10000 0 DAsync) h) = [x; y] /\
  clean (mkCfg 10000 0 DAsync) h = true.
Proof. vm_compute. repeat split. Qed.

Print Assumptions C14_refines.
Print Assumptions C14_config_independent.
Print Assumptions C14_invisible.
Print Assumptions C14_invisible_reports.
Print Assumptions C14_recovered_is_served.
Print Assumptions C14_flush_keeps_log.
Print Assumptions C14_append_extends_log.
Print Assumptions C14_compact_consolidates_log.
