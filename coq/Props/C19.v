(* C19 — Incremental arrangements mirror the base relations.
   Model: Model/Conc.v + Model/ConcInc.v (KnowledgeGraph::insert_in_memory / delete_in_memory shadow
   writes, StorageEngine::with_kg_read, IncrementalEngine::insert / delete / advance_time /
   read_relation_consistent and its worker loop).  Proofs: Proofs/Conc.v, Proofs/ConcInc.v.

   The flag of the model: `true` = with this property's `fix:` commit (IncrementalEngine::insert /
   delete stamp an update whose logical time lies below the advanced input time with the current
   session time), `false` = the pinned tree, for which the property fails under concurrency
   (C19_refuted_late_writer; replayed on the real code: the timely worker thread panics in
   InputSession::update_at and every later write and read of the knowledge graph fails).

   Schedule property, partial by nature: all programs and all schedules of the model's atomic
   sections (spans between sched_point hooks).  Not expressible in the model: interleavings inside
   a lock scope, weak memory, the correctness of crossbeam channels / parking_lot, and
   differential dataflow itself: the arrangement is modelled as the per-tuple sum of the diffs
   that were sent, read completely once the input sessions have been advanced past every sent
   update (max_write_time is raised before an update is sent and the read advances to
   max_write_time + 1); this modelling step is what the per-run correspondence validates. *)
From IL Require Import Model.Conc Model.ConcInc Proofs.Conc Proofs.ConcInc.
Open Scope N_scope.

(* For ALL client programs (any number of writer and reader threads; inserts and deletes with
   duplicates, in-batch duplicates and deletes of absent tuples) and ALL schedules: the worker is
   alive, the summed diffs are 1 for every tuple of the engine's relations and 0 for every other
   tuple, the published snapshot is the engine state, and EVERY consistent read that has completed
   returned exactly the tuples of the relation in the snapshot it was taken against. *)
Theorem C19_mirror_conc :
  forall (progs : list (list iop)) (sched : list nat),
    let g := snd (run_sched (istep true) sched (map iinit_l progs) iinit_g) in
    idead g = false /\
    (forall f, cnt_of f (icnt g) = if memi f (ilive g) then 1%Z else 0%Z) /\
    isnap g = ilive g /\
    (forall rel xs snap, In (rel, xs, snap) (ireads g) -> forall x, In x xs <-> In (rel, x) snap).
Proof.
  intros progs sched. cbn zeta.
  destruct (mirror_invariant progs sched) as (D & _ & M & S & R).
  split; [exact D|]. split; [intros f; rewrite (M f); reflexivity|]. split; [exact S|].
  intros rel xs snap H x. rewrite Forall_forall in R. exact (R _ H x).
Qed.

(* the sequential case (one client, any history) is the instance with a single program *)
Theorem C19_mirror_seq :
  forall (h : list iop) (sched : list nat),
    let g := snd (run_sched (istep true) sched [iinit_l h] iinit_g) in
    forall rel xs snap, In (rel, xs, snap) (ireads g) -> forall x, In x xs <-> In (rel, x) snap.
Proof.
  intros h sched. cbn zeta. intros rel xs snap H x.
  destruct (C19_mirror_conc [h] sched) as (_ & _ & _ & R). cbn in R. exact (R rel xs snap H x).
Qed.

(* no write and no consistent read ever returns an error *)
Theorem C19_no_operation_fails :
  forall (progs : list (list iop)) (sched : list nat),
    Forall (fun l => forall id, ~ In (id, IRErr) (iresults l))
           (fst (run_sched (istep true) sched (map iinit_l progs) iinit_g)).
Proof. exact no_operation_fails. Qed.

(* pinned tree: writer A draws time 1, writer B draws time 2 and is applied, a consistent read
   advances the inputs to 3, then A is applied at time 1: the worker dies, A's insert fails *)
Theorem C19_refuted_late_writer :
  exists (progs : list (list iop)) (sched : list nat),
    let r := run_sched (istep false) sched (map iinit_l progs) iinit_g in
    idead (snd r) = true /\ exists l, In l (fst r) /\ In (1, IRErr) (iresults l).
Proof.
  exists [[IIns 1 0 [1]]; [IIns 2 0 [2]]; [IRead 3 0]], [0; 0; 1; 1; 1; 2; 2; 0]%nat.
  vm_compute. split; auto. eexists. split; [left; reflexivity|]. left. reflexivity.
Qed.

(* non-vacuity: the same programs and schedule with the fix, followed by a second read: the first
   read sees exactly B's tuple, the second sees both *)
Example C19_nonvacuous :
  let r := run_sched (istep true) [0; 0; 1; 1; 1; 2; 2; 0; 2; 2]%nat
                     (map iinit_l [[IIns 1 0 [1]]; [IIns 2 0 [2]]; [IRead 3 0; IRead 4 0]]) iinit_g in
  idead (snd r) = false /\
  map (fun x => same_Ns (snd (fst x)) (rel_of (fst (fst x)) (snd x))) (ireads (snd r)) = [true; true] /\
  map (fun x => length (snd (fst x))) (ireads (snd r)) = [1; 2]%nat.
Proof. vm_compute. repeat split. Qed.

Print Assumptions C19_mirror_conc.
Print Assumptions C19_mirror_seq.
Print Assumptions C19_no_operation_fails.
Print Assumptions C19_refuted_late_writer.
