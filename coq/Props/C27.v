(* C27 — Authorization holds for every program.
   Model: Model/HandlerAuth.v = Handler::execute_program (authorization block, dispatch of the
   directly handled commands, post-processing) + QueryJob::execute (parse-all-first, per-line loop
   with the mutable current knowledge graph), src/protocol/handler.rs; the decision tables
   global_ok / kg_ok are REGENERATED from src/auth.rs on every run (Gen/AuthTable.v).
   `handle` is the handler with the repaired authorization block (fix commit in /repo: every
   logical line is authorized, against every KG that may be current when it runs);
   `handle_pinned` is the handler as it was pinned (whole text parsed as ONE statement). *)
From IL Require Import Model.HandlerAuth Proofs.HandlerAuth.
Open Scope N_scope.

(* Every statement a request executes — for EVERY program (any number of lines, comments and
   KG switches are already resolved into logical lines), identity, role map and stored state —
   is permitted by the caller's global role and by the caller's role on every knowledge graph
   the statement acts on (`target_kgs`: the KG it names, or the KG that is current when it runs). *)
Theorem C27_authorized : forall (req : request) (w : world),
  Forall (fun p : kgname * stmt =>
            global_ok (q_role req) (kind (snd p)) = true /\
            (q_role req = RAdmin \/
             forall g, In g (target_kgs (snd p) [fst p]) ->
                       exists kr, role_of (w_acls w) (q_user req) g = Some kr /\ kg_ok kr (kind (snd p)) = true))
         (d_trace (handle req w)).
Proof. exact handle_authorized. Qed.

(* In particular: if the facts, rules or schemas of a knowledge graph differ after the request
   (or the graph appeared / disappeared), the caller is an admin, or has a per-KG role on it that is
   not Viewer, or the graph did not exist before and the caller's global role may create graphs. *)
Theorem C27_write_needs_permission : forall (req : request) (w : world) (g : kgname),
  req_wf req = true ->
  kg_content (d_world (handle req w)) g <> kg_content w g ->
  q_role req = RAdmin \/
  (exists kr, role_of (w_acls w) (q_user req) g = Some kr /\ kr <> KViewer) \/
  (kg_content w g = None /\ global_ok (q_role req) MKgCreate = true).
Proof. exact handle_may_change. Qed.

(* a refused request executes nothing *)
Theorem C27_denied_no_effect : forall (req : request) (w : world),
  d_dec (handle req w) = Denied -> d_world (handle req w) = w /\ d_trace (handle req w) = [].
Proof. exact handle_denied. Qed.

(* ---- the pinned behaviour violated the property (DESIGN.md §9 row 22); kept as documentation
   of what the fix repaired.  Full statement that was false for `handle_pinned`:
     forall req w g, kg_content (d_world (handle_pinned req w)) g <> kg_content w g -> (as above). *)
Definition viewer_bob_on_default : world :=
  World [(0, []); (1, [MT; MF 100]); (2, [MT; MF 100])] [(1, 3, KViewer)].

(* a viewer's two-line program inserts *)
Lemma C27_refuted_multiline :
  exists req w g,
    q_role req = RViewer /\ role_of (w_acls w) (q_user req) g = Some KViewer /\
    kg_content (d_world (handle_pinned req w)) g <> kg_content w g.
Proof.
  exists (Req RViewer 3 (Some 1) 1 None [Some (St SInsert None (EIns 201) 0 None); Some (St SInsert None (EIns 202) 0 None)]),
         viewer_bob_on_default, 1.
  vm_compute. repeat split; congruence.
Qed.

(* `// c` + `.kg drop k2` drops a knowledge graph the caller has no role on *)
Lemma C27_refuted_kg_switch :
  exists req w g,
    q_role req = RViewer /\ role_of (w_acls w) (q_user req) g = None /\
    kg_content w g <> None /\ kg_content (d_world (handle_pinned req w)) g = None.
Proof.
  exists (Req RViewer 3 (Some 1) 1 None [Some (St MKgDrop (Some 2) ENone 0 None)]), viewer_bob_on_default, 2.
  vm_compute. repeat split; congruence.
Qed.

(* the repaired handler refuses both *)
Example C27_fixed_witnesses :
  d_dec (handle (Req RViewer 3 (Some 1) 1 None [Some (St SInsert None (EIns 201) 0 None); Some (St SInsert None (EIns 202) 0 None)])
                viewer_bob_on_default) = Denied /\
  d_dec (handle (Req RViewer 3 (Some 1) 1 None [Some (St MKgDrop (Some 2) ENone 0 None)]) viewer_bob_on_default) = Denied.
Proof. vm_compute. split; reflexivity. Qed.

(* non-vacuity: an editor's multi-line program with a KG switch is executed and changes the
   graph it is allowed to write (so the theorems are not about refused requests only) *)
Example C27_nonvacuous :
  let w := World [(0, []); (1, [MT; MF 100]); (2, [MT; MF 100])] [(1, 2, KEditor); (2, 2, KOwner)] in
  let req := Req REditor 2 (Some 1) 1 None
                 [Some (St SInsert None (EIns 201) 0 None); Some (St MKgUse (Some 2) ENone 0 None);
                  Some (St SDelete None (EDel 100) 0 None)] in
  req_wf req = true /\ d_dec (handle req w) = Ran /\ length (d_trace (handle req w)) = 3%nat /\
  kg_content (d_world (handle req w)) 1 = Some [MT; MF 100; MF 201] /\
  kg_content (d_world (handle req w)) 2 = Some [MT].
Proof. vm_compute. repeat split; reflexivity. Qed.

Print Assumptions C27_authorized.
Print Assumptions C27_write_needs_permission.
Print Assumptions C27_denied_no_effect.
