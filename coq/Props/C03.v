(* C03 — Worker count never changes answers.
   Model: Model/Workers.v (CodeGenerator::execute_with_config, partition_data_for_worker) over
   Model/IR.v (the plan denotation); the partition-safety guard is Gen/PartitionGuard.v,
   REGENERATED from CodeGenerator::contains_join by tools/translate.py on every run.
   Proofs: Proofs/Workers.v. *)
From Coq Require Import Permutation.
From IL Require Import Model.Value Model.IR Model.Workers Proofs.Workers.
Open Scope nat_scope.

(* The obligation on the generated table: every node kind that the guard does not force onto a
   single worker is one whose denotation distributes over a partition of the base relations
   (Scan, Map, Filter, Distinct, Union, Compute, FlatMap, HnswScan), and the guard inspects every
   input of such a node.  Re-proved against what the Rust source says now. *)
Theorem C03_guard_table_ok : guard_ok = true.
Proof. vm_compute. reflexivity. Qed.

(* For every hash function, every positive worker count, every plan and every database the
   multi-worker answer is the single-worker answer (both are duplicate-free lists; Permutation =
   equal as sets).  The property's worker set {1,2,3,4,8} is subsumed by `forall n`. *)
Theorem C03_workers :
  forall (h : tuple -> nat) (n : nat) (t : ir) (d : db),
    n > 0 -> Permutation (exec_workers h n t d) (dens t d).
Proof. intros h n t d Hn. exact (exec_workers_correct h n Hn C03_guard_table_ok t d). Qed.

(* the same, element-wise *)
Theorem C03_workers_same_answers :
  forall (h : tuple -> nat) (n : nat) (t : ir) (d : db) (x : tuple),
    n > 0 -> (In x (exec_workers h n t d) <-> In x (exec_workers h 1 t d)).
Proof.
  intros h n t d x Hn.
  pose proof (C03_workers h n t d Hn) as P1.
  pose proof (C03_workers h 1 t d ltac:(lia)) as P2.
  split; intros HI.
  - apply (Permutation_in _ (Permutation_sym P2)). apply (Permutation_in _ P1). exact HI.
  - apply (Permutation_in _ (Permutation_sym P1)). apply (Permutation_in _ P2). exact HI.
Qed.

(* Why Aggregate has to be in the guard (the defect repaired in /repo, DESIGN §9 row 7): the
   partitioned evaluation of `count` over a 3-tuple relation split 2/1 returns one row per
   partition. *)
Definition c03_h (t : tuple) : nat := match t with VI64 z :: _ => Z.to_nat z | _ => 0 end.
Definition c03_db : db := [(0%N, [[VI64 1; VI64 10]; [VI64 2; VI64 20]; [VI64 3; VI64 30]])].
Definition c03_count : ir := Aggregate (Scan 0%N [1%N; 2%N]) [] [(AgCount, 0)] [3%N].

Lemma C03_refuted_unguarded_aggregate :
  ~ Permutation
      (dedup_tuples (flat_map (fun w => dens c03_count (partition c03_h 2 w c03_db)) (seq 0 2)))
      (dens c03_count c03_db).
Proof. intros P. apply Permutation_length in P. vm_compute in P. discriminate. Qed.

(* non-vacuity: a plan the guard lets through, really split over two non-empty partitions, with a
   non-empty answer *)
Definition c03_plan : ir :=
  Map (Filter (Scan 0%N [1%N; 2%N]) (PConst OGt 1 10)) [0] [4%N].
Example C03_nonvacuous :
  guard c03_plan = false /\
  dens c03_plan (partition c03_h 2 0 c03_db) = [[VI64 2]] /\
  dens c03_plan (partition c03_h 2 1 c03_db) = [[VI64 3]] /\
  exec_workers c03_h 2 c03_plan c03_db = [[VI64 2]; [VI64 3]] /\
  guard c03_count = true.
Proof. vm_compute. repeat split; reflexivity. Qed.

Print Assumptions C03_guard_table_ok.
Print Assumptions C03_workers.
Print Assumptions C03_workers_same_answers.
