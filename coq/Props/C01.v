(* C01 — Query answers equal the stratified least model.
   Model: Model/Datalog.v.  `perfect_model` is the specification (iterated least fixpoints over
   the strata of the program); `eval_engine` is the engine's strategy (src/lib.rs
   execute_tuples_profiled).  Proofs: Proofs/DatalogMono.v, DatalogSpec.v, DatalogEngine.v. *)
From IL Require Import Model.Value Model.Datalog Proofs.DatalogMono Proofs.DatalogSpec Proofs.DatalogEngine Proofs.DatalogKahn.
From Coq Require Import Lia.
Open Scope N_scope.

(* Full statement of the property on the model:
     forall fuel p edb M ans, stratified p -> perfect_model fuel p edb = Some M ->
        eval_engine fuel p edb = Some ans -> ans ≡ M(query)
   It is FALSE for the faithful model of the pinned engine: heads in a dependency cycle of length
   >= 2 are evaluated once, in index order, not to a joint fixpoint (C01_refuted_mutual; known
   finding class 1 = `order_ok p = false`).  What is proved, for every program, every EDB, every
   fuel (i.e. any recursion depth), every number of relations and clauses: *)
Theorem C01_engine_is_perfect_model :
  forall (fuel : nat) (p : program) (edb M : db) (ans : list tuple),
    no_aggb p = true ->              (* aggregates are C06 *)
    stratified p = true ->
    heads_fresh p edb = true ->      (* derived relations have no stored facts of the same name *)
    order_ok p = true ->             (* the engine's execution order respects dependencies: true whenever
                                        no two distinct heads are mutually recursive (checked per case) *)
    perfect_model fuel p edb = Some M ->
    eval_engine fuel p edb = Some ans ->
    topo_order p <> [] ->
    incl ans (get M (engine_query p)) /\ incl (get M (engine_query p)) ans.
Proof.
  intros fuel p edb M ans Ha Hs Hf Ho HM He Hne.
  exact (engine_correct p fuel edb (no_aggb_spec p Ha) Hs Hf M HM ans Ho He Hne).
Qed.

(* the witness: even/odd over succ *)
Definition evenodd : program :=
  [ {| chead := 10; cargs := [HConst (VI64 0)]; cbody := [LPos 2 [TConst (VI64 0)]] |};
    {| chead := 10; cargs := [HVar 1]; cbody := [LPos 0 [TVar 0; TVar 1]; LPos 11 [TVar 0]] |};
    {| chead := 11; cargs := [HVar 1]; cbody := [LPos 0 [TVar 0; TVar 1]; LPos 10 [TVar 0]] |};
    {| chead := 99; cargs := [HVar 0]; cbody := [LPos 10 [TVar 0]] |} ].
Definition succ_edb : db :=
  [ (0, [[VI64 0; VI64 1]; [VI64 1; VI64 2]; [VI64 2; VI64 3]; [VI64 3; VI64 4]]); (2, [[VI64 0]]) ].

Theorem C01_refuted_mutual :
  exists fuel p edb M ans,
    no_aggb p = true /\ stratified p = true /\ heads_fresh p edb = true /\
    perfect_model fuel p edb = Some M /\ eval_engine fuel p edb = Some ans /\
    set_eqb ans (get M 99) = false /\ order_ok p = false /\ mutual_recursion p = true.
Proof.
  exists 50%nat, evenodd, succ_edb.
  eexists. eexists.
  split; [vm_compute; reflexivity|]. split; [vm_compute; reflexivity|]. split; [vm_compute; reflexivity|].
  split; [vm_compute; reflexivity|]. split; [vm_compute; reflexivity|]. split; [vm_compute; reflexivity|].
  split; vm_compute; reflexivity.
Qed.

(* non-vacuity: a recursive program with negation below the recursion satisfies every hypothesis and
   has a non-empty answer *)
Definition tc_neg : program :=
  [ {| chead := 10; cargs := [HVar 0]; cbody := [LPos 2 [TVar 0]; LCmp OGt (TVar 0) (TConst (VI64 1))] |};
    {| chead := 11; cargs := [HVar 0; HVar 1]; cbody := [LPos 0 [TVar 0; TVar 1]; LNeg 10 [TVar 0]] |};
    {| chead := 11; cargs := [HVar 0; HVar 2]; cbody := [LPos 0 [TVar 0; TVar 1]; LPos 11 [TVar 1; TVar 2]; LNeg 10 [TVar 0]] |};
    {| chead := 99; cargs := [HVar 0; HVar 1]; cbody := [LPos 11 [TVar 0; TVar 1]] |} ].
Example C01_nonvacuous :
  let edb := [ (0, [[VI64 0; VI64 1]; [VI64 1; VI64 2]; [VI64 2; VI64 3]]); (2, [[VI64 0]; [VI64 1]; [VI64 2]]) ] in
  no_aggb tc_neg = true /\ stratified tc_neg = true /\ heads_fresh tc_neg edb = true /\ order_ok tc_neg = true /\
  (exists M ans, perfect_model 30 tc_neg edb = Some M /\ eval_engine 30 tc_neg edb = Some ans /\
                 length ans = 3%nat /\ engine_query tc_neg = 99).
Proof.
  cbv zeta.
  split; [vm_compute; reflexivity|]. split; [vm_compute; reflexivity|]. split; [vm_compute; reflexivity|].
  split; [vm_compute; reflexivity|]. eexists. eexists.
  split; [vm_compute; reflexivity|]. split; [vm_compute; reflexivity|]. split; vm_compute; reflexivity.
Qed.

(* The execution-order hypothesis discharged: for every program whose dependency graph among heads is
   acyclic apart from self-loops (witnessed by ANY rank function that decreases along dependencies) and
   whose last head (the query) is not used by another head, Kahn's ordering as the engine computes it
   outputs every head after its dependencies (Proofs/DatalogKahn.v: kahn_order_ok, kahn_complete,
   acyclic_order_ok), so the engine answer is the perfect model's query relation. No per-case check of
   the engine's order is left; what stays outside is exactly known-finding class 1 (mutual recursion). *)
Theorem C01_acyclic_engine_is_perfect_model :
  forall (fuel : nat) (p : program) (edb M : db) (ans : list tuple) (rank : rel -> nat),
    no_aggb p = true ->
    stratified p = true ->
    heads_fresh p edb = true ->
    (forall h g, In h (heads p) -> In g (deps p (heads p) h) -> (rank g < rank h)%nat) ->
    (forall h, In h (heads p) -> ~ In (last (heads p) 0) (deps p (heads p) h)) ->
    perfect_model fuel p edb = Some M ->
    eval_engine fuel p edb = Some ans ->
    topo_order p <> [] ->
    incl ans (get M (engine_query p)) /\ incl (get M (engine_query p)) ans.
Proof.
  intros fuel p edb M ans rank Ha Hs Hf Hr HB HM He Hne.
  exact (engine_correct p fuel edb (no_aggb_spec p Ha) Hs Hf M HM ans (acyclic_order_ok p rank Hr HB) He Hne).
Qed.

(* ... and this is exactly the class of programs with a dependency-respecting engine order: `order_ok p`
   (the boolean evaluated on every generated case, false for known-finding class 1) holds if and only if
   such a rank function exists and the last head is unused by the others. *)
Theorem C01_execution_order_characterised :
  forall p : program,
    order_ok p = true <->
    exists rank : rel -> nat,
      (forall h g, In h (heads p) -> In g (deps p (heads p) h) -> (rank g < rank h)%nat) /\
      (forall h, In h (heads p) -> ~ In (last (heads p) 0) (deps p (heads p) h)).
Proof. exact order_ok_iff. Qed.

(* non-vacuity of the two graph hypotheses: tc_neg (self-recursive closure over a negated stratum) with
   rank 10 -> 0, 11 -> 1, 99 -> 2 *)
Example C01_acyclic_nonvacuous :
  let rank := fun r : rel => if N.eqb r 10 then 0%nat else if N.eqb r 11 then 1%nat else 2%nat in
  (forall h g, In h (heads tc_neg) -> In g (deps tc_neg (heads tc_neg) h) -> (rank g < rank h)%nat) /\
  (forall h, In h (heads tc_neg) -> ~ In (last (heads tc_neg) 0) (deps tc_neg (heads tc_neg) h)).
Proof.
  cbv zeta. split.
  - intros h g Hh Hg. vm_compute in Hh.
    destruct Hh as [<-|[<-|[<-|[]]]]; vm_compute in Hg;
      repeat (destruct Hg as [<-|Hg]; [vm_compute; lia|]); destruct Hg.
  - intros h Hh. vm_compute in Hh.
    destruct Hh as [<-|[<-|[<-|[]]]]; vm_compute; intros Hg;
      repeat (destruct Hg as [Hg|Hg]; [discriminate Hg|]); destruct Hg.
Qed.

Print Assumptions C01_engine_is_perfect_model.
Print Assumptions C01_refuted_mutual.
Print Assumptions C01_acyclic_engine_is_perfect_model.
Print Assumptions C01_execution_order_characterised.
