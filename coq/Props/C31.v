(* C31 — Value comparison is a total order consistent with equality and hashing.
   Model: Model/Value.v (`value_eqb` = impl PartialEq for Value), Model/ValueOrd.v (`value_cmp` = impl Ord,
   `hash_feed` = what impl Hash feeds to the hasher, `tuple_cmp`/`tuple_hash_feed` for Tuple) and
   Gen/ValueRank.v (cross-kind arms of `cmp` and enum declaration order, regenerated from
   src/value/mod.rs on every run).  Proofs: Proofs/OrdLaws.v, Proofs/ValueOrd.v.

   `value_wf v` only says that a Float64 payload is a 64-bit pattern (bits < 2^64); it is a
   well-formedness condition of the representation, true of every f64, not a restriction on values.
   NaN (every payload, both signs), -0.0, infinities and subnormals are all covered. *)
From IL Require Import Model.Value Model.ValueOrd Model.Consolidate Proofs.ValueEq Proofs.OrdLaws Proofs.ValueOrd Proofs.Consolidate.
From Coq Require Import Sorting.Sorted.
Open Scope N_scope.

(* For ALL values a b c (no enumeration; any kind, any payload):
   compare-equal exactly when equal; equal values feed the hasher identically; antisymmetry; transitivity. *)
Theorem C31_value_order :
  forall a b c : value, value_wf a -> value_wf b -> value_wf c ->
    (value_cmp a b = Eq <-> value_eqb a b = true) /\
    (value_eqb a b = true -> hash_feed a = hash_feed b) /\
    value_cmp a b = CompOpp (value_cmp b a) /\
    (value_cmp a b <> Gt -> value_cmp b c <> Gt -> value_cmp a c <> Gt).
Proof. exact value_order. Qed.

(* tuples (any arity, also different arities) inherit the laws *)
Theorem C31_tuple_order :
  forall a b c : tuple, tuple_wf a -> tuple_wf b -> tuple_wf c ->
    (tuple_cmp a b = Eq <-> tuple_eqb a b = true) /\
    (tuple_eqb a b = true -> tuple_hash_feed a = tuple_hash_feed b) /\
    tuple_cmp a b = CompOpp (tuple_cmp b a) /\
    (tuple_cmp a b <> Gt -> tuple_cmp b c <> Gt -> tuple_cmp a c <> Gt).
Proof. exact tuple_order. Qed.

(* the strict form used by sort-then-merge consolidation: Lt is transitive and irreflexive, and two
   values that are neither Lt nor Gt are the same value *)
Theorem C31_strict_total :
  forall a b c : value, value_wf a -> value_wf b -> value_wf c ->
    (value_cmp a b = Lt -> value_cmp b c = Lt -> value_cmp a c = Lt) /\
    value_cmp a a = Eq /\
    (value_cmp a b = Eq -> a = b).
Proof.
  intros a b c Wa Wb Wc. destruct value_cmp_laws as [He [Ha Ht]]. repeat split.
  - apply Ht; auto.
  - apply He; auto.
  - apply He; auto.
Qed.

(* What the storage layer relies on (src/storage/persist/consolidate.rs `consolidate_to_current`: sort by
   Tuple::cmp, then merge ADJACENT == data): for every list of updates, every tuple keeps exactly the sum
   of its diffs, no zero entry survives, and no two output entries have == data (the output is strictly
   increasing).  This is a consequence of the order laws above — with the pre-repair comparator equal data
   need not be adjacent after sorting. *)
Theorem C31_consolidate :
  forall l : list update, Forall upd_wf l ->
    let out := consolidate_to_current l in
    (forall t, net t out = net t l) /\
    Forall (fun u => u_diff u <> 0%Z) out /\
    StronglySorted upd_lt out /\
    nodup_data out = true.
Proof. exact consolidate_correct. Qed.

(* The comparator of the pinned tree (`partial_cmp(..).unwrap_or(Equal)` on Float64; repaired by the
   `fix:` commit recorded in KNOWN_FINDINGS.json) violated the property; kept as a record of why. *)
Theorem C31_pre_repair_refuted_nan :
  exists a b c, value_cmp_old a b <> Gt /\ value_cmp_old b c <> Gt /\ ~ value_cmp_old a c <> Gt.
Proof.
  exists f_two, f_nan, f_one. destruct old_cmp_not_transitive as [H1 [H2 H3]].
  repeat split; auto; intros H; apply H; exact H3.
Qed.

Theorem C31_pre_repair_refuted_signed_zero :
  exists a b, ~ (value_cmp_old a b = Eq <-> value_eqb a b = true).
Proof.
  exists f_pz, f_nz. destruct old_cmp_eq_not_eqb as [H1 H2]. intros [H _]. rewrite H in H2; [discriminate | exact H1].
Qed.

(* non-vacuity: concrete well-formed values of different kinds and awkward floats, with the answers *)
Example C31_nonvacuous :
  let nan := VF64 0x7FF8000000000000 in let nz := VF64 0x8000000000000000 in let pz := VF64 0 in
  value_wf nan /\ value_wf nz /\ value_wf pz /\
  value_cmp nz pz = Lt /\ value_cmp pz nan = Lt /\ value_cmp nz nan = Lt /\ value_cmp nan nan = Eq /\
  value_eqb nan nan = true /\ value_eqb nz pz = false /\
  value_cmp (VI64 5) (VI32 7) = Gt /\ value_cmp (VStr [97]) (VVec [0]) = Lt /\
  tuple_cmp [VI64 1; nan] [VI64 1; nan; VNull] = Lt /\
  tuple_wf [VI64 1; nan; VNull].
Proof. cbv zeta. repeat split; try reflexivity; repeat constructor. Qed.

Print Assumptions C31_value_order.
Print Assumptions C31_tuple_order.
Print Assumptions C31_strict_total.
Print Assumptions C31_consolidate.
