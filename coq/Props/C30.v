(* C30 — A program with a syntax error has no effect; otherwise statements take effect in order.
   Model: Model/HandlerAuth.v — `query_program` = QueryJob::execute (phase 1 parses every logical
   line, phase 2 = `fold_left step`, one loop iteration per line: the accumulated `current_stmt`
   is cleared at the end of every iteration, on every arm), `handle` = Handler::execute_program. *)
From IL Require Import Model.HandlerAuth Proofs.HandlerAuth.
Open Scope N_scope.

(* all or nothing: one unparsable line anywhere rejects the whole program before anything runs *)
Theorem C30_all_or_nothing : forall kgs cur (ls : list (option stmt)),
  In None ls -> query_program kgs cur ls = None.
Proof. exact query_program_all_or_nothing. Qed.

(* otherwise every statement is executed, once, in program order (a left fold of `step`) *)
Theorem C30_program_order : forall kgs cur (ss : list stmt),
  query_program kgs cur (map Some ss) = Some (fold_left step ss (RState kgs cur None false false [])) /\
  map snd (r_trace (fold_left step ss (RState kgs cur None false false []))) = ss.
Proof. exact query_program_in_order. Qed.

(* Through the request handler.  Full statement of the property:
     forall req w, In None (q_lines req) -> d_world (handle req w) = w /\ d_dec (handle req w) <> Ran
   It is FALSE for requests that execute_program handles itself on the parse of the whole text
   (`goes_direct`: session / user / API-key / ACL commands, session rules and facts): the meta parser
   ignores trailing lines, so the first line is applied and the rest is never looked at
   (known finding 1, C30_refuted_direct).  For every other request it holds: *)
Theorem C30_syntax_error_no_effect : forall (req : request) (w : world),
  In None (q_lines req) -> goes_direct req = false ->
  d_world (handle req w) = w /\ d_trace (handle req w) = [] /\
  (kg_exists w (q_cur req) = true -> d_dec (handle req w) <> Ran).
Proof. exact handle_syntax_error. Qed.

Lemma C30_refuted_direct :
  exists req w, In None (q_lines req) /\ d_world (handle req w) <> w.
Proof.
  exists (Req RViewer 3 (Some 1) 1 (Some (St MKgAclGrant (Some 1) ENone 4 (Some KEditor)))
              [Some (St MKgAclGrant (Some 1) ENone 4 (Some KEditor)); None]),
         (World [(0, []); (1, [MT])] [(1, 3, KOwner)]).
  split; [cbn; auto|]. vm_compute. congruence.
Qed.

(* non-vacuity: order matters and is the program's *)
Example C30_nonvacuous :
  let ins := St SInsert None (EIns 7) 0 None in
  let del := St SDelete None (EDel 7) 0 None in
  option_map r_kgs (query_program [(1, [MT])] 1 [Some ins; Some del]) = Some [(1, [MT])] /\
  option_map r_kgs (query_program [(1, [MT])] 1 [Some del; Some ins]) = Some [(1, [MT; MF 7])] /\
  query_program [(1, [MT])] 1 [Some ins; None; Some del] = None.
Proof. vm_compute. repeat split; reflexivity. Qed.

Print Assumptions C30_all_or_nothing.
Print Assumptions C30_program_order.
Print Assumptions C30_syntax_error_no_effect.
