(* C34 — Programs with recursion through negation are never evaluated.
   Model: Model/Datalog.v `neg_cycle` (rule_catalog::validate_rules_stratification: a negative
   dependency inside a dependency cycle), `accepts`, `stratified` (level relaxation, the hypothesis of C01). *)
From IL Require Import Model.Value Model.Datalog Proofs.DatalogSpec Proofs.DatalogMisc Proofs.DatalogEngine.
Open Scope N_scope.

(* textbook definition: a stratification is a level assignment with level(head) >= level(positive
   dependency) and > level(negative dependency) *)
Definition stratification (Lv : rel -> nat) (p : program) : Prop :=
  forall h r b, In (r, b) (head_refs p h) -> if b : bool then (Lv r < Lv h)%nat else (Lv r <= Lv h)%nat.

(* every stratifiable rule set passes the acceptance check (never a false rejection), for all programs *)
Theorem C34_stratifiable_accepted :
  forall p Lv, stratification Lv p -> neg_cycle p = false.
Proof. exact stratifiable_no_neg_cycle. Qed.

(* the evaluator's own notion (C01's hypothesis) yields a textbook stratification, hence is accepted *)
Theorem C34_relaxation_is_stratification :
  forall p, no_aggb p = true -> stratified p = true -> stratification (L p) p /\ neg_cycle p = false.
Proof.
  intros p Ha H. pose proof (Proofs.DatalogEngine.no_aggb_spec p Ha) as Ha'. split; [exact (stratified_respects p Ha' H)|].
  exact (stratifiable_no_neg_cycle p (L p) (stratified_respects p Ha' H)).
Qed.

(* `_partial`: the converse (neg_cycle p = false -> stratified p = true, i.e. everything the check
   accepts is evaluable by strata) is validated on every generated rule set by Checks/C34.v, not proved. *)

Example C34_nonvacuous :
  let win := [ {| chead := 10; cargs := [HVar 0]; cbody := [LPos 0 [TVar 0; TVar 1]; LNeg 10 [TVar 1]] |} ] in
  let ok := [ {| chead := 10; cargs := [HVar 0]; cbody := [LPos 2 [TVar 0]; LNeg 1 [TVar 0; TVar 0]] |};
              {| chead := 11; cargs := [HVar 0]; cbody := [LPos 2 [TVar 0]; LNeg 10 [TVar 0]] |} ] in
  neg_cycle win = true /\ stratified win = false /\ neg_cycle ok = false /\ stratified ok = true.
Proof. vm_compute. repeat split. Qed.

Print Assumptions C34_stratifiable_accepted.
Print Assumptions C34_relaxation_is_stratification.
