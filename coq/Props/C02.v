(* C02 — Optimizer settings never change answers.
   What the Coq development carries: the ANSWER is determined by the program and the facts alone —
   any evaluation order that respects dependencies (the scheduling freedom used by subplan sharing and
   by the topological tie-breaking) yields the query relation of the perfect model, so two such orders
   agree.  The individual rewrite passes (SIP semijoin reduction, magic sets, join planning, subplan
   sharing, boolean specialization) are NOT modelled at this level: `_partial`.  They are validated on
   every run by executing every generated program under the switch combinations and comparing answers
   (oracle), and the IR-level passes are the subject of C05. *)
From IL Require Import Model.Value Model.Datalog Proofs.DatalogMono Proofs.DatalogEngine.
Open Scope N_scope.

Theorem C02_any_dependency_order_partial :
  forall fuel p edb M o1 o2 env1 env2 ans1 ans2,
    no_aggb p = true -> stratified p = true -> heads_fresh p edb = true ->
    perfect_model fuel p edb = Some M ->
    order_okb p (heads p) [] o1 = true -> order_okb p (heads p) [] o2 = true ->
    o1 <> [] -> o2 <> [] -> last o1 0 = last o2 0 ->
    run_nodes fuel p o1 edb [] = Some (env1, ans1) ->
    run_nodes fuel p o2 edb [] = Some (env2, ans2) ->
    incl ans1 ans2 /\ incl ans2 ans1.
Proof.
  intros fuel p edb M o1 o2 env1 env2 ans1 ans2 Ha Hs Hf HM H1 H2 N1 N2 Hl R1 R2.
  pose proof (any_order_correct p fuel edb M o1 env1 ans1 (no_aggb_spec p Ha) Hs Hf HM H1 N1 R1) as [A1 B1].
  pose proof (any_order_correct p fuel edb M o2 env2 ans2 (no_aggb_spec p Ha) Hs Hf HM H2 N2 R2) as [A2 B2].
  rewrite Hl in *. split; eapply incl_tran; eauto.
Qed.

(* two different valid orders for a diamond-shaped program *)
Example C02_nonvacuous :
  let p := [ {| chead := 10; cargs := [HVar 0]; cbody := [LPos 2 [TVar 0]] |};
             {| chead := 11; cargs := [HVar 0]; cbody := [LPos 2 [TVar 0]; LCmp OGt (TVar 0) (TConst (VI64 0))] |};
             {| chead := 99; cargs := [HVar 0]; cbody := [LPos 10 [TVar 0]; LNeg 11 [TVar 0]] |} ] in
  order_okb p (heads p) [] [10; 11; 99] = true /\ order_okb p (heads p) [] [11; 10; 99] = true /\
  order_okb p (heads p) [] [99; 10; 11] = false.
Proof. vm_compute. repeat split. Qed.

Print Assumptions C02_any_dependency_order_partial.
