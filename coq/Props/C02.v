(* C02 — Optimizer settings never change answers.
   What the Coq development carries: the ANSWER is determined by the program and the facts alone —
   any evaluation order that respects dependencies (the scheduling freedom used by subplan sharing and
   by the topological tie-breaking) yields the query relation of the perfect model, so two such orders
   agree; and join order inside a rule is irrelevant (C02_join_order_irrelevant).  The rewrite passes
   as implemented (SIP semijoin reduction, magic sets, the join planner's IR surgery, subplan sharing,
   boolean specialization) are NOT modelled at this level: `_partial`.  They are validated on
   every run by executing every generated program under the switch combinations and comparing answers
   (oracle), and the IR-level passes are the subject of C05. *)
From IL Require Import Model.Value Model.Datalog Proofs.DatalogMono Proofs.DatalogEngine Proofs.DatalogReorder.
From Coq Require Import Permutation.
Open Scope N_scope.

Theorem C02_any_dependency_order_partial :
  forall fuel p edb M o1 o2 env1 env2 ans1 ans2,
    no_aggb p = true -> stratified p = true -> heads_fresh p edb = true ->
    perfect_model fuel p edb = Some M ->
    order_okb p (heads p) [] o1 = true -> order_okb p (heads p) [] o2 = true ->
    o1 <> [] -> o2 <> [] -> last o1 0 = last o2 0 ->
    run_nodes fuel p o1 edb [] = Some (env1, ans1) ->
    run_nodes fuel p o2 edb [] = Some (env2, ans2) ->
    incl ans1 ans2 /\ incl ans2 ans1.
Proof.
  intros fuel p edb M o1 o2 env1 env2 ans1 ans2 Ha Hs Hf HM H1 H2 N1 N2 Hl R1 R2.
  pose proof (any_order_correct p fuel edb M o1 env1 ans1 (no_aggb_spec p Ha) Hs Hf HM H1 N1 R1) as [A1 B1].
  pose proof (any_order_correct p fuel edb M o2 env2 ans2 (no_aggb_spec p Ha) Hs Hf HM H2 N2 R2) as [A2 B2].
  rewrite Hl in *. split; eapply incl_tran; eauto.
Qed.

(* Join order never changes a rule's answers: two rules with the same head, the same non-join literals
   (comparisons, assignments, negations, in the same order) and the same positive atoms in ANY order
   have the same consequences on every database. This is the Datalog-level content of join planning
   (and of any pass that only reorders joins); proved via commutation of atom matching on valuations
   seen as finite maps.  All clauses, all databases; aggregates excluded. *)
Theorem C02_join_order_irrelevant :
  forall (d : db) (c c' : clause),
    chead c = chead c' -> cargs c = cargs c' -> has_agg c = false ->
    nonpos (cbody c) = nonpos (cbody c') ->
    Permutation (pos_atoms (cbody c)) (pos_atoms (cbody c')) ->
    incl (eval_clause d c) (eval_clause d c') /\ incl (eval_clause d c') (eval_clause d c).
Proof.
  intros d c c' Hh Ha Hg Hn Hp. exact (join_order_irrelevant d c c' Hh Ha Hg (conj Hn Hp)).
Qed.

Example C02_join_order_nonvacuous :
  let c  := {| chead := 99; cargs := [HVar 0; HVar 2];
               cbody := [LPos 0 [TVar 0; TVar 1]; LPos 1 [TVar 1; TVar 2]; LCmp OGt (TVar 2) (TConst (VI64 5)); LPos 2 [TVar 0]] |} in
  let c' := {| chead := 99; cargs := [HVar 0; HVar 2];
               cbody := [LPos 2 [TVar 0]; LCmp OGt (TVar 2) (TConst (VI64 5)); LPos 1 [TVar 1; TVar 2]; LPos 0 [TVar 0; TVar 1]] |} in
  let d := [ (0, [[VI64 1; VI64 1]; [VI64 2; VI64 1]]); (1, [[VI64 1; VI64 7]; [VI64 1; VI64 1]]); (2, [[VI64 1]]) ] in
  nonpos (cbody c) = nonpos (cbody c') /\ eval_clause d c = [[VI64 1; VI64 7]] /\ eval_clause d c' = [[VI64 1; VI64 7]].
Proof. vm_compute. split; [reflexivity|split; reflexivity]. Qed.

(* two different valid orders for a diamond-shaped program *)
Example C02_nonvacuous :
  let p := [ {| chead := 10; cargs := [HVar 0]; cbody := [LPos 2 [TVar 0]] |};
             {| chead := 11; cargs := [HVar 0]; cbody := [LPos 2 [TVar 0]; LCmp OGt (TVar 0) (TConst (VI64 0))] |};
             {| chead := 99; cargs := [HVar 0]; cbody := [LPos 10 [TVar 0]; LNeg 11 [TVar 0]] |} ] in
  order_okb p (heads p) [] [10; 11; 99] = true /\ order_okb p (heads p) [] [11; 10; 99] = true /\
  order_okb p (heads p) [] [99; 10; 11] = false.
Proof. vm_compute. repeat split. Qed.

Print Assumptions C02_any_dependency_order_partial.
Print Assumptions C02_join_order_irrelevant.
