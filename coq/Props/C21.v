(* C21 — Proof trees are valid derivations.
   Spec: Model/ProvDatalog.v `valid_proof` (root/step/leaf conditions of the property).
   Proofs: Proofs/ProvDatalog.v.

   How the property is carried: the implementation's proof trees (Handler `.why` and
   `build_proof_tree`) are not modelled step by step; every tree it returns is handed to
   the boolean checker `check_proof`, and the theorem below says that this checker accepts
   exactly the valid derivations — for every program, database, model and tree.  (Translation
   validation with a proved validator, DESIGN 3.3.)  Checks/C21.v runs it inside Coq. *)
From IL Require Import Model.Value Model.ProvDatalog Proofs.ProvDatalog Model.ProvWhyNot Proofs.ProvWhyNot Model.ProvChain Proofs.ProvChain.
Open Scope N_scope.

(* The checker is sound and complete for the specification, for all trees.
   lenient = false: strict derivations; lenient = true: Truncated nodes and Derived-source
   leaves are tolerated as holes whose conclusion must still be a fact of the model. *)
Theorem C21_checker_decides_valid_proof :
  forall (lenient : bool) (P : program) (edb M : db) (t : ptree),
    check_proof lenient P edb M t = true <-> valid_proof lenient P edb M t.
Proof. exact check_proof_iff. Qed.

(* what acceptance means at a rule step, spelled out: a real clause, bindings that make the
   head the conclusion, and a body that is exactly the children *)
Theorem C21_accepted_rule_step :
  forall lenient P edb M r tu ci th kids,
    check_proof lenient P edb M (PRule r tu ci th kids) = true ->
    exists c, nth_error P ci = Some c /\ arel (chead c) = r /\
              atom_tuple th (chead c) = Some tu /\ valid_body lenient P edb M th (cbody c) kids.
Proof.
  intros lenient P edb M r tu ci th kids H. apply check_proof_iff in H. inversion H; subst. eauto.
Qed.

(* The backward chainer (Model/ProvChain.v: build_proof_tree / build_node / prove_body /
   enumerate_derived_candidates / ProofTreeBuilder, fuel = call nesting, depth limit =
   max_depth) only returns valid derivations, for EVERY program, data, depth limit, proof cap
   and tuple of the model — in the contexts `.why` builds: the derived data is the model and
   has an entry for every derived relation.  Holes (Truncated nodes, Derived-source leaves)
   are allowed and their conclusions are facts of the model.  Induction on the fuel with the
   invariant that every node of the builder is locally valid. *)
Theorem C21_sound :
  forall (cx : cctx) (M d : db) (r : rel) (t : tuple) (tr : ptree),
    c_der cx = Some d ->
    data_is_model (c_base cx) (Some d) M ->
    (forall r, is_derived cx r = true -> has_key d r = true) ->
    (forall r, is_derived cx r = false -> rel_tuples d r = []) ->
    In t (rel_tuples M r) ->
    build_proof_tree cx r t = Some tr ->
    valid_proof true (c_prog cx) (c_base cx) M tr /\ concl tr = Some (r, t).
Proof. intros cx M d r t tr H1 H2 H3 H4. exact (build_proof_tree_sound cx M d H1 H2 H3 H4 r t tr). Qed.

(* Without derived data (library API only) the statement is false: a negated atom over a
   derived relation is checked against the stored facts alone.  r3(1) is an answer through
   the last clause, the chainer explains it through `!r2(1)` although r2(1) is derived. *)
Definition nd_P : program :=
  [mkClause (mkAtom 2 [TVar 0]) [LPos (mkAtom 1 [TVar 0])];
   mkClause (mkAtom 3 [TVar 0]) [LPos (mkAtom 0 [TVar 0]); LNeg (mkAtom 2 [TVar 0])];
   mkClause (mkAtom 3 [TVar 0]) [LPos (mkAtom 1 [TVar 0])]].
Definition nd_base : db := [(0, [[VI64 1]; [VI64 2]; [VI64 3]]); (1, [[VI64 1]])].
Theorem C21_refuted_without_derived_data :
  exists (cx : cctx) (M : db) (r : rel) (t : tuple) (tr : ptree),
    c_der cx = None /\ M = perfect 10 (c_prog cx) (c_base cx) (rel_seq 4) /\
    In t (rel_tuples M r) /\ build_proof_tree cx r t = Some tr /\
    ~ valid_proof true (c_prog cx) (c_base cx) M tr.
Proof.
  exists (mkCtx nd_P nd_base None 50 5), (perfect 10 nd_P nd_base (rel_seq 4)), 3, [VI64 1].
  eexists. split; [reflexivity|]. split; [reflexivity|]. split; [vm_compute; auto|].
  split; [vm_compute; reflexivity|].
  intros H. apply check_proof_iff in H. vm_compute in H. discriminate.
Qed.

Definition ctx_set_eq (M base d : db) : bool :=
  forallb (fun r => forallb (fun t => in_rel base r t || in_rel d r t) (rel_tuples M r) &&
                    forallb (fun t => in_rel M r t) (rel_tuples base r ++ rel_tuples d r)) (rel_seq 4).

(* the hypotheses are satisfiable on a non-trivial input: r1(V0) <- r0(V0), !r2(V0), V0 < 5
   with r0 = {1}, r2 = {} *)
Example C21_nonvacuous :
  let P := [mkClause (mkAtom 1 [TVar 0])
                     [LPos (mkAtom 0 [TVar 0]); LNeg (mkAtom 2 [TVar 0]); LCmp (TVar 0) CLt (TConst (VI64 5))]] in
  let edb := [(0, [[VI64 1]])] in
  let good := PRule 1 [VI64 1] 0 [(0, VI64 1)] [PFact false 0 [VI64 1]; PNeg 2 [PC (VI64 1)] [VI64 1]] in
  let bad := PRule 1 [VI64 2] 0 [(0, VI64 2)] [PFact false 0 [VI64 2]; PNeg 2 [PC (VI64 2)] [VI64 2]] in
  valid_proof false P edb edb good /\ ~ valid_proof false P edb edb bad.
Proof.
  cbn zeta. split.
  - apply check_proof_iff. vm_compute. reflexivity.
  - intros H. apply check_proof_iff in H. vm_compute in H. discriminate.
Qed.

(* non-vacuity of C21_sound: same program WITH the model as derived data; the chainer now
   explains r3(1) through the last clause *)
Example C21_sound_nonvacuous :
  let M := perfect 10 nd_P nd_base (rel_seq 4) in
  let d := [(2, [[VI64 1]]); (3, [[VI64 1]; [VI64 2]; [VI64 3]])] in
  let cx := mkCtx nd_P nd_base (Some d) 50 5 in
  (forall r, is_derived cx r = true -> has_key d r = true) /\
  build_proof_tree cx 3 [VI64 1] = Some (PRule 3 [VI64 1] 2 [(0, VI64 1)] [PFact false 1 [VI64 1]]) /\
  ctx_set_eq M nd_base d = true.
Proof.
  cbn zeta. split.
  { intros r H. change (N.eqb 2 r || (N.eqb 3 r || (N.eqb 3 r || false)) = true) in H.
    destruct (N.eqb 2 r) eqn:E2; [apply N.eqb_eq in E2; subst; reflexivity|].
    destruct (N.eqb 3 r) eqn:E3; [apply N.eqb_eq in E3; subst; reflexivity|]. cbn in H. discriminate. }
  split; [vm_compute; reflexivity|]. vm_compute. reflexivity.
Qed.

Print Assumptions C21_checker_decides_valid_proof.
Print Assumptions C21_accepted_rule_step.
Print Assumptions C21_sound.
Print Assumptions C21_refuted_without_derived_data.
