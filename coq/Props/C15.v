(* C15 — Concurrent writes are serializable and durable.
   Model: Model/Conc.v + Model/ConcPersist.v (StorageEngine::insert_tuples_into / delete_tuples_from /
   save_knowledge_graph / compact_all; FilePersist::append / flush / compact; PersistWal; recovery by
   WAL replay + replay_to_current).  Proofs: Proofs/Conc.v, Proofs/ConcPersist.v.

   FULL STATEMENT (kept visible; it is FALSE for the code, see the refutations below):
     forall programs schedule, after the schedule
       (1) the served state is the result of applying the acknowledged data operations in a serial
           order consistent with each client's program order, and
       (2) at every point, recovering from the disk yields the state of a serial order that
           contains every acknowledged operation, and once all clients have returned the
           recovered state equals the served state.
   The flag of the model: `true` = with this property's `fix:` commit (FilePersist::append keeps the
   shard map lock from the WAL append to the buffer push), `false` = the pinned tree.

   What is proved for `true`, for ALL programs, buffer sizes and schedules:
     C15_served_serial            (1) in full: served = fold of the applied operations;
     C15_durable_updates_partial  every update of every acknowledged operation is on disk (WAL or
                                  batch) at every point of every schedule — crash anywhere;
   `_partial` because (2) also needs "the recovered STATE is the serial state", which does not
   hold: recovery lets the update with the highest logical time win, the time is drawn BEFORE the
   update is logged and applied under another lock, so two operations on one tuple can be applied
   in the opposite order of their times (C15_refuted_time_order and C15_refuted_acked_delete_lost —
   an acknowledged delete comes back after a restart —, also with the fix; known finding,
   class 2 of the checker: executions in which the model's `inverted` flag is raised).
   C15_refuted_append_window: on the pinned tree even the update-level durability fails (class 1,
   repaired).  Both refutations were replayed on the real code (crash = copy of the data directory
   reopened with StorageEngine::new).

   Schedule property, partial by nature: atomic sections = spans between sched_point hooks, each a
   lock-free span or one lock scope; no interleavings inside a lock scope, no weak memory, no
   torn writes (those are C13), parking_lot / DashMap assumed correct. *)
From IL Require Import Model.Conc Model.ConcPersist Proofs.Conc Proofs.ConcPersist.
Open Scope N_scope.

Theorem C15_served_serial :
  forall (bsz : nat) (progs : list (list pop)) (sched : list nat),
    let g := snd (run_sched (pstep true bsz) sched (map pinit_l progs) pinit_g) in
    liveP g = pstate_after (applied g).
Proof. exact served_is_serial. Qed.

Theorem C15_durable_updates_partial :
  forall (bsz : nat) (progs : list (list pop)) (sched : list nat) (u : wupd),
    let g := snd (run_sched (pstep true bsz) sched (map pinit_l progs) pinit_g) in
    In u (acked_upds g) -> In u (disk g).
Proof. exact acked_updates_durable. Qed.

(* the invariant behind both, at every point of every schedule: every WAL line is in its shard's
   buffer; everything ever logged is in the WAL or a batch; acknowledged updates were logged *)
Theorem C15_persist_invariant :
  forall (bsz : nat) (progs : list (list pop)) (sched : list nat),
    let g := snd (run_sched (pstep true bsz) sched (map pinit_l progs) pinit_g) in
    (forall u, In u (wal g) -> In u (bufs g)) /\
    (forall u, In u (persisted g) -> In u (wal g) \/ In u (batches g)) /\
    incl (acked_upds g) (persisted g).
Proof.
  intros bsz progs sched. cbn zeta.
  destruct (persist_invariant bsz progs sched) as [(J1 & J2 & J3 & _) _]. auto.
Qed.

(* ---- refutations *)
(* pinned tree, buffer_size 2: T0 logs insert [1] and is parked before the buffer push; T1's
   append fills the buffer and flushes the shard: the WAL rewrite drops T0's line; both inserts
   are acknowledged; the disk no longer holds T0's update and recovery loses tuple 1 *)
Theorem C15_refuted_append_window :
  exists (bsz : nat) (progs : list (list pop)) (sched : list nat) (u : wupd),
    let g := snd (run_sched (pstep false bsz) sched (map pinit_l progs) pinit_g) in
    In u (acked_upds g) /\ ~ In u (disk g) /\
    existsb (pfact_eqb (0, 1)) (liveP g) = true /\ existsb (pfact_eqb (0, 1)) (recover (disk g)) = false.
Proof.
  exists 2%nat, [[PIns 1 0 [1]]; [PIns 2 0 [2; 3]]], [1; 1; 0; 0; 1; 1; 1; 0; 0; 1; 0]%nat,
         (mkUpd 0 1 2 true 1 0).
  vm_compute. split; [|split; [|split]]; auto.
  intros H. repeat (destruct H as [H|H]; [discriminate H|]). exact H.
Qed.

(* with the fix: insert x draws time 1, delete x draws time 2, the delete is applied first (a
   no-op), then the insert: x is served, but recovery lets time 2 win and x is gone *)
Theorem C15_refuted_time_order :
  exists (progs : list (list pop)) (sched : list nat),
    let g := snd (run_sched (pstep true 0) sched (map pinit_l progs) pinit_g) in
    Forall (fun l => ptodo l = []) (fst (run_sched (pstep true 0) sched (map pinit_l progs) pinit_g)) /\
    liveP g = [(0, 5)] /\ recover (disk g) = [] /\ inverted g = true.
Proof.
  exists [[PIns 1 0 [5]]; [PDel 2 0 [5]]], [0; 0; 0; 1; 1; 1; 1; 0]%nat.
  vm_compute. split; [repeat constructor | auto].
Qed.

(* the same race in the other direction loses an ACKNOWLEDGED DELETE: the delete of 101 draws time
   2 and is logged, the insert of [100;101] draws time 3, is logged and applied, then the delete
   is applied: it finds 101 (it reports 1 deleted tuple, i.e. the serial order insert;delete) and
   101 is not served any more; recovery lets time 3 win and 101 is back after a restart *)
Theorem C15_refuted_acked_delete_lost :
  exists (progs : list (list pop)) (sched : list nat),
    let r := run_sched (pstep true 0) sched (map pinit_l progs) pinit_g in
    Forall (fun l => ptodo l = []) (fst r) /\
    In (2, PRDel 1) (concat (map presults (fst r))) /\
    existsb (pfact_eqb (0, 101)) (liveP (snd r)) = false /\
    existsb (pfact_eqb (0, 101)) (recover (disk (snd r))) = true /\
    inverted (snd r) = true.
Proof.
  exists [[PIns 1 0 [102]; PDel 2 0 [101]]; [PIns 3 0 [100; 101]]],
         [0; 0; 0; 0; 0; 0; 1; 1; 1; 1; 0; 0]%nat.
  vm_compute. split; [repeat constructor | split; [right; left; reflexivity | auto]].
Qed.

(* non-vacuity: the same programs and schedule as C15_refuted_append_window with the fix: both
   acknowledged updates are on disk and recovery serves all three tuples *)
Example C15_nonvacuous :
  let g := snd (run_sched (pstep true 2) [1; 1; 0; 0; 1; 1; 1; 0; 0; 1; 0]%nat
                          (map pinit_l [[PIns 1 0 [1]]; [PIns 2 0 [2; 3]]]) pinit_g) in
  length (acked_upds g) = 3%nat /\ forallb (fun u => mem_upd u (disk g)) (acked_upds g) = true /\
  same_pfacts (recover (disk g)) (liveP g) = true /\ windowed g = false.
Proof. vm_compute. repeat split. Qed.

Print Assumptions C15_served_serial.
Print Assumptions C15_durable_updates_partial.
Print Assumptions C15_persist_invariant.
Print Assumptions C15_refuted_append_window.
Print Assumptions C15_refuted_time_order.
Print Assumptions C15_refuted_acked_delete_lost.
