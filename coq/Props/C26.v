(* C26 — Vector and temporal builtins obey their laws.
   Model: Model/VecOps.v (src/vector_ops.rs: lsh_probes; get_or_create_hyperplanes / clear_lsh_cache /
   configure_lsh_cache_size; euclidean / manhattan / dot / hamming distances; quantize_vector_linear, quantize_vector_symmetric).
   Proofs: Proofs/VecProbes.v, Proofs/VecOps.v.
   The property is four statements; (a) and (b) are proved in full for the model, (c) and (d) are
   `_partial` (what is missing is said at each theorem).  The property text has no temporal clause
   (src/temporal_ops.rs is an anchor only through the title); nothing is claimed about it. *)
From IL Require Import Model.VecOps Proofs.VecProbes Proofs.VecOps.
Open Scope Z_scope.

(* ---------------------------------------------------------------- (a) probe sequences
   For EVERY bucket (any integer, negative ones included), every num_hyperplanes and every
   num_probes: the sequence starts at the bucket (when non-empty), has no duplicates, is
   non-decreasing in Hamming distance from the bucket (64-bit count_ones of the xor) and has at most
   num_probes elements.  Proof: the 63 possible mask lists (num_hyperplanes.min(62) bits) are checked
   by a verified checker inside Coq (sort + strictly increasing => NoDup; popcounts non-decreasing),
   and xor with the bucket is injective and preserves the Hamming weight of the mask. *)
Theorem C26_probes :
  forall (bucket : Z) (num_hyperplanes num_probes : N),
    let l := lsh_probes bucket num_hyperplanes num_probes in
    (num_probes <> 0%N -> hd_error l = Some bucket) /\
    NoDup l /\
    nondec_nat (map (hamming64 bucket) l) = true /\
    (List.length l <= N.to_nat num_probes)%nat.
Proof. exact probes_laws. Qed.

(* ---------------------------------------------------------------- (b) buckets do not depend on the cache
   `generate` (generate_hyperplanes) is an arbitrary pure function of the key: that purity is the
   recorded assumption.  The cache is a list of entries with LRU eviction; the atomic sections are
   the read-locked lookup, the write-locked insert (double check, eviction, generation), clear and
   resize.  A schedule is ANY sequence of sections issued by any number of threads. *)
Section C26b.
  Variable P : Type.
  Variable generate : key -> P.

  (* every planes value handed out under any schedule, from any state satisfying the invariant
     (the empty cache does), is generate(key) *)
  Theorem C26_cache_any_schedule :
    forall (c : cache P) (ss : list cstep),
      cache_inv P generate c ->
      cache_inv P generate (fst (run_steps P generate c ss)) /\
      forall s p, In (s, Some p) (snd (run_steps P generate c ss)) ->
        match s with CRead k | CWrite k => p = generate k | _ => False end.
  Proof. intros c ss H. exact (schedule_sound P generate ss c H). Qed.

  (* hence lsh_bucket(v, table, num_hyperplanes) = compute(v, generate(table, min(nh,62), len v))
     whatever other threads did before and between the two sections of get_or_create_hyperplanes:
     a function of the vector, the table and the hyperplane count only *)
  Theorem C26_bucket_independent_of_cache :
    forall (compute : list Z -> P -> Z) (c : cache P) (pre mid : list cstep)
           (v : list Z) (table : Z) (num_hyperplanes : N),
      cache_inv P generate c ->
      let k := (table, N.min num_hyperplanes 62, N.of_nat (List.length v)) in
      option_map (compute v) (get_or_create P generate c pre mid k) = Some (compute v (generate k)).
  Proof.
    intros compute c pre mid v table nh H k. rewrite (get_or_create_pure P generate c pre mid k H). reflexivity.
  Qed.
End C26b.

(* ---------------------------------------------------------------- (c) distance laws
   PARTIAL.  Proved for all vectors of finite components over an abstract float type whose
   operations satisfy the listed IEEE-754 facts (sign symmetry of correctly rounded subtraction
   under squaring / abs, commutativity of multiplication, x - x = +0, sums / square roots / widening
   of non-negative values are non-negative, ...).  Missing: these facts are not discharged against
   Flocq's binary32 / binary64 (they are standard, and are validated on bit patterns on every run);
   the cosine distance is not covered here at all (its laws, range [0,2] included, are checked by
   the per-run oracle only, after the repair of its overflow / self-distance defects). *)
Section C26c.
  Variable F : Type.
  Variable finit pzero : F.
  Variable fadd fsub fmul : F -> F -> F.
  Variable fabs fsqrt widen : F -> F.
  Variable fin nn isz : F -> Prop.
  Variable sq_sym : forall a b, fin a -> fin b -> sq_diff F fsub fmul a b = sq_diff F fsub fmul b a.
  Variable abs_sym : forall a b, fin a -> fin b -> fabs (widen (fsub a b)) = fabs (widen (fsub b a)).
  Variable mul_comm : forall a b, fin a -> fin b -> fmul (widen a) (widen b) = fmul (widen b) (widen a).
  Variable nn_init : nn finit.
  Variable nn_add : forall a b, nn a -> nn b -> nn (fadd a b).
  Variable nn_sq : forall a b, fin a -> fin b -> nn (sq_diff F fsub fmul a b).
  Variable nn_abs : forall a b, fin a -> fin b -> nn (fabs (widen (fsub a b))).
  Variable nn_widen : forall a, nn a -> nn (widen a).
  Variable nn_sqrt : forall a, nn a -> nn (fsqrt a).
  Variable isz_init : isz finit.
  Variable isz_add : forall a b, isz a -> isz b -> isz (fadd a b).
  Variable isz_sq : forall a, fin a -> isz (sq_diff F fsub fmul a a).
  Variable isz_abs : forall a, fin a -> isz (fabs (widen (fsub a a))).
  Variable isz_widen : forall a, isz a -> isz (widen a).
  Variable isz_sqrt : forall a, isz a -> isz (fsqrt a).

  Theorem C26_distance_laws_partial :
    forall a b : list F, Forall fin a -> Forall fin b ->
      (* symmetric, as values bit for bit *)
      euclid F finit fadd fsub fmul fsqrt widen a b = euclid F finit fadd fsub fmul fsqrt widen b a /\
      euclid_sq F finit fadd fsub fmul widen a b = euclid_sq F finit fadd fsub fmul widen b a /\
      manhattan F finit fadd fsub fabs widen a b = manhattan F finit fadd fsub fabs widen b a /\
      dotp F finit fadd fmul widen a b = dotp F finit fadd fmul widen b a /\
      (* non-negative *)
      nn (euclid F finit fadd fsub fmul fsqrt widen a b) /\
      nn (manhattan F finit fadd fsub fabs widen a b) /\
      (* zero on identical inputs *)
      isz (euclid F finit fadd fsub fmul fsqrt widen a a) /\
      isz (manhattan F finit fadd fsub fabs widen a a).
  Proof.
    intros a b Ha Hb. repeat split.
    - apply (euclid_sym F finit fadd fsub fmul fsqrt widen fin sq_sym a b Ha Hb).
    - apply (euclid_sq_sym F finit fadd fsub fmul widen fin sq_sym a b Ha Hb).
    - apply (manhattan_sym F finit fadd fsub fabs widen fin abs_sym a b Ha Hb).
    - apply (dotp_sym F finit fadd fmul widen fin mul_comm a b Ha Hb).
    - apply (euclid_nn F finit fadd fsub fmul fsqrt widen fin nn nn_init nn_add nn_sq nn_widen nn_sqrt a b Ha Hb).
    - apply (manhattan_nn F finit fadd fsub fabs widen fin nn nn_init nn_add nn_abs a b Ha Hb).
    - apply (euclid_self F finit fadd fsub fmul fsqrt widen fin isz isz_init isz_add isz_sq isz_widen isz_sqrt a Ha).
    - apply (manhattan_self F finit fadd fsub fabs widen fin isz isz_init isz_add isz_abs a Ha).
  Qed.
End C26c.

(* hamming_distance on i64: symmetric and zero on identical inputs, for all integers (full) *)
Theorem C26_hamming_laws :
  forall a b : Z, hamming64 a b = hamming64 b a /\ hamming64 a a = 0%nat.
Proof. intros a b. split; [apply hamming_sym | apply hamming_self]. Qed.

(* ---------------------------------------------------------------- (d) quantisation error
   PARTIAL.  In exact arithmetic (components as integers over a common unit, round half away from
   zero): symmetric quantisation reconstructs every component within one step max_abs/127 (in fact
   half a step), linear quantisation within one step range/255; the codes stay in the int8 ranges.
   Missing: the f32 rounding of x * scale and of (x - min) / range * 255 - 128 (at most a few 2^-24
   relative, far below the half step of slack); validated on bit patterns on every run. *)
Theorem C26_quantization_error_partial :
  forall (v : list Z) (x : Z), In x v ->
    (0 < max_abs v ->
       let q := clampZ (-127) 127 (round_div (x * 127) (max_abs v)) in
       -127 <= q <= 127 /\ Z.abs (q * max_abs v - 127 * x) <= max_abs v) /\
    (let lo := min_of v in let range := max_of v - lo in 0 < range ->
       let q := clampZ (-128) 127 (round_div ((x - lo) * 255 - 128 * range) range) in
       -128 <= q <= 127 /\ Z.abs ((q + 128) * range - 255 * (x - lo)) <= range).
Proof. intros v x Hin. split; [apply quant_sym_error, Hin | apply quant_lin_error, Hin]. Qed.

(* ---------------------------------------------------------------- non-vacuity *)
(* (a) a concrete probe sequence, (b) a schedule with an eviction and a clear between the two sections
   of a lookup, (c) the float interface is satisfiable (exact integer arithmetic), (d) concrete codes *)
Example C26_nonvacuous :
  lsh_probes 53 8 5 = [53; 52; 55; 49; 61] /\
  lsh_probes (-1) 70 3 = [-1; -2; -3] /\
  (let gen := fun k : key => let '(t, h, d) := k in t + Z.of_N h + Z.of_N d in
   let c := fst (run_steps Z gen (empty_cache Z 1%N) [CWrite (1, 2%N, 3%N)]) in
   cache_inv Z gen c /\
   get_or_create Z gen c [CWrite (5, 5%N, 5%N)] [CClear; CResize 0%N; CWrite (7, 7%N, 7%N)] (1, 2%N, 3%N) = Some 6) /\
  (forall a b : Z, sq_diff Z Z.sub Z.mul a b = sq_diff Z Z.sub Z.mul b a) /\
  euclid Z 0 Z.add Z.sub Z.mul Z.sqrt (fun x => x) [1; 5; -2] [4; 1; -2] = 5 /\
  quant_sym [-4; 0; 1; 4] = [-127; 0; 32; 127] /\ quant_lin [0; 1; 2] = [-128; -1; 127].
Proof.
  repeat split; try (vm_compute; reflexivity).
  - vm_compute. repeat constructor.
  - intros a b. apply Zinstance_sq_sym.
Qed.

Print Assumptions C26_probes.
Print Assumptions C26_cache_any_schedule.
Print Assumptions C26_bucket_independent_of_cache.
Print Assumptions C26_distance_laws_partial.
Print Assumptions C26_hamming_laws.
Print Assumptions C26_quantization_error_partial.
