(* C12 — Every stored value survives restart unchanged.
   Model: Model/StoreCodec.v (batch column typing and coercion, typed-JSON WAL lines, the restart
   pipeline) on the physical layout of Model/StorePersist.v.  Proofs: Proofs/StoreCodec.v.

   Full statement of the property:
     forall buffer h, let s := prun (cfg buffer) h in
       reopens (f_p s) = true /\ recovered (f_p s) == f_live s        (values AND value types)
   It is FALSE on the code as it is; the batch schema is inferred from the first update of each
   batch and values are coerced into it, and JSON has no non-finite numbers.  Five known finding
   classes (c12_class, Model/StoreCodec.v), each refuted below by a witness that is replayed on the
   real engine on every run:
     1 heterogeneous column -> Null / zero vector      2 integers widened, narrowed or floated
     3 Timestamp -> Int64                              4 non-finite float dropped from the WAL
     5 Null-first batch: the store does not reopen.
   A sixth failure (vectors of different lengths in one column made the store unopenable) was
   repaired by a `fix:` commit; the model is the repaired code. *)
From IL Require Import Model.Value Proofs.ValueEq Model.Store Proofs.Store Model.StorePersist
  Proofs.StorePersist Model.StoreCodec Proofs.StoreCodec.
Open Scope N_scope.

(* Batch files: a batch in which every tuple has, column by column, the constructor of the first
   tuple — ints of either width, floats (any bit pattern, incl. NaN and -0.0), strings, booleans,
   float / int8 vectors of ANY lengths — and no Null / Timestamp column, is read back identically. *)
Theorem C12_batch_roundtrip :
  forall b : list update, homogeneous b = true -> roundtrip_batch b = b /\ batch_unwritable b = false.
Proof. intros b H. split; [apply roundtrip_homogeneous | apply homogeneous_writable]; exact H. Qed.

(* WAL: entries without non-finite floats parse back identically, every value kind included. *)
Theorem C12_wal_roundtrip :
  forall w : list update, wal_finite w = true -> wal_roundtrip w = w.
Proof. exact wal_roundtrip_finite. Qed.

(* (The hypothesis `good_store` below is the readable form of "outside every known class": it implies
   c12_class = 0; the checker uses the decidable c12_class itself, which is slightly wider — e.g. an
   Int64 written into a Timestamp-typed column also survives — and that margin is covered by the
   per-run check only, not by this theorem.) *)
(* Restart: for every buffer size and every history of inserts, deletes, saves and compactions,
   if every batch file and the WAL tail are homogeneous and finite, the store reopens and the
   recovered relation is exactly — values and value types — the relation that was being served. *)
Theorem C12_restart_values :
  forall (c : pcfg) (h : list pop) (t : tuple),
    dur c = DImmediate ->
    let s := prun c h in
    good_store (f_p s) = true ->
    reopens (f_p s) = true /\ (In t (recovered (f_p s)) <-> In t (f_live s)).
Proof.
  intros c h t D s G.
  assert (K : Forall (ok_op c) h) by (apply Forall_forall; intros o _; unfold ok_op; rewrite D; exact I).
  assert (C : clean c h = true) by (unfold clean; rewrite D; reflexivity).
  pose proof (prun_PInv c h K) as P. unfold PInv in P. rewrite D in P.
  destruct (restart_log_good (f_p s) P G) as [R L]. split; [exact R|].
  unfold recovered. rewrite L.
  pose proof (prun_refines c h C) as Rf.
  pose proof (proj1 (restart_reproduces_live (map abs_op h)) t) as H. rewrite <- Rf in H. exact H.
Qed.

(* ---- the five known classes, each with a witness (buffer size, history) *)
Definition fails (buffer : N) (h : list pop) : bool :=
  let s := prun (mkCfg buffer 0 DImmediate) h in
  negb (reopens (f_p s) && set_eqb (recovered (f_p s)) (f_live s)).

Theorem C12_refuted_heterogeneous_column :     (* String after Int64 in one batch -> Null *)
  exists buffer h, fails buffer h = true /\ c12_class (f_p (prun (mkCfg buffer 0 DImmediate) h)) = 1.
Proof. exists 10000, [PIns [[VI64 7]]; PIns [[VStr [97]]]]. vm_compute. auto. Qed.

Theorem C12_refuted_int_widened :              (* Int32 in an Int64 column comes back as Int64 *)
  exists buffer h, fails buffer h = true /\ c12_class (f_p (prun (mkCfg buffer 0 DImmediate) h)) = 2.
Proof. exists 10000, [PIns [[VI64 7]]; PIns [[VI32 3]]]. vm_compute. auto. Qed.

Theorem C12_refuted_timestamp :                (* a Timestamp column is an Int64 array on disk *)
  exists buffer h, fails buffer h = true /\ c12_class (f_p (prun (mkCfg buffer 0 DImmediate) h)) = 3.
Proof. exists 1, [PIns [[VTs 1700000000000]]]. vm_compute. auto. Qed.

Theorem C12_refuted_nan_in_wal :               (* NaN has no JSON form: the WAL entry is skipped *)
  exists buffer h, fails buffer h = true /\ c12_class (f_p (prun (mkCfg buffer 0 DImmediate) h)) = 4.
Proof. exists 10000, [PIns [[VF64 0x7FF8000000000000]]]. vm_compute. auto. Qed.

Theorem C12_refuted_null_first :               (* a batch whose first tuple holds Null cannot be written *)
  exists buffer h, fails buffer h = true /\ c12_class (f_p (prun (mkCfg buffer 0 DImmediate) h)) = 5.
Proof. exists 10000, [PIns [[VNull]]]. vm_compute. auto. Qed.

(* the classes are tight where it matters: the same values survive when the history avoids the class *)
Example C12_nonvacuous :
  let h := [PIns [[VI64 7; VF64 0x7FF8000000000000; VVec [0x3F800000]]];
            PIns [[VI64 (-5); VF64 0x8000000000000000; VVec [0x3F800000; 0x40000000; 0x40400000]]];
            PSave; PIns [[VI64 9; VF64 0x3FF8000000000000; VVec []]]] in
  let s := prun (mkCfg 2 0 DImmediate) h in
  good_store (f_p s) = true /\ fails 2 h = false /\ length (f_live s) = 3%nat /\
  c12_class (f_p s) = 0.
Proof. vm_compute. auto. Qed.

Print Assumptions C12_batch_roundtrip.
Print Assumptions C12_wal_roundtrip.
Print Assumptions C12_restart_values.
Print Assumptions C12_refuted_heterogeneous_column.
Print Assumptions C12_refuted_int_widened.
Print Assumptions C12_refuted_timestamp.
Print Assumptions C12_refuted_nan_in_wal.
Print Assumptions C12_refuted_null_first.
