(* C04 — Answers are independent of clause order and engine history. Model: Model/Datalog.v. *)
From IL Require Import Model.Value Model.Datalog Proofs.DatalogMono Proofs.DatalogMisc Proofs.DatalogEngine Proofs.DatalogPerm Proofs.DatalogKahn.
From Coq Require Import Permutation.
Open Scope N_scope.

(* The immediate-consequence operator of every head depends only on the SET of clauses:
   reordering clauses or repeating a clause does not change it (all programs, all databases). *)
Theorem C04_consequences_perm :
  forall p p' d h, Permutation p p' ->
    incl (apply_head p d h) (apply_head p' d h) /\ incl (apply_head p' d h) (apply_head p d h).
Proof. exact apply_head_perm. Qed.

Theorem C04_consequences_dup :
  forall p c d h, In c p ->
    incl (apply_head (c :: p) d h) (apply_head p d h) /\ incl (apply_head p d h) (apply_head (c :: p) d h).
Proof. exact apply_head_dup. Qed.

(* Executing a query never changes a stored relation: the engine run only binds head relations. *)
Theorem C04_base_facts_unchanged :
  forall fuel p o env l0 env' ans,
    run_nodes fuel p o env l0 = Some (env', ans) ->
    forall r, ~ In r o -> get env' r = get env r.
Proof. exact run_nodes_base. Qed.

(* FULL statement for clause order and repetition: two programs with the same clause SET (any order, any
   repetition of clauses) have the same perfect model on every relation, and the engine strategy returns
   the same answer for both — for every EDB and fuel, under C01's decidable hypotheses (aggregate-free,
   stratified, derived relations without stored facts, dependency-respecting execution order). Proved by
   leastness of both models along the dependency order (Proofs/DatalogPerm.v). *)
Theorem C04_clause_order_and_repetition :
  forall fuel p p' edb M M' ans ans',
    (forall c, In c p <-> In c p') ->
    no_aggb p = true -> stratified p = true -> stratified p' = true -> heads_fresh p edb = true ->
    order_ok p = true -> order_ok p' = true ->
    perfect_model fuel p edb = Some M -> perfect_model fuel p' edb = Some M' ->
    eval_engine fuel p edb = Some ans -> eval_engine fuel p' edb = Some ans' ->
    topo_order p <> [] -> topo_order p' <> [] -> engine_query p = engine_query p' ->
    (forall r, seq (get M r) (get M' r)) /\ seq ans ans'.
Proof.
  intros fuel p p' edb M M' ans ans' Hs Ha S1 S2 Hf O1 O2 HM HM' He He' N1 N2 Hq.
  pose proof (no_aggb_spec p Ha) as Ha1.
  pose proof (perfect_model_same_clauses p p' fuel edb Hs Ha1 S1 S2 Hf M M' HM HM' O1) as Hall.
  split; [exact Hall|].
  pose proof (engine_correct p fuel edb Ha1 S1 Hf M HM ans O1 He N1) as C1.
  pose proof (engine_correct p' fuel edb (same_no_agg p p' Hs Ha1) S2 (same_fresh p p' edb Hs Hf) M' HM' ans' O2 He' N2) as C2.
  rewrite <- Hq in C2.
  eapply seq_trans; [exact C1|]. eapply seq_trans; [apply Hall|]. apply seq_sym, C2.
Qed.

(* The same with the execution-order hypotheses discharged (Proofs/DatalogKahn.v): it is enough that one
   rank function decreases along the head dependencies of both programs (acyclic apart from self-loops)
   and that the last head of each is not used by another head. *)
Theorem C04_clause_order_and_repetition_acyclic :
  forall fuel p p' edb M M' ans ans' (rank : rel -> nat),
    (forall c, In c p <-> In c p') ->
    no_aggb p = true -> stratified p = true -> stratified p' = true -> heads_fresh p edb = true ->
    (forall h g, In h (heads p) -> In g (deps p (heads p) h) -> (rank g < rank h)%nat) ->
    (forall h, In h (heads p) -> ~ In (last (heads p) 0) (deps p (heads p) h)) ->
    (forall h g, In h (heads p') -> In g (deps p' (heads p') h) -> (rank g < rank h)%nat) ->
    (forall h, In h (heads p') -> ~ In (last (heads p') 0) (deps p' (heads p') h)) ->
    perfect_model fuel p edb = Some M -> perfect_model fuel p' edb = Some M' ->
    eval_engine fuel p edb = Some ans -> eval_engine fuel p' edb = Some ans' ->
    topo_order p <> [] -> topo_order p' <> [] -> engine_query p = engine_query p' ->
    (forall r, seq (get M r) (get M' r)) /\ seq ans ans'.
Proof.
  intros fuel p p' edb M M' ans ans' rank Hs Ha S1 S2 Hf R1 B1 R2 B2.
  exact (C04_clause_order_and_repetition fuel p p' edb M M' ans ans' Hs Ha S1 S2 Hf
           (acyclic_order_ok p rank R1 B1) (acyclic_order_ok p' rank R2 B2)).
Qed.

(* Two programs with the same clause set, both inside C01's hypotheses, answer with the query relation
   of their perfect models (corollary of C01; superseded by C04_clause_order_and_repetition above,
   kept because it does not need `stratified p'` to be related to p). *)
Theorem C04_perm_partial :
  forall fuel p p' edb M M' ans ans',
    Permutation p p' ->
    no_aggb p = true -> stratified p = true -> heads_fresh p edb = true -> order_ok p = true ->
    no_aggb p' = true -> stratified p' = true -> heads_fresh p' edb = true -> order_ok p' = true ->
    perfect_model fuel p edb = Some M -> perfect_model fuel p' edb = Some M' ->
    eval_engine fuel p edb = Some ans -> eval_engine fuel p' edb = Some ans' ->
    topo_order p <> [] -> topo_order p' <> [] ->
    seq ans (get M (engine_query p)) /\ seq ans' (get M' (engine_query p')).
Proof.
  intros fuel p p' edb M M' ans ans' _ A1 S1 F1 O1 A2 S2 F2 O2 HM HM' He He' N1 N2. split.
  - exact (engine_correct p fuel edb (no_aggb_spec p A1) S1 F1 M HM ans O1 He N1).
  - exact (engine_correct p' fuel edb (no_aggb_spec p' A2) S2 F2 M' HM' ans' O2 He' N2).
Qed.

Print Assumptions C04_consequences_perm.
Print Assumptions C04_consequences_dup.
Print Assumptions C04_base_facts_unchanged.
Print Assumptions C04_perm_partial.
Print Assumptions C04_clause_order_and_repetition.
Print Assumptions C04_clause_order_and_repetition_acyclic.
