(* C11 — Restart reproduces the live state.
   Model: Model/Store.v (StorageEngine::insert_tuples_into / delete_tuples_from,
   KnowledgeGraph::insert_in_memory / delete_in_memory, FilePersist log, consolidate,
   load_knowledge_graph_from_persist + replay_to_current).  Proofs: Proofs/Store.v.

   History of this property.  On the pinned tree recovery was `consolidate_to_current` + `to_tuples`
   (sum ALL diffs of a tuple, keep the positive ones) although the log records +1/-1 for every
   REQUESTED tuple while memory has set semantics; the statement below was false for that recovery
   (theorems C11_sum_recovery_refuted_dup_insert and C11_sum_recovery_refuted_absent_delete).  The repair (`fix:` commit in /repo) replays the log with set
   semantics — the updates of a tuple's latest logical time decide — and for that recovery the full
   statement holds for every history. *)
From IL Require Import Model.Value Model.Store Proofs.Store.
Open Scope N_scope.

(* After ANY history of inserts (incl. re-inserting present tuples and in-batch duplicates),
   deletes (incl. deleting absent tuples), rejected operations, saves, compactions and restarts —
   of any length, over any tuples — what a clean restart rebuilds from the persisted log is, as a
   set, exactly the relation the running engine is serving; and both are duplicate-free. *)
Theorem C11_restart :
  forall h : list op,
    let s := run h in
    (forall t, In t (recover (log s)) <-> In t (live s)) /\
    NoDup (recover (log s)) /\ NoDup (live s).
Proof. exact restart_reproduces_live. Qed.

(* the same, as a statement about the restart step itself *)
Theorem C11_restart_step :
  forall (h : list op) (t : tuple),
    In t (live (fst (step (run h) ORestart))) <-> In t (live (run h)).
Proof. intros h t. cbn [step fst step_restart live]. apply (proj1 (restart_reproduces_live h)). Qed.

(* compaction never changes what a restart would rebuild (for reachable states) *)
Theorem C11_compaction_preserves_recovery :
  forall (h : list op) (t : tuple),
    In t (recover (consolidate (log (run h)))) <-> In t (recover (log (run h))).
Proof.
  intros h t. rewrite !recover_In, present_consolidate; [tauto|].
  apply (inv_coh _ (run_Inv h)).
Qed.

(* The recovery of the pinned tree (sum of all diffs) did NOT satisfy the statement: *)
Definition x0 : tuple := [VI64 1].
Theorem C11_sum_recovery_refuted_dup_insert :
  exists h, ~ (forall t, In t (recover_sum (log (run h))) <-> In t (live (run h))).
Proof.
  exists [OIns [x0]; OIns [x0]; ODel [x0]]. intros H. specialize (H x0). vm_compute in H.
  destruct H as [H _]. apply H. left. reflexivity.
Qed.
Theorem C11_sum_recovery_refuted_absent_delete :
  exists h, ~ (forall t, In t (recover_sum (log (run h))) <-> In t (live (run h))).
Proof.
  exists [ODel [x0]; OIns [x0]]. intros H. specialize (H x0). vm_compute in H.
  destruct H as [_ H]. apply H. left. reflexivity.
Qed.

(* non-vacuity: a history with a duplicate insert, an in-batch duplicate, an absent delete, a
   rejected insert, a compaction and a restart; the relation is non-empty at the end *)
Example C11_nonvacuous :
  let h := [ODel [[VI64 2]]; OIns [x0; x0; [VI64 2]]; OIns [x0]; OIns [[VI64 1; VI64 1]];
            OCompact; ODel [x0]; ORestart; OIns [[VI64 3]]] in
  live (run h) = [[VI64 2]; [VI64 3]] /\ recover (log (run h)) = [[VI64 2]; [VI64 3]] /\
  recover_sum (log (run h)) = [[VI64 1]; [VI64 3]].
Proof. vm_compute. repeat split. Qed.

Print Assumptions C11_restart.
Print Assumptions C11_restart_step.
Print Assumptions C11_compaction_preserves_recovery.
Print Assumptions C11_sum_recovery_refuted_dup_insert.
Print Assumptions C11_sum_recovery_refuted_absent_delete.
