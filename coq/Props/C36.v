(* C36 — Probabilistic and hash indexes never lose keys.
   Model: Model/Bloom.v (src/bloom_filter.rs, src/hash_index.rs).  Proofs: Proofs/Bloom.v. *)
From IL Require Import Model.Value Model.Bloom Proofs.Bloom.
Open Scope N_scope.

(* Every key inserted since the last clear is reported as possibly present —
   for every filter size (including degenerate ones), every number of hash functions,
   every operation history and every pair of hash values. *)
Theorem C36_no_false_negative :
  forall (b : bloom) (ops : list bop) (h1 h2 : N),
    In (h1, h2) (live_keys [] ops) -> might_contain (brun b ops) h1 h2 = true.
Proof. exact no_false_negative. Qed.

(* A hash-index lookup (with its bloom pre-check) returns exactly the stored tuples whose key
   columns equal the probe key, in insertion order, after any history of inserts, removals
   and rebuilds — for every hash function and every key-column list. *)
Theorem C36_lookup_exact :
  forall (hf : tuple -> N * N) (cols : list nat) (b0 : bloom) (ops : list hop) (k : tuple),
    opt_list (hi_get_with_bloom hf
                (hrun hf {| keycols := cols; entries := []; hbloom := bloom_clear b0 |} ops) k)
    = spec_lookup cols (srun [] ops) k.
Proof. exact lookup_exact. Qed.

(* `remove` reports true exactly when the tuple was stored *)
Theorem C36_remove_report :
  forall (hf : tuple -> N * N) (cols : list nat) (h : hidx) (s : list tuple) (t : tuple),
    Inv hf cols h s ->
    snd (hi_remove h t) = match remove_first t s with Some _ => true | None => false end.
Proof. intros hf cols h s t I. exact (proj2 (remove_inv hf cols h s t I)). Qed.

(* non-vacuity: a filter that answers `false` for an absent key and `true` for the inserted one *)
Example C36_nonvacuous :
  let b := brun (with_params 64 3) [BIns 5 7; BClear; BIns 11 13] in
  In (11, 13) (live_keys [] [BIns 5 7; BClear; BIns 11 13]) /\
  might_contain b 11 13 = true /\ might_contain b 5 7 = false.
Proof. vm_compute. repeat split; auto. Qed.

Print Assumptions C36_no_false_negative.
Print Assumptions C36_lookup_exact.
Print Assumptions C36_remove_report.
