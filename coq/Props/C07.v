(* C07 — Answer tuples are well-formed sets.  Model: Model/Datalog.v `eval_engine`. *)
From IL Require Import Model.Value Model.Datalog Proofs.DatalogMisc.
Open Scope N_scope.

(* For EVERY program (stratified or not, recursive or not), EDB and fuel: the engine strategy's answer
   has no duplicates, and every answer tuple is an instance of some clause of the answer relation with
   exactly that clause's head arity and its head constants reproduced verbatim.
   `_partial`: for clauses with an aggregate in the head the arity/constant part is not proved here
   (the aggregate path is C06's model); the recursive min/max-in-loop path of the code generator is NOT
   modelled — on the pinned tree it returns tuples of the wrong arity (known finding class 2, decided
   by the oracle on the implementation's output). *)
Theorem C07_wf_answer_partial :
  forall (fuel : nat) (p : program) (edb : db) (ans : list tuple),
    eval_engine fuel p edb = Some ans -> topo_order p <> [] ->
    NoDup ans /\
    forall t, In t ans ->
      exists c, In c p /\ chead c = engine_query p /\
        (has_agg c = false ->
           length t = length (cargs c) /\
           forall i v, nth_error (cargs c) i = Some (HConst v) -> nth_error t i = Some v).
Proof. exact engine_wf. Qed.

Example C07_nonvacuous :
  let p := [ {| chead := 99; cargs := [HVar 0; HConst (VI64 7)]; cbody := [LPos 0 [TVar 0; TWild]] |} ] in
  eval_engine 5 p [(0, [[VI64 1; VI64 2]; [VI64 1; VI64 3]])] = Some [[VI64 1; VI64 7]].
Proof. vm_compute. reflexivity. Qed.

Print Assumptions C07_wf_answer_partial.
