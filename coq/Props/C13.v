(* C13 — Acknowledged writes survive any crash and recovery always succeeds.
   Model: Model/FS.v (POSIX crash model) and Model/Persist.v (WAL, buffers, batch files, shard metadata,
   flush, compaction, WAL rewrite, startup recovery of src/storage/persist/{mod,wal,consolidate}.rs and the
   insert/delete/save/compact/open paths of src/storage_engine/mod.rs).  Proofs: Proofs/Persist.v.

   FULL STATEMENT of the property (kept visible):  for the model [dsync] of the tree,

     C13_statement dsync :=  forall bufsz h,  Forall (fun p => forall ch,
         pallowed p (precover dsync (crash_fs ch (ppfs p))) = true)  (ppoints dsync bufsz ps_init h)

   i.e. at every crash point p of every history h (every micro-step boundary of insert / delete / save /
   compact / restart incl. flush, WAL rewrite, compaction and the drain done by recovery), for every loss
   choice ch, the store reopens and holds the contents before or after the operation in flight, and the
   contents after it once it completed.
   * It is FALSE for the pinned tree (dsync = false): C13_refuted_no_dirsync — renames, unlinks and the
     creation of the WAL file were never made durable; replayed on the real code and repaired (fix commit
     in /repo: directory syncs in save_shard_meta, write_updates_parquet, PersistWal).
   * It is still FALSE for the repaired tree (dsync = true) for one narrow reason, C13_refuted_torn_batch:
     a multi-tuple insert/delete is ONE WAL write of several records; a crash that tears it between
     records recovers a strict sub-batch.  Known finding (class 1 of Checks/C13.v).
   * What is PROVED for all inputs is partial (names end in _partial): the WAL append path — micro-steps
     {create current.wal, fsync wal dir, write records, fsync file} of every insert/delete — for every
     sequence of appends, every crash point and every loss choice: exactly the acknowledged records plus a
     prefix of the batch in flight survive, all of it once the fsync returned, and the crashed directory
     satisfies the invariant again; plus the specification link replay_fresh (replaying a log extended by
     one operation equals applying the operation with set semantics).  NOT covered by a theorem:
     ensure_shard's metadata write, flush (batch write, metadata rename, WAL rewrite), compaction, the
     recovery drain and crashes during recovery — these are covered on every run by the correspondence
     (syscall trace = model trace; real recovery = model recovery on every reconstructed crash state) and
     by the property oracle [pallowed] evaluated on the real recoveries. *)
From Coq Require Import List NArith ZArith Bool.
From IL Require Import Model.FS Model.Persist Proofs.Catalog Proofs.Persist Proofs.PersistSweep.
Import ListNotations.

Definition C13_statement (dsync : bool) : Prop :=
  forall (bufsz : nat) (h : list pop),
    Forall (fun p => forall ch : N -> dchoice, pallowed p (precover dsync (crash_fs ch (ppfs p))) = true)
           (ppoints dsync bufsz ps_init h).

(* the pinned tree: an acknowledged insert is lost when the creation of current.wal never reached the disk *)
Theorem C13_refuted_no_dirsync : ~ C13_statement false.
Proof.
  intro H. specialize (H 10%nat [PIns 0 [1%N]]). rewrite Forall_forall in H.
  set (p := nth 7 (ppoints false 10 ps_init [PIns 0 [1%N]]) (mkPp empty_fs [] [] true None)).
  assert (Hin : In p (ppoints false 10 ps_init [PIns 0 [1%N]])) by (vm_compute; tauto).
  specialize (H p Hin (fun _ => (0%nat, fun _ => (1000%nat, 0%nat)))).
  vm_compute in H. discriminate.
Qed.

(* the repaired tree: a torn two-record WAL write recovers half of the insert *)
Theorem C13_refuted_torn_batch : ~ C13_statement true.
Proof.
  intro H. specialize (H 10%nat [PIns 0 [1%N]; PIns 0 [2%N; 3%N]]). rewrite Forall_forall in H.
  set (h := [PIns 0 [1%N]; PIns 0 [2%N; 3%N]]).
  set (p := nth 11 (ppoints true 10 ps_init h) (mkPp empty_fs [] [] true None)).
  assert (Hin : In p (ppoints true 10 ps_init h)) by (vm_compute; tauto).
  specialize (H p Hin (fun _ => (1000%nat, fun _ => (0%nat, 1%nat)))).
  vm_compute in H. discriminate.
Qed.

(* WAL append path, all inputs: for every sequence of appended batches, every crash point of
   [wal_points] and every loss choice, the surviving records are the acknowledged ones followed by a
   prefix of the batch in flight — the whole batch once the append completed — and the crashed WAL
   directory satisfies the invariant again. *)
Theorem C13_wal_append_partial :
  forall (bs : list (list upd)),
    Forall (fun p => forall ch : dchoice,
              exists t, (t <= length (wflight p))%nat /\
                        wal_of (crash_dir ch (wdir p)) = wacked p ++ firstn t (wflight p) /\
                        GoodWal (crash_dir ch (wdir p)) (wacked p ++ firstn t (wflight p)) /\
                        (wdone p = true -> t = length (wflight p)))
           (wal_points empty_dir [] bs).
Proof. intro bs. apply (wal_points_safe bs empty_dir []). apply good_wal_empty. Qed.

(* ... and from any WAL directory satisfying the invariant (e.g. a recovered one) *)
Theorem C13_wal_append_from_partial :
  forall bs x E, GoodWal x E -> Forall (fun p => forall ch, wpoint_ok p ch) (wal_points x E bs).
Proof. exact wal_points_safe. Qed.

(* specification link, all inputs: replaying a log extended by the updates of one operation (stamped
   with a time above everything in the log) is the set-semantics application of that operation *)
Theorem C13_replay_fresh_partial :
  forall (l : list upd) (r t : N) (ins : bool) (vs : list N),
    log_below l t ->
    replay_to_current (l ++ op_upds r t ins vs) = apply_live ins vs (replay_to_current l).
Proof. exact replay_fresh. Qed.

(* the micro-steps the theorem speaks about are the ones the model's insert performs on the WAL
   directory (instance; the general agreement is part of the per-run trace correspondence) *)
Example C13_wal_steps_are_model_steps :
  let '(_, _, ms) := op_run true 10 ps_init (PIns 0 [1%N; 2%N]) in
  filter (fun m => N.eqb (step_dir m) D_WAL) ms =
  wal_append_steps (empty_dir) (op_upds 0 1 true [1%N; 2%N]).
Proof. vm_compute. reflexivity. Qed.

(* BOUNDED, supporting only (exploration of the MODEL inside Coq, not a proof for all inputs): for every
   history of length <= 3 over the 8-operation menu [sweep_menu] (inserts/deletes of 1-2 tuples into two
   relations, save, compact, restart), buffer sizes 1, 2, 3, every crash point and EVERY loss choice of the
   complete enumeration [enum_fs] (every prefix of every directory's pending operations x every cut and
   every torn length of every file with pending data): the repaired model reopens with the old or the
   new contents (new once completed), except for the torn multi-tuple WAL write (class 1).  The same
   sweep fails for the pinned tree's model. *)
Theorem C13_bounded_sweep_len3 : sweep_all true 3 = true /\ sweep_all false 2 = false.
Proof. split; vm_compute; reflexivity. Qed.

(* non-vacuity: a history with flushes, a save, a compaction and a restart has many crash points; the
   oracle accepts the expected recovery and rejects a lost acknowledged write *)
Example C13_nonvacuous :
  let h := [PIns 0 [1%N]; PIns 0 [2%N]; PDel 0 [1%N]; PSave []; PCompact []; PRestart []] in
  (40 <=? length (ppoints true 2 ps_init h))%nat = true /\
  (let p := nth 12 (ppoints true 2 ps_init h) (mkPp empty_fs [] [] true None) in
   pallowed p (precover true (crash_fs (fun _ => (1000%nat, fun _ => (1000%nat, 0%nat))) (ppfs p))) = true /\
   pallowed p (Some [[]; []]) = false) /\
  wal_of (run_dir (wal_append_steps empty_dir (op_upds 0 1 true [1%N])) empty_dir) = op_upds 0 1 true [1%N].
Proof. split; [vm_compute; reflexivity|]. split; [split; vm_compute; reflexivity|vm_compute; reflexivity]. Qed.

Print Assumptions C13_refuted_no_dirsync.
Print Assumptions C13_refuted_torn_batch.
Print Assumptions C13_wal_append_partial.
Print Assumptions C13_wal_append_from_partial.
Print Assumptions C13_replay_fresh_partial.
Print Assumptions C13_bounded_sweep_len3.
