(* C32 — Relations are sets and write reports are accurate.
   Model: Model/Store.v (insert_in_memory / delete_in_memory with reports) and Model/StoreStmt.v
   (the Insert / Delete / BulkDelete / conditional Delete / Update arms of the handler, executed as
   sequences of engine operations).  Proofs: Proofs/Store.v, Proofs/StoreStmt.v.

   Specification (`spec_after`, Model/StoreStmt.v): on a relation seen as a duplicate-free set,
     insert batch      : after = before U batch,  new = |distinct batch tuples not in before|
     delete / bulk     : after = before \ batch,  deleted = |before n batch|
     conditional delete: after = before \ {t | t satisfies r(head), cond},  deleted = their number
     update            : after = (before \ D) U I where D, I are the delete / insert templates
                         instantiated by ALL matched bindings;  deleted = |before n D|,
                         inserted = |distinct I not in before \ D|.

   Full statement of the property (for every row limit):
     forall limit pick h q, exec_lim limit pick (run h) q meets spec_after.
   It is FALSE when the statement's match query is truncated by the configured result-row limit
   (C32_refuted_row_limit, known finding class 1 = `stmt_truncated`); the theorem that is true is
   C32_statement_meets_spec below, for every state, statement, limit and choice of rows outside
   that class.  The pinned handler additionally interleaved an update's deletes and inserts per
   binding (C32_refuted_update_interleaved); that was repaired (`fix:` commit) and the model is the
   repaired code. *)
From IL Require Import Model.Value Proofs.ValueEq Model.Store Proofs.Store Model.StoreStmt Proofs.StoreStmt.
Open Scope N_scope.

(* Stored relations never contain a tuple twice — after any history of write statements. *)
Theorem C32_relations_are_sets :
  forall h : list stmt, NoDup (live (run_stmts st0 h)).
Proof. intros h. apply (inv_nodup _ (run_stmts_Inv h st0 Inv_st0)). Qed.

(* Every statement that is not rejected, executed in any state reachable by any history, under
   any row limit and any choice of returned rows, leaves exactly the contents and reports exactly
   the counts of the set specification — unless its match query is truncated (known class 1). *)
Theorem C32_statement_meets_spec :
  forall (limit : N) (pick : list binding -> list binding) (h : list stmt) (q : stmt) s' rep,
    let s := run_stmts st0 h in
    stmt_truncated limit q (live s) = false ->
    exec_lim limit pick s q = (s', rep) -> rep <> SRErr ->
    same_set (live s') (fst (spec_after (live s) q)) /\ rep = snd (spec_after (live s) q) /\ NoDup (live s').
Proof.
  intros limit pick h q s' rep s T E NE. unfold exec_lim in E. rewrite T in E.
  apply (exec_meets_spec s q s' rep); auto. apply (inv_nodup _ (run_stmts_Inv h st0 Inv_st0)).
Qed.

(* Engine-level insert report: new = distinct batch tuples that were absent; new + dup = batch size
   (so a tuple repeated inside the batch is counted once as new and otherwise as duplicate). *)
Theorem C32_insert_report :
  forall s ts s' n d,
    step_ins s ts = (s', RIns n d) ->
    n = N.of_nat (length (filter (fun t => negb (mem_tuple t (live s))) (dedup_tuples ts))) /\
    n + d = N.of_nat (length ts) /\
    (forall t, In t (live s') <-> In t (live s) \/ In t ts).
Proof.
  intros s ts s' n d E. apply step_ins_ok in E. destruct E as [L N].
  pose proof (ins_mem_count (live s) ts) as C. pose proof (ins_mem_total (live s) ts) as T.
  rewrite <- N in C, T. cbn [fst snd] in C, T. split; [exact C|]. split; [exact T|].
  intros t. rewrite L. apply ins_mem_In.
Qed.

(* Engine-level delete report: exactly the number of stored tuples that were removed. *)
Theorem C32_delete_report :
  forall s ts s' n,
    step_del s ts = (s', RDel n) ->
    n = count_b (fun u => mem_tuple u ts) (live s) /\
    (forall t, In t (live s') <-> In t (live s) /\ ~ In t ts).
Proof.
  intros s ts s' n E. apply step_del_ok in E. destruct E as [L N]. rewrite del_mem_count in N.
  split; [exact N|]. intros t. rewrite L. apply del_mem_In.
Qed.

(* A rejected single-operation statement changes nothing. *)
Theorem C32_rejected_is_noop :
  forall s q s', exec s q = (s', SRErr) -> match q with SIns _ | SDel _ => s' = s | _ => True end.
Proof. exact exec_err_single. Qed.

(* Statement histories keep the C11 invariant: what a restart would rebuild is what is served. *)
Theorem C32_history_recoverable :
  forall (h : list stmt) (t : tuple),
    In t (recover (log (run_stmts st0 h))) <-> In t (live (run_stmts st0 h)).
Proof.
  intros h t. rewrite recover_In. symmetry. apply (inv_live _ (run_stmts_Inv h st0 Inv_st0)).
Qed.

(* ---- refutations *)
Definition p12 : tuple := [VI64 1; VI64 2].
Definition p21 : tuple := [VI64 2; VI64 1].
Definition i4 : list tuple := [[VI64 1; VI64 1]; [VI64 2; VI64 2]; [VI64 3; VI64 3]; [VI64 4; VI64 4]].

(* known finding, class 1: with max_result_rows = 2 a conditional delete matching 4 tuples removes
   only the 2 the engine happens to return (here: the first two) *)
Theorem C32_refuted_row_limit :
  exists (limit : N) (pick : list binding -> list binding) (h : list stmt) (q : stmt) (s' : st) (rep : sreport),
    let s := run_stmts st0 h in
    exec_lim limit pick s q = (s', rep) /\ rep <> SRErr /\
    ~ (same_set (live s') (fst (spec_after (live s) q)) /\ rep = snd (spec_after (live s) q)).
Proof.
  exists 2, (firstn 2), [SIns i4], (SCond [AX; AY] CTrue).
  eexists. eexists. cbn zeta. split; [vm_compute; reflexivity|]. split; [discriminate|].
  intros [_ H]. vm_compute in H. discriminate.
Qed.

(* the class is tight: the same statement with a sufficient limit meets the specification *)
Example C32_row_limit_class_is_tight :
  stmt_truncated 2 (SCond [AX; AY] CTrue) (live (run_stmts st0 [SIns i4])) = true /\
  stmt_truncated 4 (SCond [AX; AY] CTrue) (live (run_stmts st0 [SIns i4])) = false /\
  stmt_truncated 0 (SCond [AX; AY] CTrue) (live (run_stmts st0 [SIns i4])) = false.
Proof. vm_compute. auto. Qed.

(* the pinned handler (deletes and inserts interleaved per binding) lost a tuple when swapping
   the columns of {(1,2),(2,1)}: it reported 2 deleted / 1 inserted and kept only (1,2) *)
Theorem C32_refuted_update_interleaved :
  exists h dt it c,
    let s := run_stmts st0 h in
    let '(s', (d, i)) := upd_interleaved s dt it (matches [AX; AY] c (live s)) in
    ~ (same_set (live s') (fst (spec_after (live s) (SUpd dt it c))) /\
       SRUpd d i = snd (spec_after (live s) (SUpd dt it c))).
Proof.
  exists [SIns [p12; p21]], [AX; AY], [AY; AX], CTrue. vm_compute. intros [_ H]. discriminate.
Qed.

(* non-vacuity: a history with in-batch duplicates, a duplicate insert, an absent delete, a
   conditional delete and a swapping update; every statement is accepted *)
Example C32_nonvacuous :
  let h := [SIns [p12; p12; p21]; SIns [p12; [VI64 3; VI64 3]]; SDel [VI64 9; VI64 9];
            SCond [AX; AX] CTrue; SUpd [AX; AY] [AY; AX] (CVV OLt)] in
  live (run_stmts st0 h) = [p21] /\
  snd (exec (run_stmts st0 [SIns [p12; p12; p21]]) (SIns [p12; [VI64 3; VI64 3]])) = SRIns 1 /\
  snd (exec (run_stmts st0 [SIns [p12; p21]]) (SUpd [AX; AY] [AY; AX] CTrue)) = SRUpd 2 2.
Proof. vm_compute. auto. Qed.

Print Assumptions C32_relations_are_sets.
Print Assumptions C32_statement_meets_spec.
Print Assumptions C32_insert_report.
Print Assumptions C32_delete_report.
Print Assumptions C32_rejected_is_noop.
Print Assumptions C32_history_recoverable.
Print Assumptions C32_refuted_row_limit.
Print Assumptions C32_refuted_update_interleaved.
