(* C08 — Row limits only truncate the true answer.  Model: Model/Datalog.v `eval_limit`
   (the repaired engine: the limit is applied to the last executed node only). *)
From IL Require Import Model.Value Model.Datalog Proofs.DatalogMisc.
Open Scope N_scope.

(* for every limit n, every choice `pick` of which rows the dataflow emits first, every program/EDB *)
Theorem C08_limit_truncates :
  forall (n : nat) (pick : list tuple -> list tuple),
    (forall l, incl (pick l) l) -> (forall l, length (pick l) = Nat.min n (length l)) ->
    (forall l, NoDup l -> NoDup (pick l)) ->
    forall fuel p edb A Lm,
      eval_engine fuel p edb = Some A -> eval_limit pick fuel p edb = Some Lm ->
      incl Lm A /\ length Lm = Nat.min n (length A) /\ (NoDup A -> NoDup Lm).
Proof. exact limit_truncates. Qed.

(* the hypotheses on `pick` are satisfiable: taking the first n rows *)
Theorem C08_pick_exists : forall n,
  (forall l : list tuple, incl (firstn n l) l) /\
  (forall l : list tuple, length (firstn n l) = Nat.min n (length l)) /\
  (forall l : list tuple, NoDup l -> NoDup (firstn n l)).
Proof. exact firstn_is_pick. Qed.

(* The pinned engine passed the limit to EVERY node; on the faithful model of that behaviour a limit
   makes a tuple outside the true answer appear (negation over a truncated intermediate).
   Repaired by "fix: apply the row limit to the answer only". *)
Definition c08_prog : program :=
  [ {| chead := 10; cargs := [HVar 0]; cbody := [LPos 2 [TVar 0]; LCmp OGt (TVar 0) (TConst (VI64 0))] |};
    {| chead := 99; cargs := [HVar 0]; cbody := [LPos 2 [TVar 0]; LNeg 10 [TVar 0]] |} ].
Theorem C08_refuted_intermediate :
  exists n fuel p edb A Lm,
    eval_engine fuel p edb = Some A /\ eval_engine_trunc_all n fuel p edb = Some Lm /\ ~ incl Lm A.
Proof.
  exists 1%nat, 5%nat, c08_prog, [(2, [[VI64 1]; [VI64 2]])]. eexists. eexists.
  split; [vm_compute; reflexivity|]. split; [vm_compute; reflexivity|].
  intros H. specialize (H [VI64 2] (or_introl eq_refl)). destruct H.
Qed.

Print Assumptions C08_limit_truncates.
Print Assumptions C08_refuted_intermediate.
