(* C35 — Ordered and paginated results are exact slices.
   Model: Model/WireSort.v — `opt_wire_cmp` = compare_wire_values, `row_cmp keys` = the closure given to
   sort_by in sort_rows, `sort_rows` (stable sort), `apply_pagination`, `query_out` = what the query path
   returns as (rows, total_count); tables `wire_rank` / `wire_arm` in Gen/WireRank.v are regenerated from
   src/protocol/handler.rs + wire.rs on every run.  Proofs: Proofs/OrdLaws.v, SortLaws.v, WireSort.v, I64F64.v.

   FULL PROPERTY (kept visible): for every row set, key list, limit and offset the answer is a slice of the
   full answer sorted by the keys, total = size of the full answer, and sorting never fails.
   As stated it is FALSE for the code in the tree: see C35_refuted_int_float_precision.  The theorems below
   hold for all inputs outside the tight decidable class  good_keys keys rows = false  (a sort-key column that
   mixes Float64 with Int64 values whose order changes when rounded to f64; impossible below 2^53).
   NaN, -0.0, infinities, nulls, missing columns and every mix of kinds are inside the proved part.
   "Never fails" is runtime behaviour of slice::sort_by (it may panic when the comparator is not a total
   order): the model cannot panic; the theorem C35_comparator_total_preorder is what rules the panic out,
   and the harness observes the real call under catch_unwind on every case. *)
From IL Require Import Model.Value Model.WireSort Proofs.OrdLaws Proofs.SortLaws Proofs.WireSort Proofs.I64F64.
From Coq Require Import Sorting.Permutation Sorting.Sorted.
Open Scope N_scope.

(* compare_wire_values is a total preorder (antisymmetric comparison results, transitive <=) on the values
   of any good column — Option<&WireValue>, i.e. missing columns included *)
Theorem C35_comparator_total_preorder :
  forall vs : list (option wire), good_col vs = true ->
  forall a b c, In a vs -> In b vs -> In c vs ->
    opt_wire_cmp a b = CompOpp (opt_wire_cmp b a) /\
    (opt_wire_cmp a b <> Gt -> opt_wire_cmp b c <> Gt -> opt_wire_cmp a c <> Gt).
Proof.
  intros vs G a b c Ia Ib Ic. destruct (opt_wire_preorder vs G) as [Ha Ht]. split; [apply Ha | apply Ht]; auto.
Qed.

(* every column whose Int64 values are below 2^53 in magnitude is good — whatever else it holds *)
Theorem C35_small_ints_good :
  forall vs : list (option wire),
    (forall z, In (Some (WI64 z)) vs -> (Z.abs z < 9007199254740992)%Z) -> good_col vs = true.
Proof. exact small_ints_good_col. Qed.

(* the multi-key, per-key-direction row comparator is a total preorder on the rows *)
Theorem C35_row_comparator_total_preorder :
  forall keys rows, good_keys keys rows = true -> preorder_on (fun r => In r rows) (row_cmp keys).
Proof. exact row_cmp_preorder. Qed.

(* the answer: exactly the slice [offset, offset+limit) of a permutation of the full answer that is sorted
   by the keys; the total is the size of the full answer — all rows, keys, directions, limits, offsets *)
Theorem C35_slice :
  forall keys limit offset rows,
    let sorted := sort_rows keys rows in
    query_out keys limit offset rows = (slice limit offset sorted, length rows) /\
    Permutation sorted rows /\
    (good_keys keys rows = true -> StronglySorted (le_by (row_cmp keys)) sorted).
Proof. exact query_out_slice. Qed.

(* the executable specification used as the oracle on the implementation's output:
   (1) it accepts every slice of every sorted arrangement (ties in any order) — no false alarm;
   (2) what it accepts has the right length, consists of rows of the full answer, is sorted, and agrees
       position by position (compare = Equal) with the slice of the sorted full answer *)
Theorem C35_oracle_complete :
  forall keys rows S limit offset,
    good_keys keys rows = true -> Permutation S rows -> StronglySorted (le_by (row_cmp keys)) S ->
    is_sorted_slice_of row_eqb (row_cmp keys) rows limit offset (slice limit offset S) = true.
Proof.
  intros keys rows S limit offset G Perm Sd.
  apply (checker_complete row_eqb row_eqb_spec (fun r => In r rows) (row_cmp keys)); auto.
  - apply row_cmp_preorder; exact G.
  - apply Forall_In_self.
Qed.

Theorem C35_oracle_sound :
  forall keys rows limit offset res,
    good_keys keys rows = true ->
    is_sorted_slice_of row_eqb (row_cmp keys) rows limit offset res = true ->
    length res = slice_len (length rows) limit offset /\
    (exists rest, Permutation (res ++ rest) rows) /\
    StronglySorted (le_by (row_cmp keys)) res /\
    Forall2 (fun a b => row_cmp keys a b = Eq) res (slice limit offset (sort_by (row_cmp keys) rows)).
Proof.
  intros keys rows limit offset res G H.
  apply (checker_sound row_eqb row_eqb_spec (fun r => In r rows) (row_cmp keys)); auto.
  - apply row_cmp_preorder; exact G.
  - apply Forall_In_self.
Qed.

(* the model's own output passes the oracle *)
Theorem C35_model_meets_spec :
  forall keys limit offset rows, good_keys keys rows = true ->
    c35_spec keys limit offset rows (fst (query_out keys limit offset rows)) (snd (query_out keys limit offset rows)) = true.
Proof. exact model_meets_spec. Qed.

(* REFUTED in general (known finding int-float-precision, class 1): 2^53+1 (Int64), 2^53 (Float64), 2^53 (Int64).
   The comparator says a <= b <= c and a > c; the three rows come back in an order that is not sorted. *)
Theorem C35_refuted_int_float_precision :
  (exists a b c, opt_wire_cmp a b <> Gt /\ opt_wire_cmp b c <> Gt /\ ~ opt_wire_cmp a c <> Gt) /\
  (exists keys rows, good_keys keys rows = false /\
     c35_spec keys None None rows (fst (query_out keys None None rows)) (snd (query_out keys None None rows)) = false).
Proof.
  split.
  - exists (Some w_big1), (Some w_f53), (Some w_big0). destruct wire_cmp_not_transitive as [H1 [H2 H3]].
    cbn [opt_wire_cmp]. repeat split; auto; intros H; apply H; exact H3.
  - exists [(O, false)], [[w_big1]; [w_f53]; [w_big0]]. split; vm_compute; reflexivity.
Qed.

(* the comparator of the pinned tree (partial_cmp(..).unwrap_or(Equal), repaired by a `fix:` commit):
   NaN compared Equal to everything *)
Theorem C35_pre_repair_refuted_nan :
  exists a b c, wire_cmp_old a b <> Gt /\ wire_cmp_old b c <> Gt /\ ~ wire_cmp_old a c <> Gt.
Proof.
  exists (WF64 0x4000000000000000), (WF64 0x7FF8000000000000), (WF64 0x3FF0000000000000).
  destruct old_wire_cmp_not_transitive as [H1 [H2 H3]]. repeat split; auto; intros H; apply H; exact H3.
Qed.

(* non-vacuity: a good input with NaN, -0.0, nulls, mixed kinds, a missing column, two keys, a window *)
Example C35_nonvacuous :
  let rows := [[WF64 0x7FF8000000000000; WI64 1]; [WI64 2; WStr [97]]; [WNull; WI64 0]; [WF64 0x8000000000000000];
               [WI64 (-5); WI64 7]; [WStr [98]; WI64 7]; [WF64 0x3FF8000000000000; WNull]] in
  let keys := [(O, true); (1%nat, false)] in
  good_keys keys rows = true /\
  query_out keys (Some 4%nat) (Some 1%nat) rows =
    ([[WF64 0x7FF8000000000000; WI64 1]; [WI64 2; WStr [97]]; [WF64 0x3FF8000000000000; WNull]; [WF64 0x8000000000000000]], 7%nat).
Proof. split; vm_compute; reflexivity. Qed.

Print Assumptions C35_comparator_total_preorder.
Print Assumptions C35_small_ints_good.
Print Assumptions C35_row_comparator_total_preorder.
Print Assumptions C35_slice.
Print Assumptions C35_oracle_complete.
Print Assumptions C35_oracle_sound.
Print Assumptions C35_model_meets_spec.
Print Assumptions C35_refuted_int_float_precision.
