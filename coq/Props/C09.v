(* placeholder while the model is being validated *)
From IL Require Import Model.Syntax.
