(* C09 — Rules behave the same inline, as session rules and as persistent rules.

   Statement (properties.jsonl): any rule accepted by the parser denotes the same rule after being
   printed and re-parsed, so submitting it inline, as a session rule or as a persistent rule (before
   and after a restart) yields the same answers.

   Model: Model/Syntax.v   — show_rule  = `Display` for Rule/Atom/BodyPredicate/Term/ArithExpr/AggregateFunc
                             (src/ast/mod.rs), parse_rule = `parse_rule` and everything it calls
                             (src/parser/mod.rs, AggregateFunc::parse* in src/ast/mod.rs), at the level of
                             characters, because the real parser is a cascade of string splits.
          Model/SyntaxWf.v — the fragment `wf_rule`, the known-finding classes, the submission paths.
   The environment E carries the three things that are taken from Rust per case and checked per case
   (Checks/C09.v, tabs_ok): classes of non-ASCII characters, values of f64 lexemes, `{}`/`{:?}` of f64.

   The submission paths in the pinned tree (read, file:line of /repo at the `fix:` commits):
   * direct      StorageEngine::execute_query_tuples_on -> snapshot -> IQLEngine -> parse_program
                 (src/parser/mod.rs:46): the text is parsed once.                         = parse
   * inline      Handler::query_program: every line is parsed by parse_statement (-> parse_rule), a rule
                 line is printed again (format_rule_text = Display, src/protocol/handler.rs:2973/4997),
                 collected in session_rules, joined in front of the query (handler.rs:3750) and parsed
                 by the engine.                                                           = parse . print . parse
   * session     Handler::execute_program: format_rule_text(rule) is stored as the session's rule text
                 (handler.rs:4582) and joined in front of every query (handler.rs:4003).   = parse . print . parse
   * persistent  handler.rs:2938: format_rule_text, then parse_rule_definition (src/statement/parser.rs:619)
                 -> SerializableRule::from_rule (src/statement/serialize.rs:96; from_term :132 maps function
                 calls, vector literals and booleans to Placeholder, hnsw_nearest to a dummy atom), stored
                 as JSON by the rule catalog, to_rule (:114) at load; build_rule_prefix
                 (src/storage_engine/snapshot.rs:142) prints the rules again and the engine parses
                 prefix ++ query (snapshot.rs:183/209).                    = parse . print . T . parse . print . parse
   So the claim "each path is parse . print composed 0, 1 or 2 times" holds except for the map
   T = to_rule . from_rule of the persistent path, which is modelled (ser_rule) and is the identity
   exactly on rules without function calls, vectors, booleans, hnsw_nearest and non-finite floats. *)
From Coq Require Import String.
From IL Require Import Model.Syntax Model.SyntaxWf Proofs.SyntaxBase Proofs.SyntaxArith2 Proofs.SyntaxArith3
  Proofs.SyntaxParse Proofs.SyntaxRule Proofs.SyntaxPaths.
Open Scope N_scope.

(* The full statement would be
     forall E r, (exists text, parse_rule E text = Some r) -> parse_rule E (show_rule E r) = Some r.
   It is FALSE for the pinned tree (C09_refuted_* below).  What is proved is the round trip for the
   decidable fragment wf_rule, for every environment E, with no hypothesis on E other than what
   wf_rule itself evaluates (dbg_ok / disp_ok on the float constants that occur in r: their printed
   text has the shape of a Rust float and parses back to the same bits).
   The fragment contains every construct of the rule grammar: atoms, negation, the six comparisons,
   hnsw_nearest(..), and as terms variables, integers, floats, strings, booleans, placeholders, vector
   literals, standard and ranking aggregates (top_k, top_k_threshold, within_radius), function calls
   and arithmetic.  `_partial`, outside the fragment (exercised by the per-run check only):
     - string constants containing one of  , ( ) < > [ ] = !  (the parser accepts some of them);
     - identifiers with non-ASCII characters, relation names that are not identifiers, aggregate
       variable texts that are not identifiers;
     - variables spelled like inf / nan / infinity, the float constant -inf (NaN is refuted below);
     - an arithmetic term whose printed text is itself a float lexeme (side condition in wf_term; it
       only happens for the refuted class 1);
     - a comparison whose printed text starts with "hnsw_nearest(" (side condition in wf_bpred). *)
Theorem C09_roundtrip_partial :
  forall (E : env) (r : rule), wf_rule E r = true -> parse_rule E (show_rule E r) = Some r.
Proof. exact parse_rule_rt. Qed.

(* arithmetic (all five operators, precedence, parentheses, negative and float leaves) and terms *)
Theorem C09_arith_roundtrip :
  forall (E : env) (a : arith), wf_arith E a = true ->
  forall n, (need a <= n)%nat -> parith E n LAdd (show_arith E a) = Some a.
Proof. intros E a W. exact (proj1 (parith_roundtrip E a W)). Qed.

Theorem C09_term_roundtrip_partial :
  forall (E : env) (t : term), wf_term E t = true ->
  forall n, (tneed t <= n)%nat -> parse_term E n (show_term E t) = Some t.
Proof. exact parse_term_rt. Qed.

(* the submission paths agree with the direct path on every accepted text whose rule is in the
   fragment; the persistent path in addition needs ser_lossy r = false (class 6 otherwise) *)
Theorem C09_paths_agree_partial :
  forall (E : env) (text : str) (r : rule),
    parse_rule E text = Some r -> wf_rule E r = true ->
    path_direct E text = Some r /\ path_printed E text = Some r /\
    (ser_lossy r = false -> path_persistent E text = Some r).
Proof. exact paths_agree. Qed.

(* ------------------------------------------------------------------ refutations (pinned tree, after the
   two `fix:` commits).  Each witness is in the image of the parser (the harness corpus holds the text) *)
Definition v (s : string) : term := TVar (lit s).
Definition at_ (n : string) (l : list term) : atom := Atom (lit n) l.

(* class 1:  p(X, Y) <- q(X), Y = X1e - 3   prints  ... Y = X1e-3 , which is rejected *)
Definition w_sci : rule :=
  Rule (at_ "p" [v "X"; v "Y"])
       [BPos (at_ "q" [v "X"]); BCmp (v "Y") CEq (TArith (ABin OSub (AVar (lit "X1e")) (AInt 3)))].
Theorem C09_refuted_sci_identifier :
  forall E, known_class E w_sci = 1 /\ parse_rule E (show_rule E w_sci) = None.
Proof. intros E. split; vm_compute; reflexivity. Qed.

(* class 2:  p(X, -nan)  holds FloatConstant(NaN), prints p(X, NaN), re-parses with the VARIABLE NaN *)
Definition w_nan : rule := Rule (at_ "p" [v "X"; TFloat qnan]) [BPos (at_ "q" [v "X"])].
Definition E2 : env :=   (* Rust: format!("{:?}", f64::NAN) = "NaN", "NaN".parse::<f64>() = NaN *)
  mkEnv (fun _ => 0) (fun s => if str_eqb s (lit "NaN") then Some qnan else None)
        (fun _ => lit "NaN") (fun _ => lit "NaN").
Theorem C09_refuted_nan_constant :
  dbg_ok E2 qnan = true /\ known_class E2 w_nan = 2 /\
  parse_rule E2 (show_rule E2 w_nan) = Some (Rule (at_ "p" [v "X"; v "NaN"]) [BPos (at_ "q" [v "X"])]).
Proof. vm_compute. repeat split; reflexivity. Qed.

(* class 3:  abs(count< -X >)  prints  abs(count<-X>) : a second "<-" *)
Definition w_arrow : rule := Rule (at_ "abs" [TAgg GCount (lit "-X")]) [].
Theorem C09_refuted_printed_arrow :
  forall E, known_class E w_arrow = 3 /\ parse_rule E (show_rule E w_arrow) = None.
Proof. intros E. split; vm_compute; reflexivity. Qed.

(* class 4:  p(top_k<3, Y, Y:desc>) <- q(X, Y)  prints  top_k<3, Y:desc, Y:desc> *)
Definition w_dup : rule :=
  Rule (at_ "p" [TAgg (GTopK 3 (lit "Y") [lit "Y"; lit "Y"] true) []]) [BPos (at_ "q" [v "X"; v "Y"])].
Theorem C09_refuted_duplicate_order_variable :
  forall E, known_class E w_dup = 4 /\ parse_rule E (show_rule E w_dup) = None.
Proof. intros E. split; vm_compute; reflexivity. Qed.

(* class 5:  q() <- hnsw_nearest ()  prints  q() <- hnsw_nearest() *)
Definition w_hnsw : rule := Rule (at_ "q" []) [BPos (at_ "hnsw_nearest" [])].
Theorem C09_refuted_relation_named_hnsw_nearest :
  forall E, known_class E w_hnsw = 5 /\ parse_rule E (show_rule E w_hnsw) = None.
Proof. intros E. split; vm_compute; reflexivity. Qed.

(* class 7:  edge(+inf, D) <- p()  holds Arithmetic(FloatConstant(inf)), prints edge(inf, D) <- p() *)
Definition binf : N := 9218868437227405312.
Definition w_leaf : rule := Rule (at_ "edge" [TArith (AFloat binf); v "D"]) [BPos (at_ "p" [])].
Definition E3 : env :=   (* Rust: format!("{:?}", f64::INFINITY) = "inf", "inf".parse::<f64>() = inf *)
  mkEnv (fun _ => 0) (fun s => if str_eqb s (lit "inf") then Some binf else None)
        (fun _ => lit "inf") (fun _ => lit "inf").
Theorem C09_refuted_bare_arithmetic_leaf :
  dbg_ok E3 binf = true /\ known_class E3 w_leaf = 7 /\ parse_rule E3 (show_rule E3 w_leaf) = None.
Proof. vm_compute. repeat split; reflexivity. Qed.

(* class 6 (persistent path):  ans(X) <- b(X, true)  is stored as  ans(X) <- b(X, _) *)
Definition w_ser : rule := Rule (at_ "ans" [v "X"]) [BPos (at_ "b" [v "X"; TBool true])].
Theorem C09_refuted_persistent_form_is_lossy :
  forall E, known_class_paths E w_ser = 6 /\
            ser_rule w_ser = Rule (at_ "ans" [v "X"]) [BPos (at_ "b" [v "X"; TPh])] /\ ser_rule w_ser <> w_ser.
Proof. intros E. split; [|split]; try (vm_compute; reflexivity). vm_compute. discriminate. Qed.

(* ------------------------------------------------------------------ non-vacuity: a rule of the fragment with
   every covered construct, in an environment holding Rust's texts for the floats 2.0 and 0.5 *)
Definition b20 : N := 4611686018427387904.  (* 2.0 *)
Definition b05 : N := 4602678819172646912.  (* 0.5 *)
Definition E1 : env :=
  mkEnv (fun _ => 0)
        (fun s => if str_eqb s (lit "2.0") || str_eqb s (lit "2") then Some b20
                  else if str_eqb s (lit "0.5") then Some b05 else None)
        (fun b => if b =? b20 then lit "2" else lit "0.5")
        (fun b => if b =? b20 then lit "2.0" else lit "0.5").
Definition w_ok : rule :=
  Rule (at_ "p" [v "X"; TAgg GSum (lit "Y"); TStr (lit "a b"); TFloat b20])
       [BPos (at_ "q" [v "X"; v "Y"; TPh; TInt (-7); TBool true; TVec [b20; b05];
                       TAgg (GTopKThr 3 (lit "S") [lit "N"; lit "S"] b05 false) []]);
        BHnsw (lit "idx") (TVec [b20; b05]) 5 (lit "Id") (lit "Dist") (Some 50);
        BNeg (at_ "r" [v "X"; TFun (lit "abs") [v "Y"]]);
        BCmp (v "Z") CEq (TArith (ABin OMul (ABin OSub (AVar (lit "Y")) (AInt (-1)))
                                        (ABin ODiv (AFloat b05) (ABin OAdd (AVar (lit "X")) (AInt 2)))));
        BCmp (TFun (lit "euclidean") [v "V"; TVec [b20; b20]]) CLe (TFloat b05);
        BCmp (v "X") CNe (TStr (lit "it's"))].
Example C09_nonvacuous :
  wf_rule E1 w_ok = true /\
  show_rule E1 w_ok =
    lit "p(X, sum<Y>, ""a b"", 2.0) <- q(X, Y, _, -7, true, [2, 0.5], top_k_threshold<3, 0.5, N, S:asc>), hnsw_nearest(""idx"", [2, 0.5], 5, Id, Dist, 50), !r(X, abs(Y)), Z = (Y--1)*(0.5/(X+2)), euclidean(V, [2, 2]) <= 0.5, X != ""it's""" /\
  parse_rule E1 (show_rule E1 w_ok) = Some w_ok /\
  known_class_paths E1 w_ok = 6.
Proof. vm_compute. repeat split; reflexivity. Qed.

Print Assumptions C09_roundtrip_partial.
Print Assumptions C09_arith_roundtrip.
Print Assumptions C09_term_roundtrip_partial.
Print Assumptions C09_paths_agree_partial.
Print Assumptions C09_refuted_sci_identifier.
Print Assumptions C09_refuted_nan_constant.
Print Assumptions C09_refuted_printed_arrow.
Print Assumptions C09_refuted_duplicate_order_variable.
Print Assumptions C09_refuted_relation_named_hnsw_nearest.
Print Assumptions C09_refuted_bare_arithmetic_leaf.
Print Assumptions C09_refuted_persistent_form_is_lossy.
