(* C25 — Vector index state follows its history and persists.
   Model: Model/Hnsw.v (HnswIndex::insert / insert_batch / delete / rebuild / save / load of
   src/hnsw_index.rs, HnswConfig / DistanceMetric of src/index_manager.rs).  Proofs: Proofs/Hnsw.v.

   History of this property.  On the pinned tree the faithful model violated the statement in four
   ways, each reproduced on the real code by harness/src/bin/c25.rs and repaired by one `fix:` commit
   in /repo: search returned tombstoned identifiers; insert kept the tombstone of a re-inserted
   identifier (the new vector was unreachable); delete recorded tombstones for identifiers that are
   not stored; insert_batch skipped the graph rebuild when an entry was rejected.  The model below is
   the repaired code and the full statement holds for it.

   `spec` is the abstract index: a finite map of live identifiers to their latest (prepared) vectors,
   the set of identifiers deleted since the last compaction, two counters, dimension, configuration.
   `normalize` / `tiny_norm` (f32 arithmetic of normalize_vector) are arbitrary functions: the only
   thing assumed about them is that normalisation keeps the length of a vector. *)
From IL Require Import Model.Hnsw Proofs.Hnsw.
Open Scope N_scope.

Section C25.
  Variable V : Type.
  Variable vlen : V -> N.
  Variable normalize : V -> V.
  Variable tiny_norm : V -> bool.
  Variable normalize_keeps_length : forall v, vlen (normalize v) = vlen v.

  (* After ANY history of inserts, updates of an existing identifier, batch inserts (also failing
     ones), deletes (also of unknown or already deleted identifiers), rebuilds and save/load cycles,
     starting from an empty index with any configuration: configuration, dimension, tombstone count
     and length are those of the abstract index; an identifier is stored-and-not-tombstoned with
     vector v exactly when the abstract index maps it to v; the tombstones are exactly the
     identifiers deleted since the last compaction; and what a search can reach (graph nodes that are
     not tombstoned) is exactly the live entries, each identifier once. *)
  Theorem C25_refines :
    forall (c : config) (h : list (op V)),
      forallb (wf_op V vlen) h = true ->
      let s := run V vlen normalize tiny_norm (init V c) h in
      let a := spec V vlen normalize tiny_norm c h in
      cfg s = a_cfg a /\ dim s = a_dim a /\
      tombstone_count V s = a_ndead a /\ len V s = a_nlive a + a_ndead a /\
      (forall id, live_lookup V s id = a_live a id) /\
      (forall id, memN id (tombs s) = a_dead a id) /\
      reachable V s = live_entries V s /\
      NoDup (map fst (live_entries V s)) /\
      (forall id v, In (id, v) (live_entries V s) <-> a_live a id = Some v).
  Proof. exact (refines_observations V vlen normalize tiny_norm normalize_keeps_length). Qed.

  (* insert / insert_batch succeed exactly when the abstract index accepts the vectors *)
  Theorem C25_insert_report :
    forall (c : config) (h : list (op V)) (id : N) (v : V),
      forallb (wf_op V vlen) h = true ->
      snd (insert V vlen normalize tiny_norm (run V vlen normalize tiny_norm (init V c) h) id v)
      = snd (a_insert V vlen normalize tiny_norm (spec V vlen normalize tiny_norm c h) id v).
  Proof. exact (insert_report V vlen normalize tiny_norm normalize_keeps_length). Qed.

  Theorem C25_insert_batch_report :
    forall (c : config) (h : list (op V)) (es : list (N * V)),
      forallb (wf_op V vlen) h = true ->
      snd (insert_batch V vlen normalize tiny_norm (run V vlen normalize tiny_norm (init V c) h) es)
      = snd (a_insert_batch V vlen normalize tiny_norm (spec V vlen normalize tiny_norm c h) es).
  Proof. exact (insert_batch_report V vlen normalize tiny_norm normalize_keeps_length). Qed.

  (* save then load always succeeds on a reachable state and gives back the same configuration,
     stored vectors (tombstoned ones included, same order), tombstones and dimension, and the same
     searchable content *)
  Theorem C25_persist_roundtrip :
    forall (c : config) (h : list (op V)),
      forallb (wf_op V vlen) h = true ->
      let s := run V vlen normalize tiny_norm (init V c) h in
      exists s', load V vlen (save V s) = Some s' /\
        cfg s' = cfg s /\ vectors s' = vectors s /\ tombs s' = tombs s /\ dim s' = dim s /\
        reachable V s' = reachable V s.
  Proof. exact (persist_roundtrip V vlen normalize tiny_norm normalize_keeps_length). Qed.
End C25.

(* non-vacuity: a well-formed history with an update, a delete that leaves a tombstone, a
   re-insert of the deleted identifier, a delete of an unknown identifier, a failing batch, a
   save/load, a rebuild and a compacting delete; the final index is not empty *)
Example C25_nonvacuous :
  let vlen := fun v : list N => N.of_nat (List.length v) in
  let c := {| c_m := 8; c_efc := 100; c_efs := 32; c_metric := Euclidean |} in
  let h := [OIns 0 [1; 1]; OIns 1 [2; 2]; OIns 2 [3; 3]; OIns 3 [4; 4]; OIns 1 [5; 5];
            ODel 2; OIns 2 [6; 6]; ODel 99; OBatch [(7, [7; 7]); (8, [])]; ODel 0; OSaveLoad;
            ORebuild [(4, [1; 2]); (5, [3; 4]); (6, [5; 6])]; ODel 5] in
  forallb (wf_op (list N) vlen) h = true /\
  (forall v, vlen ((fun x => x) v) = vlen v) /\
  let s := run (list N) vlen (fun x => x) (fun _ => false) (init (list N) c) h in
  map fst (vectors s) = [4; 6] /\ tombs s = [] /\ dim s = 2 /\
  map fst (reachable (list N) s) = [4; 6] /\
  (let s10 := run (list N) vlen (fun x => x) (fun _ => false) (init (list N) c) (firstn 10 h) in
   map fst (vectors s10) = [0; 1; 2; 3; 7] /\ tombs s10 = [0] /\ map fst (reachable (list N) s10) = [1; 2; 3; 7]).
Proof. vm_compute. repeat split; reflexivity. Qed.

Print Assumptions C25_refines.
Print Assumptions C25_insert_report.
Print Assumptions C25_insert_batch_report.
Print Assumptions C25_persist_roundtrip.
