(* C10 — Session state is isolated.
   Model: Model/Session.v (Handler::execute_program / query_program_with_session / QueryJob::execute,
   SessionManager, KnowledgeGraphSnapshot::execute_with_session_facts, SchemaCatalog.session), one
   handler call = one atomic step, any number of sessions.  Proofs: Proofs/Session.v.

   FULL STATEMENT over every schedule `h : list hop` of handler steps (any interleaving of any number
   of sessions and session-less requests):
     (1) persistent facts and rules after h = after the persistent operations of h alone, and
         session-less queries answer the same;
     (2) the answers a session s gets in h = the answers it gets when every OTHER session's
         session-local operation is erased from h;
     (3) a session query answers the reference evaluation of (persistent facts ∪ own facts) under
         (persistent rules ++ own rules) at the point of the schedule where it runs.
   The faithful model violates (1) and (2) when a session declares a transient schema
   (C10_refuted_session_schema, reproduced on the real code); they are proved for all schedules
   without such a declaration.  (3) and the own-state frame hold for all schedules. *)
From IL Require Import Model.Value Model.Mat Model.Session Proofs.Mat Proofs.Session.
Open Scope N_scope.

(* (1) session steps never alter persistent facts, persistent rules (of any knowledge graph; `kgs` is
   the whole map KG -> facts, rules, schemas) or session-less answers *)
Theorem C10_persistent_frame :
  forall h : list hop, no_session_schema h = true ->
    pers_answers (answers hinit h) = answers hinit (filter is_pers h) /\
    kgs (hrun hinit h) = kgs (hrun hinit (filter is_pers h)).
Proof. exact persistent_frame. Qed.

(* (2) for every session s: its answers (and the persistent ones) are those of the schedule in which
   only the persistent operations and s's own operations remain; its ephemeral state too *)
Theorem C10_session_view :
  forall (s : sid) (h : list hop), no_session_schema h = true ->
    filter (fun e => is_pers (fst e) || owned_by s (fst e)) (answers hinit h) = answers hinit (view_of s h) /\
    kgs (hrun hinit h) = kgs (hrun hinit (view_of s h)) /\
    sess_of (hrun hinit h) s = sess_of (hrun hinit (view_of s h)) s.
Proof. exact session_view. Qed.

(* a session's ephemeral facts and rules depend on its own operations only — every schedule, schema
   declarations included *)
Theorem C10_own_state :
  forall (s : sid) (h : list hop),
    sess_of (hrun hinit h) s = sess_of (hrun hinit (filter (owned_by s) h)) s.
Proof. intros s h. apply own_state. reflexivity. Qed.

(* (3) what a session query returns, in every reachable or unreachable state: the knowledge graph
   the session is bound to, united with the session's own facts, under persistent ++ own rules *)
Theorem C10_query_is_union :
  forall (st : hst) (s : sid) (r : name),
    snd (hstep st (SQuery s r)) =
    Some (let g := kg_of st (skg (sess_of st s)) in
          let c := merge_cat (pcat g) (srules (sess_of st s)) in
          val (length c) c (union_db (pfacts g) (sfacts (sess_of st s))) r).
Proof. reflexivity. Qed.

(* (4) `.session clear` and the KG switch `.kg use k` leave NOTHING of the session's ephemeral state
   behind: whatever the session does next (the list `own` of its own later operations, e.g. a new fact
   that makes it dirty again, then queries) goes exactly as for a fresh session bound to that
   knowledge graph, whatever rules or facts it held before; persistent state is untouched. *)
Theorem C10_clear_resets :
  forall (st : hst) (s : sid),
    sess_of (fst (hstep st (SClear s))) s = mkSess [] [] (skg (sess_of st s)) /\
    kgs (fst (hstep st (SClear s))) = kgs st.
Proof. intros st s. cbn [hstep fst]. rewrite sess_of_set_eq. split; reflexivity. Qed.

Theorem C10_kg_switch_resets :
  forall (st : hst) (s : sid) (k : kgid),
    sess_of (fst (hstep st (SKgUse s k))) s = mkSess [] [] k /\
    kgs (fst (hstep st (SKgUse s k))) = kgs st.
Proof. intros st s k. cbn [hstep fst]. rewrite sess_of_set_eq. split; reflexivity. Qed.

Theorem C10_after_reset_like_fresh :
  forall (st : hst) (s : sid) (o : hop) (own : list hop),
    (o = SClear s \/ exists k, o = SKgUse s k) ->
    forallb (fun x => is_pers x || owned_by s x) own = true ->
    let fresh := set_sess st s (mkSess [] [] (skg (sess_of (fst (hstep st o)) s))) in
    answers (fst (hstep st o)) own = answers fresh own.
Proof. exact after_reset_like_fresh. Qed.

(* the finding: a transient schema declared by session 1 makes a later persistent insert fail *)
Theorem C10_refuted_session_schema :
  exists h, c10_known h = 1 /\
    get (pfacts (kg_of (hrun hinit h) 0)) 7 <> get (pfacts (kg_of (hrun hinit (filter is_pers h)) 0)) 7.
Proof. exact refuted_schema. Qed.

(* Non-vacuity: two sessions with different ephemeral facts and rules over a shared persistent
   relation and rule; each sees its own union, the persistent view sees neither. *)
Definition ex_sched : list hop :=
  [PInsert 0 0 [t2 1 2; t2 2 3]; SFact 1 0 (t2 5 6); PRegister 0 10 (cl_copy 10 0) true;
   SFact 2 0 (t2 1 2); SRule 2 (cl_copy 11 10) true; PInsert 0 0 [t2 7 8];
   SQuery 1 10; SQuery 2 11; SCount 2 0; PQuery 0 10; SQuery 1 11].
Example C10_nonvacuous :
  no_session_schema ex_sched = true /\
  map snd (own_answers 1 (answers hinit ex_sched)) =
    [None; Some [t2 1 2; t2 2 3; t2 7 8; t2 5 6]; Some []] /\
  map snd (own_answers 2 (answers hinit ex_sched)) =
    [None; None; Some [t2 1 2; t2 2 3; t2 7 8]; Some [[VI64 3]]] /\
  snd (hstep (hrun hinit ex_sched) (PQuery 0 10)) = Some [t2 1 2; t2 2 3; t2 7 8].
Proof. vm_compute. repeat split; reflexivity. Qed.

(* the regression scenario: rule, clear (or switch to KG 1), dirty again, query — the old rule is gone *)
Definition ex_clear : list hop :=
  [PInsert 0 0 [t2 1 2]; PInsert 1 0 [t2 8 9]; SRule 1 (cl_copy 11 0) true; SFact 1 0 (t2 3 4); SQuery 1 11;
   SClear 1; SFact 1 0 (t2 5 6); SQuery 1 11; SQuery 1 0;
   SRule 1 (cl_copy 11 0) true; SKgUse 1 1; SFact 1 0 (t2 6 6); SQuery 1 11; SQuery 1 0].
Example C10_nonvacuous_clear :
  map snd (filter (fun e => match snd e with Some _ => true | None => false end) (answers hinit ex_clear)) =
    [Some [t2 1 2; t2 3 4]; Some []; Some [t2 1 2; t2 5 6]; Some []; Some [t2 8 9; t2 6 6]].
Proof. vm_compute. reflexivity. Qed.

Print Assumptions C10_persistent_frame.
Print Assumptions C10_session_view.
Print Assumptions C10_own_state.
Print Assumptions C10_query_is_union.
Print Assumptions C10_clear_resets.
Print Assumptions C10_kg_switch_resets.
Print Assumptions C10_after_reset_like_fresh.
Print Assumptions C10_refuted_session_schema.
