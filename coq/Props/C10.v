(* C10 — Session state is isolated.
   Model: Model/Session.v (Handler::execute_program / query_program_with_session / QueryJob::execute,
   SessionManager, KnowledgeGraphSnapshot::execute_with_session_facts, SchemaCatalog.session), one
   handler call = one atomic step, any number of sessions.  Proofs: Proofs/Session.v.

   FULL STATEMENT over every schedule `h : list hop` of handler steps (any interleaving of any number
   of sessions and session-less requests):
     (1) persistent facts and rules after h = after the persistent operations of h alone, and
         session-less queries answer the same;
     (2) the answers a session s gets in h = the answers it gets when every OTHER session's
         session-local operation is erased from h;
     (3) a session query answers the reference evaluation of (persistent facts ∪ own facts) under
         (persistent rules ++ own rules) at the point of the schedule where it runs.
   The faithful model violates (1) and (2) when a session declares a transient schema
   (C10_refuted_session_schema, reproduced on the real code); they are proved for all schedules
   without such a declaration.  (3) and the own-state frame hold for all schedules. *)
From IL Require Import Model.Value Model.Mat Model.Session Proofs.Mat Proofs.Session.
Open Scope N_scope.

(* (1) session steps never alter persistent facts, persistent rules or session-less answers *)
Theorem C10_persistent_frame :
  forall h : list hop, no_session_schema h = true ->
    pers_answers (answers hinit h) = answers hinit (filter is_pers h) /\
    pfacts (hrun hinit h) = pfacts (hrun hinit (filter is_pers h)) /\
    pcat (hrun hinit h) = pcat (hrun hinit (filter is_pers h)).
Proof. exact persistent_frame. Qed.

(* (2) for every session s: its answers (and the persistent ones) are those of the schedule in which
   only the persistent operations and s's own operations remain; its ephemeral state too *)
Theorem C10_session_view :
  forall (s : sid) (h : list hop), no_session_schema h = true ->
    filter (fun e => is_pers (fst e) || owned_by s (fst e)) (answers hinit h) = answers hinit (view_of s h) /\
    pfacts (hrun hinit h) = pfacts (hrun hinit (view_of s h)) /\
    pcat (hrun hinit h) = pcat (hrun hinit (view_of s h)) /\
    sess_of (hrun hinit h) s = sess_of (hrun hinit (view_of s h)) s.
Proof. exact session_view. Qed.

(* a session's ephemeral facts and rules depend on its own operations only — every schedule, schema
   declarations included *)
Theorem C10_own_state :
  forall (s : sid) (h : list hop),
    sess_of (hrun hinit h) s = sess_of (hrun hinit (filter (owned_by s) h)) s.
Proof. intros s h. apply own_state. reflexivity. Qed.

(* (3) what a session query returns, in every reachable or unreachable state *)
Theorem C10_query_is_union :
  forall (st : hst) (s : sid) (r : name),
    snd (hstep st (SQuery s r)) =
    Some (let c := merge_cat (pcat st) (srules (sess_of st s)) in
          val (length c) c (union_db (pfacts st) (sfacts (sess_of st s))) r).
Proof. reflexivity. Qed.

(* the finding: a transient schema declared by session 1 makes a later persistent insert fail *)
Theorem C10_refuted_session_schema :
  exists h, c10_known h = 1 /\
    get (pfacts (hrun hinit h)) 7 <> get (pfacts (hrun hinit (filter is_pers h))) 7.
Proof. exact refuted_schema. Qed.

(* Non-vacuity: two sessions with different ephemeral facts and rules over a shared persistent
   relation and rule; each sees its own union, the persistent view sees neither. *)
Definition ex_sched : list hop :=
  [PInsert 0 [t2 1 2; t2 2 3]; SFact 1 0 (t2 5 6); PRegister 10 (cl_copy 10 0) true;
   SFact 2 0 (t2 1 2); SRule 2 (cl_copy 11 10) true; PInsert 0 [t2 7 8];
   SQuery 1 10; SQuery 2 11; SCount 2 0; PQuery 10; SQuery 1 11].
Example C10_nonvacuous :
  no_session_schema ex_sched = true /\
  map snd (own_answers 1 (answers hinit ex_sched)) =
    [None; Some [t2 1 2; t2 2 3; t2 7 8; t2 5 6]; Some []] /\
  map snd (own_answers 2 (answers hinit ex_sched)) =
    [None; None; Some [t2 1 2; t2 2 3; t2 7 8]; Some [[VI64 3]]] /\
  snd (hstep (hrun hinit ex_sched) (PQuery 10)) = Some [t2 1 2; t2 2 3; t2 7 8].
Proof. vm_compute. repeat split; reflexivity. Qed.

Print Assumptions C10_persistent_frame.
Print Assumptions C10_session_view.
Print Assumptions C10_own_state.
Print Assumptions C10_query_is_union.
Print Assumptions C10_refuted_session_schema.
