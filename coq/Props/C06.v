(* C06 — Aggregate values are exact.  Specification: Model/Datalog.v `eval_clause_agg`
   (groups = distinct values of the head's plain variables over the DISTINCT satisfying valuations of
   the body, wildcards as anonymous variables; count = number of those valuations in the group,
   sum/min/max over the aggregated variable across them, count_distinct = distinct values).
   The specification is what the oracle compares every implementation answer with, under every
   optimizer configuration (Checks/C06.v). Proved about the specification, for all clauses/databases: *)
From IL Require Import Model.Value Model.Datalog Proofs.DatalogAgg.
Open Scope N_scope.

(* each group is reported once: no two output rows agree on all plain (non-aggregate) head positions *)
Theorem C06_group_once :
  forall d c, NoDup (map (proj_groups (cargs c)) (eval_clause_agg d c)).
Proof. exact groups_once. Qed.

(* the rows aggregated over are pairwise distinct valuations, and count is their number *)
Theorem C06_count_is_number_of_valuations :
  forall d c vals, NoDup (sat_rows d c) /\ agg_value ACount vals = Some (VI64 (Z.of_nat (length vals))).
Proof. intros d c vals. split; [apply sat_rows_nodup|apply count_value]. Qed.

(* count is exact: for a head `h(groups..., count<x>)` every reported row is its group key followed by the
   number of DISTINCT satisfying valuations (rows of sat_rows) whose group key is that key *)
Theorem C06_count_exact :
  forall d c gs x, cargs c = gs ++ [HAgg ACount x] ->
    forallb (fun h => negb (is_agg h)) gs = true ->
    forall t, In t (eval_clause_agg d c) ->
    exists k, length k = length gs /\
      t = k ++ [VI64 (Z.of_nat (length (filter (fun row =>
                   match group_key (nodupN (body_vars (freshen_body 0 (cbody c)))) (cargs c) row with
                   | Some k' => tuple_eqb k' k | None => false end) (sat_rows d c))))].
Proof. exact count_exact. Qed.

Example C06_nonvacuous :
  let c := {| chead := 99; cargs := [HVar 0; HAgg ACount 1]; cbody := [LPos 0 [TVar 0; TVar 1]; LPos 1 [TVar 0; TWild]] |} in
  let d := [ (0, [[VI64 1; VI64 5]; [VI64 1; VI64 7]; [VI64 2; VI64 5]]); (1, [[VI64 1; VI64 1]; [VI64 1; VI64 2]; [VI64 2; VI64 9]]) ] in
  set_eqb (eval_clause_agg d c) [[VI64 1; VI64 4]; [VI64 2; VI64 1]] = true.
Proof. vm_compute. reflexivity. Qed.

Print Assumptions C06_group_once.
Print Assumptions C06_count_is_number_of_valuations.
Print Assumptions C06_count_exact.
