(* C18 — Materialization and incremental maintenance are invisible.
   Model: Model/Mat.v (KnowledgeGraph write paths + DerivedRelationsManager + snapshot query path,
   and the reference Datalog evaluator `val`).  Proofs: Proofs/Mat.v.

   `query_inc s n`   = what the engine answers for relation n in state s (valid materializations
                       injected into the snapshot, their rules skipped);
   `query_fresh s n` = the reference evaluation of the current rules over the current facts.

   FULL STATEMENT of the property over every operation the storage engine offers, including explicit
   materialization through KnowledgeGraph::materialize_derived_relation:
       forall h n, query_inc (run init h) n = query_fresh (run init h) n.
   The faithful model violates it (C18_refuted_* below, each replayed on the real code by the
   harness); it holds outside four decidable classes of histories (C18_invisible_outside_known) and,
   in particular, for every history made of the property's own operations (C18_invisible). *)
From IL Require Import Model.Value Model.Mat Proofs.Mat.
Open Scope N_scope.

(* The property as stated: histories of base-fact inserts and deletes, rule registrations (with any
   acceptance policy of the catalog), clause removals, rule drops, and enabling incremental
   maintenance at any point.  Unbounded histories, any rule sets (recursive, negated, rules over
   derived relations), any facts.  In the pinned tree this holds because auto-materialization on
   registration never succeeds: nothing is ever materialized (second theorem). *)
Theorem C18_invisible :
  forall h : list op, no_explicit_mat h = true ->
    forall n, query_inc (run init h) n = query_fresh (run init h) n.
Proof. exact invisible_without_explicit_mat. Qed.

Theorem C18_nothing_materialized :
  forall h : list op, no_explicit_mat h = true -> forall n, valid (run init h) n = false.
Proof. exact nothing_materialized_without_explicit_mat. Qed.

(* With explicit materialization (the stored tuples are the engine's own current answer): invisible
   for every history outside the known classes — invariant: every valid materialization belongs to a
   rule whose bodies mention only base relations and itself, all of whose body relations are
   registered for invalidation, and equals the reference evaluation. *)
Theorem C18_invisible_outside_known :
  forall h : list op, known_class h = 0 ->
    forall n, query_inc (run init h) n = query_fresh (run init h) n.
Proof. exact invisible_outside_known. Qed.

(* Refutations of the full statement, one per class (witness histories in Proofs/Mat.v). *)
Theorem C18_refuted_derived_dependency :
  exists h n, known_class h = 1 /\ query_inc (run init h) n <> query_fresh (run init h) n.
Proof. exact refuted_derived. Qed.
Theorem C18_refuted_clause_added :
  exists h n, known_class h = 2 /\ query_inc (run init h) n <> query_fresh (run init h) n.
Proof. exact refuted_clause_added. Qed.
Theorem C18_refuted_clause_removed :
  exists h n, known_class h = 2 /\ query_inc (run init h) n <> query_fresh (run init h) n.
Proof. exact refuted_clause_removed. Qed.
Theorem C18_refuted_registered_before_enable :
  exists h n, known_class h = 3 /\ query_inc (run init h) n <> query_fresh (run init h) n.
Proof. exact refuted_late_enable. Qed.
Theorem C18_refuted_facts_under_head :
  exists h n, known_class h = 4 /\ query_inc (run init h) n <> query_fresh (run init h) n.
Proof. exact refuted_facts_under_head. Qed.

(* Non-vacuity.  A transitive-closure rule is materialized, an unrelated relation changes (the
   materialization stays valid and is what the query returns), then its base relation changes (it
   is invalidated and the rules are evaluated again): class 0 throughout, answers non-empty. *)
Definition ex_hist : list op :=
  [Enable; Insert 0 [t2 1 2; t2 2 3]; Register 11 (cl_copy 11 0) true; Register 11 (cl_step 11 0) true;
   Materialize 11; Insert 1 [t2 7 8]].
Example C18_nonvacuous :
  known_class ex_hist = 0 /\ valid (run init ex_hist) 11 = true /\
  query_inc (run init ex_hist) 11 = [t2 1 2; t2 2 3; t2 1 3] /\
  known_class (ex_hist ++ [Insert 0 [t2 3 4]]) = 0 /\
  valid (run init (ex_hist ++ [Insert 0 [t2 3 4]])) 11 = false /\
  length (query_inc (run init (ex_hist ++ [Insert 0 [t2 3 4]])) 11) = 6%nat.
Proof. vm_compute. repeat split; reflexivity. Qed.

(* a history of the property's own operations with a rule over a derived relation, negation and a
   clause removal *)
Definition ex_plain : list op :=
  [Enable; Insert 0 [t2 1 2; t2 2 3]; Insert 1 [t2 2 3]; Register 10 (cl_copy 10 0) true;
   Register 11 (mkClause (mkAtom 11 [TVar 0; TVar 1])
                  [LPos (mkAtom 10 [TVar 0; TVar 1]); LNeg (mkAtom 1 [TVar 0; TVar 1])]) true;
   Register 11 (cl_copy 11 1) true; RemoveClause 11 1; Delete 0 [t2 2 3]].
Example C18_nonvacuous_plain :
  no_explicit_mat ex_plain = true /\ query_fresh (run init ex_plain) 11 = [t2 1 2].
Proof. vm_compute. split; reflexivity. Qed.

Print Assumptions C18_invisible.
Print Assumptions C18_nothing_materialized.
Print Assumptions C18_invisible_outside_known.
Print Assumptions C18_refuted_derived_dependency.
Print Assumptions C18_refuted_clause_added.
Print Assumptions C18_refuted_clause_removed.
Print Assumptions C18_refuted_registered_before_enable.
Print Assumptions C18_refuted_facts_under_head.
