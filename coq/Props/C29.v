(* C29 — The internal knowledge graph is unreachable for non-admins.
   Same model as C27 (Model/HandlerAuth.v; `internal_kg` = "_internal"). *)
From IL Require Import Model.HandlerAuth Proofs.HandlerAuth.
Open Scope N_scope.

(* For every request of a non-admin identity — any program, role map, stored state and session
   binding: no executed statement runs while _internal is the current knowledge graph (so nothing
   reads or modifies it), none is a `.kg use/create/drop _internal`; its facts, rules and schemas
   are unchanged and it still exists; a session not bound to it is not bound to it afterwards; and a
   session that IS bound to it gets every request refused. *)
Theorem C29_internal_unreachable : forall (req : request) (w : world),
  q_role req <> RAdmin ->
  let res := handle req w in
  Forall (fun p : kgname * stmt => fst p <> internal_kg /\ names_internal (snd p) = false) (d_trace res) /\
  kg_content (d_world res) internal_kg = kg_content w internal_kg /\
  (q_bound req <> Some internal_kg -> d_bound res <> Some internal_kg) /\
  (q_cur req = internal_kg -> d_dec res = Denied).
Proof. exact handle_no_internal. Qed.

(* ... and no `.kg acl` command targets it, unless an admin put the caller on its ACL *)
Theorem C29_no_acl_command_on_internal : forall (req : request) (w : world),
  q_role req <> RAdmin -> role_of (w_acls w) (q_user req) internal_kg = None ->
  Forall (fun p : kgname * stmt => ~ In internal_kg (target_kgs (snd p) [fst p])) (d_trace (handle req w)).
Proof. exact handle_no_acl_on_internal. Qed.

(* ---- pinned behaviour (before the fix): `// c` + `.kg use _internal` + an insert wrote into it *)
Lemma C29_refuted_multiline :
  exists req w,
    q_role req <> RAdmin /\
    kg_content (d_world (handle_pinned req w)) internal_kg <> kg_content w internal_kg /\
    d_bound (handle_pinned req w) = Some internal_kg.
Proof.
  exists (Req RViewer 3 (Some 1) 1 None [Some (St MKgUse (Some 0) ENone 0 None); Some (St SInsert None (EIns 203) 0 None)]),
         (World [(0, []); (1, [MT; MF 100])] [(1, 3, KViewer)]).
  vm_compute. repeat split; congruence.
Qed.

(* non-vacuity: a non-admin request that is executed (and switches KG) satisfies the hypotheses *)
Example C29_nonvacuous :
  let w := World [(0, []); (1, [MT]); (2, [MT])] [(1, 3, KViewer); (2, 3, KEditor)] in
  let req := Req RViewer 3 (Some 1) 1 None [Some (St MKgUse (Some 2) ENone 0 None)] in
  q_role req <> RAdmin /\ d_dec (handle req w) = Ran /\ d_bound (handle req w) = Some 2 /\
  d_dec (handle (Req RViewer 3 (Some 1) 1 None [Some (St MKgUse (Some 0) ENone 0 None)]) w) = Denied.
Proof. vm_compute. repeat split; congruence. Qed.

Print Assumptions C29_internal_unreachable.
Print Assumptions C29_no_acl_command_on_internal.
