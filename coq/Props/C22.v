(* C22 — Every answer can be explained.
   The backward chainer itself is not modelled; what is proved here is the SPECIFICATION side
   of the property (hence `_partial`): whenever the reference says "this tuple has derivation
   depth d" (`depth_of`, the bottom-up stage at which it first appears, negation evaluated
   against the model), a COMPLETE valid proof of height <= d+1 exists.  So the demand the
   oracle of Checks/C22.v makes on the implementation (a complete proof for every answer
   whose depth is within the limit) can always be met.  Missing for the full property: a
   theorem that the chainer finds such a proof; that part is carried by the per-run check on
   the implementation's own output. *)
From IL Require Import Model.Value Model.ProvDatalog Proofs.ProvDatalog Proofs.ProvLevels Model.ProvWhyNot Model.ProvChain.
Open Scope N_scope.

Theorem C22_depth_has_complete_proof_partial :
  forall (P : program) (edb M : db) (fuel : nat) (r : rel) (t : tuple) (d : nat),
    depth_of P edb M fuel r t = Some d ->
    exists tr, valid_proof false P edb M tr /\ concl tr = Some (r, t) /\
               (height tr <= S d)%nat /\ complete tr = true.
Proof. exact depth_of_has_proof. Qed.

(* every tuple the bottom-up levels ever contain has such a proof *)
Theorem C22_level_has_complete_proof_partial :
  forall (P : program) (edb M : db) (k : nat) (r : rel) (t : tuple),
    In t (rel_tuples (level P edb M k) r) ->
    exists tr, valid_proof false P edb M tr /\ concl tr = Some (r, t) /\
               (height tr <= S k)%nat /\ complete tr = true.
Proof. exact level_sound. Qed.

(* and conversely the reference depth is the LEAST such height: any strict valid proof of
   height h puts its conclusion at depth <= h-1 (safe clauses with a positive atom).  So the
   oracle's precondition "depth + 1 <= limit" is exactly "has a derivation within the limit". *)
Theorem C22_depth_is_least_proof_height_partial :
  forall (P : program) (edb M : db),
    (forall c, In c P -> clause_safe c = true /\ pos_atoms (cbody c) <> []) ->
    forall (tr : ptree) (r : rel) (t : tuple) (fuel : nat),
      valid_proof false P edb M tr -> concl tr = Some (r, t) -> (height tr - 1 <= fuel)%nat ->
      exists d, depth_of P edb M fuel r t = Some d /\ (d <= height tr - 1)%nat.
Proof. exact proof_height_bounds_depth. Qed.


(* ---- the implementation side, on the model of the chainer (Model/ProvChain.v, proved sound
   in Props/C21.v, compared with build_proof_tree on every library-path case).
   The full property would read
     forall cx M d r t k, c_der cx = Some d -> (d is the model, one entry per derived relation) ->
       depth_of (c_prog cx) (c_base cx) M fuel r t = Some k -> (S k <= c_max_depth cx)%nat ->
       exists tr, build_proof_tree cx r t = Some tr /\ explained tr = true.
   It is FALSE for the faithful model, in two ways (both reproduced on the real code and
   listed as known findings, classes 1 and 3 of Checks/C22.v): *)
Definition v64 (z : Z) : value := VI64 z.

(* (1) a comparison before the atom that binds its variable: the clause is skipped *)
Definition cmpfirst_P : program :=
  [mkClause (mkAtom 1 [TVar 0]) [LCmp (TVar 0) CLt (TVar 1); LPos (mkAtom 0 [TVar 0; TVar 1])]].
Definition cmpfirst_base : db := [(0, [[v64 1; v64 2]; [v64 2; v64 1]; [v64 3; v64 3]])].
Theorem C22_refuted_comparison_first :
  let M := perfect 5 cmpfirst_P cmpfirst_base (rel_seq 2) in
  let cx := mkCtx cmpfirst_P cmpfirst_base (Some [(1, rel_tuples M 1)]) 50 5 in
  depth_of cmpfirst_P cmpfirst_base M 10 1 [v64 1] = Some 1%nat /\
  forallb bound_before_use cmpfirst_P = false /\
  exists tr, build_proof_tree cx 1 [v64 1] = Some tr /\ explained tr = false.
Proof. cbn zeta. split; [vm_compute; reflexivity|]. split; [vm_compute; reflexivity|]. eexists. split; vm_compute; reflexivity. Qed.

(* (2) recursion over cyclic data, every clause bound_before_use: r3(0,2) has depth 2 through
   r2(0,1), r3(1,2), but the chainer follows r2(0,2), fails on r3(2,2) only because its
   ancestors are on the visited stack, and keeps the Derived-source fallback leaf *)
Definition cyc_P : program :=
  [mkClause (mkAtom 3 [TVar 0; TVar 1]) [LPos (mkAtom 1 [TVar 0; TVar 1])];
   mkClause (mkAtom 3 [TVar 0; TVar 1]) [LPos (mkAtom 2 [TVar 0; TVar 2]); LPos (mkAtom 3 [TVar 2; TVar 1])]].
Definition cyc_base : db :=
  [(1, [[v64 2; v64 1]; [v64 1; v64 1]; [v64 2; v64 3]; [v64 1; v64 2]; [v64 0; v64 3]; [v64 1; v64 3]]);
   (2, [[v64 0; v64 2]; [v64 0; v64 3]; [v64 3; v64 3]; [v64 2; v64 0]; [v64 0; v64 1]; [v64 2; v64 2]])].
Theorem C22_refuted_cycle_cut :
  let M := perfect 20 cyc_P cyc_base (rel_seq 4) in
  let cx := mkCtx cyc_P cyc_base (Some [(3, rel_tuples M 3)]) 50 5 in
  depth_of cyc_P cyc_base M 20 3 [v64 0; v64 2] = Some 2%nat /\
  forallb bound_before_use cyc_P = true /\
  exists tr, build_proof_tree cx 3 [v64 0; v64 2] = Some tr /\ explained tr = false.
Proof. cbn zeta. split; [vm_compute; reflexivity|]. split; [vm_compute; reflexivity|]. eexists. split; vm_compute; reflexivity. Qed.

(* non-vacuity: transitive closure over 0->1->2; r1(0,2) has depth 2 *)
Example C22_nonvacuous :
  let P := [mkClause (mkAtom 1 [TVar 0; TVar 1]) [LPos (mkAtom 0 [TVar 0; TVar 1])];
            mkClause (mkAtom 1 [TVar 0; TVar 1]) [LPos (mkAtom 0 [TVar 0; TVar 2]); LPos (mkAtom 1 [TVar 2; TVar 1])]] in
  let edb := [(0, [[VI64 0; VI64 1]; [VI64 1; VI64 2]])] in
  let M := perfect 10 P edb (rel_seq 2) in
  depth_of P edb M 10 1 [VI64 0; VI64 2] = Some 2%nat /\ in_rel M 1 [VI64 0; VI64 2] = true.
Proof. vm_compute. split; reflexivity. Qed.

Print Assumptions C22_depth_has_complete_proof_partial.
Print Assumptions C22_level_has_complete_proof_partial.
Print Assumptions C22_depth_is_least_proof_height_partial.
Print Assumptions C22_refuted_comparison_first.
Print Assumptions C22_refuted_cycle_cut.
