(* C22 — Every answer can be explained.
   The backward chainer itself is not modelled; what is proved here is the SPECIFICATION side
   of the property (hence `_partial`): whenever the reference says "this tuple has derivation
   depth d" (`depth_of`, the bottom-up stage at which it first appears, negation evaluated
   against the model), a COMPLETE valid proof of height <= d+1 exists.  So the demand the
   oracle of Checks/C22.v makes on the implementation (a complete proof for every answer
   whose depth is within the limit) can always be met.  Missing for the full property: a
   theorem that the chainer finds such a proof; that part is carried by the per-run check on
   the implementation's own output. *)
From IL Require Import Model.Value Model.ProvDatalog Proofs.ProvDatalog Proofs.ProvLevels.
Open Scope N_scope.

Theorem C22_depth_has_complete_proof_partial :
  forall (P : program) (edb M : db) (fuel : nat) (r : rel) (t : tuple) (d : nat),
    depth_of P edb M fuel r t = Some d ->
    exists tr, valid_proof false P edb M tr /\ concl tr = Some (r, t) /\
               (height tr <= S d)%nat /\ complete tr = true.
Proof. exact depth_of_has_proof. Qed.

(* every tuple the bottom-up levels ever contain has such a proof *)
Theorem C22_level_has_complete_proof_partial :
  forall (P : program) (edb M : db) (k : nat) (r : rel) (t : tuple),
    In t (rel_tuples (level P edb M k) r) ->
    exists tr, valid_proof false P edb M tr /\ concl tr = Some (r, t) /\
               (height tr <= S k)%nat /\ complete tr = true.
Proof. exact level_sound. Qed.

(* and conversely the reference depth is the LEAST such height: any strict valid proof of
   height h puts its conclusion at depth <= h-1 (safe clauses with a positive atom).  So the
   oracle's precondition "depth + 1 <= limit" is exactly "has a derivation within the limit". *)
Theorem C22_depth_is_least_proof_height_partial :
  forall (P : program) (edb M : db),
    (forall c, In c P -> clause_safe c = true /\ pos_atoms (cbody c) <> []) ->
    forall (tr : ptree) (r : rel) (t : tuple) (fuel : nat),
      valid_proof false P edb M tr -> concl tr = Some (r, t) -> (height tr - 1 <= fuel)%nat ->
      exists d, depth_of P edb M fuel r t = Some d /\ (d <= height tr - 1)%nat.
Proof. exact proof_height_bounds_depth. Qed.

(* non-vacuity: transitive closure over 0->1->2; r1(0,2) has depth 2 *)
Example C22_nonvacuous :
  let P := [mkClause (mkAtom 1 [TVar 0; TVar 1]) [LPos (mkAtom 0 [TVar 0; TVar 1])];
            mkClause (mkAtom 1 [TVar 0; TVar 1]) [LPos (mkAtom 0 [TVar 0; TVar 2]); LPos (mkAtom 1 [TVar 2; TVar 1])]] in
  let edb := [(0, [[VI64 0; VI64 1]; [VI64 1; VI64 2]])] in
  let M := perfect 10 P edb (rel_seq 2) in
  depth_of P edb M 10 1 [VI64 0; VI64 2] = Some 2%nat /\ in_rel M 1 [VI64 0; VI64 2] = true.
Proof. vm_compute. split; reflexivity. Qed.

Print Assumptions C22_depth_has_complete_proof_partial.
Print Assumptions C22_level_has_complete_proof_partial.
Print Assumptions C22_depth_is_least_proof_height_partial.
