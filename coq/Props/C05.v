(* C05 — IR rewrite passes preserve plan semantics.
   Models: Model/IR.v (IRNode / Predicate / IRExpression and their bag denotation [den], validated
   against CodeGenerator::execute on every run) and Model/Opt.v (Optimizer::optimize: the seven
   rules of apply_all_rules, the ten-round loop, fuse_to_flatmap, fuse_to_join_flatmap with
   remap_projection_for_join_flatmap).  Proofs: Proofs/IR.v, Proofs/Opt.v.

   FULL STATEMENT OF THE PROPERTY (kept visible):
     forall pass in {optimize, plan_joins, specialize}, forall well-formed t, forall d,
       den (pass t) d  ==  den t d.
   What is proved below is weaker in two named ways, hence `_partial`:
   (1) the composite theorem about Optimizer::optimize assumes, besides well-formedness [wfd],
       that the plan contains no `Filter(_, False)` and no `Union []` ([novoid]).  These are the
       only shapes whose schema width (`output_schema().len()`, which the rules consult) is not
       their tuple width; on them the pinned tree really was wrong (repaired in /repo: a Union
       now takes its schema from the first input that has one; corpus case "void-first-union").  The rules that create / remove such shapes are proved
       separately for ALL plans with no hypothesis at all (C05_unconditional_rules);
   (2) JoinPlanner::plan_joins and BooleanSpecializer::specialize are not modelled; for them the
       property is checked by the oracle only (real pass, real execution of both plans).
   Rules covered by C05_optimize_preserves_partial: eliminate_identity_maps,
   eliminate_always_true_filters, eliminate_always_false_filters, fuse_consecutive_maps,
   fuse_consecutive_filters, pushdown_filters (+ adjust/remap of predicate columns),
   eliminate_empty_unions, the 10-round loop, fuse_to_flatmap, fuse_to_join_flatmap
   (+ remap_projection_for_join_flatmap). *)
From Coq Require Import Permutation.
From IL Require Import Model.Value Model.IR Model.Opt Proofs.ValueEq Proofs.IR Proofs.Opt.
Open Scope nat_scope.

(* BAG equivalence (Permutation of the lists of tuples with multiplicities — aggregates above the
   rewritten sub-plan observe multiplicities), for every database and every well-formed plan. *)
Theorem C05_optimize_preserves_partial :
  forall (d : db) (t : ir),
    wfd d t = true -> novoid t = true -> Permutation (den (optimize t) d) (den t d).
Proof. exact optimize_preserves. Qed.

(* what CodeGenerator::execute returns (the final distinct): the same answer set *)
Theorem C05_optimize_preserves_answers :
  forall (d : db) (t : ir),
    wfd d t = true -> novoid t = true -> Permutation (dens (optimize t) d) (dens t d).
Proof.
  intros d t W V. unfold dens. apply dedup_tuples_perm. apply optimize_preserves; assumption.
Qed.

(* the optimizer keeps plans well-formed and keeps their schema width *)
Theorem C05_optimize_keeps_wf :
  forall (d : db) (t : ir),
    wfd d t = true -> novoid t = true ->
    wfd d (optimize t) = true /\ novoid (optimize t) = true /\ width (optimize t) = width t.
Proof.
  intros d t W V. destruct (optimize_ok d t (conj W V)) as [[W' V'] [Hw _]]. auto.
Qed.

(* rules that hold for EVERY plan, well-formed or not, with or without empty branches *)
Theorem C05_unconditional_rules :
  forall (d : db) (t : ir),
    Permutation (den (eliminate_always_true_filters t) d) (den t d) /\
    Permutation (den (eliminate_always_false_filters t) d) (den t d) /\
    Permutation (den (fuse_consecutive_filters t) d) (den t d) /\
    Permutation (den (eliminate_empty_unions t) d) (den t d) /\
    Permutation (den (fuse_to_flatmap t) d) (den t d).
Proof. exact dead_code_rules_preserve. Qed.

(* The defect of the pinned tree (DESIGN §9 row 6), on the model of the ORIGINAL index
   arithmetic: q(X,Y,Z) <- a(X,Y), b(Y,Z), Z > 5 over a = {(1,2)}, b = {(2,7)}. *)
Definition c05_db : db := [(0%N, [[VI64 1; VI64 2]]); (1%N, [[VI64 2; VI64 7]])].
Definition c05_plan : ir :=
  Filter (Join (Scan 0%N [10%N; 11%N]) (Scan 1%N [11%N; 12%N]) [1] [0] [10%N; 11%N; 12%N])
         (PConst OGt 2 5).

Lemma C05_refuted_pushdown_right :
  exists d t, wfd d t = true /\ novoid t = true /\
              ~ Permutation (den (optimize_old t) d) (den t d).
Proof.
  exists c05_db, c05_plan. repeat split; try reflexivity.
  intros P. apply Permutation_length in P. vm_compute in P. discriminate.
Qed.

(* non-vacuity: a well-formed plan that the optimizer really rewrites (filter pushed to the right
   join input, map fused into the join), with a non-empty answer that is preserved *)
Example C05_nonvacuous :
  let t := Map c05_plan [0; 2] [10%N; 12%N] in
  wfd c05_db t = true /\ novoid t = true /\
  optimize t = JoinFlatMap (Scan 0%N [10%N; 11%N])
                           (Filter (Scan 1%N [11%N; 12%N]) (PConst OGt 1 5))
                           [1] [0] [0; 3] None [10%N; 12%N] /\
  den (optimize t) c05_db = [[VI64 1; VI64 7]] /\ den t c05_db = [[VI64 1; VI64 7]].
Proof. vm_compute. repeat split; reflexivity. Qed.

Print Assumptions C05_optimize_preserves_partial.
Print Assumptions C05_optimize_preserves_answers.
Print Assumptions C05_optimize_keeps_wf.
Print Assumptions C05_unconditional_rules.
