(* C20 — Reads observe a committed prefix.
   Model: Model/Conc.v (generic scheduler) + Model/ConcSnap.v (StorageEngine::insert_tuples_into,
   delete_tuples_from, register_rule_in, get_snapshot_for; KnowledgeGraph::insert_in_memory,
   delete_in_memory, register_rule, publish_snapshot).  Proofs: Proofs/Conc.v, Proofs/ConcSnap.v.

   Schedule property, partial by nature: the theorems quantify over ALL programs (any number of
   client threads, any number of operations each) and ALL schedules of the model's atomic
   sections; an atomic section is the span between two sched_point hooks, i.e. a lock-free span or
   one lock scope of the code.  What the model cannot exhibit: interleavings inside a lock scope,
   weak-memory effects, and the correctness of parking_lot::RwLock, DashMap and ArcSwap (the
   snapshot pointer load/store is one atomic step here). *)
From IL Require Import Model.Conc Model.ConcSnap Proofs.Conc Proofs.ConcSnap.
Open Scope N_scope.

(* Operations (sop): multi-tuple insert / delete batches, and every rule-catalog operation that
   publishes a snapshot: register a clause, remove a clause by index (first, middle or last; the
   rule disappears with its last clause), drop a rule, clear a rule, replace a clause.  A rejected
   catalog operation (unknown rule, index out of bounds) is not applied and not acknowledged. *)

(* Every completed read — by any client, under any interleaving with any writers — returned the
   facts and rules as they were after some PREFIX of the final apply order of WHOLE operations
   (state_after folds whole batches with set semantics: a partially applied batch is not such a
   state), and that prefix contains every write the reading client had been acknowledged
   (o_own = the reader's acks when it loaded the snapshot): it reads its own writes. *)
Theorem C20_prefix :
  forall (v0 : view) (progs : list (list sop)) (sched : list nat) (o : obsv),
    let g := snd (run_sched step20 sched (map init_l progs) (init_g v0)) in
    In o (gobs g) ->
    exists k, (k <= length (alog g))%nat /\
              o_view o = state_after v0 (firstn k (alog g)) /\
              incl (o_own o) (map sop_id (firstn k (alog g))).
Proof. exact reads_see_prefix. Qed.

(* At every point of every schedule (threads parked anywhere), the published snapshot and the
   engine state are the state after the complete apply log. *)
Theorem C20_snapshot_committed :
  forall (v0 : view) (progs : list (list sop)) (sched : list nat),
    let g := snd (run_sched step20 sched (map init_l progs) (init_g v0)) in
    snap g = state_after v0 (alog g) /\ live g = state_after v0 (alog g).
Proof. exact snapshot_is_committed. Qed.

(* The apply log consists of operations the clients submitted (nothing is invented). *)
Theorem C20_log_from_programs :
  forall (v0 : view) (progs : list (list sop)) (sched : list nat) (o : sop),
    In o (alog (snd (run_sched step20 sched (map init_l progs) (init_g v0)))) ->
    exists p, In p progs /\ In o p.
Proof. exact log_ops_from_programs. Qed.

(* non-vacuity: a writer with two multi-tuple batches against a reader; the schedule lets the
   reader load between the batches, hold the snapshot while the second batch is applied, and then
   read it out: it sees exactly the first batch; its second read sees both. *)
Example C20_nonvacuous :
  let progs := [[SIns 1 0 [10; 11; 12]; SIns 2 0 [13; 14]]; [SRead 3; SRead 4]] in
  let sched := [0; 0; 0; 1; 0; 0; 0; 1; 1; 1]%nat in
  let g := snd (run_sched step20 sched (map init_l progs) (init_g (mkView [] []))) in
  map (fun o => (o_id o, vfacts (o_view o), o_k o)) (gobs g) =
    [(3, [(0, 10); (0, 11); (0, 12)], 1%nat);
     (4, [(0, 10); (0, 11); (0, 12); (0, 13); (0, 14)], 2%nat)].
Proof. vm_compute. reflexivity. Qed.

(* non-vacuity for the rule catalog: one client registers three clauses of rule 0, removes the
   middle one (not the last remaining clause) and reads at once: it sees clauses 1 and 3; another
   client that read in between still holds the three-clause snapshot; removing clause index 5 is
   rejected and changes nothing *)
Example C20_nonvacuous_rules :
  let progs := [[SRule 1 0 1; SRule 2 0 2; SRule 3 0 3; SRemClause 4 0 1; SRead 5; SRemClause 6 0 5; SRead 7];
                [SRead 8]] in
  let sched := [0; 0; 0; 1; 0; 0; 0; 1; 0; 0; 0]%nat in
  let g := snd (run_sched step20 sched (map init_l progs) (init_g (mkView [] []))) in
  map (fun o => (o_id o, flat_rules (vrules (o_view o)), o_k o)) (gobs g) =
    [(5, [1; 3], 4%nat); (8, [1; 2; 3], 3%nat); (7, [1; 3], 4%nat)].
Proof. vm_compute. reflexivity. Qed.

Print Assumptions C20_prefix.
Print Assumptions C20_snapshot_committed.
Print Assumptions C20_log_from_programs.
