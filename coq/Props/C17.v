(* C17 — Knowledge graphs are isolated and drops are final.
   Model: Model/Conc.v + Model/ConcKG.v (StorageEngine::create_knowledge_graph,
   prepare/finish_drop_knowledge_graph, insert_tuples_into, delete_tuples_from, register_rule_in,
   load_all_knowledge_graphs / load_knowledge_graph_from_persist; FilePersist::ensure_shard, append,
   delete_shard, list_shards).  Proofs: Proofs/Conc.v, Proofs/ConcKG.v.

   The model takes a flag: `true` = the tree with the two `fix:` commits of this property
   (KG names may not contain ':' nor be `persist`/`metadata`; insert/delete re-check under the
   dropping guard that the graph still exists), `false` = the pinned tree.  The theorems are about
   `true`; the `C17_refuted_*` lemmas show that the full statement fails for `false` (both
   witnesses were replayed on the real code before the fixes, see KNOWN_FINDINGS.json `fixed`).

   Schedule part, partial by nature: all programs and all schedules of the model's atomic
   sections (spans between sched_point hooks).  Not expressible in the model: interleavings inside
   a section (e.g. two concurrent saves of knowledge_graphs.json), weak memory, the correctness of
   parking_lot / DashMap.  Rule and schema catalogs are the per-KG directory entry of the model
   (both files live in data_dir/<kg>); known finding outside the theorems' model: two shards whose
   file names coincide after `sanitize_name` (class 2 of the checker). *)
From IL Require Import Model.Conc Model.ConcKG Proofs.Conc Proofs.ConcKG.
Open Scope N_scope.

(* ---------------------------------------------------------------- isolation *)

(* Any atomic section of any operation on KG k — at any point of any schedule — leaves the
   in-memory entry of every other KG k' untouched. *)
Theorem C17_isolation_memory :
  forall (fx : bool) (t : nat) (l : l17) (g : g17) (o : kop) (rest : list kop) (k' : name),
    ktodo l = o :: rest -> kop_target o <> Some k' ->
    lookup k' (mem (snd (kstep fx t l g))) = lookup k' (mem g).
Proof. exact kstep_mem_frame. Qed.

(* ... and, when k contains no ':', also the persisted shards and the directory of k'. *)
Theorem C17_isolation_disk :
  forall (fx : bool) (t : nat) (l : l17) (g : g17) (o : kop) (rest : list kop) (k k' : name),
    ktodo l = o :: rest -> kop_target o = Some k -> k <> k' -> has_colon k = false ->
    diskview k' (snd (kstep fx t l g)) = diskview k' g.
Proof. exact kstep_disk_frame. Qed.

(* Sequential histories (all lengths, with restarts): a whole operation on ANY name k — valid or
   not — changes neither the memory entry nor the disk view of another KG k'. *)
Theorem C17_isolation_seq :
  forall (g : g17) (o : kop) (k k' : name),
    Wf g -> kop_target o = Some k -> k <> k' ->
    lookup k' (mem (snd (seq_op true g o))) = lookup k' (mem g) /\
    diskview k' (snd (seq_op true g o)) = diskview k' g.
Proof. exact seq_op_isolation. Qed.

(* every state reached by a sequential history is well formed (no ':' in KG names) *)
Theorem C17_wellformed :
  forall h : list hitem, Wf (seq_run true kinit_g h).
Proof. intros h. apply Wf_seq_run. apply Wf_init. Qed.

(* A restart loads each discovered KG from that KG's own shards and directory only: two disks
   that agree on the disk view of k produce the same facts and rules for k. *)
Theorem C17_restart_local :
  forall (g1 g2 : g17) (k : name),
    has_colon k = false -> diskview k g1 = diskview k g2 ->
    kfacts (load_kg g1 k) = kfacts (load_kg g2 k) /\ krules (load_kg g1 k) = krules (load_kg g2 k).
Proof. exact restart_local. Qed.
Theorem C17_restart_loads :
  forall (g : g17) (k : name),
    In k (map (fun s => kg_part (fst s)) (shards g) ++ kglist g) ->
    lookup k (mem (restart g)) = Some (load_kg g k).
Proof. exact restart_loads. Qed.

(* ---------------------------------------------------------------- drops are final *)

(* For ALL client programs (creates, drops, re-creates, inserts, deletes, rule registrations, any
   number of threads) and ALL schedules: once every client has returned, every shard on disk
   belongs to a knowledge graph that is in the map, holds only tuples written during that graph's
   CURRENT incarnation (nothing of a dropped incarnation survives, also not inside a re-created
   graph of the same name), and the persisted KG list equals the map. *)
Theorem C17_drop_final_conc :
  forall (progs : list (list kop)) (sched : list nat),
    let r := run_sched (kstep true) sched (map kinit_l progs) kinit_g in
    all_done (fst r) ->
    (forall s ts, In (s, ts) (shards (snd r)) ->
       exists m, lookup (kg_part s) (mem (snd r)) = Some m /\
                 forall x tag, In (x, tag) ts -> tag = kinc m) /\
    kglist (snd r) = keys (mem (snd r)).
Proof. exact drop_final. Qed.

(* hence the next start discovers no knowledge graph that is not in the map: a dropped graph does
   not come back after a restart *)
Theorem C17_no_resurrection :
  forall (progs : list (list kop)) (sched : list nat) (k : name),
    let r := run_sched (kstep true) sched (map kinit_l progs) kinit_g in
    all_done (fst r) -> In k (restart_names (snd r)) -> In k (keys (mem (snd r))).
Proof. exact no_resurrection. Qed.

(* ---------------------------------------------------------------- the pinned tree (flag false) *)
Definition nm_a : name := [97].
Definition nm_ab : name := [97; 58; 98].
Definition nm_k : name := [107].
Definition nm_r : name := [114].

(* KG `a:b`: after a restart its relation r is a relation `b:r` of KG `a` *)
Theorem C17_refuted_colon_name :
  exists h : list hitem,
    let before := seq_run false kinit_g h in
    let after := restart before in
    option_map kfacts (lookup nm_a (mem after)) <> option_map kfacts (lookup nm_a (mem before)).
Proof.
  exists [HOp (KCreate 1 nm_a); HOp (KCreate 2 nm_ab); HOp (KIns 3 nm_ab nm_r [1])].
  vm_compute. discriminate.
Qed.

(* insert passes its view check, the drop runs to completion, the insert persists into `k:r` and
   fails the lookup: the shard has no graph in the map, and the next start resurrects `k` *)
Theorem C17_refuted_insert_drop_race :
  exists (progs : list (list kop)) (sched : list nat),
    let r := run_sched (kstep false) sched (map kinit_l progs) kinit_g in
    all_done (fst r) /\ In nm_k (restart_names (snd r)) /\ ~ In nm_k (keys (mem (snd r))).
Proof.
  exists [[KIns 2 nm_k nm_r [1; 2]]; [KCreate 1 nm_k; KDrop 3 nm_k]],
         [1; 1; 0; 1; 1; 1; 1; 1; 1; 1; 0; 0; 0]%nat.
  vm_compute. split; [|split].
  - repeat constructor.
  - left. reflexivity.
  - intros [H|[]]. discriminate.
Qed.

(* non-vacuity: with the fixes the same programs and schedule end with the insert rejected and
   no shard left; and a drop / re-create history keeps the new incarnation clean *)
Example C17_nonvacuous_race_fixed :
  let r := run_sched (kstep true) [1; 1; 0; 1; 1; 1; 1; 1; 1; 1; 0; 0; 0]%nat
                     (map kinit_l [[KIns 2 nm_k nm_r [1; 2]]; [KCreate 1 nm_k; KDrop 3 nm_k]]) kinit_g in
  all_done (fst r) /\ shards (snd r) = [] /\ map kresults (fst r) = [[(2, KErr 1)]; [(1, KOk); (3, KOk)]].
Proof. vm_compute. split; [repeat constructor | split; reflexivity]. Qed.

Example C17_nonvacuous_seq :
  let g := seq_run true kinit_g
             [HOp (KCreate 1 nm_k); HOp (KIns 2 nm_k nm_r [1; 2]); HOp (KDrop 3 nm_k);
              HOp (KCreate 4 nm_k); HOp (KIns 5 nm_k nm_r [3]); HRestart; HOp (KCreate 6 nm_ab)] in
  option_map kfacts (lookup nm_k (mem g)) = Some [(nm_r, 3)] /\ lookup nm_ab (mem g) = None.
Proof. vm_compute. split; reflexivity. Qed.

Print Assumptions C17_isolation_memory.
Print Assumptions C17_isolation_disk.
Print Assumptions C17_isolation_seq.
Print Assumptions C17_wellformed.
Print Assumptions C17_restart_local.
Print Assumptions C17_restart_loads.
Print Assumptions C17_drop_final_conc.
Print Assumptions C17_no_resurrection.
Print Assumptions C17_refuted_colon_name.
Print Assumptions C17_refuted_insert_drop_race.
