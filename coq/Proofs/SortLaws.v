(* Generic facts used by C35 (and reusable for any sort-then-scan code):
   - the stable insertion sort of Model/WireSort.v returns a sorted permutation for any total preorder;
   - combinators that build total preorders (flip, lexicographic pair, projection);
   - soundness and completeness of the executable specification `is_sorted_slice_of`. *)
From IL Require Import Model.Value Model.WireSort Proofs.OrdLaws.
From Coq Require Import Lia Sorting.Permutation Sorting.Sorted.

Definition le_by {A} (cmp : A -> A -> comparison) (a b : A) : Prop := cmp a b <> Gt.

(* ---------------------------------------------------------------- preorder facts *)
Section Pre.
  Context {A : Type} (P : A -> Prop) (cmp : A -> A -> comparison) (HP : preorder_on P cmp).

  Lemma pre_anti a b : P a -> P b -> cmp a b = CompOpp (cmp b a).
  Proof. apply HP. Qed.
  Lemma pre_trans a b c : P a -> P b -> P c -> cmp a b <> Gt -> cmp b c <> Gt -> cmp a c <> Gt.
  Proof. apply HP. Qed.
  Lemma pre_refl a : P a -> cmp a a = Eq.
  Proof. apply (preorder_refl P cmp HP). Qed.

  Lemma pre_lt_le a b c : P a -> P b -> P c -> cmp a b = Lt -> cmp b c <> Gt -> cmp a c = Lt.
  Proof.
    intros Pa Pb Pc H1 H2.
    assert (cmp a c <> Gt) as H3 by (apply (pre_trans a b c); auto; congruence).
    destruct (cmp a c) eqn:E; auto; [|congruence].
    exfalso. assert (cmp c a <> Gt) as H4 by (rewrite (pre_anti c a), E; cbn; auto; discriminate).
    pose proof (pre_trans b c a Pb Pc Pa H2 H4) as H5.
    rewrite (pre_anti b a), H1 in H5; auto.
  Qed.

  Lemma pre_le_lt a b c : P a -> P b -> P c -> cmp a b <> Gt -> cmp b c = Lt -> cmp a c = Lt.
  Proof.
    intros Pa Pb Pc H1 H2.
    assert (cmp a c <> Gt) as H3 by (apply (pre_trans a b c); auto; congruence).
    destruct (cmp a c) eqn:E; auto; [|congruence].
    exfalso. assert (cmp c a <> Gt) as H4 by (rewrite (pre_anti c a), E; cbn; auto; discriminate).
    pose proof (pre_trans c a b Pc Pa Pb H4 H1) as H5.
    rewrite (pre_anti c b), H2 in H5; auto.
  Qed.

  Lemma pre_eq_eq a b c : P a -> P b -> P c -> cmp a b = Eq -> cmp b c = Eq -> cmp a c = Eq.
  Proof.
    intros Pa Pb Pc H1 H2.
    assert (cmp a c <> Gt) as H3 by (apply (pre_trans a b c); auto; congruence).
    assert (cmp c a <> Gt) as H4.
    { apply (pre_trans c b a); auto; [rewrite (pre_anti c b), H2 | rewrite (pre_anti b a), H1]; auto; cbn; discriminate. }
    rewrite (pre_anti c a) in H4 by auto. destruct (cmp a c); cbn in *; congruence.
  Qed.
End Pre.

Lemma preorder_ext {A} (P : A -> Prop) c c' :
  (forall a b, c a b = c' a b) -> preorder_on P c -> preorder_on P c'.
Proof.
  intros E [Ha Ht]. split.
  - intros a b Pa Pb. rewrite <- (E a b), <- (E b a). auto.
  - intros a b d Pa Pb Pd. rewrite <- (E a b), <- (E b d), <- (E a d). apply Ht; auto.
Qed.

Lemma pre_const {A} (P : A -> Prop) : preorder_on P (fun _ _ => Eq).
Proof. split; intros; cbn; congruence. Qed.

Lemma pre_flip {A} (P : A -> Prop) c : preorder_on P c -> preorder_on P (fun a b => CompOpp (c a b)).
Proof.
  intros [Ha Ht]. split.
  - intros a b Pa Pb. rewrite (Ha a b) by auto. reflexivity.
  - intros a b d Pa Pb Pd H1 H2.
    assert (c b a <> Gt) as G1 by (rewrite (Ha b a) by auto; destruct (c a b); cbn in *; congruence).
    assert (c d b <> Gt) as G2 by (rewrite (Ha d b) by auto; destruct (c b d); cbn in *; congruence).
    pose proof (Ht d b a Pd Pb Pa G2 G1) as G3.
    rewrite (Ha d a) in G3 by auto. destruct (c a d); cbn in *; congruence.
Qed.

Lemma pre_lex2 {A} (P : A -> Prop) c1 c2 :
  preorder_on P c1 -> preorder_on P c2 ->
  preorder_on P (fun a b => match c1 a b with Eq => c2 a b | Lt => Lt | Gt => Gt end).
Proof.
  intros H1 H2. split.
  - intros a b Pa Pb. rewrite (pre_anti P c1 H1 a b), (pre_anti P c2 H2 a b) by auto.
    destruct (c1 b a); reflexivity.
  - intros a b d Pa Pb Pd G1 G2.
    destruct (c1 a b) eqn:E1; [| |congruence]; (destruct (c1 b d) eqn:E2; [| |congruence]).
    + rewrite (pre_eq_eq P c1 H1 a b d) by auto. apply (pre_trans P c2 H2 a b d); auto.
    + rewrite (pre_le_lt P c1 H1 a b d) by (auto; congruence). discriminate.
    + rewrite (pre_lt_le P c1 H1 a b d) by (auto; congruence). discriminate.
    + rewrite (pre_lt_le P c1 H1 a b d) by (auto; congruence). discriminate.
Qed.

(* ---------------------------------------------------------------- the sort *)
Lemma insert_by_perm {A} cmp (x : A) l : Permutation (insert_by cmp x l) (x :: l).
Proof.
  induction l as [|y r IH]; cbn; auto.
  destruct (cmp x y); auto.
  rewrite IH. apply perm_swap.
Qed.

Lemma sort_by_perm {A} cmp (l : list A) : Permutation (sort_by cmp l) l.
Proof.
  induction l as [|x l IH]; cbn; auto.
  rewrite insert_by_perm. auto.
Qed.

Lemma sort_by_length {A} cmp (l : list A) : length (sort_by cmp l) = length l.
Proof. apply Permutation_length, sort_by_perm. Qed.

Lemma insert_by_sorted {A} (P : A -> Prop) cmp x l :
  preorder_on P cmp -> P x -> Forall P l ->
  StronglySorted (le_by cmp) l -> StronglySorted (le_by cmp) (insert_by cmp x l).
Proof.
  intros HP Px. induction l as [|y r IH]; intros Fl Sl; cbn.
  - repeat constructor.
  - inversion Fl as [|? ? Py Fr]; subst. inversion Sl as [|? ? Sr Fy]; subst.
    assert (forall z, In z r -> le_by cmp y z) as Yr by (apply Forall_forall; exact Fy).
    assert (forall z, In z r -> P z) as Pr by (apply Forall_forall; exact Fr).
    destruct (cmp x y) eqn:E.
    + constructor; auto. constructor; [unfold le_by; congruence|].
      apply Forall_forall. intros z Hz. apply (pre_trans P cmp HP x y z); auto; [congruence | apply Yr; auto].
    + constructor; auto. constructor; [unfold le_by; congruence|].
      apply Forall_forall. intros z Hz. apply (pre_trans P cmp HP x y z); auto; [congruence | apply Yr; auto].
    + constructor; [apply IH; auto|].
      apply (Permutation_Forall (Permutation_sym (insert_by_perm cmp x r))).
      constructor; [|exact Fy].
      unfold le_by. rewrite (pre_anti P cmp HP y x), E by auto. cbn. discriminate.
Qed.

Lemma sort_by_sorted {A} (P : A -> Prop) cmp (l : list A) :
  preorder_on P cmp -> Forall P l -> StronglySorted (le_by cmp) (sort_by cmp l).
Proof.
  intros HP. induction l as [|x l IH]; intros Fl; cbn; [constructor|].
  inversion Fl; subst.
  apply (insert_by_sorted P); auto.
  apply (Permutation_Forall (Permutation_sym (sort_by_perm cmp l))). auto.
Qed.

(* ---------------------------------------------------------------- counting *)
Lemma count_if_perm {A} (f : A -> bool) l l' : Permutation l l' -> count_if f l = count_if f l'.
Proof.
  unfold count_if. induction 1; cbn; auto.
  - destruct (f x); cbn; auto.
  - destruct (f x), (f y); cbn; auto.
  - congruence.
Qed.

Lemma count_if_app {A} (f : A -> bool) a b : count_if f (a ++ b) = (count_if f a + count_if f b)%nat.
Proof. unfold count_if. rewrite filter_app, app_length. reflexivity. Qed.

Lemma count_if_le_length {A} (f : A -> bool) l : (count_if f l <= length l)%nat.
Proof. unfold count_if. induction l; cbn; auto. destruct (f a); cbn; lia. Qed.

Lemma count_if_mono {A} (f g : A -> bool) l :
  (forall y, In y l -> f y = true -> g y = true) -> (count_if f l <= count_if g l)%nat.
Proof.
  unfold count_if. induction l as [|x l IH]; intros H; cbn; auto.
  assert (length (filter f l) <= length (filter g l))%nat by (apply IH; intros; apply H; cbn; auto).
  destruct (f x) eqn:F.
  - rewrite (H x) by (cbn; auto). cbn. lia.
  - destruct (g x); cbn; lia.
Qed.

Lemma count_if_all {A} (f : A -> bool) l : (forall y, In y l -> f y = true) -> count_if f l = length l.
Proof.
  unfold count_if. induction l as [|x l IH]; intros H; cbn; auto.
  rewrite (H x) by (cbn; auto). cbn. rewrite IH; auto. intros; apply H; cbn; auto.
Qed.

Lemma count_if_none {A} (f : A -> bool) l : (forall y, In y l -> f y = false) -> count_if f l = O.
Proof.
  unfold count_if. induction l as [|x l IH]; intros H; cbn; auto.
  rewrite (H x) by (cbn; auto). apply IH. intros; apply H; cbn; auto.
Qed.

Lemma leb_by_spec {A} (cmp : A -> A -> comparison) a b : leb_by cmp a b = true <-> cmp a b <> Gt.
Proof. unfold leb_by. destruct (cmp a b); cbn; split; congruence. Qed.
Lemma ltb_by_spec {A} (cmp : A -> A -> comparison) a b : ltb_by cmp a b = true <-> cmp a b = Lt.
Proof. unfold ltb_by. destruct (cmp a b); cbn; split; congruence. Qed.

(* ---------------------------------------------------------------- sorted lists *)
Lemma ssorted_app {A} (R : A -> A -> Prop) a b :
  StronglySorted R (a ++ b) ->
  StronglySorted R a /\ StronglySorted R b /\ (forall x y, In x a -> In y b -> R x y).
Proof.
  induction a as [|x a IH]; cbn; intros H.
  - repeat split; auto. constructor. intros ? ? [].
  - inversion H as [|? ? Hs Hf]; subst. destruct (IH Hs) as [Sa [Sb Hab]].
    rewrite Forall_app in Hf. destruct Hf as [Fa Fb].
    repeat split; auto.
    + constructor; auto.
    + intros u v [->|Hu] Hv; [apply (proj1 (Forall_forall _ _) Fb); auto | apply Hab; auto].
Qed.

Lemma pairwise_le_spec {A} (cmp : A -> A -> comparison) l :
  pairwise_le cmp l = true <-> StronglySorted (le_by cmp) l.
Proof.
  induction l as [|x l IH]; cbn.
  - split; auto. constructor.
  - rewrite andb_true_iff, forallb_forall, IH. split.
    + intros [H1 H2]. constructor; auto. apply Forall_forall. intros y Hy. apply leb_by_spec; auto.
    + intros H; inversion H as [|? ? Hs Hf]; subst. split; auto.
      intros y Hy. apply leb_by_spec. apply (proj1 (Forall_forall _ _) Hf); auto.
Qed.

Section Rank.
  Context {A : Type} (P : A -> Prop) (cmp : A -> A -> comparison) (HP : preorder_on P cmp).

  (* in a sorted list, the element at position |pre| has  #{y < x} <= |pre| < #{y <= x} *)
  Lemma sorted_rank pre x post :
    Forall P (pre ++ x :: post) -> StronglySorted (le_by cmp) (pre ++ x :: post) ->
    (count_if (fun y => ltb_by cmp y x) (pre ++ x :: post) <= length pre)%nat /\
    (length pre < count_if (fun y => leb_by cmp y x) (pre ++ x :: post))%nat.
  Proof.
    intros F S. destruct (ssorted_app _ _ _ S) as [_ [S2 H12]].
    inversion S2 as [|? ? _ Fx]; subst.
    assert (forall z, In z (pre ++ x :: post) -> P z) as Pz by (apply Forall_forall; exact F).
    assert (P x) as Px by (apply Pz, in_or_app; cbn; auto).
    rewrite !count_if_app. split.
    - rewrite (count_if_none _ (x :: post)).
      + pose proof (count_if_le_length (fun y => ltb_by cmp y x) pre). lia.
      + intros y [<-|Hy].
        * unfold ltb_by. rewrite (pre_refl P cmp HP x Px). reflexivity.
        * assert (cmp x y <> Gt) as L by (apply (proj1 (Forall_forall _ _) Fx); auto).
          assert (P y) as Py by (apply Pz, in_or_app; cbn; auto).
          unfold ltb_by. rewrite (pre_anti P cmp HP y x) by auto. destruct (cmp x y); cbn; congruence.
    - rewrite (count_if_all _ pre).
      + cbn. unfold count_if. cbn. unfold leb_by at 1. rewrite (pre_refl P cmp HP x Px). cbn. lia.
      + intros y Hy. apply leb_by_spec. apply H12; cbn; auto.
  Qed.

  (* two elements that may both stand at position p are equivalent *)
  Lemma rank_pins rows p r x :
    Forall P rows -> P r -> P x ->
    rank_ok cmp rows p r = true -> rank_ok cmp rows p x = true -> cmp r x = Eq.
  Proof.
    intros F Pr Px Hr Hx. unfold rank_ok in *.
    apply andb_true_iff in Hr, Hx. destruct Hr as [R1 R2], Hx as [X1 X2].
    apply Nat.leb_le in R1, X1. apply Nat.ltb_lt in R2, X2.
    assert (forall z, In z rows -> P z) as Pz by (apply Forall_forall; exact F).
    destruct (cmp r x) eqn:E; auto; exfalso.
    - assert (count_if (fun y => leb_by cmp y r) rows <= count_if (fun y => ltb_by cmp y x) rows)%nat.
      { apply count_if_mono. intros y Hy L. apply leb_by_spec in L. apply ltb_by_spec.
        apply (pre_le_lt P cmp HP y r x); auto. }
      lia.
    - assert (cmp x r = Lt) as E' by (rewrite (pre_anti P cmp HP x r), E; auto).
      assert (count_if (fun y => leb_by cmp y x) rows <= count_if (fun y => ltb_by cmp y r) rows)%nat.
      { apply count_if_mono. intros y Hy L. apply leb_by_spec in L. apply ltb_by_spec.
        apply (pre_le_lt P cmp HP y x r); auto. }
      lia.
  Qed.

  Lemma ranks_ok_complete rows Srt :
    Permutation Srt rows -> Forall P Srt -> StronglySorted (le_by cmp) Srt ->
    forall res pre post, Srt = pre ++ res ++ post -> ranks_ok cmp rows (length pre) res = true.
  Proof.
    intros Perm F Sd. induction res as [|x r IH]; intros pre post E; cbn; auto.
    apply andb_true_iff. split.
    - unfold rank_ok. rewrite <- !(count_if_perm _ _ _ Perm). subst Srt.
      destruct (sorted_rank pre x (r ++ post) F Sd) as [H1 H2].
      apply andb_true_iff. split; [apply Nat.leb_le | apply Nat.ltb_lt]; auto.
    - replace (Datatypes.S (length pre)) with (length (pre ++ [x])) by (rewrite app_length; cbn; lia).
      apply (IH (pre ++ [x]) post). rewrite E, <- app_assoc. reflexivity.
  Qed.

  Lemma ranks_ok_sound rows Srt :
    Permutation Srt rows -> Forall P Srt -> StronglySorted (le_by cmp) Srt ->
    forall res mid pre post, Srt = pre ++ mid ++ post -> length mid = length res ->
      Forall P res -> ranks_ok cmp rows (length pre) res = true ->
      Forall2 (fun a b => cmp a b = Eq) res mid.
  Proof.
    intros Perm F Sd.
    assert (Forall P rows) as Frows by (apply (Permutation_Forall Perm); auto).
    induction res as [|r res IH]; intros mid pre post E L Fr H.
    - destruct mid; [constructor | discriminate].
    - destruct mid as [|x mid]; [discriminate|]. cbn in H. apply andb_true_iff in H. destruct H as [H1 H2].
      inversion Fr; subst.
      assert (P x) as Px.
      { apply (proj1 (Forall_forall _ _) F). apply in_or_app. right. cbn. auto. }
      constructor.
      + apply (rank_pins rows (length pre)); auto.
        unfold rank_ok. rewrite <- !(count_if_perm _ _ _ Perm).
        destruct (sorted_rank pre x (mid ++ post) F Sd) as [G1 G2].
        apply andb_true_iff. split; [apply Nat.leb_le | apply Nat.ltb_lt]; auto.
      + apply (IH mid (pre ++ [x]) post); auto.
        * rewrite <- app_assoc. reflexivity.
        * rewrite app_length. cbn. rewrite Nat.add_1_r. exact H2.
  Qed.
End Rank.

(* ---------------------------------------------------------------- sub-multiset *)
Section Sub.
  Context {A : Type} (eqb : A -> A -> bool) (eqb_spec : forall x y, eqb x y = true <-> x = y).

  Lemma remove_one_perm x l l' : remove_one eqb x l = Some l' -> Permutation l (x :: l').
  Proof.
    revert l'. induction l as [|y r IH]; cbn; intros l' H; [discriminate|].
    destruct (eqb x y) eqn:E.
    - apply eqb_spec in E. inversion H; subst. auto.
    - destruct (remove_one eqb x r) as [r'|] eqn:R; [|discriminate]. inversion H; subst.
      rewrite (IH r' eq_refl). apply perm_swap.
  Qed.

  Lemma remove_one_in x l : In x l -> exists l', remove_one eqb x l = Some l'.
  Proof.
    induction l as [|y r IH]; cbn; intros H; [contradiction|].
    destruct (eqb x y) eqn:E; [eauto|].
    destruct H as [->|H]; [rewrite (proj2 (eqb_spec x x) eq_refl) in E; discriminate|].
    destruct (IH H) as [l' ->]. eauto.
  Qed.

  Lemma submultiset_complete res : forall rows rest, Permutation (res ++ rest) rows -> submultiset eqb res rows = true.
  Proof.
    induction res as [|x r IH]; cbn; intros rows rest H; auto.
    assert (In x rows) as Hx by (apply (Permutation_in _ H); cbn; auto).
    destruct (remove_one_in x rows Hx) as [rows' R]. rewrite R.
    apply (IH rows' rest). apply remove_one_perm in R.
    apply (Permutation_cons_inv (a := x)). rewrite <- R. exact H.
  Qed.

  Lemma submultiset_sound res : forall rows, submultiset eqb res rows = true -> exists rest, Permutation (res ++ rest) rows.
  Proof.
    induction res as [|x r IH]; cbn; intros rows H; [exists rows; auto|].
    destruct (remove_one eqb x rows) as [rows'|] eqn:R; [|discriminate].
    destruct (IH rows' H) as [rest Hr]. exists rest. apply remove_one_perm in R. rewrite R. auto.
  Qed.
End Sub.

(* ---------------------------------------------------------------- the slice checker *)
Definition slice {A} (limit offset : option nat) (l : list A) : list A :=
  let rem := skipn (match offset with Some o => o | None => O end) l in
  match limit with Some k => firstn k rem | None => rem end.

Lemma slice_length {A} limit offset (l : list A) : length (slice limit offset l) = slice_len (length l) limit offset.
Proof.
  unfold slice, slice_len. destruct limit; [rewrite firstn_length|]; rewrite skipn_length; reflexivity.
Qed.

Lemma slice_decomp {A} limit offset (l : list A) :
  exists post, l = firstn (match offset with Some o => o | None => O end) l ++ slice limit offset l ++ post.
Proof.
  unfold slice. set (o := match offset with Some o => o | None => O end).
  destruct limit as [k|].
  - exists (skipn k (skipn o l)). rewrite (firstn_skipn k), (firstn_skipn o). reflexivity.
  - exists []. rewrite app_nil_r, (firstn_skipn o). reflexivity.
Qed.

Section Checker.
  Context {A : Type} (eqb : A -> A -> bool) (eqb_spec : forall x y, eqb x y = true <-> x = y).
  Context (P : A -> Prop) (cmp : A -> A -> comparison) (HP : preorder_on P cmp).

  (* no false alarm: every slice of every sorted arrangement of rows is accepted *)
  Theorem checker_complete rows Srt limit offset :
    Forall P rows -> Permutation Srt rows -> StronglySorted (le_by cmp) Srt ->
    is_sorted_slice_of eqb cmp rows limit offset (slice limit offset Srt) = true.
  Proof.
    intros F Perm Sd. unfold is_sorted_slice_of.
    assert (Forall P Srt) as FS by (apply (Permutation_Forall (Permutation_sym Perm)); auto).
    destruct (slice_decomp limit offset Srt) as [post E].
    set (o := match offset with Some o => o | None => O end) in *.
    repeat (apply andb_true_iff; split).
    - apply Nat.eqb_eq. rewrite slice_length, (Permutation_length Perm). reflexivity.
    - apply (submultiset_complete eqb eqb_spec _ rows (firstn o Srt ++ post)).
      rewrite <- Perm. rewrite E at 3.
      rewrite Permutation_app_comm, <- app_assoc. apply Permutation_app_head, Permutation_app_comm.
    - apply pairwise_le_spec. rewrite E in Sd.
      destruct (ssorted_app _ _ _ Sd) as [_ [S2 _]]. destruct (ssorted_app _ _ _ S2) as [S3 _]. exact S3.
    - destruct (Nat.le_gt_cases o (length Srt)) as [Le|Gt].
      + replace o with (length (firstn o Srt)) at 1 by (rewrite firstn_length; lia).
        apply (ranks_ok_complete P cmp HP rows Srt Perm FS Sd _ _ post). exact E.
      + unfold slice. fold o. rewrite skipn_all2 by lia. destruct limit; [rewrite firstn_nil|]; reflexivity.
  Qed.

  (* soundness: an accepted answer has the right length, consists of rows of the full answer, and is
     position by position equivalent (compare = Equal) to the slice of the sorted full answer *)
  Theorem checker_sound rows limit offset res :
    Forall P rows -> is_sorted_slice_of eqb cmp rows limit offset res = true ->
    length res = slice_len (length rows) limit offset /\
    (exists rest, Permutation (res ++ rest) rows) /\
    StronglySorted (le_by cmp) res /\
    Forall2 (fun a b => cmp a b = Eq) res (slice limit offset (sort_by cmp rows)).
  Proof.
    intros F H. unfold is_sorted_slice_of in H.
    repeat (apply andb_true_iff in H; destruct H as [H ?]).
    apply Nat.eqb_eq in H. rename H0 into Hrk, H1 into Hpw, H2 into Hsub.
    destruct (submultiset_sound eqb eqb_spec _ _ Hsub) as [rest Hrest].
    split; [exact H|]. split; [eauto|]. split; [apply pairwise_le_spec; exact Hpw|].
    set (Srt := sort_by cmp rows).
    assert (Permutation Srt rows) as Perm by apply sort_by_perm.
    assert (Forall P Srt) as FS by (apply (Permutation_Forall (Permutation_sym Perm)); auto).
    assert (StronglySorted (le_by cmp) Srt) as Sd by (apply (sort_by_sorted P); auto).
    assert (Forall P res) as Fres.
    { apply Forall_forall. intros x Hx. apply (proj1 (Forall_forall _ _) F).
      apply (Permutation_in _ Hrest). apply in_or_app; auto. }
    destruct (slice_decomp limit offset Srt) as [post E].
    set (o := match offset with Some o => o | None => O end) in *.
    assert (length (slice limit offset Srt) = length res) as L.
    { rewrite slice_length, H. unfold Srt. rewrite sort_by_length. reflexivity. }
    destruct (Nat.le_gt_cases o (length Srt)) as [Le|Gt].
    - apply (ranks_ok_sound P cmp HP rows Srt Perm FS Sd res _ (firstn o Srt) post E L Fres).
      rewrite firstn_length. replace (Nat.min o (length Srt)) with o by lia. exact Hrk.
    - assert (slice limit offset Srt = []) as Z.
      { unfold slice. fold o. rewrite skipn_all2 by lia. destruct limit; [rewrite firstn_nil|]; reflexivity. }
      rewrite Z in *. destruct res; [constructor | discriminate].
  Qed.
End Checker.
