(* Proofs/SyntaxRule.v — atoms, body predicates and rules: parse_rule (show_rule r) = Some r *)
From Coq Require Import String.
From IL Require Import Model.Syntax Model.SyntaxWf Proofs.SyntaxBase Proofs.SyntaxArith Proofs.SyntaxArith2
  Proofs.SyntaxArith3 Proofs.SyntaxScan Proofs.SyntaxTerm Proofs.SyntaxParse.
Open Scope N_scope.

Lemma length_join_in (x : str) l : In x l -> (length x <= length (join_cs l))%nat.
Proof.
  induction l as [|y l IH]; intros I. contradiction.
  unfold join_cs in *. cbn [join]. destruct l as [|z l].
  - destruct I as [->|[]]. lia.
  - rewrite !app_length. destruct I as [->|I]. lia. specialize (IH I). lia.
Qed.
Lemma length_join_sum {A} (f : A -> str) (g : A -> nat) l :
  (forall a, In a l -> (g a <= length (f a))%nat) ->
  (list_sum (List.map g l) <= length (join_cs (List.map f l)))%nat.
Proof.
  induction l as [|y l IH]; intros H. cbn. lia.
  unfold join_cs in *. cbn [List.map join list_sum fold_right].
  pose proof (H y (or_introl eq_refl)).
  assert (IH' := IH (fun a I => H a (or_intror I))). unfold list_sum in IH'.
  destruct (List.map f l) eqn:M.
  - destruct l; try discriminate. cbn. lia.
  - rewrite !app_length. lia.
Qed.

Lemma trim_snoc_sp L : first_nws L = true -> last_nws L = true -> trim (L ++ [32]) = L.
Proof.
  intros F La. unfold trim. rewrite (drop_ws_id _ (first_nws_app L [32] F)).
  rewrite rev_app_distr. cbn [rev app drop_ws]. change (is_ws 32) with true. cbv iota.
  unfold last_nws in La. rewrite (drop_ws_id _ La). apply rev_involutive.
Qed.

Section WithEnv.
Variable E : env.

Lemma parse_term_trim_eq n s s' : trim s = trim s' -> parse_term E n s = parse_term E n s'.
Proof. intros H. destruct n; cbn [parse_term]; auto. rewrite H. reflexivity. Qed.

(* fuel: the length of any text containing the printed term is enough *)
Lemma tneed_le t : wf_term E t = true -> (tneed t <= length (show_term E t))%nat.
Proof.
  induction t as [s|z| |g v|a|f args IH|xs|b|s|b] using term_ind'; intros W;
    try (pose proof (tgood_ne E _ (proj1 (good_term E _ W))) as NE; cbn [tneed];
         destruct (show_term E _); [congruence|cbn [length]; lia]).
  cbn [wf_term] in W. apply andb_true_iff in W as [WB WA].
  cbn [tneed show_term]. rewrite app_length. cbn [length]. rewrite app_length. cbn [length].
  rewrite Forall_forall in IH.
  pose proof (length_join_sum (show_term E) tneed args
                (fun a I => IH a I (forallb_In _ _ _ WA I))).
  destruct (builtin_props f WB) as (NE & _ & _). destruct f; [congruence|]. cbn [length]. lia.
Qed.
Lemma parse_term_fuel t n : wf_term E t = true -> (length (show_term E t) <= n)%nat ->
  parse_term E n (show_term E t) = Some t.
Proof. intros W L. apply parse_term_rt; auto. pose proof (tneed_le t W). lia. Qed.

(* ------------------------------------------------------------------ atoms *)
Definition args_text (args : list term) : str := join_cs (List.map (show_term E) args).
Lemma show_atom_eq r args : show_atom E (Atom r args) = r ++ 40 :: args_text args ++ [41].
Proof. reflexivity. Qed.

Lemma args_tgood args : forallb (wf_term E) args = true ->
  Forall (fun x => tgood E x) (List.map (show_term E) args).
Proof.
  intros W. apply Forall_forall. intros x Hx. apply in_map_iff in Hx as (a & <- & Ia).
  destruct (good_term E a (forallb_In _ _ _ W Ia)) as [G _]. exact G.
Qed.

Lemma sgood_call r (xs : list str) : ident r = true -> Forall (fun x => tgood E x) xs ->
  sgood E (r ++ 40 :: join_cs xs ++ [41]).
Proof.
  intros I TA. unfold ident in I. destruct r as [|c r]; try discriminate.
  apply tgood_wrap_paren; auto.
  - discriminate.
  - cbn [app first_nws forallb] in *. apply andb_true_iff in I as [I _]. rewrite (idc_nws c I). reflexivity.
  - apply forallb_join; try reflexivity. eapply Forall_impl; [|exact TA]. intros x G. apply G.
  - apply sa_bal_join. eapply Forall_impl; [|exact TA]. intros x G. apply sa_closed_bal, G.
  - apply sb_bal1_join. eapply Forall_impl; [|exact TA]. intros x G. apply G.
  - apply fb_join. eapply Forall_impl; [|exact TA]. intros x G. apply G.
  - apply has_arrow_join. eapply Forall_impl; [|exact TA]. intros x G. split; apply G.
  - apply not_lt_last_join. eapply Forall_impl; [|exact TA]. intros x G.
    split. apply G. apply (tgood_ne E x G).
Qed.
Lemma sgood_atom r args : ident r = true -> forallb (wf_term E) args = true ->
  sgood E (show_atom E (Atom r args)).
Proof. intros I W. rewrite show_atom_eq. apply sgood_call; auto. apply args_tgood; auto. Qed.

Lemma parse_atom_rt r args : wf_atom E (Atom r args) = true ->
  parse_atom E (show_atom E (Atom r args)) = Some (Atom r args).
Proof.
  intros W. cbn [wf_atom] in W. apply andb_true_iff in W as [I WA].
  pose proof (sgood_atom r args I WA) as G. pose proof (args_tgood args WA) as TA.
  unfold parse_atom. rewrite (tgood_trim E _ (sg_t _ _ G)). rewrite show_atom_eq.
  assert (IR : forallb idc r = true /\ r <> []).
  { unfold ident in I. destruct r; [discriminate|]. split; auto. discriminate. }
  destruct IR as [IR NE].
  rewrite (find_char_hit 40 r (args_text args ++ [41]) [])
    by (eapply forallb_impl; [|exact IR]; intros c H; clear - H; cfact).
  rewrite last_is_snoc, removelast_last. cbn [rev app].
  assert (TR : trim r = r).
  { apply trim_all_nws. eapply forallb_impl; [|exact IR]. intros c H. rewrite (idc_nws c H). reflexivity. }
  rewrite TR. destruct args as [|a args]. reflexivity.
  assert (TJ : trim (args_text (a :: args)) = args_text (a :: args)).
  { apply trim_id.
    - unfold args_text. cbn [List.map]. apply first_nws_join. inversion TA; subst. apply H1.
    - unfold args_text. apply last_nws_join. discriminate.
      eapply Forall_impl; [|exact TA]. intros x Gx. apply Gx. }
  rewrite TJ. destruct (args_text (a :: args)) eqn:EJ.
  { exfalso. unfold args_text, join_cs in EJ. cbn [List.map join] in EJ. inversion TA; subst.
    pose proof (tgood_ne _ _ H1). destruct (List.map (show_term E) args); [congruence|].
    apply app_eq_nil in EJ. tauto. }
  rewrite <- EJ. unfold args_text. rewrite split_args_join.
  - cbn [rev].
    assert (R : forall x, In x (a :: args) ->
                parse_term E (term_fuel (r ++ 40 :: args_text (a :: args) ++ [41])) (show_term E x) = Some x /\
                parse_term E (term_fuel (r ++ 40 :: args_text (a :: args) ++ [41])) (32 :: show_term E x) = Some x).
    { intros x Ix. rewrite parse_term_sp.
      assert (P : parse_term E (term_fuel (r ++ 40 :: args_text (a :: args) ++ [41])) (show_term E x) = Some x).
      { apply parse_term_fuel. eapply forallb_In; eauto.
        unfold term_fuel. rewrite app_length. cbn [length]. rewrite app_length.
        pose proof (length_join_in (show_term E x) (List.map (show_term E) (a :: args)) (in_map _ _ _ Ix)).
        unfold args_text. lia. }
      auto. }
    pose proof (all_some_pieces _ (show_term E) (a :: args) R) as QQ.
    exact (f_equal (option_map (Atom r)) QQ).
  - discriminate.
  - eapply Forall_impl; [|exact TA]. intros x Gx. split. apply Gx. apply (tgood_ne _ _ Gx).
Qed.

(* ------------------------------------------------------------------ body predicates *)
Definition op_text (o : cmpop) : str := show_cmpop o.
Lemma show_cmp_eq l o r :
  show_bpred E (BCmp l o r) = show_term E l ++ 32 :: op_text o ++ 32 :: show_term E r.
Proof. reflexivity. Qed.

Lemma side_sgood t : wf_side E t = true -> wf_term E t = true /\ sgood E (show_term E t).
Proof.
  unfold wf_side. intros W. apply andb_true_iff in W as [W S]. split; auto.
  apply (good_term E t W). unfold side_ok. exact S.
Qed.

Lemma noeq_61 T : forallb noeqc T = true -> forallb (fun c => negb (c =? 61)) T = true.
Proof.
  intros H. eapply forallb_impl; [|exact H]. intros c Q. unfold noeqc in Q.
  apply negb_true_iff in Q. apply orb_false_iff in Q as [Q _]. rewrite Q. reflexivity.
Qed.

(* find_op over "L op R": nothing is found inside L; the operator text decides *)
Lemma find_op_cmp op0 op L rest : opstart op0 = true -> sgood E L ->
  find_op (op0 :: op) (L ++ rest) [] 0 = find_op (op0 :: op) rest (rev L) 0.
Proof.
  intros O G. rewrite (find_op_run op0 op L rest [] 0 0 O (sg_fo _ _ G 0 (N.le_refl 0))).
  rewrite app_nil_r. reflexivity.
Qed.
Lemma find_op_tail op0 op R pre : opstart op0 = true -> sgood E R ->
  find_op (op0 :: op) R pre 0 = None.
Proof.
  intros O G. rewrite <- (app_nil_r R).
  rewrite (find_op_run op0 op R [] pre 0 0 O (sg_fo _ _ G 0 (N.le_refl 0))). reflexivity.
Qed.

Definition opv (o : cmpop) : str :=
  match o with CEq => [61] | CNe => [33; 61] | CLt => [60] | CLe => [60; 61] | CGt => [62] | CGe => [62; 61] end.
Lemma op_text_val o : op_text o = opv o.
Proof. destruct o; reflexivity. Qed.
Lemma cmp_ops_val : cmp_ops =
  [([33; 61], CNe); ([60; 61], CLe); ([62; 61], CGe); ([60], CLt); ([62], CGt); ([61], CEq)].
Proof. reflexivity. Qed.

Lemma try_ops_cmp l o r : wf_side E l = true -> wf_side E r = true ->
  try_ops E cmp_ops (show_bpred E (BCmp l o r)) = Some (Some (BCmp l o r)).
Proof.
  intros Wl Wr. destruct (side_sgood l Wl) as [WTl Gl]. destruct (side_sgood r Wr) as [WTr Gr].
  rewrite show_cmp_eq.
  set (L := show_term E l) in *. set (R := show_term E r) in *.
  assert (PL : forall n, (length L <= n)%nat -> parse_term E n (L ++ [32]) = Some l).
  { intros n Hn. rewrite (parse_term_trim_eq _ (L ++ [32]) L).
    - apply parse_term_fuel; auto.
    - rewrite trim_snoc_sp; [|apply Gl|apply Gl]. symmetry. apply (tgood_trim E). apply Gl. }
  assert (PR : forall n, (length R <= n)%nat -> parse_term E n (32 :: R) = Some r).
  { intros n Hn. rewrite parse_term_sp. apply parse_term_fuel; auto. }
  rewrite cmp_ops_val. rewrite (op_text_val o).
  destruct o; cbn [try_ops app opv];
    repeat (rewrite find_op_cmp by (first [reflexivity | assumption]);
            cbn [find_op starts_with app length skipn rev]; ceq;
            try (rewrite find_op_tail by (first [reflexivity | assumption])));
    cbn [rev app]; rewrite ?rev_involutive;
    (rewrite PL by (unfold term_fuel; rewrite app_length; cbn [length]; lia));
    (rewrite PR by (unfold term_fuel; rewrite app_length; cbn [length]; lia));
    reflexivity.
Qed.


(* ------------------------------------------------------------------ hnsw_nearest( prefix *)
Lemma starts_with_name p : forall r rest,
  forallb (fun c => negb (c =? 40)) p = true -> forallb (fun c => negb (c =? 40)) r = true ->
  starts_with (p ++ [40]) (r ++ 40 :: rest) = str_eqb p r.
Proof.
  induction p as [|x p IH]; intros r rest Hp Hr; destruct r as [|y r]; cbn [app starts_with str_eqb forallb] in *.
  - reflexivity.
  - apply andb_true_iff in Hr as [Hy _]. apply negb_true_iff in Hy. rewrite N.eqb_sym, Hy. reflexivity.
  - apply andb_true_iff in Hp as [Hx _]. apply negb_true_iff in Hx. rewrite Hx. reflexivity.
  - apply andb_true_iff in Hp as [_ Hp]. apply andb_true_iff in Hr as [_ Hr]. rewrite IH by auto. reflexivity.
Qed.
Lemma atom_not_hnsw r args : ident r = true -> str_eqb r (lit "hnsw_nearest"%string) = false ->
  starts_with hnsw_prefix (show_atom E (Atom r args)) = false.
Proof.
  intros I NH. rewrite show_atom_eq.
  change hnsw_prefix with (lit "hnsw_nearest"%string ++ [40]).
  rewrite starts_with_name.
  - rewrite str_eqb_sym. exact NH.
  - reflexivity.
  - unfold ident in I. destruct r; [discriminate|]. eapply forallb_impl; [|exact I].
    intros c H. clear - H. cfact.
Qed.

(* ------------------------------------------------------------------ texts of body predicates *)
Record bgood (P : str) : Prop := mkBgood {
  bg_first : first_nws P = true;
  bg_last : last_nws P = true;
  bg_sb : forall prev, sb_run E P prev 0 0 = Some (0, 0);
  bg_arrow : has_arrow P = false;
  bg_nlt : not_lt_last P = true }.
Lemma bgood_ne P : bgood P -> P <> [].
Proof. intros G ->. pose proof (bg_first _ G). discriminate. Qed.
Lemma bgood_of_sgood P : sgood E P -> bgood P.
Proof.
  intros G. constructor; try apply G. intros prev. apply (sg_sb _ _ G). lia.
Qed.

Lemma not_lt_last_cons a t : t <> [] -> not_lt_last (a :: t) = not_lt_last t.
Proof. intros NE. change (a :: t) with ([a] ++ t). apply not_lt_last_app. exact NE. Qed.

Lemma mid_sb o prev : sb_run E (32 :: opv o ++ [32]) prev 0 0 = Some (0, 0).
Proof. destruct o; vm_compute; reflexivity. Qed.
Lemma cmp_split (L : str) o (R : str) : L ++ 32 :: opv o ++ 32 :: R = L ++ (32 :: opv o ++ [32]) ++ R.
Proof. cbn [app]. rewrite <- app_assoc. reflexivity. Qed.

Lemma bgood_cmp l o r : wf_side E l = true -> wf_side E r = true -> bgood (show_bpred E (BCmp l o r)).
Proof.
  intros Wl Wr. destruct (side_sgood l Wl) as [_ Gl]. destruct (side_sgood r Wr) as [_ Gr].
  rewrite show_cmp_eq, (op_text_val o).
  set (L := show_term E l) in *. set (R := show_term E r) in *.
  pose proof (tgood_ne _ _ (sg_t _ _ Gr)) as NR.
  constructor.
  - apply first_nws_app. apply Gl.
  - apply last_nws_app. destruct o; cbn [app opv]; repeat apply last_nws_cons; apply Gr.
  - intros prev. rewrite (cmp_split L o R). rewrite sb_run_app. rewrite (sg_sb _ _ Gl) by lia.
    rewrite sb_run_app, mid_sb. apply (sg_sb _ _ Gr). lia.
  - apply has_arrow_app; [apply Gl| |apply Gl].
    destruct o; cbn [app has_arrow opv]; ceq; destruct R; try congruence; ceq; apply Gr.
  - rewrite not_lt_last_app. 2:{ destruct o; discriminate. }
    destruct o; cbn [app opv]; repeat (rewrite not_lt_last_cons by (try discriminate; exact NR)); apply Gr.
Qed.

(* ------------------------------------------------------------------ hnsw_nearest(..) *)
Definition hnsw_args (idx : str) (q : term) (k : N) (idv dv : str) (ef : option N) : list str :=
  [34 :: idx ++ [34]; show_term E q; show_N k; idv; dv] ++ match ef with Some e => [show_N e] | None => [] end.
Lemma hnsw_text idx q k idv dv ef :
  show_bpred E (BHnsw idx q k idv dv ef)
  = lit "hnsw_nearest"%string ++ 40 :: join_cs (hnsw_args idx q k idv dv ef) ++ [41].
Proof.
  unfold show_bpred, hnsw_args, join_cs. destruct ef; cbn [app join];
    change (lit "hnsw_nearest(""") with (lit "hnsw_nearest" ++ [40; 34]);
    change (lit """, ") with [34; 44; 32]; repeat (rewrite <- ?app_assoc; cbn [app]); reflexivity.
Qed.
Lemma wf_uvar_parts s : wf_uvar s = true ->
  ident s = true /\ exists c t, s = c :: t /\ is_aupper c = true.
Proof.
  unfold wf_uvar. intros H. apply andb_true_iff in H as [I U]. split; auto.
  destruct s as [|c t]; [discriminate|]. eauto.
Qed.
Lemma tgood_ident s : ident s = true -> tgood E s.
Proof.
  intros I. unfold ident in I. destruct s as [|c s]; [discriminate|].
  apply (sg_t E). apply sgood_lc. discriminate. eapply forallb_impl; [apply idc_lc|exact I].
Qed.
Lemma tgood_digits n : tgood E (show_N n).
Proof.
  apply (sg_t E). apply sgood_lc. apply show_N_nonempty.
  eapply forallb_impl; [|apply show_N_digits]. intros c D. apply idc_lc, digit_idc, D.
Qed.
Lemma sgood_quoted idx : wf_str idx = true -> sgood E (34 :: idx ++ [34]).
Proof.
  intros WI. apply sgood_plain.
  - reflexivity.
  - change (34 :: idx ++ [34]) with ((34 :: idx) ++ [34]). apply last_nws_snoc. reflexivity.
  - cbn [forallb]. rewrite forallb_app. unfold wf_str in WI. rewrite WI. reflexivity.
Qed.
Lemma hnsw_args_tgood idx q k idv dv ef :
  wf_str idx = true -> wf_term E q = true -> ident idv = true -> ident dv = true ->
  Forall (fun x => tgood E x) (hnsw_args idx q k idv dv ef).
Proof.
  intros WI WQ I1 I2. unfold hnsw_args. apply Forall_app. split.
  - apply Forall_cons; [|apply Forall_cons; [|apply Forall_cons; [|apply Forall_cons; [|apply Forall_cons; [|apply Forall_nil]]]]].
    + apply (sg_t E). apply sgood_quoted. exact WI.
    + destruct (good_term E q WQ) as [Gq _]. exact Gq.
    + apply tgood_digits.
    + apply tgood_ident; auto.
    + apply tgood_ident; auto.
  - destruct ef; [apply Forall_cons; [apply tgood_digits|apply Forall_nil]|apply Forall_nil].
Qed.
Lemma wf_hnsw_parts idx q k idv dv ef : wf_bpred E (BHnsw idx q k idv dv ef) = true ->
  wf_str idx = true /\ wf_term E q = true /\ 1 <= k /\ k < 18446744073709551616 /\
  wf_uvar idv = true /\ wf_uvar dv = true /\
  match ef with Some e => e < 18446744073709551616 | None => True end.
Proof.
  cbn [wf_bpred]. intros W. repeat (apply andb_true_iff in W as [W ?]).
  repeat split; auto. apply N.leb_le; auto. apply N.ltb_lt; auto.
  destruct ef; auto. apply N.ltb_lt; auto.
Qed.
Lemma sgood_hnsw idx q k idv dv ef : wf_bpred E (BHnsw idx q k idv dv ef) = true ->
  sgood E (show_bpred E (BHnsw idx q k idv dv ef)).
Proof.
  intros W. destruct (wf_hnsw_parts _ _ _ _ _ _ W) as (WI & WQ & _ & _ & U1 & U2 & _).
  rewrite hnsw_text. apply sgood_call. reflexivity.
  apply hnsw_args_tgood; auto; [apply (wf_uvar_parts idv U1)|apply (wf_uvar_parts dv U2)].
Qed.

Lemma skipn_app_len {A} (a b : list A) : skipn (length a) (a ++ b) = b.
Proof. induction a; cbn; auto. Qed.
Lemma trim_digits n : trim (32 :: show_N n) = show_N n.
Proof. rewrite trim_sp. apply (tgood_trim E). apply tgood_digits. Qed.
Lemma trim_ident_sp s : ident s = true -> trim (32 :: s) = s.
Proof. intros I. rewrite trim_sp. apply (tgood_trim E). apply tgood_ident; auto. Qed.

Lemma try_hnsw_rt idx q k idv dv ef : wf_bpred E (BHnsw idx q k idv dv ef) = true ->
  try_hnsw E (show_bpred E (BHnsw idx q k idv dv ef)) = Some (Some (BHnsw idx q k idv dv ef)).
Proof.
  intros W. pose proof (sgood_hnsw _ _ _ _ _ _ W) as G.
  destruct (wf_hnsw_parts _ _ _ _ _ _ W) as (WI & WQ & K1 & K2 & U1 & U2 & EF).
  destruct (wf_uvar_parts idv U1) as (I1 & c1 & t1 & E1 & A1).
  destruct (wf_uvar_parts dv U2) as (I2 & c2 & t2 & E2 & A2).
  unfold try_hnsw. rewrite (tgood_trim E _ (sg_t _ _ G)).
  assert (FUEL : parse_term E (term_fuel (show_bpred E (BHnsw idx q k idv dv ef))) (32 :: show_term E q) = Some q).
  { rewrite parse_term_sp. apply parse_term_fuel; auto. unfold term_fuel. rewrite hnsw_text.
    rewrite app_length. cbn [length]. rewrite app_length.
    assert (IN : In (show_term E q) (hnsw_args idx q k idv dv ef)) by (unfold hnsw_args; cbn; auto).
    pose proof (length_join_in (show_term E q) (hnsw_args idx q k idv dv ef) IN). lia. }
  remember (term_fuel (show_bpred E (BHnsw idx q k idv dv ef))) as fuel eqn:EFU in *. clear EFU.
  rewrite hnsw_text.
  change (lit "hnsw_nearest"%string ++ 40 :: join_cs (hnsw_args idx q k idv dv ef) ++ [41])
    with (hnsw_prefix ++ join_cs (hnsw_args idx q k idv dv ef) ++ [41]).
  rewrite starts_with_self. rewrite app_assoc, last_is_snoc. cbn [andb negb].
  rewrite <- app_assoc, skipn_app_len, removelast_last.
  rewrite split_args_join.
  2:{ unfold hnsw_args. discriminate. }
  2:{ eapply Forall_impl; [|apply (hnsw_args_tgood idx q k idv dv ef WI WQ I1 I2)].
      intros x Gx. split. apply Gx. apply (tgood_ne _ _ Gx). }
  unfold hnsw_args. cbn [app rev List.map].
  rewrite (tgood_trim E (34 :: idx ++ [34]) (sg_t E _ (sgood_quoted idx WI))).
  cbn [first_is]. ceq. rewrite last_is_cons_snoc. ceq. rewrite length_cons_snoc. cbn [negb].
  rewrite inner_cons_snoc, FUEL, trim_digits, (parse_usize_show k K2).
  assert (KZ : (k =? 0) = false) by (apply N.eqb_neq; lia). rewrite KZ.
  rewrite (trim_ident_sp idv I1), (trim_ident_sp dv I2). rewrite E1, E2.
  rewrite (is_upper_ascii E c1 A1), (is_upper_ascii E c2 A2). cbn [negb].
  destruct ef as [e|]; cbn [List.map].
  - rewrite trim_digits, (parse_usize_show e EF). reflexivity.
  - reflexivity.
Qed.

Lemma wf_atom_parts r args : wf_atom E (Atom r args) = true ->
  ident r = true /\ forallb (wf_term E) args = true.
Proof. cbn [wf_atom]. intros W. apply andb_true_iff in W. exact W. Qed.

Lemma bgood_bpred b : wf_bpred E b = true -> bgood (show_bpred E b).
Proof.
  destruct b as [[r args]|[r args]|l o r|idx q k idv dv ef]; intros W;
    [| | |apply bgood_of_sgood; apply sgood_hnsw; exact W]; cbn [wf_bpred] in W.
  - apply andb_true_iff in W as [W _]. destruct (wf_atom_parts r args W) as [I WA].
    apply bgood_of_sgood. apply sgood_atom; auto.
  - destruct (wf_atom_parts r args W) as [I WA]. pose proof (sgood_atom r args I WA) as G.
    cbn [show_bpred]. constructor.
    + reflexivity.
    + apply last_nws_cons. apply G.
    + intros prev. cbn [sb_run]. ceq. apply (sg_sb _ _ G). lia.
    + cbn [has_arrow]. ceq. destruct (show_atom E (Atom r args)); apply G || reflexivity.
    + change (33 :: show_atom E (Atom r args)) with ([33] ++ show_atom E (Atom r args)).
      rewrite not_lt_last_app. apply G. apply (tgood_ne E _ (sg_t _ _ G)).
  - apply andb_true_iff in W as [W _]. apply andb_true_iff in W as [Wl Wr]. apply bgood_cmp; auto.
Qed.

(* ------------------------------------------------------------------ parse_bpred *)
Lemma has_eqeq_cmp L o R : forallb noeqc L = true -> forallb noeqc R = true ->
  has_eqeq (L ++ 32 :: opv o ++ 32 :: R) = false.
Proof.
  intros HL HR. rewrite has_eqeq_skip by (apply noeq_61; auto).
  pose proof (has_eqeq_noeq R (noeq_61 R HR)) as ER.
  destruct o; cbn [app has_eqeq opv]; ceq; rewrite ER; destruct R; reflexivity.
Qed.

Lemma atom_first r args : ident r = true ->
  exists c t, show_atom E (Atom r args) = c :: t /\ idc c = true.
Proof.
  intros I. unfold ident in I. destruct r as [|c r]; try discriminate.
  exists c, (r ++ 40 :: args_text args ++ [41]). split. reflexivity.
  cbn [forallb] in I. apply andb_true_iff in I. tauto.
Qed.

Lemma try_cmp_atom r args : ident r = true -> forallb (wf_term E) args = true ->
  try_cmp E (show_atom E (Atom r args)) = Some None.
Proof.
  intros I WA. pose proof (sgood_atom r args I WA) as G. unfold try_cmp.
  rewrite has_eqeq_noeq by (apply noeq_61; apply G).
  rewrite cmp_ops_val. cbn [try_ops].
  rewrite !find_op_none by (first [reflexivity | apply G]). reflexivity.
Qed.

Theorem parse_bpred_rt b : wf_bpred E b = true -> parse_bpred E (show_bpred E b) = Some b.
Proof.
  intros W. pose proof (bgood_bpred b W) as G. unfold parse_bpred.
  rewrite (trim_id _ (bg_first _ G) (bg_last _ G)).
  destruct b as [[r args]|[r args]|l o r|idx q k idv dv ef].
  4:{ assert (F33 : first_is 33 (show_bpred E (BHnsw idx q k idv dv ef)) = false) by (rewrite hnsw_text; reflexivity).
      rewrite F33, (try_hnsw_rt _ _ _ _ _ _ W). reflexivity. }
  all: cbn [wf_bpred] in W.
  - apply andb_true_iff in W as [W NH]. apply negb_true_iff in NH.
    destruct (wf_atom_parts r args W) as [I WA]. cbn [show_bpred].
    destruct (atom_first r args I) as (c & t & EQ & IC).
    assert (F33 : first_is 33 (show_atom E (Atom r args)) = false).
    { rewrite EQ. cbn [first_is]. apply N.eqb_neq. intros ->. discriminate. }
    rewrite F33. unfold try_hnsw.
    rewrite (tgood_trim E _ (sg_t _ _ (sgood_atom r args I WA))).
    rewrite (atom_not_hnsw r args I NH). cbn [andb negb].
    rewrite (try_cmp_atom r args I WA). rewrite (parse_atom_rt r args W). reflexivity.
  - destruct (wf_atom_parts r args W) as [I WA]. cbn [show_bpred first_is]. ceq.
    destruct (atom_first r args I) as (c & t & EQ & IC).
    cbn [drop_bangs]. ceq. rewrite EQ. cbn [drop_bangs].
    assert (C33 : (c =? 33) = false) by (apply N.eqb_neq; intros ->; discriminate).
    rewrite C33. rewrite <- EQ.
    rewrite (tgood_trim E _ (sg_t _ _ (sgood_atom r args I WA))).
    rewrite (parse_atom_rt r args W). reflexivity.
  - apply andb_true_iff in W as [W NH]. apply negb_true_iff in NH.
    apply andb_true_iff in W as [Wl Wr].
    destruct (side_sgood l Wl) as [_ Gl]. destruct (side_sgood r Wr) as [_ Gr].
    assert (F33 : first_is 33 (show_bpred E (BCmp l o r)) = false).
    { rewrite show_cmp_eq. pose proof (tg_noeq _ _ (sg_t _ _ Gl)) as Q.
      destruct (show_term E l) as [|c t] eqn:EL. { exfalso. apply (tgood_ne _ _ (sg_t _ _ Gl)). reflexivity. }
      cbn [app first_is forallb] in *. apply andb_true_iff in Q as [Q _]. unfold noeqc in Q.
      apply negb_true_iff in Q. apply orb_false_iff in Q. tauto. }
    rewrite F33. unfold try_hnsw. rewrite (trim_id _ (bg_first _ G) (bg_last _ G)).
    rewrite NH. cbn [andb negb]. unfold try_cmp.
    assert (EQ : has_eqeq (show_bpred E (BCmp l o r)) = false).
    { rewrite show_cmp_eq, (op_text_val o). apply has_eqeq_cmp; [apply Gl|apply Gr]. }
    rewrite EQ. rewrite (try_ops_cmp l o r Wl Wr). reflexivity.
Qed.

(* ------------------------------------------------------------------ bodies *)
Lemma split_body_join l : forall cur, l <> [] -> Forall bgood l ->
  split_body E (join_cs l) cur 0 0 =
  match l with x :: t => (rev cur ++ x) :: List.map (cons 32) t | [] => [] end.
Proof.
  induction l as [|x l IH]; intros cur NE F. congruence.
  inversion F as [|? ? Gx Fl]; subst. unfold join_cs in *. cbn [join].
  destruct l as [|y l].
  - rewrite <- (app_nil_r x) at 1.
    rewrite (split_body_run E x [] cur 0 0 0 0 (bg_sb _ Gx _)).
    cbn [split_body]. destruct (rev x ++ cur) eqn:R.
    + apply app_eq_nil in R as [R _]. apply (f_equal (@rev N)) in R. rewrite rev_involutive in R.
      cbn in R. apply bgood_ne in Gx. contradiction.
    + rewrite <- R, rev_app_distr, rev_involutive. reflexivity.
  - rewrite (split_body_run E x _ cur 0 0 0 0 (bg_sb _ Gx _)).
    cbn [app split_body]. ceq.
    rewrite rev_app_distr, rev_involutive. f_equal.
    cbn [split_body]. ceq.
    rewrite (IH [32]) by (auto; discriminate). reflexivity.
Qed.

Lemma parse_bpred_sp P : parse_bpred E (32 :: P) = parse_bpred E P.
Proof. unfold parse_bpred. rewrite trim_sp. reflexivity. Qed.

Definition body_text (b : list bpred) : str := join_cs (List.map (show_bpred E) b).
Lemma body_bgood b : forallb (wf_bpred E) b = true -> Forall bgood (List.map (show_bpred E) b).
Proof.
  intros W. apply Forall_forall. intros x Hx. apply in_map_iff in Hx as (p & <- & Ip).
  apply bgood_bpred. eapply forallb_In; eauto.
Qed.
Theorem parse_body_rt b : b <> [] -> forallb (wf_bpred E) b = true ->
  parse_body E (body_text b) = Some b.
Proof.
  intros NE W. unfold parse_body, body_text. rewrite split_body_join.
  - cbn [rev].
    assert (R : forall p, In p b -> parse_bpred E (show_bpred E p) = Some p /\
                                    parse_bpred E (32 :: show_bpred E p) = Some p).
    { intros p Ip. rewrite parse_bpred_sp.
      assert (Q : parse_bpred E (show_bpred E p) = Some p) by (apply parse_bpred_rt; eapply forallb_In; eauto).
      auto. }
    exact (all_some_pieces (parse_bpred E) (show_bpred E) b R).
  - destruct b; [congruence|discriminate].
  - apply body_bgood. exact W.
Qed.

(* ------------------------------------------------------------------ rules *)
Lemma body_text_props b : b <> [] -> forallb (wf_bpred E) b = true ->
  first_nws (body_text b) = true /\ last_nws (body_text b) = true /\ has_arrow (body_text b) = false.
Proof.
  intros NE W. pose proof (body_bgood b W) as F. unfold body_text. repeat split.
  - destruct b as [|p b]; [congruence|]. cbn [List.map]. apply first_nws_join. inversion F; subst. apply H1.
  - apply last_nws_join. destruct b; [congruence|discriminate].
    eapply Forall_impl; [|exact F]. intros x G. apply G.
  - apply has_arrow_join. eapply Forall_impl; [|exact F]. intros x G. split; apply G.
Qed.

Lemma split_arrow_step a b u cur :
  split_arrow (a :: b :: u) cur =
  if (a =? 60) && (b =? 45) then rev cur :: split_arrow u [] else split_arrow (b :: u) (a :: cur).
Proof. reflexivity. Qed.
Lemma split_arrow_rule H B :
  has_arrow H = false -> not_lt_last H = true -> B <> [] -> has_arrow B = false -> not_lt_last B = true ->
  split_arrow (H ++ [32; 60; 45; 32] ++ B) [] = [H ++ [32]; 32 :: B].
Proof.
  intros AH NH NB AB NLB. rewrite split_arrow_skip by auto. cbn [app]. rewrite app_nil_r.
  rewrite split_arrow_step. ceq. rewrite split_arrow_step. ceq.
  cbn [rev]. rewrite rev_involutive. f_equal.
  destruct B as [|b0 B']; [congruence|]. rewrite split_arrow_step. ceq.
  rewrite <- (app_nil_r (b0 :: B')) at 1. rewrite split_arrow_skip by auto.
  cbn [split_arrow]. rewrite rev_app_distr, rev_involutive. reflexivity.
Qed.

Theorem parse_rule_rt r : wf_rule E r = true -> parse_rule E (show_rule E r) = Some r.
Proof.
  destruct r as [[rn args] body]. cbn [wf_rule]. intros W. apply andb_true_iff in W as [WH WB].
  destruct (wf_atom_parts rn args WH) as [I WA]. pose proof (sgood_atom rn args I WA) as GH.
  pose proof (parse_atom_rt rn args WH) as PA.
  remember (show_atom E (Atom rn args)) as H eqn:EH.
  assert (TH : trim H = H) by (apply (tgood_trim E), GH).
  destruct body as [|p body].
  - cbn [show_rule]. rewrite <- EH. unfold parse_rule. rewrite TH.
    rewrite <- (app_nil_r H) at 1.
    rewrite split_arrow_skip by (apply GH). cbn [split_arrow]. rewrite app_nil_r, rev_involutive.
    rewrite TH, PA. reflexivity.
  - assert (NE : p :: body <> []) by discriminate.
    destruct (body_text_props (p :: body) NE WB) as (BF & BL & BA).
    pose proof (parse_body_rt (p :: body) NE WB) as PB.
    assert (NLB : not_lt_last (body_text (p :: body)) = true).
    { unfold body_text. apply not_lt_last_join. apply Forall_forall. intros x Hx.
      pose proof (body_bgood (p :: body) WB) as F. rewrite Forall_forall in F.
      split. apply (F x Hx). apply (bgood_ne _ (F x Hx)). }
    assert (SR : show_rule E (Rule (Atom rn args) (p :: body)) = H ++ [32; 60; 45; 32] ++ body_text (p :: body)).
    { rewrite EH. reflexivity. }
    rewrite SR. remember (body_text (p :: body)) as B eqn:EB.
    assert (NB : B <> []). { intros ->. discriminate. }
    unfold parse_rule.
    assert (TT : trim (H ++ [32; 60; 45; 32] ++ B) = H ++ [32; 60; 45; 32] ++ B).
    { apply trim_id. apply first_nws_app. apply GH. apply last_nws_app. apply last_nws_app. exact BL. }
    rewrite TT. rewrite split_arrow_rule; auto; try apply GH.
    rewrite trim_snoc_sp by (apply GH). rewrite trim_sp. rewrite (trim_id _ BF BL).
    rewrite PA, PB. reflexivity.
Qed.

End WithEnv.
