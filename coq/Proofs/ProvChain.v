(* C21: soundness of the backward-chainer model (Model/ProvChain.v) — every tree that
   build_proof_tree returns is a valid derivation (holes allowed: Truncated nodes and
   Derived-source leaves, whose conclusions are facts of the model) — for contexts in which
   the derived data is the model and covers every derived relation (what `.why` supplies). *)
From IL Require Import Model.Value Proofs.ValueEq Model.ProvDatalog Proofs.ProvDatalog
     Model.ProvWhyNot Proofs.ProvWhyNot Model.ProvChain.
From Coq Require Import Lia.
Open Scope N_scope.

Lemma fold_left_inv {A B} (f : A -> B -> A) (I : A -> Prop) l :
  forall a, I a -> (forall a x, I a -> In x l -> I (f a x)) -> I (fold_left f l a).
Proof.
  induction l as [|x l IH]; intros a Ha Hf; cbn; [exact Ha|].
  apply IH; [apply Hf; [exact Ha | left; reflexivity] | intros a' y Ha' Hy; apply Hf; [exact Ha' | right; exact Hy]].
Qed.

Lemma combine_seq_nth {A} (l : list A) : forall s i x,
  In (i, x) (combine (seq s (length l)) l) -> (s <= i)%nat /\ nth_error l (i - s) = Some x.
Proof.
  induction l as [|y l IH]; intros s i x H; cbn in H; [destruct H|].
  destruct H as [H|H].
  - inversion H; subst. split; [lia|]. rewrite Nat.sub_diag. reflexivity.
  - apply IH in H as [H1 H2]. split; [lia|].
    replace (i - s)%nat with (S (i - S s)) by lia. exact H2.
Qed.

Definition concl_node (n : node) : option (rel * tuple) :=
  match n with
  | NFact _ r t => Some (r, t)
  | NRule r t _ _ _ => Some (r, t)
  | NTrunc r t => Some (r, t)
  | NNeg _ _ _ => None
  end.

Lemma pat_gen_ext th th' args pat : extends th th' -> pat_gen th args pat = true -> pat_gen th' args pat = true.
Proof.
  intros He. revert pat. induction args as [|u args IH]; intros [|q pat] H; cbn in *; try discriminate; [reflexivity|].
  apply andb_true_iff in H as [H1 H2]. rewrite (IH _ H2), andb_true_r.
  destruct u as [x|c], q as [v|y]; cbn in *; auto.
  destruct (lookup th x) as [w|] eqn:E; cbn in H1; [|discriminate].
  rewrite (He _ _ E). exact H1.
Qed.

Lemma cmp_ok_ext th th' x o y : extends th th' -> cmp_ok th x o y = true -> cmp_ok th' x o y = true.
Proof.
  unfold cmp_ok. intros He. destruct (term_val th x) as [vx|] eqn:Ex; [|discriminate].
  destruct (term_val th y) as [vy|] eqn:Ey; [|discriminate].
  rewrite (term_val_ext _ _ _ _ He Ex), (term_val_ext _ _ _ _ He Ey). auto.
Qed.

Section Sound.
  Variable cx : cctx.
  Variable M d : db.
  Variable Hder : c_der cx = Some d.
  Variable HM : data_is_model (c_base cx) (Some d) M.
  Variable Hmat : forall r, is_derived cx r = true -> has_key d r = true.
  Variable Hbase_only : forall r, is_derived cx r = false -> rel_tuples d r = [].

  Notation P := (c_prog cx).
  Notation base := (c_base cx).

  (* ---- local validity of the nodes of a builder *)
  Definition kid_pos (nodes : list node) (th : subst) (a : atom) (k : nat) : Prop :=
    exists n tu, nth_error nodes k = Some n /\ concl_node n = Some (arel a, tu) /\ atom_tuple th a = Some tu.
  Definition kid_neg (nodes : list node) (th : subst) (a : atom) (k : nat) : Prop :=
    exists pat, nth_error nodes k = Some (NNeg (arel a) pat (concretes pat)) /\
                pat_gen th (aargs a) pat = true /\
                (forall tu, In tu (rel_tuples M (arel a)) -> pat_matches pat tu = false).

  Inductive body_ok (nodes : list node) (th : subst) : list literal -> list nat -> Prop :=
  | BO_nil : body_ok nodes th [] []
  | BO_pos a ls k ks : kid_pos nodes th a k -> body_ok nodes th ls ks -> body_ok nodes th (LPos a :: ls) (k :: ks)
  | BO_neg a ls k ks : kid_neg nodes th a k -> body_ok nodes th ls ks -> body_ok nodes th (LNeg a :: ls) (k :: ks)
  | BO_cmp x o y ls ks : cmp_ok th x o y = true -> body_ok nodes th ls ks -> body_ok nodes th (LCmp x o y :: ls) ks.

  Definition node_ok (nodes : list node) (id : nat) (n : node) : Prop :=
    match n with
    | NFact false r t => In t (rel_tuples base r)
    | NFact true r t => In t (rel_tuples M r)
    | NTrunc r t => In t (rel_tuples M r)
    | NNeg _ _ _ => True
    | NRule r t ci th kids =>
        exists c, nth_error P ci = Some c /\ arel (chead c) = r /\ atom_tuple th (chead c) = Some t /\
                  body_ok nodes th (cbody c) kids /\ Forall (fun k => (k < id)%nat) kids
    end.

  Definition Inv (b : builder) : Prop :=
    (forall id n, nth_error (bnodes b) id = Some n -> node_ok (bnodes b) id n) /\
    (forall k id, seen_get (bseen b) k = Some id ->
                  exists n, nth_error (bnodes b) id = Some n /\ concl_node n = Some k).

  Definition grows (b b' : builder) : Prop := exists ext, bnodes b' = bnodes b ++ ext.

  Lemma grows_refl b : grows b b.
  Proof. exists []. rewrite app_nil_r. reflexivity. Qed.
  Lemma grows_trans a b c : grows a b -> grows b c -> grows a c.
  Proof. intros [e1 H1] [e2 H2]. exists (e1 ++ e2). rewrite H2, H1, app_assoc. reflexivity. Qed.

  Lemma nth_grow {A} (l e : list A) id n : nth_error l id = Some n -> nth_error (l ++ e) id = Some n.
  Proof.
    intros H. rewrite nth_error_app1; [exact H|]. apply nth_error_Some. congruence.
  Qed.

  Lemma body_ok_grow nodes e th ls ks : body_ok nodes th ls ks -> body_ok (nodes ++ e) th ls ks.
  Proof.
    induction 1 as [|a ls k ks [n [tu [H1 [H2 H3]]]] Hb IH|a ls k ks [pat [H1 [H2 H3]]] Hb IH|x o y ls ks Hc Hb IH].
    - constructor.
    - apply BO_pos; [|exact IH]. exists n, tu. split; [apply nth_grow; exact H1 | auto].
    - apply BO_neg; [|exact IH]. exists pat. split; [apply nth_grow; exact H1 | auto].
    - apply BO_cmp; assumption.
  Qed.

  Lemma body_ok_ext nodes th th' ls ks : extends th th' -> body_ok nodes th ls ks -> body_ok nodes th' ls ks.
  Proof.
    intros He. induction 1 as [|a ls k ks [n [tu [H1 [H2 H3]]]] Hb IH|a ls k ks [pat [H1 [H2 H3]]] Hb IH|x o y ls ks Hc Hb IH].
    - constructor.
    - apply BO_pos; [|exact IH]. exists n, tu. repeat split; auto. eapply atom_tuple_ext; eauto.
    - apply BO_neg; [|exact IH]. exists pat. repeat split; auto. eapply pat_gen_ext; eauto.
    - apply BO_cmp; [eapply cmp_ok_ext; eauto | exact IH].
  Qed.

  Lemma body_ok_snoc nodes th ls ks l (k : list nat) :
    body_ok nodes th ls ks -> body_ok nodes th [l] k -> body_ok nodes th (ls ++ [l]) (ks ++ k).
  Proof.
    induction 1 as [|a ls k0 ks Hk Hb IH|a ls k0 ks Hk Hb IH|x o y ls ks Hc Hb IH]; intros Hl; cbn.
    - exact Hl.
    - apply BO_pos; auto.
    - apply BO_neg; auto.
    - apply BO_cmp; auto.
  Qed.

  Lemma body_ok_lt nodes th ls ks : body_ok nodes th ls ks -> Forall (fun k => (k < length nodes)%nat) ks.
  Proof.
    induction 1 as [|a ls k ks [n [tu [H1 _]]] Hb IH|a ls k ks [pat [H1 _]] Hb IH|x o y ls ks Hc Hb IH]; auto;
      constructor; auto; apply nth_error_Some; congruence.
  Qed.

  Lemma node_ok_grow nodes e id n : node_ok nodes id n -> node_ok (nodes ++ e) id n.
  Proof.
    destruct n as [[|] r t|r t ci th kids|r p a|r t]; cbn; auto.
    intros [c [H1 [H2 [H3 [H4 H5]]]]]. exists c. repeat split; auto. apply body_ok_grow; exact H4.
  Qed.

  (* ---- insertions keep the invariant *)
  Lemma Inv_insert_unique b n :
    Inv b -> node_ok (bnodes b) (length (bnodes b)) n ->
    let '(id, b') := b_insert_unique b n in
    Inv b' /\ grows b b' /\ id = length (bnodes b) /\ nth_error (bnodes b') id = Some n.
  Proof.
    intros [I1 I2] Hn. unfold b_insert_unique. repeat split.
    - intros id m Hm. cbn in Hm. destruct (Nat.lt_ge_cases id (length (bnodes b))) as [Hlt|Hge].
      + rewrite nth_error_app1 in Hm by exact Hlt. apply node_ok_grow. apply I1; exact Hm.
      + rewrite nth_error_app2 in Hm by exact Hge.
        destruct (id - length (bnodes b))%nat as [|j] eqn:Ej; cbn in Hm; [|destruct j; discriminate].
        inversion Hm; subst m. assert (id = length (bnodes b)) by lia. subst id.
        apply node_ok_grow. exact Hn.
    - intros k id Hs. cbn in Hs. destruct (I2 k id Hs) as [m [H1 H2]]. exists m. split; [cbn; apply nth_grow; exact H1 | exact H2].
    - exists [n]. reflexivity.
    - cbn. rewrite nth_error_app2, Nat.sub_diag by lia. reflexivity.
  Qed.

  Lemma Inv_insert b n :
    Inv b -> node_ok (bnodes b) (length (bnodes b)) n -> concl_node n = Some (node_key n) ->
    let '(id, b') := b_insert b n in
    Inv b' /\ grows b b' /\ exists m, nth_error (bnodes b') id = Some m /\ concl_node m = Some (node_key n).
  Proof.
    intros [I1 I2] Hn Hc. unfold b_insert.
    destruct (if is_fact n then seen_get (bseen b) (node_key n) else None) as [id|] eqn:E.
    - destruct (is_fact n); [|discriminate]. repeat split; auto using grows_refl.
    - repeat split.
      + intros id m Hm. cbn in Hm. destruct (Nat.lt_ge_cases id (length (bnodes b))) as [Hlt|Hge].
        * rewrite nth_error_app1 in Hm by exact Hlt. apply node_ok_grow. apply I1; exact Hm.
        * rewrite nth_error_app2 in Hm by exact Hge.
          destruct (id - length (bnodes b))%nat as [|j] eqn:Ej; cbn in Hm; [|destruct j; discriminate].
          inversion Hm; subst m. assert (id = length (bnodes b)) by lia. subst id.
          apply node_ok_grow. exact Hn.
      + intros k id Hs. cbn in Hs. destruct (key_eqb (node_key n) k) eqn:Ek.
        * inversion Hs; subst id. exists n. split; [cbn; rewrite nth_error_app2, Nat.sub_diag by lia; reflexivity|].
          rewrite Hc. f_equal. unfold key_eqb in Ek. apply andb_true_iff in Ek as [E1 E2].
          apply N.eqb_eq in E1. apply tuple_eqb_spec in E2. destruct (node_key n), k; cbn in *; congruence.
        * destruct (I2 k id Hs) as [m [H1 H2]]. exists m. split; [cbn; apply nth_grow; exact H1 | exact H2].
      + exists [n]. reflexivity.
      + exists n. split; [cbn; rewrite nth_error_app2, Nat.sub_diag by lia; reflexivity | exact Hc].
  Qed.

  (* ---- specifications of the three mutually recursive functions *)
  Definition bn_spec (bn : bn_ty) : Prop :=
    forall r t depth vis b ids b',
      Inv b -> In t (rel_tuples M r) -> bn (r, t) depth vis b = (ids, b') ->
      Inv b' /\ grows b b' /\
      forall id, In id ids -> exists n, nth_error (bnodes b') id = Some n /\ concl_node n = Some (r, t).

  Definition st_ok (nodes : list node) (th0 : subst) (done : list literal) (st : pstate) : Prop :=
    extends th0 (fst st) /\ body_ok nodes (fst st) done (snd st).

  Definition pb_spec (pb : pb_ty) : Prop :=
    forall body th0 depth vis b res b',
      Inv b -> pb body th0 depth vis b = (res, b') ->
      Inv b' /\ grows b b' /\
      forall sts, res = Some sts -> forall st, In st sts -> st_ok (bnodes b') th0 body st.

  Lemma st_ok_grow nodes e th0 done st : st_ok nodes th0 done st -> st_ok (nodes ++ e) th0 done st.
  Proof. intros [H1 H2]. split; [exact H1 | apply body_ok_grow; exact H2]. Qed.

  Lemma st_ok_grows b b' th0 done st : grows b b' -> st_ok (bnodes b) th0 done st -> st_ok (bnodes b') th0 done st.
  Proof. intros [e ->]. apply st_ok_grow. Qed.

  (* candidate tuples of a positive atom are facts of the model that match its pattern *)
  Lemma atom_matches_ok (enum : enum_ty) th a depth vis mt nb :
    In (mt, nb) (atom_matches cx enum th a depth vis) ->
    In mt (rel_tuples M (arel a)) /\ match_pat [] (atom_pat th a) mt = Some nb.
  Proof.
    unfold atom_matches. rewrite Hder. cbn [find_matches_opt].
    destruct (find_matches base (arel a) (atom_pat th a)) as [|m1 ms1] eqn:E1.
    - destruct (is_derived cx (arel a)) eqn:Ed.
      + destruct (find_matches d (arel a) (atom_pat th a)) as [|m2 ms2] eqn:E2.
        * rewrite (Hmat _ Ed). cbn. intros [].
        * intros H. rewrite <- E2 in H. apply find_matches_In in H as [H1 H2].
          split; [apply HM; right; exact H1 | exact H2].
      + cbn. intros [].
    - intros H. rewrite <- E1 in H. apply find_matches_In in H as [H1 H2].
      split; [apply HM; left; exact H1 | exact H2].
  Qed.

  Lemma pos_matches_ok (bn : bn_ty) depth vis th0 done th kids a :
    bn_spec bn ->
    forall ms b acc acc' b',
      (forall mt nb, In (mt, nb) ms -> In mt (rel_tuples M (arel a)) /\ match_pat [] (atom_pat th a) mt = Some nb) ->
      Inv b -> st_ok (bnodes b) th0 done (th, kids) ->
      (forall st, In st acc -> st_ok (bnodes b) th0 (done ++ [LPos a]) st) ->
      pos_matches (fun k bb => bn k depth vis bb) (arel a) th kids ms b acc = (acc', b') ->
      Inv b' /\ grows b b' /\ forall st, In st acc' -> st_ok (bnodes b') th0 (done ++ [LPos a]) st.
  Proof.
    intros Hbn. induction ms as [|[mt nb] ms IH]; intros b acc acc' b' Hms HI Hst Hacc H; cbn in H.
    - inversion H; subst. auto using grows_refl.
    - destruct (bn (arel a, mt) depth vis b) as [ids b1] eqn:Eb.
      destruct (Hms mt nb (or_introl eq_refl)) as [Hin Hm].
      destruct (Hbn _ _ _ _ _ _ _ HI Hin Eb) as [HI1 [Hg1 Hids]].
      apply match_extends in Hm as [He Ha].
      eapply IH in H; [destruct H as [HI' [Hg' Hacc']]; split; [exact HI'|split; [eapply grows_trans; eauto | exact Hacc']]
                      | intros; apply Hms; right; assumption | exact HI1 | eapply st_ok_grows; eauto |].
      intros st Hst'. destruct ids as [|id ids'].
      + eapply st_ok_grows; eauto.
      + apply in_app_or in Hst' as [Hst'|[<-|[]]]; [eapply st_ok_grows; eauto|].
        destruct Hst as [He0 Hbo]. destruct (Hids id (or_introl eq_refl)) as [n [Hn Hc]].
        split; [cbn; eapply extends_trans; eauto|]. cbn.
        apply body_ok_snoc.
        * destruct Hg1 as [e ->]. apply body_ok_grow. eapply body_ok_ext; eauto.
        * apply BO_pos; [|constructor]. exists n, mt. auto.
  Qed.

  Lemma lit_step_ok (bn : bn_ty) (enum : enum_ty) l depth vis th0 done :
    bn_spec bn ->
    forall st b acc acc' b',
      Inv b -> st_ok (bnodes b) th0 done st ->
      (forall s, In s acc -> st_ok (bnodes b) th0 (done ++ [l]) s) ->
      lit_step cx bn enum l depth vis (acc, b) st = (acc', b') ->
      Inv b' /\ grows b b' /\ forall s, In s acc' -> st_ok (bnodes b') th0 (done ++ [l]) s.
  Proof.
    intros Hbn [th kids] b acc acc' b' HI Hst Hacc H. unfold lit_step in H.
    destruct l as [a|a|x o y].
    - eapply pos_matches_ok; eauto. intros mt nb Hin. eapply atom_matches_ok; eauto.
    - rewrite Hder in H. cbn [find_matches_opt] in H.
      destruct (find_matches base (arel a) (atom_pat th a) ++ find_matches d (arel a) (atom_pat th a)) as [|m ms] eqn:E.
      + apply app_eq_nil in E as [E1 E2].
        pose proof (Inv_insert_unique b (NNeg (arel a) (atom_pat th a) (concretes (atom_pat th a))) HI I) as Hi.
        destruct (b_insert_unique b (NNeg (arel a) (atom_pat th a) (concretes (atom_pat th a)))) as [id b1].
        destruct Hi as [HI1 [Hg1 [Hid Hn]]]. inversion H; subst acc' b'. split; [exact HI1|]. split; [exact Hg1|].
        intros s Hs. apply in_app_or in Hs as [Hs|[<-|[]]]; [eapply st_ok_grows; eauto|].
        destruct Hst as [He0 Hbo]. split; [exact He0|]. cbn.
        apply body_ok_snoc; [destruct Hg1 as [e ->]; apply body_ok_grow; exact Hbo|].
        apply BO_neg; [|constructor]. exists (atom_pat th a). split; [exact Hn|]. split; [apply pat_gen_self|].
        apply existsb_false_forall. eapply no_match_in_model; [exact HM | exact E1 | exact E2].
      + inversion H; subst. auto using grows_refl.
    - destruct (cmp_ok th x o y) eqn:Ec; inversion H; subst; split; auto; split; auto using grows_refl.
      intros s Hs. apply in_app_or in Hs as [Hs|[<-|[]]]; [auto|].
      destruct Hst as [He0 Hbo]. split; [exact He0|]. cbn.
      rewrite <- (app_nil_r kids). apply body_ok_snoc; [exact Hbo|]. apply BO_cmp; [exact Ec | constructor].
  Qed.

  Lemma states_fold_ok (bn : bn_ty) (enum : enum_ty) l depth vis th0 done :
    bn_spec bn ->
    forall states b acc next b',
      Inv b -> (forall st, In st states -> st_ok (bnodes b) th0 done st) ->
      (forall s, In s acc -> st_ok (bnodes b) th0 (done ++ [l]) s) ->
      fold_left (lit_step cx bn enum l depth vis) states (acc, b) = (next, b') ->
      Inv b' /\ grows b b' /\ forall s, In s next -> st_ok (bnodes b') th0 (done ++ [l]) s.
  Proof.
    intros Hbn. induction states as [|st states IH]; intros b acc next b' HI Hsts Hacc H; cbn [fold_left] in H.
    - inversion H; subst. auto using grows_refl.
    - destruct (lit_step cx bn enum l depth vis (acc, b) st) as [acc1 b1] eqn:E.
      destruct (lit_step_ok bn enum l depth vis th0 done Hbn st b acc acc1 b1 HI (Hsts st (or_introl eq_refl)) Hacc E)
        as [HI1 [Hg1 Hacc1]].
      destruct (IH b1 acc1 next b' HI1) as [HI' [Hg' Hn]]; auto.
      + intros s Hs. eapply st_ok_grows; [exact Hg1|]. apply Hsts. right; exact Hs.
      + split; [exact HI'|]. split; [eapply grows_trans; eauto | exact Hn].
  Qed.

  Lemma body_loop_ok (bn : bn_ty) (enum : enum_ty) depth vis th0 :
    bn_spec bn ->
    forall body done states b res b',
      Inv b -> (forall st, In st states -> st_ok (bnodes b) th0 done st) ->
      body_loop cx bn enum depth vis body states b = (res, b') ->
      Inv b' /\ grows b b' /\
      forall sts, res = Some sts -> forall st, In st sts -> st_ok (bnodes b') th0 (done ++ body) st.
  Proof.
    intros Hbn. induction body as [|l body IH]; intros done states b res b' HI Hsts H; cbn [body_loop] in H.
    - inversion H; subst. split; [exact HI|]. split; [apply grows_refl|].
      intros sts E st Hst. inversion E; subst. rewrite app_nil_r. auto.
    - destruct (fold_left (lit_step cx bn enum l depth vis) states ([], b)) as [next b1] eqn:E.
      destruct (states_fold_ok bn enum l depth vis th0 done Hbn states b [] next b1 HI Hsts) as [HI1 [Hg1 Hn]];
        [intros s [] | exact E |].
      destruct next as [|s0 next].
      + inversion H; subst. split; [exact HI1|]. split; [exact Hg1|]. intros sts E0. discriminate.
      + apply (IH (done ++ [l])) in H; [|exact HI1|exact Hn].
        destruct H as [HI' [Hg' Hr]]. split; [exact HI'|]. split; [eapply grows_trans; eauto|].
        intros sts E0 st Hst. rewrite <- app_assoc in Hr. cbn in Hr. eauto.
  Qed.

  Lemma prove_body_ok (bn : bn_ty) (enum : enum_ty) : bn_spec bn -> pb_spec (prove_body_with cx bn enum).
  Proof.
    intros Hbn body th0 depth vis b res b' HI H. unfold prove_body_with in H.
    apply (body_loop_ok bn enum depth vis th0 Hbn body [] [(th0, [])] b res b' HI) in H; [exact H|].
    intros st [<-|[]]. split; [apply extends_refl | constructor].
  Qed.

  (* ---- build_node *)
  Definition ids_ok (b : builder) (k : rel * tuple) (ids : list nat) : Prop :=
    forall id, In id ids -> exists n, nth_error (bnodes b) id = Some n /\ concl_node n = Some k.

  Lemma ids_ok_grows b b' k ids : grows b b' -> ids_ok b k ids -> ids_ok b' k ids.
  Proof.
    intros [e He] H id Hid. destruct (H id Hid) as [n [H1 H2]]. exists n. split; [rewrite He; apply nth_grow; exact H1 | exact H2].
  Qed.

  Lemma rule_step_ok r t ci c th0 :
    nth_error P ci = Some c -> arel (chead c) = r -> atom_tuple th0 (chead c) = Some t ->
    forall sts res b res' b',
      Inv b -> ids_ok b (r, t) res ->
      (forall st, In st sts -> st_ok (bnodes b) th0 (cbody c) st) ->
      fold_left (rule_step cx r t ci) sts (res, b) = (res', b') ->
      Inv b' /\ grows b b' /\ ids_ok b' (r, t) res'.
  Proof.
    intros Hci Hr Hh. induction sts as [|st sts IH]; intros res b res' b' HI Hres Hsts H; cbn [fold_left] in H.
    - inversion H; subst. auto using grows_refl.
    - unfold rule_step at 2 in H. destruct (Nat.leb (c_max_proofs cx) (length res)).
      + apply IH in H; auto. intros s Hs. apply Hsts. right; exact Hs.
      + destruct (Hsts st (or_introl eq_refl)) as [He Hbo].
        pose proof (Inv_insert b (NRule r t ci (fst st) (snd st)) HI) as Hi.
        destruct (b_insert b (NRule r t ci (fst st) (snd st))) as [id b1].
        destruct Hi as [HI1 [Hg1 [m [Hm Hc]]]]; [|reflexivity|].
        { cbn. exists c. repeat split; auto; [eapply atom_tuple_ext; eauto | eapply body_ok_lt; eauto]. }
        apply IH in H; [destruct H as [HI' [Hg' Hres']]; split; [exact HI'|]; split; [eapply grows_trans; eauto | exact Hres']
                       | exact HI1 | | intros s Hs; eapply st_ok_grows; [exact Hg1 | apply Hsts; right; exact Hs]].
        intros i Hi. apply in_app_or in Hi as [Hi|[<-|[]]]; [eapply ids_ok_grows; eauto | exists m; auto].
  Qed.

  Lemma indexed_clauses_ok r ic : In ic (indexed_clauses cx r) -> nth_error P (fst ic) = Some (snd ic) /\ arel (chead (snd ic)) = r.
  Proof.
    unfold indexed_clauses. intros H. apply filter_In in H as [H1 H2]. apply N.eqb_eq in H2. split; [|exact H2].
    destruct ic as [i c]. cbn. pose proof (combine_seq_nth (c_prog cx) 0%nat i c H1) as [H3 H4].
    rewrite Nat.sub_0_r in H4. exact H4.
  Qed.

  Lemma clause_step_ok (pb : pb_ty) r t depth vis :
    pb_spec pb ->
    forall ic res b res' b',
      In ic (indexed_clauses cx r) ->
      Inv b -> ids_ok b (r, t) res ->
      clause_step cx pb r t depth vis (res, b) ic = (res', b') ->
      Inv b' /\ grows b b' /\ ids_ok b' (r, t) res'.
  Proof.
    intros Hpb ic res b res' b' Hic HI Hres H. unfold clause_step in H.
    destruct (Nat.leb (c_max_proofs cx) (length res)); [inversion H; subst; auto using grows_refl|].
    destruct (unify_head t (chead (snd ic))) as [th0|] eqn:Eu; [|inversion H; subst; auto using grows_refl].
    destruct (pb (cbody (snd ic)) th0 (S depth) vis b) as [r1 b1] eqn:Ep.
    destruct (Hpb _ _ _ _ _ _ _ HI Ep) as [HI1 [Hg1 Hsts]].
    destruct (indexed_clauses_ok r ic Hic) as [Hn Hr].
    destruct r1 as [sts|].
    - eapply rule_step_ok in H; eauto.
      + destruct H as [HI' [Hg' Hres']]. split; [exact HI'|]. split; [eapply grows_trans; eauto | exact Hres'].
      + apply head_bind_tuple. exact Eu.
      + eapply ids_ok_grows; eauto.
    - inversion H; subst. split; [exact HI1|]. split; [exact Hg1 | eapply ids_ok_grows; eauto].
  Qed.

  Lemma clauses_fold_ok (pb : pb_ty) r t depth vis :
    pb_spec pb ->
    forall cs res b res' b',
      (forall ic, In ic cs -> In ic (indexed_clauses cx r)) ->
      Inv b -> ids_ok b (r, t) res ->
      fold_left (clause_step cx pb r t depth vis) cs (res, b) = (res', b') ->
      Inv b' /\ grows b b' /\ ids_ok b' (r, t) res'.
  Proof.
    intros Hpb. induction cs as [|ic cs IH]; intros res b res' b' Hcs HI Hres H; cbn [fold_left] in H.
    - inversion H; subst. auto using grows_refl.
    - destruct (clause_step cx pb r t depth vis (res, b) ic) as [res1 b1] eqn:E.
      destruct (clause_step_ok pb r t depth vis Hpb ic res b res1 b1 (Hcs ic (or_introl eq_refl)) HI Hres E) as [HI1 [Hg1 Hres1]].
      apply IH in H; auto.
      + destruct H as [HI' [Hg' Hres']]. split; [exact HI'|]. split; [eapply grows_trans; eauto | exact Hres'].
      + intros ic' Hic'. apply Hcs. right; exact Hic'.
  Qed.

  Lemma in_data_In dd r t : in_data dd r t = true -> In t (rel_tuples dd r).
  Proof. unfold in_data. apply mem_tuple_In. Qed.

  Lemma build_node_ok (pb : pb_ty) : pb_spec pb -> bn_spec (build_node_with cx pb).
  Proof.
    intros Hpb r t depth vis b ids b' HI Hin H. unfold build_node_with in H.
    destruct (Nat.leb (c_max_depth cx) depth).
    { pose proof (Inv_insert_unique b (NTrunc r t) HI Hin) as Hi.
      destruct (b_insert_unique b (NTrunc r t)) as [id b1]. destruct Hi as [HI1 [Hg1 [_ Hn]]].
      inversion H; subst. split; [exact HI1|]. split; [exact Hg1|].
      intros i [<-|[]]. exists (NTrunc r t). auto. }
    destruct (seen_get (bseen b) (r, t)) as [id|] eqn:Es.
    { inversion H; subst. split; [exact HI|]. split; [apply grows_refl|].
      intros i [<-|[]]. destruct HI as [_ I2]. exact (I2 _ _ Es). }
    destruct (mem_key (r, t) vis); [inversion H; subst; split; [exact HI|split; [apply grows_refl | intros i []]]|].
    rewrite Hder in H. cbn [in_data_opt] in H.
    destruct (is_derived cx r) eqn:Ed; cbn [negb] in H.
    - (* derived relation *)
      set (in_base := in_data base r t) in *. set (in_der := in_data d r t) in *.
      assert (H0 : exists res0 b0,
                 (if in_base then let '(id, b') := b_insert b (NFact false r t) in ([id], b') else ([], b)) = (res0, b0)
                 /\ Inv b0 /\ grows b b0 /\ ids_ok b0 (r, t) res0).
      { destruct in_base eqn:Eb.
        - pose proof (Inv_insert b (NFact false r t) HI) as Hi.
          destruct (b_insert b (NFact false r t)) as [id b1].
          destruct Hi as [HI1 [Hg1 [m [Hm Hc]]]]; [cbn; apply in_data_In; exact Eb | reflexivity|].
          exists [id], b1. split; [reflexivity|]. split; [exact HI1|]. split; [exact Hg1|]. intros i [<-|[]]. exists m. auto.
        - exists [], b. split; [reflexivity|]. split; [exact HI|]. split; [apply grows_refl|]. intros i []. }
      destruct H0 as [res0 [b0 [E0 [HI0 [Hg0 Hres0]]]]]. rewrite E0 in H.
      destruct (fold_left (clause_step cx pb r t depth ((r, t) :: vis)) (indexed_clauses cx r) (res0, b0)) as [res b1] eqn:Ef.
      destruct (clauses_fold_ok pb r t depth ((r, t) :: vis) Hpb (indexed_clauses cx r) res0 b0 res b1 (fun ic H => H) HI0 Hres0 Ef)
        as [HI1 [Hg1 Hres1]].
      destruct res as [|i0 res].
      + destruct in_der eqn:Edr.
        * pose proof (Inv_insert b1 (NFact true r t) HI1) as Hi.
          destruct (b_insert b1 (NFact true r t)) as [id b2].
          destruct Hi as [HI2 [Hg2 [m [Hm Hc]]]]; [cbn; exact Hin | reflexivity|].
          inversion H; subst. split; [exact HI2|]. split; [eapply grows_trans; [exact Hg0|eapply grows_trans; eauto]|].
          intros i [<-|[]]. exists m. auto.
        * inversion H; subst. split; [exact HI1|]. split; [eapply grows_trans; eauto | intros i []].
      + inversion H; subst. split; [exact HI1|]. split; [eapply grows_trans; eauto | exact Hres1].
    - (* stored relation *)
      destruct (in_data base r t || in_data d r t) eqn:Eb.
      + pose proof (Inv_insert b (NFact false r t) HI) as Hi.
        destruct (b_insert b (NFact false r t)) as [id b1].
        destruct Hi as [HI1 [Hg1 [m [Hm Hc]]]]; [|reflexivity|].
        { cbn. apply orb_true_iff in Eb as [Eb|Eb]; [apply in_data_In; exact Eb|].
          apply in_data_In in Eb. rewrite (Hbase_only r Ed) in Eb. destruct Eb. }
        inversion H; subst. split; [exact HI1|]. split; [exact Hg1|]. intros i [<-|[]]. exists m. auto.
      + inversion H; subst. split; [exact HI|]. split; [apply grows_refl | intros i []].
  Qed.

  Theorem chain_ok fuel : bn_spec (fst (chain cx fuel)) /\ pb_spec (snd (chain cx fuel)).
  Proof.
    induction fuel as [|f [IHb IHp]]; cbn [chain].
    - split.
      + intros r t depth vis b ids b' HI _ H. inversion H; subst. split; [exact HI|]. split; [apply grows_refl | intros i []].
      + intros body th0 depth vis b res b' HI H. inversion H; subst. split; [exact HI|]. split; [apply grows_refl|]. intros sts E; discriminate.
    - cbn [fst snd]. assert (Hp : pb_spec (prove_body_with cx (fst (chain cx f)) (enumerate_with cx (snd (chain cx f))))).
      { apply prove_body_ok. exact IHb. }
      split; [apply build_node_ok; exact Hp | exact Hp].
  Qed.

  (* ---- from locally valid nodes to a valid tree *)
  Notation valid := (valid_proof true P base M).

  Lemma unfold_valid nodes :
    (forall id n, nth_error nodes id = Some n -> node_ok nodes id n) ->
    forall id fuel n, (id < fuel)%nat -> nth_error nodes id = Some n ->
      match concl_node n with
      | Some k => valid (unfold fuel nodes id) /\ concl (unfold fuel nodes id) = Some k
      | None => exists r pat, n = NNeg r pat (concretes pat) \/ True
      end.
  Proof.
    intros Hok id. induction id as [id IH] using (well_founded_induction lt_wf).
    intros fuel n Hlt Hn. destruct fuel as [|f]; [lia|]. cbn [unfold]. rewrite Hn.
    pose proof (Hok id n Hn) as Hnode.
    destruct n as [[|] r t|r t ci th kids|r p a|r t]; cbn [concl_node].
    - split; [apply V_hole_derived; [reflexivity | exact Hnode] | reflexivity].
    - split; [apply V_fact; exact Hnode | reflexivity].
    - destruct Hnode as [c [H1 [H2 [H3 [H4 H5]]]]]. split; [|reflexivity].
      eapply V_rule; eauto.
      clear H1 H2 H3 Hn. revert H5. induction H4 as [|a ls k ks [n [tu [Hk1 [Hk2 Hk3]]]] Hb IHb|a ls k ks [pat [Hk1 [Hk2 Hk3]]] Hb IHb|x o y ls ks Hc Hb IHb];
        intros H5; cbn [map].
      + constructor.
      + inversion H5 as [|? ? Hk5 H5']; subst.
        assert (Hf : (k < f)%nat) by lia.
        pose proof (IH k Hk5 f n Hf Hk1) as Hv. rewrite Hk2 in Hv. destruct Hv as [Hv Hcl].
        eapply B_pos; [exact Hk3 | exact Hcl | exact Hv | apply IHb; exact H5'].
      + inversion H5 as [|? ? Hk5 H5']; subst.
        assert (Hu : unfold f nodes k = PNeg (arel a) pat (concretes pat)).
        { destruct f as [|f']; [lia|]. cbn [unfold]. rewrite Hk1. reflexivity. }
        rewrite Hu. apply B_neg; [exact Hk2 | exact Hk3 | apply IHb; exact H5'].
      + unfold cmp_ok in Hc. destruct (term_val th x) as [vx|] eqn:Ex; [|discriminate].
        destruct (term_val th y) as [vy|] eqn:Ey; [|discriminate].
        eapply B_cmp; [exact Ex | exact Ey | exact Hc | apply IHb; exact H5].
    - exists r, p. right. exact I.
    - split; [apply V_hole_trunc; [reflexivity | exact Hnode] | reflexivity].
  Qed.

  Theorem build_proof_tree_sound r t tr :
    In t (rel_tuples M r) -> build_proof_tree cx r t = Some tr ->
    valid tr /\ concl tr = Some (r, t).
  Proof.
    intros Hin H. unfold build_proof_tree in H.
    destruct (fst (chain cx (3 * c_max_depth cx + 6)) (r, t) 0%nat [] empty_builder) as [ids b] eqn:E.
    destruct ids as [|id ids]; [discriminate|]. inversion H; subst tr.
    assert (HI0 : Inv empty_builder).
    { split; [intros i n Hn; destruct i; discriminate | intros k i Hs; discriminate]. }
    destruct (proj1 (chain_ok _) r t _ _ _ _ _ HI0 Hin E) as [[I1 I2] [_ Hids]].
    destruct (Hids id (or_introl eq_refl)) as [n [Hn Hc]].
    assert (Hlt : (id < S (length (bnodes b)))%nat).
    { assert (id < length (bnodes b))%nat by (apply nth_error_Some; congruence). lia. }
    pose proof (unfold_valid (bnodes b) I1 id _ n Hlt Hn) as Hv. rewrite Hc in Hv. exact Hv.
  Qed.
End Sound.
