(* `i64 as f64` (Model/WireSort.v `f64_of_i64`) followed by the total-order key is strictly monotone on
   |z| < 2^53, where the conversion is exact.  Consequence: a sort-key column whose Int64 values are all
   below 2^53 in magnitude satisfies `good_col`, whatever else it contains (NaN included). *)
From IL Require Import Model.Value Model.WireSort.
From Coq Require Import Lia.
Open Scope N_scope.

Definition P52 : N := 4503599627370496.        (* 2^52 *)
Definition P53 : N := 9007199254740992.        (* 2^53 *)
Definition P63 : N := 9223372036854775808.     (* 2^63 *)

Lemma pow_split L : L <= 52 -> 2 ^ L * 2 ^ (52 - L) = P52.
Proof. intros H. rewrite <- N.pow_add_r. replace (L + (52 - L)) with 52 by lia. reflexivity. Qed.

(* magnitude part for 0 < m < 2^53 *)
Definition emag (m : N) : N := (N.log2 m + 1022) * P52 + m * 2 ^ (52 - N.log2 m).

Lemma f64_of_nat_mag_small m : 0 < m -> m < P53 -> f64_of_nat_mag m = emag m.
Proof.
  intros H0 H. unfold f64_of_nat_mag, emag.
  assert (N.log2 m < 53) as L by (apply N.log2_lt_pow2; auto).
  destruct (N.leb_spec (N.log2 m) 52); [reflexivity | lia].
Qed.

Lemma emag_bounds m : 0 < m -> m < P53 ->
  (N.log2 m + 1023) * P52 <= emag m /\ emag m < (N.log2 m + 1024) * P52.
Proof.
  intros H0 H. unfold emag.
  assert (N.log2 m < 53) as L by (apply N.log2_lt_pow2; auto).
  destruct (N.log2_spec m H0) as [Lo Hi].
  pose proof (pow_split (N.log2 m) ltac:(lia)) as S.
  assert (0 < 2 ^ (52 - N.log2 m)) as Pz by (apply N.neq_0_lt_0, N.pow_nonzero; lia).
  assert (P52 <= m * 2 ^ (52 - N.log2 m)) as G1.
  { rewrite <- S. apply N.mul_le_mono_r. exact Lo. }
  assert (m * 2 ^ (52 - N.log2 m) < 2 * P52) as G2.
  { replace (2 * P52) with (2 ^ N.succ (N.log2 m) * 2 ^ (52 - N.log2 m)).
    - apply N.mul_lt_mono_pos_r; auto.
    - rewrite N.pow_succ_r', <- N.mul_assoc, S. reflexivity. }
  lia.
Qed.

Lemma emag_mono a b : 0 < a -> a < b -> b < P53 -> emag a < emag b.
Proof.
  intros H0 Hab Hb.
  assert (N.log2 a <= N.log2 b) as Lab by (apply N.log2_le_mono; lia).
  destruct (N.eq_dec (N.log2 a) (N.log2 b)) as [E|NE].
  - unfold emag. rewrite E.
    assert (0 < 2 ^ (52 - N.log2 b)) as Pz by (apply N.neq_0_lt_0, N.pow_nonzero; lia).
    assert (a * 2 ^ (52 - N.log2 b) < b * 2 ^ (52 - N.log2 b)) by (apply N.mul_lt_mono_pos_r; auto).
    lia.
  - destruct (emag_bounds a H0 ltac:(lia)) as [_ Ua].
    destruct (emag_bounds b ltac:(lia) Hb) as [Lb _].
    assert ((N.log2 a + 1024) * P52 <= (N.log2 b + 1023) * P52) by (apply N.mul_le_mono_r; lia).
    lia.
Qed.

Lemma emag_lt_P63 m : 0 < m -> m < P53 -> emag m < P63.
Proof.
  intros H0 H. destruct (emag_bounds m H0 H) as [_ U].
  assert (N.log2 m < 53) as L by (apply N.log2_lt_pow2; auto).
  assert ((N.log2 m + 1024) * P52 <= 1077 * P52) by (apply N.mul_le_mono_r; lia).
  unfold P52, P63 in *. lia.
Qed.

Lemma emag_pos m : 0 < m -> m < P53 -> 0 < emag m.
Proof. intros H0 H. destruct (emag_bounds m H0 H) as [Lb _]. unfold P52 in *. lia. Qed.

(* sign / magnitude of a bit pattern below 2^63, and of 2^63 + such a pattern *)
Lemma key_pos e : e < P63 -> f64_total_key e = Z.of_N e.
Proof.
  intros H. unfold f64_total_key, f64_sign, f64_mag.
  rewrite N.land_ones. change (2 ^ 63) with P63.
  rewrite (N.mod_small e P63 H).
  assert (N.testbit e 63 = false) as T.
  { apply N.bits_above_log2. destruct (N.eq_dec e 0) as [->|NZ]; [cbn; lia|].
    apply N.log2_lt_pow2; [lia|exact H]. }
  rewrite T. reflexivity.
Qed.

Lemma key_neg e : e < P63 -> f64_total_key (P63 + e) = (- Z.of_N e - 1)%Z.
Proof.
  intros H. unfold f64_total_key, f64_sign, f64_mag.
  rewrite N.land_ones. change (2 ^ 63) with P63.
  assert ((P63 + e) mod P63 = e) as M.
  { rewrite N.add_comm. replace (e + P63) with (e + 1 * P63) by lia.
    rewrite N.mod_add by (unfold P63; lia). apply N.mod_small; exact H. }
  assert (N.testbit (P63 + e) 63 = true) as T.
  { pose proof (N.testbit_spec' (P63 + e) 63) as S. change (2 ^ 63) with P63 in S.
    assert ((P63 + e) / P63 = 1) as D.
    { rewrite N.add_comm. replace (e + P63) with (e + 1 * P63) by lia.
      rewrite N.div_add by (unfold P63; lia). rewrite (N.div_small e P63 H). reflexivity. }
    rewrite D in S. destruct (N.testbit (P63 + e) 63); [reflexivity | discriminate S]. }
  rewrite T, M. reflexivity.
Qed.

Definition small (z : Z) : Prop := (Z.abs z < 9007199254740992)%Z.

Definition ikey (z : Z) : Z := f64_total_key (f64_of_i64 z).

Lemma ikey_pos p : small (Zpos p) -> ikey (Zpos p) = Z.of_N (emag (Npos p)).
Proof.
  unfold small, ikey. intros H. cbn [f64_of_i64].
  assert (0 < N.pos p) by lia. assert (N.pos p < P53) by (unfold P53; lia).
  rewrite f64_of_nat_mag_small by auto. apply key_pos, emag_lt_P63; auto.
Qed.

Lemma ikey_neg p : small (Zneg p) -> ikey (Zneg p) = (- Z.of_N (emag (Npos p)) - 1)%Z.
Proof.
  unfold small, ikey. intros H. cbn [f64_of_i64].
  assert (0 < N.pos p) by lia. assert (N.pos p < P53) by (unfold P53; lia).
  rewrite f64_of_nat_mag_small by auto. change 9223372036854775808 with P63. apply key_neg, emag_lt_P63; auto.
Qed.

Lemma ikey_strict x y : small x -> small y -> (x < y)%Z -> (ikey x < ikey y)%Z.
Proof.
  intros Sx Sy L.
  destruct x as [|p|p], y as [|q|q]; try lia.
  - rewrite (ikey_pos q Sy). change (ikey 0) with 0%Z.
    pose proof (emag_pos (N.pos q) ltac:(lia) ltac:(unfold small, P53 in *; lia)). lia.
  - rewrite (ikey_pos p Sx), (ikey_pos q Sy).
    pose proof (emag_mono (N.pos p) (N.pos q) ltac:(lia) ltac:(lia) ltac:(unfold small, P53 in *; lia)). lia.
  - rewrite (ikey_neg p Sx). change (ikey 0) with 0%Z. lia.
  - rewrite (ikey_neg p Sx), (ikey_pos q Sy). lia.
  - rewrite (ikey_neg p Sx), (ikey_neg q Sy).
    pose proof (emag_mono (N.pos q) (N.pos p) ltac:(lia) ltac:(lia) ltac:(unfold small, P53 in *; lia)). lia.
Qed.

Lemma ikey_compare x y : small x -> small y -> Z.compare x y = Z.compare (ikey x) (ikey y).
Proof.
  intros Sx Sy. destruct (Z.compare_spec x y) as [E|L|G]; symmetry.
  - subst. apply Z.compare_refl.
  - apply Z.compare_lt_iff, ikey_strict; auto.
  - apply Z.compare_gt_iff, ikey_strict; auto.
Qed.

Theorem small_ints_good_col vs :
  (forall z, In (Some (WI64 z)) vs -> small z) -> good_col vs = true.
Proof.
  intros H. unfold good_col.
  assert (forall z, In z (col_ints vs) -> small z) as Hs.
  { intros z Hz. unfold col_ints in Hz. apply in_flat_map in Hz. destruct Hz as [o [Ho Hz]].
    destruct o as [[]|]; cbn in Hz; try contradiction. destruct Hz as [<-|[]]. apply H; exact Ho. }
  apply forallb_forall. intros x Hx. apply forallb_forall. intros y Hy.
  unfold int_key. destruct (existsb is_f64 vs).
  - rewrite (ikey_compare x y (Hs x Hx) (Hs y Hy)). unfold ikey. destruct (Z.compare _ _); reflexivity.
  - destruct (Z.compare x y); reflexivity.
Qed.
