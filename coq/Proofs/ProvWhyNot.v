(* Lemmas about Model/ProvWhyNot.v (C23): patterns vs valuations, the greedy trace of
   explain_why_not, and the link between the boolean `derives` and `clause_derives`. *)
From IL Require Import Model.Value Proofs.ValueEq Model.ProvDatalog Proofs.ProvDatalog Model.ProvWhyNot.
From Coq Require Import Lia.
Open Scope N_scope.

(* ---------------------------------------------------------------- lookup / extension *)
Lemma lookup_app a b v :
  lookup (a ++ b) v = match lookup a v with Some x => Some x | None => lookup b v end.
Proof.
  induction a as [|[w x] a IH]; cbn; [reflexivity|].
  destruct (N.eqb w v); [reflexivity | exact IH].
Qed.

Lemma extends_nil th : extends [] th.
Proof. intros v x H; discriminate. Qed.

Lemma Forall2_imp {A B} (R R' : A -> B -> Prop) l l' :
  (forall a b, R a b -> R' a b) -> Forall2 R l l' -> Forall2 R' l l'.
Proof. intros H. induction 1; constructor; auto. Qed.

(* what a pattern position says about a tuple component under a valuation *)
Definition pos_rel (s : subst) (q : pterm) (x : value) : Prop :=
  match q with PC v => v = x | PV y => lookup s y = Some x end.

Lemma pos_rel_ext s s' q x : extends s s' -> pos_rel s q x -> pos_rel s' q x.
Proof. intros He. destruct q; cbn; auto. Qed.

Lemma match_pat_sound p : forall nb0 t nb,
  match_pat nb0 p t = Some nb -> extends nb0 nb /\ Forall2 (pos_rel nb) p t.
Proof.
  induction p as [|q p IH]; intros nb0 t nb H; destruct t as [|x t]; cbn in H; try discriminate.
  - inversion H; subst. split; [apply extends_refl | constructor].
  - destruct q; discriminate.
  - destruct q as [v|y].
    + destruct (value_eqb v x) eqn:E; [|discriminate]. apply value_eqb_spec in E; subst.
      apply IH in H as [He HF]. split; [exact He | constructor; [reflexivity | exact HF]].
    + destruct (lookup nb0 y) as [z|] eqn:El.
      * destruct (value_eqb z x) eqn:E; [|discriminate]. apply value_eqb_spec in E; subst.
        apply IH in H as [He HF]. split; [exact He | constructor; [cbn; auto | exact HF]].
      * apply IH in H as [He HF]. split.
        -- eapply extends_trans; [apply extends_cons; exact El | exact He].
        -- constructor; [cbn; apply He; cbn; rewrite N.eqb_refl; reflexivity | exact HF].
Qed.

Lemma match_pat_complete p : forall nb0 t s,
  extends nb0 s -> Forall2 (pos_rel s) p t ->
  exists nb, match_pat nb0 p t = Some nb /\ extends nb s.
Proof.
  induction p as [|q p IH]; intros nb0 t s He HF; inversion HF as [|? x ? t' Hq HF']; subst; cbn.
  - eauto.
  - destruct q as [v|y]; cbn in Hq.
    + subst. replace (value_eqb x x) with true by (symmetry; apply value_eqb_spec; reflexivity).
      eapply IH; eauto.
    + destruct (lookup nb0 y) as [z|] eqn:El.
      * assert (z = x) by (apply He in El; congruence). subst.
        replace (value_eqb x x) with true by (symmetry; apply value_eqb_spec; reflexivity).
        eapply IH; eauto.
      * eapply IH; [|exact HF'].
        intros w u Hw. cbn in Hw. destruct (N.eqb y w) eqn:E.
        -- apply N.eqb_eq in E; subst. inversion Hw; subst. exact Hq.
        -- apply He; exact Hw.
Qed.

(* keys of the new bindings are variables of the pattern *)
Lemma match_pat_keys p : forall nb0 t nb,
  match_pat nb0 p t = Some nb ->
  forall v x, lookup nb v = Some x -> lookup nb0 v = Some x \/ In (PV v) p.
Proof.
  induction p as [|q p IH]; intros nb0 t nb H v x Hl; destruct t as [|y t]; cbn in H; try discriminate.
  - inversion H; subst; auto.
  - destruct q; discriminate.
  - destruct q as [c|w].
    + destruct (value_eqb c y); [|discriminate].
      destruct (IH _ _ _ H _ _ Hl); [auto | right; right; assumption].
    + destruct (lookup nb0 w) as [z|] eqn:El.
      * destruct (value_eqb z y); [|discriminate].
        destruct (IH _ _ _ H _ _ Hl); [auto | right; right; assumption].
      * destruct (IH _ _ _ H _ _ Hl) as [H1|H1]; [|right; right; assumption].
        cbn in H1. destruct (N.eqb w v) eqn:E; [|auto].
        apply N.eqb_eq in E; subst. right; left; reflexivity.
Qed.

(* ---------------------------------------------------------------- atoms under valuations *)
Lemma atom_tuple_Forall2 s args t :
  opt_all (map (term_val s) args) = Some t <-> Forall2 (fun a x => term_val s a = Some x) args t.
Proof.
  revert t. induction args as [|a args IH]; intros t; cbn.
  - split; [intros H; inversion H; constructor | intros H; inversion H; reflexivity].
  - destruct (term_val s a) as [x|] eqn:E.
    + destruct (opt_all (map (term_val s) args)) as [r|] eqn:E2.
      * split.
        -- intros H; inversion H; subst. constructor; [exact E | apply IH; reflexivity].
        -- intros H; inversion H as [|? y ? t' H1 H2]; subst. apply IH in H2. congruence.
      * split; [discriminate|].
        intros H; inversion H as [|? y ? t' H1 H2]; subst. apply IH in H2. discriminate.
    + split; [discriminate|]. intros H; inversion H; subst. congruence.
Qed.

Lemma pat_of_valuation th s a t :
  extends th s -> atom_tuple s a = Some t -> Forall2 (pos_rel s) (atom_pat th a) t.
Proof.
  unfold atom_tuple, atom_pat. intros He H. apply atom_tuple_Forall2 in H.
  induction H as [|u x args t Hu HF IH]; cbn; constructor; [|exact IH].
  destruct u as [v|c]; cbn in *.
  - destruct (lookup th v) as [w|] eqn:E; cbn; [apply He in E; congruence | exact Hu].
  - congruence.
Qed.

Lemma valuation_of_pat th s a t :
  extends th s -> Forall2 (pos_rel s) (atom_pat th a) t -> atom_tuple s a = Some t.
Proof.
  unfold atom_tuple, atom_pat. intros He H. apply atom_tuple_Forall2.
  remember (map (term_pat th) (aargs a)) as p eqn:Ep. revert Ep. generalize (aargs a).
  induction H as [|q x p t Hq HF IH]; intros args Ep; destruct args as [|u args]; cbn in Ep; try discriminate.
  - constructor.
  - inversion Ep; subst. constructor; [|apply IH; reflexivity].
    destruct u as [v|c]; cbn in *.
    + destruct (lookup th v) as [w|] eqn:E; cbn in Hq; [subst; apply He; exact E | exact Hq].
    + congruence.
Qed.

(* the pattern of an atom under th matches t iff some extension of th sends the atom to t *)
Lemma pat_matches_iff th a t :
  pat_matches (atom_pat th a) t = true <-> exists s, extends th s /\ atom_tuple s a = Some t.
Proof.
  unfold pat_matches. split.
  - destruct (match_pat [] (atom_pat th a) t) as [nb|] eqn:E; [|discriminate]. intros _.
    pose proof (match_pat_keys _ _ _ _ E) as Hk.
    apply match_pat_sound in E as [_ HF].
    assert (He : extends th (nb ++ th)).
    { intros v x Hv. rewrite lookup_app. destruct (lookup nb v) as [y|] eqn:Ey; [|exact Hv].
      destruct (Hk _ _ Ey) as [H|H]; [discriminate|].
      unfold atom_pat in H. apply in_map_iff in H as [u [Hu _]].
      destruct u as [w|c]; cbn in Hu; [|discriminate].
      destruct (lookup th w) eqn:Ew; [discriminate|]. inversion Hu; subst. congruence. }
    exists (nb ++ th). split; [exact He|].
    apply valuation_of_pat with (th := th); [exact He|].
    eapply Forall2_imp; [|exact HF]. intros q x Hq. eapply pos_rel_ext; [|exact Hq].
    intros v y Hv. rewrite lookup_app, Hv. reflexivity.
  - intros [s [He H]].
    destruct (match_pat_complete (atom_pat th a) [] t s (extends_nil s) (pat_of_valuation th s a t He H)) as [nb [E _]].
    rewrite E. reflexivity.
Qed.

(* a less instantiated pattern matches whenever a more instantiated one does *)
Lemma pat_matches_mono th th' a t :
  extends th th' -> pat_matches (atom_pat th' a) t = true -> pat_matches (atom_pat th a) t = true.
Proof.
  intros He H. apply pat_matches_iff in H as [s [He' Hs]]. apply pat_matches_iff.
  exists s. split; [eapply extends_trans; eauto | exact Hs].
Qed.

(* ---------------------------------------------------------------- find_matches *)
Lemma find_matches_nil d r p :
  find_matches d r p = [] -> forall tu, In tu (rel_tuples d r) -> pat_matches p tu = false.
Proof.
  unfold find_matches, pat_matches. intros H tu Hin.
  destruct (match_pat [] p tu) as [nb|] eqn:E; [|reflexivity].
  assert (In (tu, nb) (flat_map (fun t => match match_pat [] p t with Some nb => [(t, nb)] | None => [] end) (rel_tuples d r))).
  { apply in_flat_map. exists tu. split; [exact Hin | rewrite E; left; reflexivity]. }
  rewrite H in H0. destruct H0.
Qed.

Lemma find_matches_In d r p tu nb :
  In (tu, nb) (find_matches d r p) -> In tu (rel_tuples d r) /\ match_pat [] p tu = Some nb.
Proof.
  unfold find_matches. intros H. apply in_flat_map in H as [t [Ht H]].
  destruct (match_pat [] p t) as [nb'|] eqn:E; [|destruct H].
  destruct H as [H|[]]. inversion H; subst. auto.
Qed.

Definition rel_tuples_opt (d : option db) (r : rel) : list tuple :=
  match d with Some d' => rel_tuples d' r | None => [] end.

(* the data handed to explain_why_not is the model *)
Definition data_is_model (base : db) (der : option db) (M : db) : Prop :=
  forall r tu, In tu (rel_tuples M r) <-> In tu (rel_tuples base r) \/ In tu (rel_tuples_opt der r).

Lemma find_matches_opt_nil d r p :
  find_matches_opt d r p = [] -> forall tu, In tu (rel_tuples_opt d r) -> pat_matches p tu = false.
Proof. destruct d; cbn; [apply find_matches_nil | intros _ tu []]. Qed.

Lemma find_matches_opt_In d r p tu nb :
  In (tu, nb) (find_matches_opt d r p) -> In tu (rel_tuples_opt d r) /\ match_pat [] p tu = Some nb.
Proof. destruct d; cbn; [apply find_matches_In | intros []]. Qed.

(* extending th by the bindings of a match of its own pattern *)
Lemma match_extends th a tu nb :
  match_pat [] (atom_pat th a) tu = Some nb ->
  extends th (nb ++ th) /\ atom_tuple (nb ++ th) a = Some tu.
Proof.
  intros E.
  pose proof (match_pat_keys _ _ _ _ E) as Hk.
  apply match_pat_sound in E as [_ HF].
  assert (He : extends th (nb ++ th)).
  { intros v x Hv. rewrite lookup_app. destruct (lookup nb v) as [y|] eqn:Ey; [|exact Hv].
    destruct (Hk _ _ Ey) as [H|H]; [discriminate|].
    unfold atom_pat in H. apply in_map_iff in H as [u [Hu _]].
    destruct u as [w|c]; cbn in Hu; [|discriminate].
    destruct (lookup th w) eqn:Ew; [discriminate|]. inversion Hu; subst. congruence. }
  split; [exact He|].
  apply valuation_of_pat with (th := th); [exact He|].
  eapply Forall2_imp; [|exact HF]. intros q x Hq. eapply pos_rel_ext; [|exact Hq].
  intros v y Hv. rewrite lookup_app, Hv. reflexivity.
Qed.

(* ---------------------------------------------------------------- consistency of reported values *)
Lemma val_consistent_ext th0 th u x :
  extends th0 th -> term_val th u = Some x -> val_consistent th0 u x = true.
Proof.
  intros He H. destruct u as [v|c]; cbn in *.
  - destruct (lookup th0 v) as [y|] eqn:E; [|reflexivity].
    apply He in E. apply value_eqb_spec. congruence.
  - apply value_eqb_spec. congruence.
Qed.

Lemma pat_consistent_ext th0 th args :
  extends th0 th -> pat_consistent th0 args (map (term_pat th) args) = true.
Proof.
  intros He. induction args as [|u args IH]; [reflexivity|].
  cbn [map]. destruct u as [v|c]; cbn [term_pat].
  - destruct (lookup th v) as [w|] eqn:E; cbn [pat_consistent]; rewrite IH, andb_true_r.
    + cbn. destruct (lookup th0 v) as [y|] eqn:E0; [|reflexivity].
      apply He in E0. apply value_eqb_spec. congruence.
    + cbn. rewrite N.eqb_refl. destruct (lookup th0 v) as [y|] eqn:E0; [|reflexivity].
      apply He in E0. congruence.
  - cbn [pat_consistent val_consistent]. rewrite IH, andb_true_r. apply value_eqb_spec; reflexivity.
Qed.

(* ---------------------------------------------------------------- reported blockers hold *)
Section Trace.
  Variable base : db.
  Variable der : option db.
  Variable M : db.
  Variable HM : data_is_model base der M.
  Variable c : clause.
  Variable t : tuple.
  Variable th0 : subst.
  Variable Hh : head_bind t (chead c) = Some th0.

  Lemma no_match_in_model r p :
    find_matches base r p = [] -> find_matches_opt der r p = [] ->
    existsb (pat_matches p) (rel_tuples M r) = false.
  Proof.
    intros H1 H2. apply existsb_false_forall. intros tu Hin.
    apply HM in Hin as [Hin|Hin]; [eapply find_matches_nil | eapply find_matches_opt_nil]; eauto.
  Qed.

  Lemma trace_blocker_holds body : forall pre th b,
    cbody c = pre ++ body -> extends th0 th ->
    trace base der th (length pre) body = Some b ->
    blocker_holds M c t b = true \/ exists i, b = BCmpErr i.
  Proof.
    induction body as [|l body IH]; intros pre th b Hc He H; cbn in H; [discriminate|].
    assert (Hn : nth_error (cbody c) (length pre) = Some l).
    { rewrite Hc, nth_error_app2, Nat.sub_diag; [reflexivity | lia]. }
    assert (Hc' : cbody c = (pre ++ [l]) ++ body) by (rewrite <- app_assoc; exact Hc).
    assert (Hl : length (pre ++ [l]) = S (length pre)) by (rewrite app_length; cbn; lia).
    destruct l as [a|a|x o y].
    - destruct (find_matches base (arel a) (atom_pat th a)) as [|[tu nb] ms] eqn:E1.
      + destruct (find_matches_opt der (arel a) (atom_pat th a)) as [|[tu nb] ms] eqn:E2.
        * inversion H; subst. left. cbn. rewrite Hh, Hn, N.eqb_refl. cbn.
          unfold atom_pat at 1. rewrite (pat_consistent_ext th0 th _ He). cbn.
          rewrite (no_match_in_model _ _ E1 E2). reflexivity.
        * assert (Hin : In (tu, nb) (find_matches_opt der (arel a) (atom_pat th a))) by (rewrite E2; left; reflexivity).
          apply find_matches_opt_In in Hin as [_ Hm]. apply match_extends in Hm as [He' _].
          rewrite <- Hl in H. eapply IH; [exact Hc' | eapply extends_trans; eauto | exact H].
      + assert (Hin : In (tu, nb) (find_matches base (arel a) (atom_pat th a))) by (rewrite E1; left; reflexivity).
        apply find_matches_In in Hin as [_ Hm]. apply match_extends in Hm as [He' _].
        rewrite <- Hl in H. eapply IH; [exact Hc' | eapply extends_trans; eauto | exact H].
    - assert (Hit : forall tu nb, match_pat [] (atom_pat th a) tu = Some nb ->
                                  pat_matches (atom_pat th0 a) tu = true).
      { intros tu nb Hm. apply (pat_matches_mono th0 th a tu He). unfold pat_matches. rewrite Hm. reflexivity. }
      destruct (find_matches base (arel a) (atom_pat th a)) as [|[tu nb] ms] eqn:E1.
      + destruct (find_matches_opt der (arel a) (atom_pat th a)) as [|[tu nb] ms] eqn:E2.
        * rewrite <- Hl in H. eapply IH; eauto.
        * assert (Hin : In (tu, nb) (find_matches_opt der (arel a) (atom_pat th a))) by (rewrite E2; left; reflexivity).
          apply find_matches_opt_In in Hin as [Hin Hm].
          inversion H; subst. left. cbn. rewrite Hh, Hn, N.eqb_refl. cbn.
          rewrite (Hit _ _ Hm), andb_true_r. apply in_rel_In. apply HM. right; exact Hin.
      + assert (Hin : In (tu, nb) (find_matches base (arel a) (atom_pat th a))) by (rewrite E1; left; reflexivity).
        apply find_matches_In in Hin as [Hin Hm].
        inversion H; subst. left. cbn. rewrite Hh, Hn, N.eqb_refl. cbn.
        rewrite (Hit _ _ Hm), andb_true_r. apply in_rel_In. apply HM. left; exact Hin.
    - destruct (term_val th x) as [vx|] eqn:Ex; [|inversion H; subst; right; eauto].
      destruct (term_val th y) as [vy|] eqn:Ey; [|inversion H; subst; right; eauto].
      destruct (cmp_eval o vx vy) eqn:Ec.
      + rewrite <- Hl in H. eapply IH; eauto.
      + inversion H; subst. left. cbn. rewrite Hh, Hn.
        rewrite (val_consistent_ext th0 th x vx He Ex), (val_consistent_ext th0 th y vy He Ey), Ec. reflexivity.
  Qed.

  (* ---- a trace that runs through exhibits a satisfying valuation *)
  Lemma lit_sat_ext s s' l : extends s s' -> lit_sat M M s l -> lit_sat M M s' l.
  Proof.
    intros He. destruct l as [a|a|x o y]; cbn.
    - intros [tu [H1 H2]]. exists tu. split; [eapply atom_tuple_ext; eauto | exact H2].
    - intros H tu Hin. destruct (pat_matches (atom_pat s' a) tu) eqn:E; [|reflexivity].
      apply (pat_matches_mono s s' a tu He) in E. rewrite (H tu Hin) in E. discriminate.
    - unfold cmp_ok. destruct (term_val s x) as [vx|] eqn:Ex; [|discriminate].
      destruct (term_val s y) as [vy|] eqn:Ey; [|discriminate].
      rewrite (term_val_ext _ _ _ _ He Ex), (term_val_ext _ _ _ _ He Ey). auto.
  Qed.

  Lemma trace_none_sat body : forall th idx,
    trace base der th idx body = None ->
    exists s, extends th s /\ Forall (lit_sat M M s) body.
  Proof.
    induction body as [|l body IH]; intros th idx H; cbn in H.
    - exists th. split; [apply extends_refl | constructor].
    - destruct l as [a|a|x o y].
      + assert (G : forall tu nb, In tu (rel_tuples M (arel a)) ->
                                  match_pat [] (atom_pat th a) tu = Some nb ->
                                  trace base der (nb ++ th) (S idx) body = None ->
                                  exists s, extends th s /\ Forall (lit_sat M M s) (LPos a :: body)).
        { intros tu nb Hin Hm Ht. apply match_extends in Hm as [He Ha].
          apply IH in Ht as [s [Hs HF]]. exists s. split; [eapply extends_trans; eauto|].
          constructor; [|exact HF]. exists tu. split; [eapply atom_tuple_ext; eauto | exact Hin]. }
        destruct (find_matches base (arel a) (atom_pat th a)) as [|[tu nb] ms] eqn:E1.
        * destruct (find_matches_opt der (arel a) (atom_pat th a)) as [|[tu nb] ms] eqn:E2; [discriminate|].
          assert (Hin : In (tu, nb) (find_matches_opt der (arel a) (atom_pat th a))) by (rewrite E2; left; reflexivity).
          apply find_matches_opt_In in Hin as [Hin Hm]. eapply G; eauto. apply HM; right; exact Hin.
        * assert (Hin : In (tu, nb) (find_matches base (arel a) (atom_pat th a))) by (rewrite E1; left; reflexivity).
          apply find_matches_In in Hin as [Hin Hm]. eapply G; eauto. apply HM; left; exact Hin.
      + destruct (find_matches base (arel a) (atom_pat th a)) as [|[tu nb] ms] eqn:E1; [|discriminate].
        destruct (find_matches_opt der (arel a) (atom_pat th a)) as [|[tu nb] ms] eqn:E2; [|discriminate].
        apply IH in H as [s [Hs HF]]. exists s. split; [exact Hs|]. constructor; [|exact HF].
        apply (lit_sat_ext th s (LNeg a) Hs). cbn. apply existsb_false_forall.
        apply no_match_in_model; assumption.
      + destruct (term_val th x) as [vx|] eqn:Ex; [|discriminate].
        destruct (term_val th y) as [vy|] eqn:Ey; [|discriminate].
        destruct (cmp_eval o vx vy) eqn:Ec; [|discriminate].
        apply IH in H as [s [Hs HF]]. exists s. split; [exact Hs|]. constructor; [|exact HF].
        apply (lit_sat_ext th s (LCmp x o y) Hs). cbn. unfold cmp_ok. rewrite Ex, Ey. exact Ec.
  Qed.
End Trace.

Lemma head_bind_tuple t h th0 : head_bind t h = Some th0 -> atom_tuple th0 h = Some t.
Proof.
  unfold head_bind, atom_tuple. intros H. eapply match_args_tuple; [exact H | apply extends_refl].
Qed.

Theorem explain_blocker_holds base der M c t b :
  data_is_model base der M ->
  explain_clause base der t c = Some b ->
  blocker_holds M c t b = true \/ exists i, b = BCmpErr i.
Proof.
  intros HM H. unfold explain_clause, unify_head in H.
  destruct (match_args [] (aargs (chead c)) t) as [th0|] eqn:E.
  - eapply (trace_blocker_holds base der M HM c t th0 E (cbody c) [] th0 b); [reflexivity | apply extends_refl | exact H].
  - inversion H; subst. left. cbn. unfold head_bind. rewrite E. reflexivity.
Qed.

Theorem explain_unblocked_derives base der M c t :
  data_is_model base der M ->
  explain_clause base der t c = None -> clause_derives M c t.
Proof.
  intros HM H. unfold explain_clause, unify_head in H.
  destruct (match_args [] (aargs (chead c)) t) as [th0|] eqn:E; [|discriminate].
  apply (trace_none_sat base der M HM) in H as [s [Hs HF]].
  exists s. split; [exact HF|].
  eapply atom_tuple_ext; [exact Hs | apply head_bind_tuple; exact E].
Qed.

(* ---------------------------------------------------------------- `derives` decides clause_derives *)
Lemma derives_sound M c t : derives M c t = true -> clause_derives M c t.
Proof.
  unfold derives. intros H. apply mem_tuple_In in H. unfold clause_heads in H.
  apply in_flat_map in H as [th [Hth H]].
  destruct (atom_tuple th (chead c)) as [hu|] eqn:Eh; [|destruct H]. destruct H as [<-|[]].
  unfold clause_thetas in Hth. apply filter_In in Hth as [Hsat Hside].
  apply sat_pos_spec in Hsat as [_ HF]. rewrite Forall_forall in HF. rewrite forallb_forall in Hside.
  exists th. split; [|exact Eh]. apply Forall_forall. intros l Hl.
  specialize (Hside l Hl). destruct l as [a|a|x o y]; cbn in *.
  - apply HF. apply in_pos_atoms. exact Hl.
  - unfold neg_ok in Hside. apply negb_true_iff in Hside. apply existsb_false_forall. exact Hside.
  - exact Hside.
Qed.

Lemma match_args_complete args : forall th tu s,
  extends th s -> opt_all (map (term_val s) args) = Some tu ->
  exists th1, match_args th args tu = Some th1 /\ extends th1 s.
Proof.
  induction args as [|u args IH]; intros th tu s He H; cbn in H.
  - inversion H; subst. exists th. split; [reflexivity | exact He].
  - destruct (term_val s u) as [x|] eqn:Eu; [|discriminate].
    destruct (opt_all (map (term_val s) args)) as [r|] eqn:Er; [|discriminate].
    inversion H; subst. cbn. destruct u as [v|c]; cbn in Eu.
    + destruct (lookup th v) as [y|] eqn:El.
      * assert (y = x) by (apply He in El; congruence). subst.
        replace (value_eqb x x) with true by (symmetry; apply value_eqb_spec; reflexivity).
        eapply IH; eauto.
      * eapply IH; [|exact Er]. intros w z Hw. cbn in Hw. destruct (N.eqb v w) eqn:E.
        -- apply N.eqb_eq in E; subst. congruence.
        -- apply He; exact Hw.
    + inversion Eu; subst.
      replace (value_eqb x x) with true by (symmetry; apply value_eqb_spec; reflexivity).
      eapply IH; eauto.
Qed.

Lemma sat_pos_complete L ats : forall th s,
  extends th s ->
  Forall (fun a => exists tu, atom_tuple s a = Some tu /\ In tu (rel_tuples L (arel a))) ats ->
  exists th', In th' (sat_pos L ats th) /\ extends th' s.
Proof.
  induction ats as [|a ats IH]; intros th s He HF; cbn.
  - exists th. split; [left; reflexivity | exact He].
  - inversion HF as [|? ? [tu [Ha Hin]] HF']; subst.
    destruct (match_args_complete (aargs a) th tu s He Ha) as [th1 [Hm He1]].
    destruct (IH th1 s He1 HF') as [th' [Hin' He']].
    exists th'. split; [|exact He'].
    apply in_flat_map. exists tu. split; [exact Hin | rewrite Hm; exact Hin'].
Qed.

Definition binds (th : subst) (v : var) : Prop := exists x, lookup th v = Some x.

Lemma atom_tuple_binds th a tu v : atom_tuple th a = Some tu -> In v (atom_vars a) -> binds th v.
Proof.
  unfold atom_tuple, atom_vars. intros H Hv. apply atom_tuple_Forall2 in H.
  apply in_flat_map in Hv as [u [Hu Hv]].
  destruct u as [w|c]; cbn in Hv; [|destruct Hv]. destruct Hv as [<-|[]].
  clear - H Hu. induction H as [|u x args t Hux HF IH]; [destruct Hu|].
  destruct Hu as [->|Hu]; [exists x; exact Hux | auto].
Qed.

Lemma term_val_agree th s u :
  extends th s -> (forall v, In v (term_vars u) -> binds th v) -> term_val th u = term_val s u.
Proof.
  intros He Hb. destruct u as [v|c]; cbn; [|reflexivity].
  destruct (Hb v (or_introl eq_refl)) as [x Hx]. rewrite Hx. symmetry. apply He. exact Hx.
Qed.

Lemma term_pat_agree th s u :
  extends th s -> (forall v, In v (term_vars u) -> binds th v) -> term_pat th u = term_pat s u.
Proof.
  intros He Hb. destruct u as [v|c]; cbn; [|reflexivity].
  destruct (Hb v (or_introl eq_refl)) as [x Hx]. rewrite Hx, (He _ _ Hx). reflexivity.
Qed.

Lemma memN_In x l : memN x l = true <-> In x l.
Proof.
  unfold memN. rewrite existsb_exists. split.
  - intros [y [Hy E]]. apply N.eqb_eq in E; subst; exact Hy.
  - intros H. exists x. split; [exact H | apply N.eqb_refl].
Qed.

Lemma subsetN_In a b : subsetN a b = true -> forall x, In x a -> In x b.
Proof.
  unfold subsetN. rewrite forallb_forall. intros H x Hx. apply memN_In. apply H. exact Hx.
Qed.

Lemma map_agree {A B} (f g : A -> B) l : (forall x, In x l -> f x = g x) -> map f l = map g l.
Proof. induction l as [|y l IH]; intros H; cbn; [reflexivity|]. rewrite H, IH; auto; [intros; apply H; right; auto | left; auto]. Qed.

Lemma clause_heads_complete L M c t :
  clause_safe c = true ->
  (exists s, Forall (lit_sat L M s) (cbody c) /\ atom_tuple s (chead c) = Some t) ->
  In t (clause_heads L M c).
Proof.
  intros Hsafe [s [HF Hh]].
  unfold clause_safe in Hsafe. apply andb_true_iff in Hsafe as [Hhead Hside].
  rewrite forallb_forall in Hside. rewrite Forall_forall in HF.
  destruct (sat_pos_complete L (pos_atoms (cbody c)) [] s (extends_nil s)) as [th [Hin He]].
  { apply Forall_forall. intros a Ha. apply in_pos_atoms in Ha. exact (HF _ Ha). }
  assert (Hb : forall v, In v (flat_map atom_vars (pos_atoms (cbody c))) -> binds th v).
  { intros v Hv. apply in_flat_map in Hv as [a [Ha Hv]].
    apply sat_pos_spec in Hin as [_ HF2]. rewrite Forall_forall in HF2.
    destruct (HF2 a Ha) as [tu [Ht _]]. eapply atom_tuple_binds; eauto. }
  unfold clause_heads. apply in_flat_map. exists th. split.
  - unfold clause_thetas. apply filter_In. split; [exact Hin|].
    apply forallb_forall. intros l Hl. specialize (Hside l Hl). specialize (HF l Hl).
    destruct l as [a|a|x o y]; cbn in *; [reflexivity| |].
    + unfold neg_ok. apply negb_true_iff. apply existsb_false_forall.
      replace (atom_pat th a) with (atom_pat s a); [exact HF|].
      unfold atom_pat. symmetry. apply map_agree. intros u Hu. apply term_pat_agree; [exact He|].
      intros v Hv. apply Hb. eapply subsetN_In; [exact Hside|].
      unfold atom_vars. apply in_flat_map. exists u. auto.
    + unfold cmp_ok in *.
      rewrite (term_val_agree th s x He), (term_val_agree th s y He); [exact HF| |];
        intros v Hv; apply Hb; (eapply subsetN_In; [exact Hside|]); apply in_or_app; auto.
  - replace (atom_tuple th (chead c)) with (atom_tuple s (chead c)); [rewrite Hh; left; reflexivity|].
    unfold atom_tuple. f_equal. symmetry. apply map_agree. intros u Hu. apply term_val_agree; [exact He|].
    intros v Hv. apply Hb. eapply subsetN_In; [exact Hhead|].
    unfold atom_vars. apply in_flat_map. exists u. auto.
Qed.

Lemma derives_complete M c t : clause_safe c = true -> clause_derives M c t -> derives M c t = true.
Proof.
  intros Hsafe H. unfold derives. apply mem_tuple_In. apply clause_heads_complete; assumption.
Qed.

(* ---------------------------------------------------------------- bound_before_use *)
Definition all_bound (th : subst) (bound : list var) : Prop := forall v, In v bound -> binds th v.

Lemma all_bound_ext th th' bound : extends th th' -> all_bound th bound -> all_bound th' bound.
Proof. intros He H v Hv. destruct (H v Hv) as [x Hx]. exists x. apply He; exact Hx. Qed.

Lemma all_bound_after_match th a tu nb bound :
  match_pat [] (atom_pat th a) tu = Some nb -> all_bound th bound ->
  all_bound (nb ++ th) (atom_vars a ++ bound).
Proof.
  intros Hm Hb. apply match_extends in Hm as [He Ha]. intros v Hv. apply in_app_or in Hv as [Hv|Hv].
  - eapply atom_tuple_binds; eauto.
  - eapply all_bound_ext; eauto.
Qed.

Lemma binds_term_val th u bound :
  all_bound th bound -> subsetN (term_vars u) bound = true -> exists x, term_val th u = Some x.
Proof.
  intros Hb Hs. destruct u as [v|c]; cbn; [|eauto].
  apply Hb. eapply subsetN_In; [exact Hs | left; reflexivity].
Qed.

Lemma subsetN_app a b l : subsetN (a ++ b) l = true -> subsetN a l = true /\ subsetN b l = true.
Proof. unfold subsetN. rewrite forallb_app. apply andb_true_iff. Qed.

Section TraceBBU.
  Variable base : db.
  Variable der : option db.

  Lemma trace_no_err body : forall th idx bound b,
    bbu_body bound body = true -> all_bound th bound ->
    trace base der th idx body = Some b -> forall i, b <> BCmpErr i.
  Proof.
    induction body as [|l body IH]; intros th idx bound b Hbbu Hb H i; cbn in H; [discriminate|].
    destruct l as [a|a|x o y]; cbn in Hbbu.
    - destruct (find_matches base (arel a) (atom_pat th a)) as [|[tu nb] ms] eqn:E1.
      + destruct (find_matches_opt der (arel a) (atom_pat th a)) as [|[tu nb] ms] eqn:E2.
        * inversion H; subst. discriminate.
        * assert (Hin : In (tu, nb) (find_matches_opt der (arel a) (atom_pat th a))) by (rewrite E2; left; reflexivity).
          apply find_matches_opt_In in Hin as [_ Hm].
          eapply IH; [exact Hbbu | eapply all_bound_after_match; eauto | exact H].
      + assert (Hin : In (tu, nb) (find_matches base (arel a) (atom_pat th a))) by (rewrite E1; left; reflexivity).
        apply find_matches_In in Hin as [_ Hm].
        eapply IH; [exact Hbbu | eapply all_bound_after_match; eauto | exact H].
    - apply andb_true_iff in Hbbu as [_ Hbbu].
      destruct (find_matches base (arel a) (atom_pat th a)) as [|[tu nb] ms]; [|inversion H; subst; discriminate].
      destruct (find_matches_opt der (arel a) (atom_pat th a)) as [|[tu nb] ms]; [|inversion H; subst; discriminate].
      eapply IH; eauto.
    - apply andb_true_iff in Hbbu as [Hs Hbbu]. apply subsetN_app in Hs as [Hx Hy].
      destruct (binds_term_val th x bound Hb Hx) as [vx Ex].
      destruct (binds_term_val th y bound Hb Hy) as [vy Ey].
      rewrite Ex, Ey in H. destruct (cmp_eval o vx vy); [eapply IH; eauto | inversion H; subst; discriminate].
  Qed.
End TraceBBU.

Lemma head_bind_all_bound t h th0 : head_bind t h = Some th0 -> all_bound th0 (atom_vars h).
Proof. intros H v Hv. eapply atom_tuple_binds; [apply head_bind_tuple; exact H | exact Hv]. Qed.

Theorem explain_no_unbound_error base der c t b :
  bound_before_use c = true -> explain_clause base der t c = Some b -> forall i, b <> BCmpErr i.
Proof.
  unfold bound_before_use, explain_clause, unify_head. intros Hbbu H.
  destruct (match_args [] (aargs (chead c)) t) as [th0|] eqn:E.
  - eapply trace_no_err; [exact Hbbu | apply (head_bind_all_bound t); exact E | exact H].
  - inversion H; subst. discriminate.
Qed.

(* ---------------------------------------------------------------- a trace without choices is exhaustive *)
Lemma find_matches_complete d r p tu nb :
  In tu (rel_tuples d r) -> match_pat [] p tu = Some nb -> In (tu, nb) (find_matches d r p).
Proof.
  intros Hin Hm. unfold find_matches. apply in_flat_map. exists tu. split; [exact Hin|].
  rewrite Hm. left; reflexivity.
Qed.

Lemma extends_app nb th s : extends nb s -> extends th s -> extends (nb ++ th) s.
Proof.
  intros H1 H2 v x Hv. rewrite lookup_app in Hv. destruct (lookup nb v) as [y|] eqn:E.
  - inversion Hv; subst. apply H1; exact E.
  - apply H2; exact Hv.
Qed.

Lemma atom_pat_agree th s a bound :
  extends th s -> all_bound th bound -> subsetN (atom_vars a) bound = true -> atom_pat th a = atom_pat s a.
Proof.
  intros He Hb Hs. unfold atom_pat. apply map_agree. intros u Hu. apply term_pat_agree; [exact He|].
  intros v Hv. apply Hb. eapply subsetN_In; [exact Hs|]. unfold atom_vars. apply in_flat_map. exists u; auto.
Qed.

Section TraceDet.
  Variable base : db.
  Variable der : option db.
  Variable M : db.
  Variable HM : data_is_model base der M.

  Lemma trace_det_complete body : forall th idx bound s,
    bbu_body bound body = true -> all_bound th bound ->
    extends th s -> Forall (lit_sat M M s) body ->
    trace_det M None th body = true ->
    trace base der th idx body = None.
  Proof.
    induction body as [|l body IH]; intros th idx bound s Hbbu Hb He HF Hd; [reflexivity|].
    inversion HF as [|? ? Hl HF']; subst. cbn in Hbbu, Hd. cbn [trace].
    destruct l as [a|a|x o y].
    - destruct Hl as [tu [Ha Hin]].
      destruct (match_pat_complete (atom_pat th a) [] tu s (extends_nil s) (pat_of_valuation th s a tu He Ha)) as [nb [Hm Hnb]].
      pose proof (find_matches_complete M (arel a) _ tu nb Hin Hm) as HinM.
      cbn [find_matches_opt] in Hd. rewrite app_nil_r in Hd.
      destruct (find_matches M (arel a) (atom_pat th a)) as [|[x1 nb1] ms] eqn:EM; [destruct HinM|].
      destruct ms as [|m2 ms]; [|discriminate].
      destruct HinM as [HinM|[]]. inversion HinM; subst x1 nb1.
      assert (Hone : forall tu1 nb1, In tu1 (rel_tuples M (arel a)) ->
                                     match_pat [] (atom_pat th a) tu1 = Some nb1 -> tu1 = tu /\ nb1 = nb).
      { intros tu1 nb1 H1 H2. pose proof (find_matches_complete M (arel a) _ tu1 nb1 H1 H2) as H3.
        rewrite EM in H3. destruct H3 as [H3|[]]. inversion H3; auto. }
      assert (Hnext : trace base der (nb ++ th) (S idx) body = None).
      { apply (IH (nb ++ th) (S idx) (atom_vars a ++ bound) s); [exact Hbbu | eapply all_bound_after_match; eauto | apply extends_app; [exact Hnb | exact He] | exact HF' | exact Hd]. }
      destruct (find_matches base (arel a) (atom_pat th a)) as [|[tu1 nb1] ms1] eqn:E1.
      + destruct (find_matches_opt der (arel a) (atom_pat th a)) as [|[tu1 nb1] ms1] eqn:E2.
        * exfalso. apply HM in Hin as [Hin|Hin].
          -- pose proof (find_matches_nil _ _ _ E1 tu Hin) as Hf. unfold pat_matches in Hf. rewrite Hm in Hf. discriminate.
          -- pose proof (find_matches_opt_nil _ _ _ E2 tu Hin) as Hf. unfold pat_matches in Hf. rewrite Hm in Hf. discriminate.
        * assert (Hi : In (tu1, nb1) (find_matches_opt der (arel a) (atom_pat th a))) by (rewrite E2; left; reflexivity).
          apply find_matches_opt_In in Hi as [Hi1 Hi2].
          destruct (Hone tu1 nb1 (proj2 (HM _ _) (or_intror Hi1)) Hi2) as [-> ->]. exact Hnext.
      + assert (Hi : In (tu1, nb1) (find_matches base (arel a) (atom_pat th a))) by (rewrite E1; left; reflexivity).
        apply find_matches_In in Hi as [Hi1 Hi2].
        destruct (Hone tu1 nb1 (proj2 (HM _ _) (or_introl Hi1)) Hi2) as [-> ->]. exact Hnext.
    - apply andb_true_iff in Hbbu as [Hs Hbbu]. cbn in Hl.
      rewrite <- (atom_pat_agree th s a bound He Hb Hs) in Hl.
      assert (E1 : find_matches base (arel a) (atom_pat th a) = []).
      { destruct (find_matches base (arel a) (atom_pat th a)) as [|[tu1 nb1] ms1] eqn:E1; [reflexivity|].
        assert (Hi : In (tu1, nb1) (find_matches base (arel a) (atom_pat th a))) by (rewrite E1; left; reflexivity).
        apply find_matches_In in Hi as [Hi1 Hi2].
        specialize (Hl tu1 (proj2 (HM _ _) (or_introl Hi1))). unfold pat_matches in Hl. rewrite Hi2 in Hl. discriminate. }
      assert (E2 : find_matches_opt der (arel a) (atom_pat th a) = []).
      { destruct (find_matches_opt der (arel a) (atom_pat th a)) as [|[tu1 nb1] ms1] eqn:E2; [reflexivity|].
        assert (Hi : In (tu1, nb1) (find_matches_opt der (arel a) (atom_pat th a))) by (rewrite E2; left; reflexivity).
        apply find_matches_opt_In in Hi as [Hi1 Hi2].
        specialize (Hl tu1 (proj2 (HM _ _) (or_intror Hi1))). unfold pat_matches in Hl. rewrite Hi2 in Hl. discriminate. }
      rewrite E1, E2.
      assert (EM : find_matches M (arel a) (atom_pat th a) = []).
      { destruct (find_matches M (arel a) (atom_pat th a)) as [|[tu1 nb1] ms1] eqn:EM; [reflexivity|].
        assert (Hi : In (tu1, nb1) (find_matches M (arel a) (atom_pat th a))) by (rewrite EM; left; reflexivity).
        apply find_matches_In in Hi as [Hi1 Hi2].
        specialize (Hl tu1 Hi1). unfold pat_matches in Hl. rewrite Hi2 in Hl. discriminate. }
      rewrite EM in Hd. cbn in Hd. eapply IH; eauto.
    - apply andb_true_iff in Hbbu as [Hs Hbbu]. apply subsetN_app in Hs as [Hx Hy].
      cbn in Hl. unfold cmp_ok in Hl.
      destruct (binds_term_val th x bound Hb Hx) as [vx Ex].
      destruct (binds_term_val th y bound Hb Hy) as [vy Ey].
      rewrite (term_val_ext _ _ _ _ He Ex), (term_val_ext _ _ _ _ He Ey) in Hl.
      rewrite Ex, Ey in Hd |- *. rewrite Hl in Hd |- *. eapply IH; eauto.
  Qed.
End TraceDet.

Theorem explain_deterministic_complete base der M c t :
  data_is_model base der M -> bound_before_use c = true -> clause_det M None t c = true ->
  clause_derives M c t -> explain_clause base der t c = None.
Proof.
  intros HM Hbbu Hdet [s [HF Hh]]. unfold explain_clause, clause_det, unify_head in *.
  destruct (match_args [] (aargs (chead c)) t) as [th0|] eqn:E.
  - destruct (match_args_complete (aargs (chead c)) [] t s (extends_nil s) Hh) as [th1 [E1 He1]].
    rewrite E in E1. inversion E1; subst th1.
    eapply trace_det_complete; eauto. apply (head_bind_all_bound t). exact E.
  - exfalso. destruct (match_args_complete (aargs (chead c)) [] t s (extends_nil s) Hh) as [th1 [E1 _]]. congruence.
Qed.

(* ---------------------------------------------------------------- the property on the model's report *)
Lemma forallb2_map {A B} (f : A -> B -> bool) (g : A -> B) l :
  forallb2 f l (map g l) = forallb (fun x => f x (g x)) l.
Proof. induction l as [|x l IH]; cbn; [reflexivity | rewrite IH; reflexivity]. Qed.

Theorem explain_truthful P base der M r t :
  data_is_model base der M ->
  (forall c, In c (clauses_of P r) -> bound_before_use c = true /\ clause_safe c = true) ->
  (* the greedy trace had no choice, or no clause derives the tuple at all *)
  ((forall c, In c (clauses_of P r) -> clause_det M None t c = true) \/
   existsb (fun c => derives M c t) (clauses_of P r) = false) ->
  why_not_truthful P M r t (explain P base der r t) = true.
Proof.
  intros HM Hc Hcase. unfold why_not_truthful, explain. set (cs := clauses_of P r) in *.
  apply andb_true_iff. split.
  - rewrite forallb2_map. apply forallb_forall. intros c Hin.
    destruct (explain_clause base der t c) as [b|] eqn:E; [|reflexivity].
    destruct (explain_blocker_holds base der M c t b HM E) as [H|[i Hi]]; [exact H|].
    exfalso. eapply explain_no_unbound_error; [apply Hc; exact Hin | exact E | exact Hi].
  - destruct (existsb (fun c => derives M c t) cs) eqn:Ed.
    + destruct Hcase as [Hdet|Hn]; [|discriminate].
      apply existsb_exists in Ed as [c [Hin Hd]].
      apply negb_true_iff. apply not_true_is_false. intros Hall.
      rewrite forallb_forall in Hall. specialize (Hall (explain_clause base der t c) (in_map _ _ _ Hin)).
      rewrite (explain_deterministic_complete base der M c t HM (proj1 (Hc c Hin)) (Hdet c Hin) (derives_sound M c t Hd)) in Hall.
      discriminate.
    + apply forallb_forall. intros o Ho. apply in_map_iff in Ho as [c [<- Hin]].
      destruct (explain_clause base der t c) as [b|] eqn:E; [reflexivity|]. exfalso.
      apply (explain_unblocked_derives base der M c t HM) in E.
      apply (derives_complete M c t (proj2 (Hc c Hin))) in E.
      assert (existsb (fun c => derives M c t) cs = true) by (apply existsb_exists; eauto). congruence.
Qed.
