(* Proofs/SyntaxParse.v — parse_term (show_term t) = Some t for well-formed t *)
From Coq Require Import String.
From IL Require Import Model.Syntax Model.SyntaxWf Proofs.SyntaxBase Proofs.SyntaxArith Proofs.SyntaxArith2
  Proofs.SyntaxArith3 Proofs.SyntaxScan Proofs.SyntaxTerm.
Open Scope N_scope.

Lemma first_is_false c x T : (x =? c) = false -> first_is c (x :: T) = false.
Proof. intros H. exact H. Qed.
Lemma str_eqb_len a b : length a <> length b -> str_eqb a b = false.
Proof. intros H. apply str_eqb_neq. intros ->. congruence. Qed.

Lemma all_some_map {A B} (f : A -> option B) (g : B -> A) l :
  (forall x, In x l -> f (g x) = Some x) -> all_some (List.map f (List.map g l)) = Some l.
Proof.
  induction l as [|x l IH]; intros H. reflexivity.
  cbn [List.map all_some]. rewrite H by (left; auto). rewrite IH. reflexivity.
  intros y I. apply H. right. auto.
Qed.

(* str::split(',') on a ", "-joined list of comma-free texts *)
Lemma split_comma_skip T : forall rest cur, forallb (fun c => negb (c =? 44)) T = true ->
  split_comma (T ++ rest) cur = split_comma rest (rev T ++ cur).
Proof.
  induction T as [|c T IH]; intros rest cur H. reflexivity.
  cbn [forallb] in H. apply andb_true_iff in H as [H1 H2]. apply negb_true_iff in H1.
  cbn [app split_comma rev]. rewrite H1, <- app_assoc. apply IH; auto.
Qed.
Lemma split_comma_join l : forall cur, l <> [] ->
  Forall (fun x => forallb (fun c => negb (c =? 44)) x = true) l ->
  split_comma (join_cs l) cur =
  match l with x :: t => (rev cur ++ x) :: List.map (cons 32) t | [] => [] end.
Proof.
  induction l as [|x l IH]; intros cur NE F. congruence.
  inversion F as [|? ? Cx Fl]; subst. unfold join_cs in *. cbn [join].
  destruct l as [|y l].
  - rewrite <- (app_nil_r x) at 1. rewrite split_comma_skip by auto. cbn [split_comma].
    rewrite rev_app_distr, rev_involutive. reflexivity.
  - rewrite split_comma_skip by auto. cbn [app split_comma]. ceq.
    rewrite rev_app_distr, rev_involutive. f_equal.
    rewrite (IH [32]) by (auto; discriminate). reflexivity.
Qed.

(* no arithmetic operator in a text without  < > + - * / %  *)
Lemma hao_none T : forall before ad,
  forallb (fun c => negb ((c =? 60) || (c =? 62) || (c =? 43) || (c =? 42) || (c =? 47) || (c =? 37) || (c =? 45))) T = true ->
  forall E, has_arith_op E T before ad = false.
Proof.
  induction T as [|c T IH]; intros before ad H E. reflexivity.
  cbn [forallb] in H. apply andb_true_iff in H as [H1 H2]. apply negb_true_iff in H1.
  apply orb_false_iff in H1 as [H1 C45]. apply orb_false_iff in H1 as [H1 C37].
  apply orb_false_iff in H1 as [H1 C47]. apply orb_false_iff in H1 as [H1 C42].
  apply orb_false_iff in H1 as [H1 C43]. apply orb_false_iff in H1 as [C60 C62].
  cbn [has_arith_op]. rewrite C60, C62, C43, C42, C47, C37, C45. cbn [andb orb]. apply IH; auto.
Qed.

Section WithEnv.
Variable E : env.

(* an operator that triggers, after a prefix of arithmetic characters *)
Lemma hao_true L : forall before c R,
  forallb ac L = true ->
  ((c =? 42) || (c =? 47) || (c =? 37) = true \/
   ((c =? 43) = true /\ sci (rev L ++ before) = false) \/
   ((c =? 45) = true /\ rev L ++ before <> [] /\ sci (rev L ++ before) = false /\
    minus_is_binary E (rev L ++ before) = true)) ->
  has_arith_op E (L ++ c :: R) before 0 = true.
Proof.
  induction L as [|x L IH]; intros before c R A T.
  - cbn [app rev] in *. cbn [has_arith_op].
    assert (C60 : (c =? 60) = false /\ (c =? 62) = false).
    { destruct T as [T|[[T _]|[T _]]]; bools; nums; subst; split; reflexivity. }
    destruct C60 as [C60 C62]. rewrite C60, C62.
    destruct T as [T|[[T S]|(T & NE & S & B)]].
    + destruct (c =? 43) eqn:P. { cbn [andb]. change (0 =? 0)%Z with true. cbn. rewrite ?S.
        destruct (sci before); reflexivity || (bools; nums; subst; discriminate). }
      cbn [andb]. rewrite T. reflexivity.
    + rewrite T. change (0 =? 0)%Z with true. cbn [andb]. rewrite S. reflexivity.
    + apply N.eqb_eq in T. subst c. ceq. change (0 =? 0)%Z with true. cbn [andb].
      destruct before; try congruence. cbn [negb]. rewrite S, B. reflexivity.
  - cbn [forallb] in A. apply andb_true_iff in A as [A1 A2].
    cbn [app has_arith_op].
    assert (X : (x =? 60) = false /\ (x =? 62) = false) by (clear - A1; cfact).
    destruct X as [X60 X62]. rewrite X60, X62. change (0 =? 0)%Z with true. rewrite !andb_true_r.
    assert (REC : has_arith_op E (L ++ c :: R) (x :: before) 0 = true).
    { apply IH; auto. cbn [rev] in T. rewrite <- app_assoc in T. exact T. }
    destruct (x =? 43). { destruct (sci before); auto. }
    destruct ((x =? 42) || (x =? 47) || (x =? 37)); auto.
    destruct (x =? 45); auto. cbn [andb].
    destruct (negb match before with [] => true | _ :: _ => false end); auto.
    destruct (sci before); auto. destruct (minus_is_binary E before); auto.
Qed.

Lemma arith_has_op o l r : wf_arith E (ABin o l r) = true ->
  has_arith_op E (show_arith E (ABin o l r)) [] 0 = true.
Proof.
  intros W. destruct (wf_bin E o l r W) as (Wl & Wr & S).
  rewrite show_bin. pose proof (good_lopnd E o l Wl) as GL.
  apply hao_true. apply GL. rewrite app_nil_r.
  destruct o; cbn [op_char].
  - right. left. split. reflexivity. rewrite (lopnd_add E OAdd l eq_refl). apply S. reflexivity.
  - right. right. rewrite (lopnd_add E OSub l eq_refl). split. reflexivity.
    split. apply rev_ne. apply (good_ne _ (good_show E l Wl)).
    split. apply S. reflexivity. apply endc_binary. apply (good_show E l Wl).
  - left. reflexivity.
  - left. reflexivity.
  - left. reflexivity.
Qed.

(* the text before the first '(' of printed arithmetic is not a function name *)
Lemma find_char_some c s : forall pre a b, find_char c s pre = Some (a, b) ->
  exists p, a = rev pre ++ p /\ s = p ++ c :: b /\ forallb (fun x => negb (x =? c)) p = true.
Proof.
  induction s as [|x s IH]; intros pre a b H. discriminate.
  cbn [find_char] in H. destruct (x =? c) eqn:X.
  - inversion H; subst. apply N.eqb_eq in X. subst. exists []. rewrite app_nil_r. auto.
  - apply IH in H as (p & A & B & C). exists (x :: p). cbn [rev] in A. rewrite <- app_assoc in A.
    repeat split; auto. subst; auto. cbn [forallb]. rewrite X, C. reflexivity.
Qed.
Lemma builtin_last f : is_builtin f = true -> lastc idc f = true.
Proof.
  intros H. destruct (builtin_props f H) as (NE & I & _). apply lastc_forall; auto.
Qed.
Lemma lastd_lastc (p : N -> bool) d s : s <> [] -> p (lastd d s) = lastc p s.
Proof.
  intros NE. unfold lastd, lastc. destruct (rev s) eqn:R; auto. apply rev_ne in NE. contradiction.
Qed.
Lemma to_lower_lastc s : lastc opc s = true -> lastc idc (to_lower s) = false.
Proof.
  unfold lastc, to_lower. rewrite <- map_rev. destruct (rev s) as [|x t]; intros H; try discriminate.
  cbn [List.map]. unfold opc in H. bools; nums; subst; reflexivity.
Qed.
Lemma arith_fname T fname rest : good T -> find_char 40 T [] = Some (fname, rest) ->
  is_builtin (to_lower (trim fname)) = false.
Proof.
  intros G F. apply find_char_some in F as (p & A & B & C). cbn [rev app] in A. subst fname.
  destruct p as [|x p']. reflexivity.
  assert (AC : forallb ac (x :: p') = true).
  { pose proof (g_ac _ G) as H. rewrite B, forallb_app in H. apply andb_true_iff in H. tauto. }
  rewrite trim_all_nws by (eapply forallb_impl; [|exact AC]; intros c H; rewrite (ac_nws c H); reflexivity).
  pose proof (g_lp _ G 0 eq_refl) as LP. rewrite B, lp_ok_app in LP. apply andb_true_iff in LP as [_ LP].
  cbn [lp_ok] in LP. change (40 =? 40) with true in LP. cbv iota in LP. apply andb_true_iff in LP as [LP _].
  unfold lpctx in LP.
  assert (NZ : (lastd 0 (x :: p') =? 0) = false).
  { rewrite (lastd_lastc (fun c => c =? 0)) by discriminate.
    destruct (lastc (fun c => c =? 0) (x :: p')) eqn:Z; auto.
    assert (lastc ac (x :: p') = true) by (apply lastc_forall; auto; discriminate).
    unfold lastc in *. destruct (rev (x :: p')); try discriminate. apply N.eqb_eq in Z. subst. discriminate. }
  rewrite NZ, orb_false_r in LP. rewrite (lastd_lastc opc) in LP by discriminate.
  destruct (is_builtin (to_lower (x :: p'))) eqn:B'; auto.
  apply builtin_last in B'. rewrite (to_lower_lastc _ LP) in B'. discriminate.
Qed.

(* ------------------------------------------------------------------ fuel *)
Fixpoint tneed (t : term) : nat :=
  match t with
  | TFun _ args => S (list_sum (List.map tneed args))
  | _ => 1%nat
  end.
Lemma tneed_in a args : In a args -> (tneed a <= list_sum (List.map tneed args))%nat.
Proof.
  induction args as [|x args IH]; intros I. contradiction.
  cbn [List.map list_sum fold_right]. destruct I as [->|I]. lia. specialize (IH I). unfold list_sum in IH. lia.
Qed.

Lemma parse_term_sp n s : parse_term E n (32 :: s) = parse_term E n s.
Proof. destruct n; reflexivity. Qed.

(* steps 1-3 of parse_term do not fire *)
Definition skips_head (T : str) : Prop :=
  str_eqb T [95] = false /\ first_is 91 T = false /\ first_is 34 T = false.
Lemma step_skip rec T : skips_head T ->
  parse_term_step E rec T =
  match pt_agg E T with
  | Some res => res
  | None => match pt_fcall rec T with Some res => res | None => pt_scalar E T end
  end.
Proof. intros (A & B & C). unfold parse_term_step. rewrite A, B, C. reflexivity. Qed.
Lemma pt_agg_nolt T : forallb (fun c => negb (c =? 60)) T = true -> pt_agg E T = None.
Proof. intros H. unfold pt_agg. rewrite find_char_none by auto. reflexivity. Qed.
Lemma pt_agg_notgt T : last_is 62 T = false -> pt_agg E T = None.
Proof. intros H. unfold pt_agg. destruct (find_char 60 T []) as [[a b]|]; auto. rewrite H. reflexivity. Qed.
Lemma pt_fcall_nolp rec T : forallb (fun c => negb (c =? 40)) T = true -> pt_fcall rec T = None.
Proof. intros H. unfold pt_fcall. rewrite find_char_none by auto. reflexivity. Qed.

Lemma lc_nolt c : lc c = true -> negb (c =? 60) = true.
Proof. intros H. cfact. Qed.
Lemma lc_nolp c : lc c = true -> negb (c =? 40) = true.
Proof. intros H. cfact. Qed.
Lemma lc_first T c : forallb lc T = true -> lc c = false -> first_is c T = false.
Proof.
  destruct T as [|x T]; auto. cbn [forallb first_is]. intros H C. apply andb_true_iff in H as [H _].
  apply N.eqb_neq. intros ->. congruence.
Qed.
(* a leaf-character text other than "_" goes straight to pt_scalar *)
Lemma step_lc rec T : forallb lc T = true -> str_eqb T [95] = false ->
  parse_term_step E rec T = pt_scalar E T.
Proof.
  intros L U. rewrite step_skip.
  - rewrite pt_agg_nolt by (eapply forallb_impl; [apply lc_nolt|exact L]).
    rewrite pt_fcall_nolp by (eapply forallb_impl; [apply lc_nolp|exact L]). reflexivity.
  - repeat split; auto; apply lc_first; auto.
Qed.


(* ------------------------------------------------------------------ one lemma per kind of term *)
Lemma idc_noop c : idc c = true ->
  negb ((c =? 60) || (c =? 62) || (c =? 43) || (c =? 42) || (c =? 47) || (c =? 37) || (c =? 45)) = true.
Proof. intros H. cfact. Qed.
Lemma is_upper_ascii c : is_aupper c = true -> is_upper E c = true.
Proof.
  intros H. unfold is_upper. assert (L : c <? 128 = true) by (apply N.ltb_lt; clear - H; cfact).
  rewrite L. exact H.
Qed.

Lemma pt_var rec s : wf_var s = true -> parse_term_step E rec s = Some (TVar s).
Proof.
  intros W. unfold wf_var in W. apply andb_true_iff in W as [W NF]. apply andb_true_iff in W as [W NU].
  apply andb_true_iff in W as [I U]. apply negb_true_iff in NF. apply negb_true_iff in NU.
  unfold ident in I. destruct s as [|c s]; try discriminate.
  assert (L : forallb lc (c :: s) = true) by (eapply forallb_impl; [apply idc_lc|exact I]).
  rewrite step_lc by auto. unfold pt_scalar.
  assert (C : (is_digit c || (c =? 43) || (c =? 45)) = false).
  { clear - U. apply not_true_is_false. intro. cfact. }
  rewrite (parse_i64_none_first c s C). unfold parse_f64. rewrite NF.
  rewrite hao_none by (eapply forallb_impl; [apply idc_noop|exact I]).
  unfold pt_neg. assert (F45 : first_is 45 (c :: s) = false).
  { cbn [first_is]. apply orb_false_iff in C. tauto. }
  rewrite F45. unfold pt_ident.
  rewrite (forallb_impl _ _ _ (idc_word E) I).
  apply orb_true_iff in U as [U|U].
  - rewrite (is_upper_ascii c U). reflexivity.
  - rewrite U, orb_true_r. reflexivity.
Qed.

Lemma pt_int rec z : wf_int z = true -> parse_term_step E rec (show_Z z) = Some (TInt z).
Proof.
  intros W. destruct (leaf_int z) as (L & _ & _).
  rewrite step_lc; auto.
  - unfold pt_scalar. rewrite (parse_i64_show z W). reflexivity.
  - destruct (str_eqb (show_Z z) [95]) eqn:Q; auto. apply str_eqb_eq in Q.
    pose proof (parse_i64_show z W) as P. rewrite Q in P. discriminate.
Qed.

Lemma pt_float rec b : dbg_ok E b = true -> f64_is_finite b = true ->
  parse_term_step E rec (e_dbg E b) = Some (TFloat b).
Proof.
  intros C F. destruct (leaf_float E b C) as (L & _ & _).
  pose proof C as D. unfold dbg_ok in D.
  apply andb_true_iff in D as [D I]. apply andb_true_iff in D as [S P].
  rewrite step_lc; auto.
  - unfold pt_scalar. apply negb_true_iff in I.
    destruct (parse_i64 (e_dbg E b)); try discriminate.
    unfold optN_is in P. destruct (parse_f64 E (e_dbg E b)); try discriminate.
    apply N.eqb_eq in P. subst. rewrite F. reflexivity.
  - destruct (str_eqb (e_dbg E b) [95]) eqn:Q; auto. apply str_eqb_eq in Q.
    unfold dbg_shape in S. rewrite Q in S. discriminate.
Qed.

Lemma pt_bool rec (b : bool) : parse_term_step E rec (if b then lit "true"%string else lit "false"%string) = Some (TBool b).
Proof. destruct b; vm_compute; reflexivity. Qed.

Lemma pt_str rec s : parse_term_step E rec (34 :: s ++ [34]) = Some (TStr s).
Proof.
  unfold parse_term_step. cbn [str_eqb first_is]. ceq.
  rewrite last_is_cons_snoc. ceq. rewrite length_cons_snoc. rewrite inner_cons_snoc. reflexivity.
Qed.

Lemma all_some_pieces {A} (rec : str -> option A) (sh : A -> str) l :
  (forall a, In a l -> rec (sh a) = Some a /\ rec (32 :: sh a) = Some a) ->
  all_some (List.map rec (match List.map sh l with x :: t => ([] ++ x) :: List.map (cons 32) t | [] => [] end))
  = Some l.
Proof.
  destruct l as [|a l]; intros H. reflexivity.
  cbn [List.map app all_some]. destruct (H a (or_introl eq_refl)) as [H1 _]. rewrite H1.
  assert (R : all_some (List.map rec (List.map (cons 32) (List.map sh l))) = Some l).
  { clear H1. induction l as [|x l IH]. reflexivity. cbn [List.map all_some].
    destruct (H x (or_intror (or_introl eq_refl))) as [_ H2]. rewrite H2.
    rewrite IH. reflexivity. intros y [->|I]; apply H; [left|right; right]; auto. }
  rewrite R. reflexivity.
Qed.

Lemma pt_vec rec xs : forallb (fun b => canon b && disp_ok E b) xs = true ->
  parse_term_step E rec (91 :: join_cs (List.map (e_disp E) xs) ++ [93]) = Some (TVec xs).
Proof.
  intros W. unfold parse_term_step. cbn [str_eqb first_is]. ceq.
  rewrite last_is_cons_snoc. ceq. unfold parse_vector. rewrite inner_cons_snoc.
  destruct xs as [|x xs]. reflexivity.
  assert (TX : Forall (fun d => d <> [] /\ forallb lc d = true) (List.map (e_disp E) (x :: xs))).
  { apply Forall_forall. intros d Hd. apply in_map_iff in Hd as (y & <- & Iy).
    apply disp_text; auto. pose proof (forallb_In _ _ _ W Iy) as Q. apply andb_true_iff in Q. apply Q. }
  assert (TR : trim (join_cs (List.map (e_disp E) (x :: xs))) = join_cs (List.map (e_disp E) (x :: xs))).
  { apply trim_id.
    - inversion TX as [|? ? [NE L] _]; subst. apply first_nws_join. apply plain_nws_first; auto.
    - apply last_nws_join. discriminate. eapply Forall_impl; [|exact TX]. intros d [NE L].
      apply plain_nws_first; auto. }
  rewrite TR. destruct (join_cs (List.map (e_disp E) (x :: xs))) eqn:J.
  { exfalso. inversion TX as [|? ? [NE L] _]; subst. unfold join_cs in J. cbn [List.map join] in J.
    destruct (List.map (e_disp E) xs); [congruence|]. apply app_eq_nil in J. tauto. }
  rewrite <- J. rewrite split_comma_join.
  - cbn [rev]. pose proof (all_some_pieces (fun v => parse_f64 E (trim v)) (e_disp E) (x :: xs)) as QQ.
    assert (PR : forall a, In a (x :: xs) ->
                  parse_f64 E (trim (e_disp E a)) = Some a /\ parse_f64 E (trim (32 :: e_disp E a)) = Some a);
      [|exact (f_equal (option_map TVec) (QQ PR))].
    intros a Ia. assert (Ca : disp_ok E a = true).
    { pose proof (forallb_In _ _ _ W Ia) as Q. apply andb_true_iff in Q. apply Q. }
    pose proof Ca as D. unfold disp_ok in D. apply andb_true_iff in D as [_ P].
    destruct (disp_text E a Ca) as [NE L]. destruct (plain_nws_first _ NE L) as [F La].
    rewrite trim_sp. rewrite (trim_id _ F La).
    unfold optN_is in P. destruct (parse_f64 E (e_disp E a)); try discriminate.
    apply N.eqb_eq in P. subst. auto.
  - discriminate.
  - eapply Forall_impl; [|exact TX]. intros d [_ L]. eapply forallb_impl; [|exact L].
    intros c H. clear - H. cfact.
Qed.

Lemma pt_agg_std rec g v : wf_aggf E g v = true -> is_ranking g = false ->
  parse_term_step E rec (show_aggf E g ++ 60 :: v ++ [62]) = Some (TAgg g v).
Proof.
  intros W R. destruct (std_agg_name E g v W R) as (NE & I & IV).
  unfold ident in IV. destruct v as [|c v]; try discriminate.
  assert (TV : trim (c :: v) = c :: v).
  { apply trim_all_nws. eapply forallb_impl; [|exact IV]. intros x H. rewrite (idc_nws x H). reflexivity. }
  rewrite step_skip.
  - unfold pt_agg.
    rewrite (find_char_hit 60 (show_aggf E g) ((c :: v) ++ [62]) [])
      by (eapply forallb_impl; [|exact I]; intros x H; apply plain_nolt, idc_plain, H).
    change (show_aggf E g ++ 60 :: (c :: v) ++ [62]) with (show_aggf E g ++ (60 :: c :: v) ++ [62]).
    rewrite app_assoc, last_is_snoc. cbn [rev app].
    change (c :: v ++ [62]) with ((c :: v) ++ [62]). rewrite removelast_last, TV.
    destruct g; try discriminate; reflexivity.
  - assert (FC : exists x t, show_aggf E g = x :: t /\ idc x = true).
    { destruct (show_aggf E g) as [|x t]; try congruence. exists x, t. cbn [forallb] in I.
      apply andb_true_iff in I. tauto. }
    destruct FC as (x & t & -> & IX). repeat split.
    + apply str_eqb_len. cbn [app length]. rewrite app_length. cbn [length]. lia.
    + cbn [app first_is]. apply N.eqb_neq. intros ->. discriminate.
    + cbn [app first_is]. apply N.eqb_neq. intros ->. discriminate.
Qed.

Lemma pt_arith rec o l r : wf_arith E (ABin o l r) = true ->
  f64_lexeme (show_arith E (ABin o l r)) = false ->
  parse_term_step E rec (show_arith E (ABin o l r)) = Some (TArith (ABin o l r)).
Proof.
  intros W NF. pose proof (good_show E _ W) as G.
  destruct (wf_bin E o l r W) as (Wl & Wr & _).
  pose proof (good_lopnd E o l Wl) as GL. pose proof (good_ropnd E o r Wr) as GR.
  assert (AC : forallb ac (show_arith E (ABin o l r)) = true) by apply G.
  rewrite step_skip.
  - rewrite pt_agg_nolt by (eapply forallb_impl; [apply ac_nolt|exact AC]).
    assert (FC : pt_fcall rec (show_arith E (ABin o l r)) = None).
    { unfold pt_fcall. destruct (find_char 40 (show_arith E (ABin o l r)) []) as [[fn rest]|] eqn:F; auto.
      rewrite (arith_fname _ fn rest G F), andb_false_r. reflexivity. }
    rewrite FC. unfold pt_scalar.
    assert (PI : parse_i64 (show_arith E (ABin o l r)) = None).
    { rewrite show_bin. destruct (ne_cons _ (good_ne _ GL)) as (x & t & EQ). rewrite EQ. cbn [app].
      apply parse_i64_none_later. rewrite forallb_app. cbn [forallb].
      assert (D : is_digit (op_char o) = false) by (destruct o; reflexivity).
      rewrite D. rewrite andb_false_r. reflexivity. }
    rewrite PI. unfold parse_f64. rewrite NF. rewrite (arith_has_op o l r W).
    unfold parse_arith.
    destruct (parith_roundtrip E _ W) as [RT _]. rewrite RT. reflexivity.
    pose proof (need_le E _ W). unfold arith_fuel. lia.
  - destruct (ne_cons _ (good_ne _ GL)) as (x & t & EQ).
    assert (AX : ac x = true).
    { pose proof (g_ac _ GL) as H. rewrite EQ in H. cbn [forallb] in H. apply andb_true_iff in H. tauto. }
    rewrite show_bin, EQ. repeat split.
    + apply str_eqb_len. cbn [app length]. rewrite app_length. cbn [length].
      pose proof (good_ne _ GR). destruct (ropnd E o r); [congruence|cbn [length]; lia].
    + cbn [app first_is]. apply N.eqb_neq. intros ->. discriminate.
    + cbn [app first_is]. apply N.eqb_neq. intros ->. discriminate.
Qed.

Lemma pt_fun rec f args : is_builtin f = true ->
  Forall (fun a => tgood E (show_term E a)) args ->
  (forall a, In a args -> rec (show_term E a) = Some a /\ rec (32 :: show_term E a) = Some a) ->
  parse_term_step E rec (f ++ 40 :: join_cs (List.map (show_term E) args) ++ [41]) = Some (TFun f args).
Proof.
  intros B TG R. destruct (builtin_props f B) as (NE & I & LO).
  set (J := join_cs (List.map (show_term E) args)).
  assert (FC : exists x t, f = x :: t /\ idc x = true).
  { destruct f as [|x t]; try congruence. exists x, t. cbn [forallb] in I. apply andb_true_iff in I. tauto. }
  destruct FC as (x & t & EF & IX).
  rewrite step_skip.
  - rewrite pt_agg_notgt.
    2:{ change (f ++ 40 :: J ++ [41]) with (f ++ (40 :: J) ++ [41]). rewrite app_assoc.
        apply last_is_snoc_ne. discriminate. }
    unfold pt_fcall.
    rewrite (find_char_hit 40 f (J ++ [41]) [])
      by (eapply forallb_impl; [|exact I]; intros c H; clear - H; cfact).
    change (f ++ 40 :: J ++ [41]) with (f ++ (40 :: J) ++ [41]). rewrite app_assoc, last_is_snoc.
    cbn [rev app]. rewrite removelast_last.
    assert (TF : trim f = f).
    { apply trim_all_nws. eapply forallb_impl; [|exact I]. intros c H. rewrite (idc_nws c H). reflexivity. }
    rewrite TF, LO, B. cbn [andb].
    destruct args as [|a args].
    + reflexivity.
    + assert (TJ : trim J = J).
      { apply trim_id.
        - unfold J. cbn [List.map]. apply first_nws_join. inversion TG; subst. apply H1.
        - unfold J. apply last_nws_join. discriminate.
          apply Forall_forall. intros y Hy. apply in_map_iff in Hy as (b & <- & Ib).
          rewrite Forall_forall in TG. apply (TG b Ib). }
      rewrite TJ. destruct J eqn:EJ.
      { exfalso. unfold J, join_cs in EJ. cbn [List.map join] in EJ. inversion TG; subst.
        pose proof (tgood_ne _ _ H1). destruct (List.map (show_term E) args); [congruence|].
        apply app_eq_nil in EJ. tauto. }
      rewrite <- EJ. unfold J. rewrite split_args_join.
      * cbn [rev]. pose proof (all_some_pieces rec (show_term E) (a :: args) R) as QQ.
        exact (f_equal (option_map (TFun f)) QQ).
      * discriminate.
      * apply Forall_forall. intros y Hy. apply in_map_iff in Hy as (b & <- & Ib).
        rewrite Forall_forall in TG. split. apply (TG b Ib). apply (tgood_ne _ _ (TG b Ib)).
  - rewrite EF. repeat split.
    + apply str_eqb_len. cbn [app length]. rewrite app_length. cbn [length]. lia.
    + cbn [app first_is]. apply N.eqb_neq. intros ->. discriminate.
    + cbn [app first_is]. apply N.eqb_neq. intros ->. discriminate.
Qed.

(* ------------------------------------------------------------------ ranking aggregates *)
Definition ann_t (ord : str) (single desc : bool) (v : str) : str :=
  if str_eqb v ord then (if single && desc then [] else if desc then lit ":desc"%string else lit ":asc"%string) else [].
Definition ann_w (dv : str) (single : bool) (v : str) : str :=
  if str_eqb v dv then (if single then [] else lit ":asc"%string) else [].
Lemma show_outs_concat ord single desc outs :
  show_outs ord single desc outs = concat (List.map (fun v => 44 :: 32 :: v ++ ann_t ord single desc v) outs).
Proof.
  induction outs as [|v outs IH]. reflexivity. cbn [List.map concat]. rewrite <- IH.
  cbn [show_outs]. unfold ann_t. cbn [app]. rewrite <- ?app_assoc. reflexivity.
Qed.
Lemma show_outs_within_concat dv single outs :
  show_outs_within dv single outs = concat (List.map (fun v => 44 :: 32 :: v ++ ann_w dv single v) outs).
Proof.
  induction outs as [|v outs IH]. reflexivity. cbn [List.map concat]. rewrite <- IH.
  cbn [show_outs_within]. unfold ann_w. cbn [app]. rewrite <- ?app_assoc. reflexivity.
Qed.

Definition nocomma (x : str) : bool := forallb (fun c => negb (c =? 44)) x.
Lemma split_comma_parts ps : forall x0 cur, nocomma x0 = true -> forallb nocomma ps = true ->
  split_comma (x0 ++ concat (List.map (fun p => 44 :: 32 :: p) ps)) cur
  = (rev cur ++ x0) :: List.map (cons 32) ps.
Proof.
  induction ps as [|p ps IH]; intros x0 cur H0 H.
  - cbn [List.map concat]. rewrite split_comma_skip by exact H0. cbn [split_comma].
    rewrite rev_app_distr, rev_involutive. reflexivity.
  - cbn [forallb] in H. apply andb_true_iff in H as [Hp Hps].
    cbn [List.map concat]. rewrite split_comma_skip by exact H0. cbn [app split_comma]. ceq.
    rewrite rev_app_distr, rev_involutive. f_equal.
    change (32 :: p ++ concat (List.map (fun p0 => 44 :: 32 :: p0) ps))
      with ((32 :: p) ++ concat (List.map (fun p0 => 44 :: 32 :: p0) ps)).
    rewrite IH; auto.
Qed.

Lemma ident_nocomma v : ident v = true -> nocomma v = true.
Proof.
  unfold ident, nocomma. destruct v; [discriminate|]. intros H. eapply forallb_impl; [|exact H].
  intros c I. clear - I. cfact.
Qed.
Lemma ident_trim v : ident v = true -> trim v = v.
Proof.
  unfold ident. destruct v; [discriminate|]. intros H. apply trim_all_nws.
  eapply forallb_impl; [|exact H]. intros c I. rewrite (idc_nws c I). reflexivity.
Qed.

(* strip_suffix on annotated and plain variable texts *)
Lemma starts_with_self p s : starts_with p (p ++ s) = true.
Proof. induction p; cbn; auto. rewrite N.eqb_refl. auto. Qed.
Lemma strip_suffix_hit suf v : strip_suffix suf (v ++ suf) = Some v.
Proof.
  unfold strip_suffix, ends_with. rewrite rev_app_distr, starts_with_self.
  rewrite app_length. replace (length v + length suf - length suf)%nat with (length v) by lia.
  rewrite firstn_app, Nat.sub_diag, firstn_all. cbn. rewrite app_nil_r. reflexivity.
Qed.
Lemma ends_with_colon5 a b c d v : forallb idc v = true -> ends_with [58; a; b; c; d] v = false.
Proof.
  intros H. unfold ends_with. rewrite <- forallb_rev in H. cbn [rev app].
  destruct (rev v) as [|x1 [|x2 [|x3 [|x4 [|x5 t]]]]]; cbn [starts_with]; rewrite ?andb_false_r; auto.
  cbn [forallb] in H. bools. destruct (58 =? x5) eqn:Q; rewrite ?andb_false_r; auto.
  apply N.eqb_eq in Q. subst. discriminate.
Qed.
Lemma ends_with_colon4 a b c v : forallb idc v = true -> ends_with [58; a; b; c] v = false.
Proof.
  intros H. unfold ends_with. rewrite <- forallb_rev in H. cbn [rev app].
  destruct (rev v) as [|x1 [|x2 [|x3 [|x4 t]]]]; cbn [starts_with]; rewrite ?andb_false_r; auto.
  cbn [forallb] in H. bools. destruct (58 =? x4) eqn:Q; rewrite ?andb_false_r; auto.
  apply N.eqb_eq in Q. subst. discriminate.
Qed.
Lemma strip_plain v : ident v = true ->
  strip_suffix (lit ":desc") v = None /\ strip_suffix (lit ":asc") v = None.
Proof.
  unfold ident. destruct v as [|c v]; [discriminate|]. intros H. unfold strip_suffix.
  change (lit ":desc") with [58; 100; 101; 115; 99]. change (lit ":asc") with [58; 97; 115; 99].
  rewrite ends_with_colon5, ends_with_colon4 by exact H. auto.
Qed.
Lemma strip_desc_asc v : strip_suffix (lit ":desc") (v ++ lit ":asc") = None.
Proof.
  unfold strip_suffix, ends_with. rewrite rev_app_distr.
  change (rev (lit ":asc")) with [99; 115; 97; 58]. change (rev (lit ":desc")) with [99; 115; 101; 100; 58].
  cbn [app starts_with]. ceq. reflexivity.
Qed.

Lemma annotated_plain ps : forall acc o d, forallb ident ps = true ->
  annotated ps acc o d = Some (rev acc ++ ps, o, d).
Proof.
  induction ps as [|p ps IH]; intros acc o d H.
  - cbn [annotated]. rewrite app_nil_r. reflexivity.
  - cbn [forallb] in H. apply andb_true_iff in H as [Hp Hps].
    cbn [annotated]. rewrite (ident_trim p Hp). destruct (strip_plain p Hp) as [S1 S2]. rewrite S1, S2.
    rewrite IH by auto. cbn [rev]. rewrite <- app_assoc. reflexivity.
Qed.
Lemma annotated_app a b : forall acc o d,
  annotated (a ++ b) acc o d =
  match annotated a acc o d with Some (x, o', d') => annotated b (rev x) o' d' | None => None end.
Proof.
  induction a as [|p a IH]; intros acc o d.
  - cbn [app annotated]. rewrite rev_involutive. reflexivity.
  - cbn [app annotated]. destruct (strip_suffix (lit ":desc") (trim p)).
    + destruct o; auto.
    + destruct (strip_suffix (lit ":asc") (trim p)); [destruct o; auto|auto].
Qed.

Lemma count0_neq ord l : count_str ord l = O -> forall v, In v l -> str_eqb v ord = false.
Proof.
  induction l as [|x l IH]; intros H v I. contradiction.
  cbn [count_str] in H. destruct (str_eqb ord x) eqn:Q; [discriminate|].
  destruct I as [->|I]. rewrite str_eqb_sym. exact Q. apply IH; auto.
Qed.
Lemma count1_split ord l : count_str ord l = 1%nat ->
  exists pre post, l = pre ++ ord :: post /\ count_str ord pre = O /\ count_str ord post = O.
Proof.
  induction l as [|x l IH]; intros H. discriminate.
  cbn [count_str] in H. destruct (str_eqb ord x) eqn:Q.
  - apply str_eqb_eq in Q. subst x. exists [], l. repeat split; auto; try (cbn in H; lia).
  - destruct (IH H) as (pre & post & -> & A & B). exists (x :: pre), post. repeat split; auto.
    cbn [count_str]. rewrite Q. exact A.
Qed.
Lemma map_ext_in' {A B} (f g : A -> B) l : (forall x, In x l -> f x = g x) -> List.map f l = List.map g l.
Proof. apply map_ext_in. Qed.

(* the annotated variable list of a ranking aggregate parses back *)
Lemma annotated_outs ord outs (sfx : str) (flag : bool) dflt :
  forallb ident outs = true -> count_str ord outs = 1%nat ->
  (sfx = lit ":desc"%string /\ flag = true \/ sfx = lit ":asc"%string /\ flag = false) ->
  annotated (List.map (fun v => v ++ (if str_eqb v ord then sfx else [])) outs) [] None dflt
  = Some (outs, Some ord, flag).
Proof.
  intros I C S. destruct (count1_split ord outs C) as (pre & post & -> & C1 & C2).
  rewrite forallb_app in I. apply andb_true_iff in I as [Ipre I]. cbn [forallb] in I.
  apply andb_true_iff in I as [Iord Ipost].
  rewrite map_app. cbn [List.map]. rewrite str_eqb_refl.
  rewrite (map_ext_in' _ (fun v => v) pre).
  2:{ intros x Hx. rewrite (count0_neq ord pre C1 x Hx). apply app_nil_r. }
  rewrite (map_ext_in' _ (fun v => v) post).
  2:{ intros x Hx. rewrite (count0_neq ord post C2 x Hx). apply app_nil_r. }
  rewrite !map_id. rewrite annotated_app, annotated_plain by auto. cbn [rev app].
  cbn [annotated].
  assert (TR : trim (ord ++ sfx) = ord ++ sfx).
  { unfold ident in Iord. destruct ord as [|c o']; [discriminate|].
    apply trim_id. cbn [app first_nws forallb] in *. apply andb_true_iff in Iord as [Q _].
    rewrite (idc_nws c Q). reflexivity.
    apply last_nws_app. destruct S as [[-> _]|[-> _]]; reflexivity. }
  rewrite TR. destruct S as [[-> ->]|[-> ->]].
  - rewrite strip_suffix_hit. rewrite (ident_trim ord Iord).
    rewrite annotated_plain by auto. cbn [rev]. rewrite rev_involutive, <- app_assoc. reflexivity.
  - rewrite strip_desc_asc, strip_suffix_hit. rewrite (ident_trim ord Iord).
    rewrite annotated_plain by auto. cbn [rev]. rewrite rev_involutive, <- app_assoc. reflexivity.
Qed.

Lemma wf_outs_parts ord outs : wf_outs ord outs = true ->
  outs <> [] /\ forallb ident outs = true /\ count_str ord outs = 1%nat.
Proof.
  unfold wf_outs. intros H. apply andb_true_iff in H as [H C]. apply andb_true_iff in H as [NE I].
  repeat split; auto. intros ->. discriminate. apply Nat.eqb_eq. exact C.
Qed.
Lemma single_outs ord (outs : list str) : is_single outs = true -> count_str ord outs = 1%nat -> outs = [ord].
Proof.
  destruct outs as [|x [|y t]]; try discriminate. intros _ C. cbn [count_str] in C.
  destruct (str_eqb ord x) eqn:Q; [|discriminate]. apply str_eqb_eq in Q. subst. reflexivity.
Qed.

Lemma parse_annotated_topk ord outs desc : wf_outs ord outs = true ->
  parse_annotated (List.map (fun v => v ++ ann_t ord (is_single outs) desc v) outs) true
  = Some (outs, ord, desc).
Proof.
  intros W. destruct (wf_outs_parts ord outs W) as (NE & I & C). unfold parse_annotated.
  destruct (List.map (fun v => v ++ ann_t ord (is_single outs) desc v) outs) eqn:M.
  { apply map_eq_nil in M. exfalso. apply NE. exact M. }
  rewrite <- M. clear M.
  destruct (is_single outs && desc) eqn:SD.
  - apply andb_true_iff in SD as [S D]. subst desc. rewrite (single_outs ord outs S C) in *.
    cbn [List.map is_single]. unfold ann_t. rewrite str_eqb_refl. cbn [andb app].
    cbn [forallb] in I. apply andb_true_iff in I as [Io _]. rewrite app_nil_r.
    cbn [annotated]. rewrite (ident_trim ord Io). destruct (strip_plain ord Io) as [S1 S2].
    rewrite S1, S2. cbn [annotated rev]. reflexivity.
  - assert (EQ : List.map (fun v => v ++ ann_t ord (is_single outs) desc v) outs
                 = List.map (fun v => v ++ (if str_eqb v ord then (if desc then lit ":desc"%string else lit ":asc"%string) else [])) outs).
    { apply map_ext. intros v. unfold ann_t. rewrite SD. reflexivity. }
    rewrite EQ. destruct desc.
    + rewrite (annotated_outs ord outs (lit ":desc"%string) true true); auto.
    + rewrite (annotated_outs ord outs (lit ":asc"%string) false true); auto.
Qed.
Lemma parse_annotated_within dv outs : wf_outs dv outs = true ->
  exists d, parse_annotated (List.map (fun v => v ++ ann_w dv (is_single outs) v) outs) false = Some (outs, dv, d).
Proof.
  intros W. destruct (wf_outs_parts dv outs W) as (NE & I & C). unfold parse_annotated.
  destruct (List.map (fun v => v ++ ann_w dv (is_single outs) v) outs) eqn:M.
  { apply map_eq_nil in M. exfalso. apply NE. exact M. }
  rewrite <- M. clear M.
  destruct (is_single outs) eqn:S.
  - rewrite (single_outs dv outs S C) in *. cbn [List.map]. unfold ann_w. rewrite str_eqb_refl.
    cbn [forallb] in I. apply andb_true_iff in I as [Io _]. rewrite app_nil_r.
    cbn [annotated]. rewrite (ident_trim dv Io). destruct (strip_plain dv Io) as [S1 S2].
    rewrite S1, S2. cbn [annotated rev]. eexists. reflexivity.
  - assert (EQ : List.map (fun v => v ++ ann_w dv false v) outs
                 = List.map (fun v => v ++ (if str_eqb v dv then lit ":asc"%string else [])) outs).
    { apply map_ext. intros v. reflexivity. }
    rewrite EQ. rewrite (annotated_outs dv outs (lit ":asc"%string) false false); auto.
    eexists. reflexivity.
Qed.

(* the trimmed parameter list of a printed ranking aggregate *)
Lemma ident_nws v : ident v = true -> first_nws v = true /\ last_nws v = true.
Proof.
  unfold ident. destruct v as [|c v]; [discriminate|]. intros H.
  apply plain_nws_first. discriminate. eapply forallb_impl; [apply idc_lc|exact H].
Qed.
Definition is_ann (a : str) : Prop := a = [] \/ a = lit ":desc"%string \/ a = lit ":asc"%string.
Lemma part_ok v a : ident v = true -> is_ann a ->
  first_nws (v ++ a) = true /\ last_nws (v ++ a) = true /\ nocomma (v ++ a) = true.
Proof.
  intros I A. destruct (ident_nws v I) as [F L]. pose proof (ident_nocomma v I) as NC.
  split; [apply first_nws_app; exact F|].
  destruct A as [->|[->| ->]].
  - rewrite app_nil_r. auto.
  - split. apply last_nws_app. reflexivity. unfold nocomma in *. rewrite forallb_app, NC. reflexivity.
  - split. apply last_nws_app. reflexivity. unfold nocomma in *. rewrite forallb_app, NC. reflexivity.
Qed.
Lemma ann_t_is ord single desc v : is_ann (ann_t ord single desc v).
Proof. unfold ann_t, is_ann. destruct (str_eqb v ord); [destruct (single && desc); [|destruct desc]|]; auto. Qed.
Lemma ann_w_is dv single v : is_ann (ann_w dv single v).
Proof. unfold ann_w, is_ann. destruct (str_eqb v dv); [destruct single|]; auto. Qed.

Lemma trim_parts ps : Forall (fun p => first_nws p = true /\ last_nws p = true) ps ->
  List.map trim (List.map (cons 32) ps) = ps.
Proof.
  induction 1 as [|p ps [F L] _ IH]. reflexivity.
  cbn [List.map]. rewrite trim_sp, (trim_id p F L), IH. reflexivity.
Qed.
Lemma digits_trim ds : forallb is_digit ds = true -> trim ds = ds /\ nocomma ds = true.
Proof.
  intros H. split.
  - apply trim_all_nws. eapply forallb_impl; [|exact H]. intros c D. rewrite (idc_nws c (digit_idc c D)). reflexivity.
  - unfold nocomma. eapply forallb_impl; [|exact H]. intros c D. clear - D. cfact.
Qed.
Lemma disp_trim b : disp_ok E b = true ->
  trim (e_disp E b) = e_disp E b /\ nocomma (e_disp E b) = true /\ parse_f64 E (e_disp E b) = Some b /\
  first_nws (e_disp E b) = true /\ last_nws (e_disp E b) = true.
Proof.
  intros D. destruct (disp_text E b D) as [NE L]. destruct (plain_nws_first _ NE L) as [F La].
  repeat split; auto.
  - apply trim_id; auto.
  - unfold nocomma. eapply forallb_impl; [|exact L]. intros c H. clear - H. cfact.
  - unfold disp_ok in D. apply andb_true_iff in D as [_ P]. unfold optN_is in P.
    destruct (parse_f64 E (e_disp E b)); try discriminate. apply N.eqb_eq in P. subst. reflexivity.
Qed.

Lemma parts_forall (f : str -> str) outs :
  (forall v, ident v = true -> first_nws (f v) = true /\ last_nws (f v) = true /\ nocomma (f v) = true) ->
  forallb ident outs = true ->
  Forall (fun p => first_nws p = true /\ last_nws p = true) (List.map f outs) /\
  forallb nocomma (List.map f outs) = true.
Proof.
  intros H I. induction outs as [|v outs IH]; cbn [List.map forallb]. split; [constructor|reflexivity].
  cbn [forallb] in I. apply andb_true_iff in I as [Iv Io]. destruct (IH Io) as [A B].
  destruct (H v Iv) as (F & L & N). split. constructor; auto. rewrite N, B. reflexivity.
Qed.

Lemma pt_agg_rank rec g : wf_aggf E g [] = true -> is_ranking g = true ->
  parse_term_step E rec (rk_name g ++ 60 :: rk_params E g ++ [62]) = Some (TAgg g []).
Proof.
  intros W R. destruct (rk_shape E g [] W R) as (PI & F45 & _ & NE & I).
  assert (FC : exists x t, rk_name g = x :: t /\ idc x = true).
  { destruct (rk_name g) as [|x t]; try congruence. exists x, t. cbn [forallb] in I.
    apply andb_true_iff in I. tauto. }
  destruct FC as (x & t & EN & IX).
  rewrite step_skip.
  2:{ rewrite EN. repeat split.
      - apply str_eqb_len. cbn [app length]. rewrite app_length. cbn [length]. lia.
      - cbn [app first_is]. apply N.eqb_neq. intros ->. discriminate.
      - cbn [app first_is]. apply N.eqb_neq. intros ->. discriminate. }
  unfold pt_agg.
  rewrite (find_char_hit 60 (rk_name g) (rk_params E g ++ [62]) [])
    by (eapply forallb_impl; [|exact I]; intros c H; apply plain_nolt, idc_plain, H).
  change (rk_name g ++ 60 :: rk_params E g ++ [62]) with (rk_name g ++ (60 :: rk_params E g) ++ [62]).
  rewrite app_assoc, last_is_snoc. cbn [rev app]. rewrite removelast_last.
  destruct g as [| | | | | |k ord outs desc|k ord outs thr desc|dv outs maxd]; try discriminate;
    cbn [wf_aggf] in W; cbn [rk_name rk_params].
  - (* top_k *)
    apply andb_true_iff in W as [W _]. apply andb_true_iff in W as [K WO]. apply N.ltb_lt in K.
    destruct (wf_outs_parts ord outs WO) as (NO & IO & CO).
    destruct (digits_trim _ (show_N_digits k)) as [TK NK].
    destruct (parts_forall (fun v => v ++ ann_t ord (is_single outs) desc v) outs
                (fun v Iv => part_ok v _ Iv (ann_t_is ord (is_single outs) desc v)) IO) as [PF PN].
    change (trim (lit "top_k")) with (lit "top_k"). change (to_lower (lit "top_k")) with (lit "top_k").
    change (std_agg (lit "top_k")) with (@None aggf). change (str_eqb (lit "top_k") (lit "top_k")) with true.
    cbv iota. unfold parse_top_k.
    rewrite show_outs_concat. rewrite <- (map_map (fun v => v ++ ann_t ord (is_single outs) desc v) (fun p => 44 :: 32 :: p)).
    rewrite split_comma_parts by auto. cbn [rev app]. rewrite map_cons, TK, trim_parts by exact PF.
    destruct (List.map (fun v => v ++ ann_t ord (is_single outs) desc v) outs) eqn:M.
    { apply map_eq_nil in M. exfalso. apply NO. exact M. }
    rewrite <- M. rewrite (parse_usize_show k K), (parse_annotated_topk ord outs desc WO). reflexivity.
  - (* top_k_threshold *)
    apply andb_true_iff in W as [W _]. apply andb_true_iff in W as [W DO]. apply andb_true_iff in W as [W _].
    apply andb_true_iff in W as [K WO]. apply N.ltb_lt in K.
    destruct (wf_outs_parts ord outs WO) as (NO & IO & CO).
    destruct (digits_trim _ (show_N_digits k)) as [TK NK].
    destruct (disp_trim thr DO) as (TT & NT & PT & FT & LT).
    destruct (parts_forall (fun v => v ++ ann_t ord (is_single outs) desc v) outs
                (fun v Iv => part_ok v _ Iv (ann_t_is ord (is_single outs) desc v)) IO) as [PF PN].
    change (trim (lit "top_k_threshold")) with (lit "top_k_threshold").
    change (to_lower (lit "top_k_threshold")) with (lit "top_k_threshold").
    change (std_agg (lit "top_k_threshold")) with (@None aggf).
    change (str_eqb (lit "top_k_threshold") (lit "top_k")) with false.
    change (str_eqb (lit "top_k_threshold") (lit "top_k_threshold")) with true.
    cbv iota. unfold parse_top_k_thr.
    rewrite show_outs_concat. rewrite <- (map_map (fun v => v ++ ann_t ord (is_single outs) desc v) (fun p => 44 :: 32 :: p)).
    change (show_N k ++ [44; 32] ++ e_disp E thr ++ concat (List.map (fun p => 44 :: 32 :: p) (List.map (fun v => v ++ ann_t ord (is_single outs) desc v) outs)))
      with (show_N k ++ concat (List.map (fun p => 44 :: 32 :: p) (e_disp E thr :: List.map (fun v => v ++ ann_t ord (is_single outs) desc v) outs))).
    rewrite split_comma_parts
      by (first [exact NK | (cbn [forallb]; apply andb_true_iff; split; [exact NT|exact PN])]).
    cbn [rev app]. rewrite !map_cons, TK, trim_sp, TT, trim_parts by exact PF.
    destruct (List.map (fun v => v ++ ann_t ord (is_single outs) desc v) outs) eqn:M.
    { apply map_eq_nil in M. exfalso. apply NO. exact M. }
    rewrite <- M. rewrite (parse_usize_show k K), PT, (parse_annotated_topk ord outs desc WO). reflexivity.
  - (* within_radius *)
    apply andb_true_iff in W as [W _]. apply andb_true_iff in W as [W _]. apply andb_true_iff in W as [W DO].
    apply andb_true_iff in W as [WO _].
    destruct (wf_outs_parts dv outs WO) as (NO & IO & CO).
    destruct (disp_trim maxd DO) as (TT & NT & PT & FT & LT).
    destruct (parts_forall (fun v => v ++ ann_w dv (is_single outs) v) outs
                (fun v Iv => part_ok v _ Iv (ann_w_is dv (is_single outs) v)) IO) as [PF PN].
    change (trim (lit "within_radius")) with (lit "within_radius").
    change (to_lower (lit "within_radius")) with (lit "within_radius").
    change (std_agg (lit "within_radius")) with (@None aggf).
    change (str_eqb (lit "within_radius") (lit "top_k")) with false.
    change (str_eqb (lit "within_radius") (lit "top_k_threshold")) with false.
    change (str_eqb (lit "within_radius") (lit "within_radius")) with true.
    cbv iota. unfold parse_within.
    rewrite show_outs_within_concat. rewrite <- (map_map (fun v => v ++ ann_w dv (is_single outs) v) (fun p => 44 :: 32 :: p)).
    rewrite split_comma_parts by auto. cbn [rev app]. rewrite map_cons, TT, trim_parts by exact PF.
    destruct (List.map (fun v => v ++ ann_w dv (is_single outs) v) outs) eqn:M.
    { apply map_eq_nil in M. exfalso. apply NO. exact M. }
    rewrite <- M. destruct (parse_annotated_within dv outs WO) as [d PA]. rewrite PT, PA. reflexivity.
Qed.

(* ------------------------------------------------------------------ the term round trip *)
Theorem parse_term_rt t : wf_term E t = true ->
  forall n, (tneed t <= n)%nat -> parse_term E n (show_term E t) = Some t.
Proof.
  induction t as [s|z| |g v|a|f args IH|xs|b|s|b] using term_ind'; intros W n L;
    (destruct n as [|n]; [cbn [tneed] in L; lia|]);
    cbn [parse_term]; rewrite (tgood_trim E _ (proj1 (good_term E _ W)));
    cbn [show_term wf_term] in *.
  - apply pt_var; auto.
  - apply pt_int; auto.
  - reflexivity.
  - destruct (is_ranking g) eqn:R.
    + destruct (rk_shape E g v W R) as (_ & _ & -> & _). rewrite (show_aggf_rk E g R).
      apply pt_agg_rank; auto.
    + apply pt_agg_std; auto.
  - apply andb_true_iff in W as [W NF]. apply andb_true_iff in W as [B W].
    destruct a; try discriminate. apply pt_arith; auto. apply negb_true_iff; auto.
  - apply andb_true_iff in W as [WB WA]. apply pt_fun; auto.
    + apply Forall_forall. intros a Ia.
      destruct (good_term E a (forallb_In _ _ _ WA Ia)) as [G _]. exact G.
    + intros a Ia. rewrite parse_term_sp. rewrite Forall_forall in IH.
      assert (P : parse_term E n (show_term E a) = Some a).
      { apply (IH a Ia (forallb_In _ _ _ WA Ia)). cbn [tneed] in L. pose proof (tneed_in a args Ia). lia. }
      auto.
  - apply pt_vec; auto.
  - apply andb_true_iff in W as [W D]. apply andb_true_iff in W as [C F]. apply pt_float; auto.
  - apply pt_str.
  - apply pt_bool.
Qed.

End WithEnv.
