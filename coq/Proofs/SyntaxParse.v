(* Proofs/SyntaxParse.v — parse_term (show_term t) = Some t for well-formed t *)
From Coq Require Import String.
From IL Require Import Model.Syntax Model.SyntaxWf Proofs.SyntaxBase Proofs.SyntaxArith Proofs.SyntaxArith2
  Proofs.SyntaxArith3 Proofs.SyntaxScan Proofs.SyntaxTerm.
Open Scope N_scope.

Lemma first_is_false c x T : (x =? c) = false -> first_is c (x :: T) = false.
Proof. intros H. exact H. Qed.
Lemma str_eqb_len a b : length a <> length b -> str_eqb a b = false.
Proof. intros H. apply str_eqb_neq. intros ->. congruence. Qed.

Lemma all_some_map {A B} (f : A -> option B) (g : B -> A) l :
  (forall x, In x l -> f (g x) = Some x) -> all_some (List.map f (List.map g l)) = Some l.
Proof.
  induction l as [|x l IH]; intros H. reflexivity.
  cbn [List.map all_some]. rewrite H by (left; auto). rewrite IH. reflexivity.
  intros y I. apply H. right. auto.
Qed.

(* str::split(',') on a ", "-joined list of comma-free texts *)
Lemma split_comma_skip T : forall rest cur, forallb (fun c => negb (c =? 44)) T = true ->
  split_comma (T ++ rest) cur = split_comma rest (rev T ++ cur).
Proof.
  induction T as [|c T IH]; intros rest cur H. reflexivity.
  cbn [forallb] in H. apply andb_true_iff in H as [H1 H2]. apply negb_true_iff in H1.
  cbn [app split_comma rev]. rewrite H1, <- app_assoc. apply IH; auto.
Qed.
Lemma split_comma_join l : forall cur, l <> [] ->
  Forall (fun x => forallb (fun c => negb (c =? 44)) x = true) l ->
  split_comma (join_cs l) cur =
  match l with x :: t => (rev cur ++ x) :: List.map (cons 32) t | [] => [] end.
Proof.
  induction l as [|x l IH]; intros cur NE F. congruence.
  inversion F as [|? ? Cx Fl]; subst. unfold join_cs in *. cbn [join].
  destruct l as [|y l].
  - rewrite <- (app_nil_r x) at 1. rewrite split_comma_skip by auto. cbn [split_comma].
    rewrite rev_app_distr, rev_involutive. reflexivity.
  - rewrite split_comma_skip by auto. cbn [app split_comma]. ceq.
    rewrite rev_app_distr, rev_involutive. f_equal.
    rewrite (IH [32]) by (auto; discriminate). reflexivity.
Qed.

(* no arithmetic operator in a text without  < > + - * / %  *)
Lemma hao_none T : forall before ad,
  forallb (fun c => negb ((c =? 60) || (c =? 62) || (c =? 43) || (c =? 42) || (c =? 47) || (c =? 37) || (c =? 45))) T = true ->
  forall E, has_arith_op E T before ad = false.
Proof.
  induction T as [|c T IH]; intros before ad H E. reflexivity.
  cbn [forallb] in H. apply andb_true_iff in H as [H1 H2]. apply negb_true_iff in H1.
  apply orb_false_iff in H1 as [H1 C45]. apply orb_false_iff in H1 as [H1 C37].
  apply orb_false_iff in H1 as [H1 C47]. apply orb_false_iff in H1 as [H1 C42].
  apply orb_false_iff in H1 as [H1 C43]. apply orb_false_iff in H1 as [C60 C62].
  cbn [has_arith_op]. rewrite C60, C62, C43, C42, C47, C37, C45. cbn [andb orb]. apply IH; auto.
Qed.

Section WithEnv.
Variable E : env.

(* an operator that triggers, after a prefix of arithmetic characters *)
Lemma hao_true L : forall before c R,
  forallb ac L = true ->
  ((c =? 42) || (c =? 47) || (c =? 37) = true \/
   ((c =? 43) = true /\ sci (rev L ++ before) = false) \/
   ((c =? 45) = true /\ rev L ++ before <> [] /\ sci (rev L ++ before) = false /\
    minus_is_binary E (rev L ++ before) = true)) ->
  has_arith_op E (L ++ c :: R) before 0 = true.
Proof.
  induction L as [|x L IH]; intros before c R A T.
  - cbn [app rev] in *. cbn [has_arith_op].
    assert (C60 : (c =? 60) = false /\ (c =? 62) = false).
    { destruct T as [T|[[T _]|[T _]]]; bools; nums; subst; split; reflexivity. }
    destruct C60 as [C60 C62]. rewrite C60, C62.
    destruct T as [T|[[T S]|(T & NE & S & B)]].
    + destruct (c =? 43) eqn:P. { cbn [andb]. change (0 =? 0)%Z with true. cbn. rewrite ?S.
        destruct (sci before); reflexivity || (bools; nums; subst; discriminate). }
      cbn [andb]. rewrite T. reflexivity.
    + rewrite T. change (0 =? 0)%Z with true. cbn [andb]. rewrite S. reflexivity.
    + apply N.eqb_eq in T. subst c. ceq. change (0 =? 0)%Z with true. cbn [andb].
      destruct before; try congruence. cbn [negb]. rewrite S, B. reflexivity.
  - cbn [forallb] in A. apply andb_true_iff in A as [A1 A2].
    cbn [app has_arith_op].
    assert (X : (x =? 60) = false /\ (x =? 62) = false) by (clear - A1; cfact).
    destruct X as [X60 X62]. rewrite X60, X62. change (0 =? 0)%Z with true. rewrite !andb_true_r.
    assert (REC : has_arith_op E (L ++ c :: R) (x :: before) 0 = true).
    { apply IH; auto. cbn [rev] in T. rewrite <- app_assoc in T. exact T. }
    destruct (x =? 43). { destruct (sci before); auto. }
    destruct ((x =? 42) || (x =? 47) || (x =? 37)); auto.
    destruct (x =? 45); auto. cbn [andb].
    destruct (negb match before with [] => true | _ :: _ => false end); auto.
    destruct (sci before); auto. destruct (minus_is_binary E before); auto.
Qed.

Lemma arith_has_op o l r : wf_arith E (ABin o l r) = true ->
  has_arith_op E (show_arith E (ABin o l r)) [] 0 = true.
Proof.
  intros W. destruct (wf_bin E o l r W) as (Wl & Wr & S).
  rewrite show_bin. pose proof (good_lopnd E o l Wl) as GL.
  apply hao_true. apply GL. rewrite app_nil_r.
  destruct o; cbn [op_char].
  - right. left. split. reflexivity. rewrite (lopnd_add E OAdd l eq_refl). apply S. reflexivity.
  - right. right. rewrite (lopnd_add E OSub l eq_refl). split. reflexivity.
    split. apply rev_ne. apply (good_ne _ (good_show E l Wl)).
    split. apply S. reflexivity. apply endc_binary. apply (good_show E l Wl).
  - left. reflexivity.
  - left. reflexivity.
  - left. reflexivity.
Qed.

(* the text before the first '(' of printed arithmetic is not a function name *)
Lemma find_char_some c s : forall pre a b, find_char c s pre = Some (a, b) ->
  exists p, a = rev pre ++ p /\ s = p ++ c :: b /\ forallb (fun x => negb (x =? c)) p = true.
Proof.
  induction s as [|x s IH]; intros pre a b H. discriminate.
  cbn [find_char] in H. destruct (x =? c) eqn:X.
  - inversion H; subst. apply N.eqb_eq in X. subst. exists []. rewrite app_nil_r. auto.
  - apply IH in H as (p & A & B & C). exists (x :: p). cbn [rev] in A. rewrite <- app_assoc in A.
    repeat split; auto. subst; auto. cbn [forallb]. rewrite X, C. reflexivity.
Qed.
Lemma builtin_last f : is_builtin f = true -> lastc idc f = true.
Proof.
  intros H. destruct (builtin_props f H) as (NE & I & _). apply lastc_forall; auto.
Qed.
Lemma lastd_lastc (p : N -> bool) d s : s <> [] -> p (lastd d s) = lastc p s.
Proof.
  intros NE. unfold lastd, lastc. destruct (rev s) eqn:R; auto. apply rev_ne in NE. contradiction.
Qed.
Lemma to_lower_lastc s : lastc opc s = true -> lastc idc (to_lower s) = false.
Proof.
  unfold lastc, to_lower. rewrite <- map_rev. destruct (rev s) as [|x t]; intros H; try discriminate.
  cbn [List.map]. unfold opc in H. bools; nums; subst; reflexivity.
Qed.
Lemma arith_fname T fname rest : good T -> find_char 40 T [] = Some (fname, rest) ->
  is_builtin (to_lower (trim fname)) = false.
Proof.
  intros G F. apply find_char_some in F as (p & A & B & C). cbn [rev app] in A. subst fname.
  destruct p as [|x p']. reflexivity.
  assert (AC : forallb ac (x :: p') = true).
  { pose proof (g_ac _ G) as H. rewrite B, forallb_app in H. apply andb_true_iff in H. tauto. }
  rewrite trim_all_nws by (eapply forallb_impl; [|exact AC]; intros c H; rewrite (ac_nws c H); reflexivity).
  pose proof (g_lp _ G 0 eq_refl) as LP. rewrite B, lp_ok_app in LP. apply andb_true_iff in LP as [_ LP].
  cbn [lp_ok] in LP. change (40 =? 40) with true in LP. cbv iota in LP. apply andb_true_iff in LP as [LP _].
  unfold lpctx in LP.
  assert (NZ : (lastd 0 (x :: p') =? 0) = false).
  { rewrite (lastd_lastc (fun c => c =? 0)) by discriminate.
    destruct (lastc (fun c => c =? 0) (x :: p')) eqn:Z; auto.
    assert (lastc ac (x :: p') = true) by (apply lastc_forall; auto; discriminate).
    unfold lastc in *. destruct (rev (x :: p')); try discriminate. apply N.eqb_eq in Z. subst. discriminate. }
  rewrite NZ, orb_false_r in LP. rewrite (lastd_lastc opc) in LP by discriminate.
  destruct (is_builtin (to_lower (x :: p'))) eqn:B'; auto.
  apply builtin_last in B'. rewrite (to_lower_lastc _ LP) in B'. discriminate.
Qed.

(* ------------------------------------------------------------------ fuel *)
Fixpoint tneed (t : term) : nat :=
  match t with
  | TFun _ args => S (list_sum (List.map tneed args))
  | _ => 1%nat
  end.
Lemma tneed_in a args : In a args -> (tneed a <= list_sum (List.map tneed args))%nat.
Proof.
  induction args as [|x args IH]; intros I. contradiction.
  cbn [List.map list_sum fold_right]. destruct I as [->|I]. lia. specialize (IH I). unfold list_sum in IH. lia.
Qed.

Lemma parse_term_sp n s : parse_term E n (32 :: s) = parse_term E n s.
Proof. destruct n; reflexivity. Qed.

(* steps 1-3 of parse_term do not fire *)
Definition skips_head (T : str) : Prop :=
  str_eqb T [95] = false /\ first_is 91 T = false /\ first_is 34 T = false.
Lemma step_skip rec T : skips_head T ->
  parse_term_step E rec T =
  match pt_agg E T with
  | Some res => res
  | None => match pt_fcall rec T with Some res => res | None => pt_scalar E T end
  end.
Proof. intros (A & B & C). unfold parse_term_step. rewrite A, B, C. reflexivity. Qed.
Lemma pt_agg_nolt T : forallb (fun c => negb (c =? 60)) T = true -> pt_agg E T = None.
Proof. intros H. unfold pt_agg. rewrite find_char_none by auto. reflexivity. Qed.
Lemma pt_agg_notgt T : last_is 62 T = false -> pt_agg E T = None.
Proof. intros H. unfold pt_agg. destruct (find_char 60 T []) as [[a b]|]; auto. rewrite H. reflexivity. Qed.
Lemma pt_fcall_nolp rec T : forallb (fun c => negb (c =? 40)) T = true -> pt_fcall rec T = None.
Proof. intros H. unfold pt_fcall. rewrite find_char_none by auto. reflexivity. Qed.

Lemma lc_nolt c : lc c = true -> negb (c =? 60) = true.
Proof. intros H. cfact. Qed.
Lemma lc_nolp c : lc c = true -> negb (c =? 40) = true.
Proof. intros H. cfact. Qed.
Lemma lc_first T c : forallb lc T = true -> lc c = false -> first_is c T = false.
Proof.
  destruct T as [|x T]; auto. cbn [forallb first_is]. intros H C. apply andb_true_iff in H as [H _].
  apply N.eqb_neq. intros ->. congruence.
Qed.
(* a leaf-character text other than "_" goes straight to pt_scalar *)
Lemma step_lc rec T : forallb lc T = true -> str_eqb T [95] = false ->
  parse_term_step E rec T = pt_scalar E T.
Proof.
  intros L U. rewrite step_skip.
  - rewrite pt_agg_nolt by (eapply forallb_impl; [apply lc_nolt|exact L]).
    rewrite pt_fcall_nolp by (eapply forallb_impl; [apply lc_nolp|exact L]). reflexivity.
  - repeat split; auto; apply lc_first; auto.
Qed.


(* ------------------------------------------------------------------ one lemma per kind of term *)
Lemma idc_noop c : idc c = true ->
  negb ((c =? 60) || (c =? 62) || (c =? 43) || (c =? 42) || (c =? 47) || (c =? 37) || (c =? 45)) = true.
Proof. intros H. cfact. Qed.
Lemma is_upper_ascii c : is_aupper c = true -> is_upper E c = true.
Proof.
  intros H. unfold is_upper. assert (L : c <? 128 = true) by (apply N.ltb_lt; clear - H; cfact).
  rewrite L. exact H.
Qed.

Lemma pt_var rec s : wf_var s = true -> parse_term_step E rec s = Some (TVar s).
Proof.
  intros W. unfold wf_var in W. apply andb_true_iff in W as [W NF]. apply andb_true_iff in W as [W NU].
  apply andb_true_iff in W as [I U]. apply negb_true_iff in NF. apply negb_true_iff in NU.
  unfold ident in I. destruct s as [|c s]; try discriminate.
  assert (L : forallb lc (c :: s) = true) by (eapply forallb_impl; [apply idc_lc|exact I]).
  rewrite step_lc by auto. unfold pt_scalar.
  assert (C : (is_digit c || (c =? 43) || (c =? 45)) = false).
  { clear - U. apply not_true_is_false. intro. cfact. }
  rewrite (parse_i64_none_first c s C). unfold parse_f64. rewrite NF.
  rewrite hao_none by (eapply forallb_impl; [apply idc_noop|exact I]).
  unfold pt_neg. assert (F45 : first_is 45 (c :: s) = false).
  { cbn [first_is]. apply orb_false_iff in C. tauto. }
  rewrite F45. unfold pt_ident.
  rewrite (forallb_impl _ _ _ (idc_word E) I).
  apply orb_true_iff in U as [U|U].
  - rewrite (is_upper_ascii c U). reflexivity.
  - rewrite U, orb_true_r. reflexivity.
Qed.

Lemma pt_int rec z : wf_int z = true -> parse_term_step E rec (show_Z z) = Some (TInt z).
Proof.
  intros W. destruct (leaf_int z) as (L & _ & _).
  rewrite step_lc; auto.
  - unfold pt_scalar. rewrite (parse_i64_show z W). reflexivity.
  - destruct (str_eqb (show_Z z) [95]) eqn:Q; auto. apply str_eqb_eq in Q.
    pose proof (parse_i64_show z W) as P. rewrite Q in P. discriminate.
Qed.

Lemma pt_float rec b : dbg_ok E b = true -> f64_is_finite b = true ->
  parse_term_step E rec (e_dbg E b) = Some (TFloat b).
Proof.
  intros C F. destruct (leaf_float E b C) as (L & _ & _).
  pose proof C as D. unfold dbg_ok in D.
  apply andb_true_iff in D as [D I]. apply andb_true_iff in D as [S P].
  rewrite step_lc; auto.
  - unfold pt_scalar. apply negb_true_iff in I.
    destruct (parse_i64 (e_dbg E b)); try discriminate.
    unfold optN_is in P. destruct (parse_f64 E (e_dbg E b)); try discriminate.
    apply N.eqb_eq in P. subst. rewrite F. reflexivity.
  - destruct (str_eqb (e_dbg E b) [95]) eqn:Q; auto. apply str_eqb_eq in Q.
    unfold dbg_shape in S. rewrite Q in S. discriminate.
Qed.

Lemma pt_bool rec (b : bool) : parse_term_step E rec (if b then lit "true"%string else lit "false"%string) = Some (TBool b).
Proof. destruct b; vm_compute; reflexivity. Qed.

Lemma pt_str rec s : parse_term_step E rec (34 :: s ++ [34]) = Some (TStr s).
Proof.
  unfold parse_term_step. cbn [str_eqb first_is]. ceq.
  rewrite last_is_cons_snoc. ceq. rewrite length_cons_snoc. rewrite inner_cons_snoc. reflexivity.
Qed.

Lemma all_some_pieces {A} (rec : str -> option A) (sh : A -> str) l :
  (forall a, In a l -> rec (sh a) = Some a /\ rec (32 :: sh a) = Some a) ->
  all_some (List.map rec (match List.map sh l with x :: t => ([] ++ x) :: List.map (cons 32) t | [] => [] end))
  = Some l.
Proof.
  destruct l as [|a l]; intros H. reflexivity.
  cbn [List.map app all_some]. destruct (H a (or_introl eq_refl)) as [H1 _]. rewrite H1.
  assert (R : all_some (List.map rec (List.map (cons 32) (List.map sh l))) = Some l).
  { clear H1. induction l as [|x l IH]. reflexivity. cbn [List.map all_some].
    destruct (H x (or_intror (or_introl eq_refl))) as [_ H2]. rewrite H2.
    rewrite IH. reflexivity. intros y [->|I]; apply H; [left|right; right]; auto. }
  rewrite R. reflexivity.
Qed.

Lemma pt_vec rec xs : forallb (fun b => canon b && disp_ok E b) xs = true ->
  parse_term_step E rec (91 :: join_cs (List.map (e_disp E) xs) ++ [93]) = Some (TVec xs).
Proof.
  intros W. unfold parse_term_step. cbn [str_eqb first_is]. ceq.
  rewrite last_is_cons_snoc. ceq. unfold parse_vector. rewrite inner_cons_snoc.
  destruct xs as [|x xs]. reflexivity.
  assert (TX : Forall (fun d => d <> [] /\ forallb lc d = true) (List.map (e_disp E) (x :: xs))).
  { apply Forall_forall. intros d Hd. apply in_map_iff in Hd as (y & <- & Iy).
    apply disp_text; auto. pose proof (forallb_In _ _ _ W Iy) as Q. apply andb_true_iff in Q. apply Q. }
  assert (TR : trim (join_cs (List.map (e_disp E) (x :: xs))) = join_cs (List.map (e_disp E) (x :: xs))).
  { apply trim_id.
    - inversion TX as [|? ? [NE L] _]; subst. apply first_nws_join. apply plain_nws_first; auto.
    - apply last_nws_join. discriminate. eapply Forall_impl; [|exact TX]. intros d [NE L].
      apply plain_nws_first; auto. }
  rewrite TR. destruct (join_cs (List.map (e_disp E) (x :: xs))) eqn:J.
  { exfalso. inversion TX as [|? ? [NE L] _]; subst. unfold join_cs in J. cbn [List.map join] in J.
    destruct (List.map (e_disp E) xs); [congruence|]. apply app_eq_nil in J. tauto. }
  rewrite <- J. rewrite split_comma_join.
  - cbn [rev]. pose proof (all_some_pieces (fun v => parse_f64 E (trim v)) (e_disp E) (x :: xs)) as QQ.
    assert (PR : forall a, In a (x :: xs) ->
                  parse_f64 E (trim (e_disp E a)) = Some a /\ parse_f64 E (trim (32 :: e_disp E a)) = Some a);
      [|exact (f_equal (option_map TVec) (QQ PR))].
    intros a Ia. assert (Ca : disp_ok E a = true).
    { pose proof (forallb_In _ _ _ W Ia) as Q. apply andb_true_iff in Q. apply Q. }
    pose proof Ca as D. unfold disp_ok in D. apply andb_true_iff in D as [_ P].
    destruct (disp_text E a Ca) as [NE L]. destruct (plain_nws_first _ NE L) as [F La].
    rewrite trim_sp. rewrite (trim_id _ F La).
    unfold optN_is in P. destruct (parse_f64 E (e_disp E a)); try discriminate.
    apply N.eqb_eq in P. subst. auto.
  - discriminate.
  - eapply Forall_impl; [|exact TX]. intros d [_ L]. eapply forallb_impl; [|exact L].
    intros c H. clear - H. cfact.
Qed.

Lemma pt_agg_std rec g v : wf_aggf g v = true ->
  parse_term_step E rec (show_aggf E g ++ 60 :: v ++ [62]) = Some (TAgg g v).
Proof.
  intros W. destruct (std_agg_name E g v W) as (NE & I & R & IV).
  unfold ident in IV. destruct v as [|c v]; try discriminate.
  assert (TV : trim (c :: v) = c :: v).
  { apply trim_all_nws. eapply forallb_impl; [|exact IV]. intros x H. rewrite (idc_nws x H). reflexivity. }
  rewrite step_skip.
  - unfold pt_agg.
    rewrite (find_char_hit 60 (show_aggf E g) ((c :: v) ++ [62]) [])
      by (eapply forallb_impl; [|exact I]; intros x H; apply plain_nolt, idc_plain, H).
    change (show_aggf E g ++ 60 :: (c :: v) ++ [62]) with (show_aggf E g ++ (60 :: c :: v) ++ [62]).
    rewrite app_assoc, last_is_snoc. cbn [rev app].
    change (c :: v ++ [62]) with ((c :: v) ++ [62]). rewrite removelast_last, TV.
    destruct g; try discriminate; reflexivity.
  - assert (FC : exists x t, show_aggf E g = x :: t /\ idc x = true).
    { destruct (show_aggf E g) as [|x t]; try congruence. exists x, t. cbn [forallb] in I.
      apply andb_true_iff in I. tauto. }
    destruct FC as (x & t & -> & IX). repeat split.
    + apply str_eqb_len. cbn [app length]. rewrite app_length. cbn [length]. lia.
    + cbn [app first_is]. apply N.eqb_neq. intros ->. discriminate.
    + cbn [app first_is]. apply N.eqb_neq. intros ->. discriminate.
Qed.

Lemma pt_arith rec o l r : wf_arith E (ABin o l r) = true ->
  f64_lexeme (show_arith E (ABin o l r)) = false ->
  parse_term_step E rec (show_arith E (ABin o l r)) = Some (TArith (ABin o l r)).
Proof.
  intros W NF. pose proof (good_show E _ W) as G.
  destruct (wf_bin E o l r W) as (Wl & Wr & _).
  pose proof (good_lopnd E o l Wl) as GL. pose proof (good_ropnd E o r Wr) as GR.
  assert (AC : forallb ac (show_arith E (ABin o l r)) = true) by apply G.
  rewrite step_skip.
  - rewrite pt_agg_nolt by (eapply forallb_impl; [apply ac_nolt|exact AC]).
    assert (FC : pt_fcall rec (show_arith E (ABin o l r)) = None).
    { unfold pt_fcall. destruct (find_char 40 (show_arith E (ABin o l r)) []) as [[fn rest]|] eqn:F; auto.
      rewrite (arith_fname _ fn rest G F), andb_false_r. reflexivity. }
    rewrite FC. unfold pt_scalar.
    assert (PI : parse_i64 (show_arith E (ABin o l r)) = None).
    { rewrite show_bin. destruct (ne_cons _ (good_ne _ GL)) as (x & t & EQ). rewrite EQ. cbn [app].
      apply parse_i64_none_later. rewrite forallb_app. cbn [forallb].
      assert (D : is_digit (op_char o) = false) by (destruct o; reflexivity).
      rewrite D. rewrite andb_false_r. reflexivity. }
    rewrite PI. unfold parse_f64. rewrite NF. rewrite (arith_has_op o l r W).
    unfold parse_arith.
    destruct (parith_roundtrip E _ W) as [RT _]. rewrite RT. reflexivity.
    pose proof (need_le E _ W). unfold arith_fuel. lia.
  - destruct (ne_cons _ (good_ne _ GL)) as (x & t & EQ).
    assert (AX : ac x = true).
    { pose proof (g_ac _ GL) as H. rewrite EQ in H. cbn [forallb] in H. apply andb_true_iff in H. tauto. }
    rewrite show_bin, EQ. repeat split.
    + apply str_eqb_len. cbn [app length]. rewrite app_length. cbn [length].
      pose proof (good_ne _ GR). destruct (ropnd E o r); [congruence|cbn [length]; lia].
    + cbn [app first_is]. apply N.eqb_neq. intros ->. discriminate.
    + cbn [app first_is]. apply N.eqb_neq. intros ->. discriminate.
Qed.

Lemma pt_fun rec f args : is_builtin f = true ->
  Forall (fun a => tgood E (show_term E a)) args ->
  (forall a, In a args -> rec (show_term E a) = Some a /\ rec (32 :: show_term E a) = Some a) ->
  parse_term_step E rec (f ++ 40 :: join_cs (List.map (show_term E) args) ++ [41]) = Some (TFun f args).
Proof.
  intros B TG R. destruct (builtin_props f B) as (NE & I & LO).
  set (J := join_cs (List.map (show_term E) args)).
  assert (FC : exists x t, f = x :: t /\ idc x = true).
  { destruct f as [|x t]; try congruence. exists x, t. cbn [forallb] in I. apply andb_true_iff in I. tauto. }
  destruct FC as (x & t & EF & IX).
  rewrite step_skip.
  - rewrite pt_agg_notgt.
    2:{ change (f ++ 40 :: J ++ [41]) with (f ++ (40 :: J) ++ [41]). rewrite app_assoc.
        apply last_is_snoc_ne. discriminate. }
    unfold pt_fcall.
    rewrite (find_char_hit 40 f (J ++ [41]) [])
      by (eapply forallb_impl; [|exact I]; intros c H; clear - H; cfact).
    change (f ++ 40 :: J ++ [41]) with (f ++ (40 :: J) ++ [41]). rewrite app_assoc, last_is_snoc.
    cbn [rev app]. rewrite removelast_last.
    assert (TF : trim f = f).
    { apply trim_all_nws. eapply forallb_impl; [|exact I]. intros c H. rewrite (idc_nws c H). reflexivity. }
    rewrite TF, LO, B. cbn [andb].
    destruct args as [|a args].
    + reflexivity.
    + assert (TJ : trim J = J).
      { apply trim_id.
        - unfold J. cbn [List.map]. apply first_nws_join. inversion TG; subst. apply H1.
        - unfold J. apply last_nws_join. discriminate.
          apply Forall_forall. intros y Hy. apply in_map_iff in Hy as (b & <- & Ib).
          rewrite Forall_forall in TG. apply (TG b Ib). }
      rewrite TJ. destruct J eqn:EJ.
      { exfalso. unfold J, join_cs in EJ. cbn [List.map join] in EJ. inversion TG; subst.
        pose proof (tgood_ne _ _ H1). destruct (List.map (show_term E) args); [congruence|].
        apply app_eq_nil in EJ. tauto. }
      rewrite <- EJ. unfold J. rewrite split_args_join.
      * cbn [rev]. pose proof (all_some_pieces rec (show_term E) (a :: args) R) as QQ.
        exact (f_equal (option_map (TFun f)) QQ).
      * discriminate.
      * apply Forall_forall. intros y Hy. apply in_map_iff in Hy as (b & <- & Ib).
        rewrite Forall_forall in TG. split. apply (TG b Ib). apply (tgood_ne _ _ (TG b Ib)).
  - rewrite EF. repeat split.
    + apply str_eqb_len. cbn [app length]. rewrite app_length. cbn [length]. lia.
    + cbn [app first_is]. apply N.eqb_neq. intros ->. discriminate.
    + cbn [app first_is]. apply N.eqb_neq. intros ->. discriminate.
Qed.

(* ------------------------------------------------------------------ the term round trip *)
Theorem parse_term_rt t : wf_term E t = true ->
  forall n, (tneed t <= n)%nat -> parse_term E n (show_term E t) = Some t.
Proof.
  induction t as [s|z| |g v|a|f args IH|xs|b|s|b] using term_ind'; intros W n L;
    (destruct n as [|n]; [cbn [tneed] in L; lia|]);
    cbn [parse_term]; rewrite (tgood_trim E _ (proj1 (good_term E _ W)));
    cbn [show_term wf_term] in *.
  - apply pt_var; auto.
  - apply pt_int; auto.
  - reflexivity.
  - destruct (std_agg_name E g v W) as (_ & _ & R & _). rewrite R. apply pt_agg_std; auto.
  - apply andb_true_iff in W as [W NF]. apply andb_true_iff in W as [B W].
    destruct a; try discriminate. apply pt_arith; auto. apply negb_true_iff; auto.
  - apply andb_true_iff in W as [WB WA]. apply pt_fun; auto.
    + apply Forall_forall. intros a Ia.
      destruct (good_term E a (forallb_In _ _ _ WA Ia)) as [G _]. exact G.
    + intros a Ia. rewrite parse_term_sp. rewrite Forall_forall in IH.
      assert (P : parse_term E n (show_term E a) = Some a).
      { apply (IH a Ia (forallb_In _ _ _ WA Ia)). cbn [tneed] in L. pose proof (tneed_in a args Ia). lia. }
      auto.
  - apply pt_vec; auto.
  - apply andb_true_iff in W as [W D]. apply andb_true_iff in W as [C F]. apply pt_float; auto.
  - apply pt_str.
  - apply pt_bool.
Qed.

End WithEnv.
