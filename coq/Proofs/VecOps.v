(* Lemmas for C26 (b), (c), (d) over Model/VecOps.v. *)
From IL Require Import Model.VecOps.
Open Scope Z_scope.

(* ================================================================ (b) the hyperplane cache *)
Section CacheProofs.
  Variable P : Type.
  Variable generate : key -> P.
  Notation cache := (cache P).
  Notation run_step := (run_step P generate).
  Notation run_steps := (run_steps P generate).

  (* every cached entry is what `generate` gives for its key *)
  Definition cache_inv (c : cache) : Prop :=
    Forall (fun e => e_planes e = generate (e_key e)) (entries c).

  Lemma key_eqb_eq a b : key_eqb a b = true -> a = b.
  Proof.
    destruct a as [[t1 h1] d1], b as [[t2 h2] d2]. unfold key_eqb. intros H.
    apply andb_true_iff in H. destruct H as [H Hd]. apply andb_true_iff in H. destruct H as [Ht Hh].
    apply Z.eqb_eq in Ht. apply N.eqb_eq in Hh. apply N.eqb_eq in Hd. subst. reflexivity.
  Qed.

  Lemma find_entry_spec k es e :
    Forall (fun e => e_planes e = generate (e_key e)) es ->
    find_entry P k es = Some e -> e_planes e = generate k.
  Proof.
    intros Hinv Hf. unfold find_entry in Hf. apply find_some in Hf. destruct Hf as [Hin Hk].
    apply key_eqb_eq in Hk. rewrite Forall_forall in Hinv. rewrite (Hinv e Hin), Hk. reflexivity.
  Qed.

  Lemma touch_inv k now es :
    Forall (fun e => e_planes e = generate (e_key e)) es ->
    Forall (fun e => e_planes e = generate (e_key e)) (touch P k now es).
  Proof.
    intros H. unfold touch. rewrite Forall_forall in *. intros e He. apply in_map_iff in He.
    destruct He as [x [<- Hx]]. destruct (key_eqb (e_key x) k); cbn [e_planes e_key]; apply H, Hx.
  Qed.

  Lemma remove_first_incl f es e : In e (remove_first P f es) -> In e es.
  Proof.
    induction es as [|x r IH]; cbn [remove_first]; [tauto|].
    destruct (f x); cbn [In]; [tauto|]. intros [H|H]; [left; exact H | right; apply IH, H].
  Qed.

  Lemma evict_inv es :
    Forall (fun e => e_planes e = generate (e_key e)) es ->
    Forall (fun e => e_planes e = generate (e_key e)) (evict_lru P es).
  Proof.
    intros H. unfold evict_lru. destruct es as [|e r]; [constructor|].
    rewrite Forall_forall in *. intros x Hx. apply H. eapply remove_first_incl. exact Hx.
  Qed.

  Lemma step_sound c s :
    cache_inv c ->
    cache_inv (fst (run_step c s)) /\
    forall p, snd (run_step c s) = Some p ->
      match s with CRead k | CWrite k => p = generate k | _ => False end.
  Proof.
    intros Hinv. unfold cache_inv in *. destruct s as [k|k| |n]; cbn [VecOps.run_step].
    - destruct (find_entry P k (entries c)) as [e|] eqn:E; cbn [fst snd entries].
      + split; [apply touch_inv, Hinv|]. intros p Hp. inversion Hp; subst. eapply find_entry_spec; eauto.
      + split; [exact Hinv | discriminate].
    - destruct (find_entry P k (entries c)) as [e|] eqn:E; cbn [fst snd entries].
      + split; [apply touch_inv, Hinv|]. intros p Hp. inversion Hp; subst. eapply find_entry_spec; eauto.
      + split; [|intros p Hp; inversion Hp; reflexivity].
        constructor; [reflexivity|]. destruct (_ <=? _)%N; [apply evict_inv, Hinv | exact Hinv].
    - cbn [fst snd entries]. split; [constructor | discriminate].
    - cbn [fst snd entries]. split; [exact Hinv | discriminate].
  Qed.

  (* under ANY schedule of atomic sections every planes value handed out is generate(key) *)
  Theorem schedule_sound ss : forall c,
    cache_inv c ->
    cache_inv (fst (run_steps c ss)) /\
    forall s p, In (s, Some p) (snd (run_steps c ss)) ->
      match s with CRead k | CWrite k => p = generate k | _ => False end.
  Proof.
    induction ss as [|s r IH]; intros c Hinv; cbn [VecOps.run_steps].
    - split; [exact Hinv | intros ? ? []].
    - destruct (step_sound c s Hinv) as [H1 H2].
      destruct (run_step c s) as [c1 o] eqn:E1. cbn [fst snd] in H1, H2.
      destruct (IH c1 H1) as [H3 H4]. destruct (run_steps c1 r) as [c2 os] eqn:E2. cbn [fst snd] in *.
      split; [exact H3|]. intros s' p [Heq|Hin].
      + inversion Heq; subst. apply H2. reflexivity.
      + apply H4, Hin.
  Qed.

  Lemma write_returns c k : exists p, snd (run_step c (CWrite k)) = Some p.
  Proof. cbn [VecOps.run_step]. destruct (find_entry P k (entries c)); cbn [snd]; eauto. Qed.

  (* get_or_create_hyperplanes returns generate(key) whatever the other threads do before it and
     between its two sections, from any cache state that satisfies the invariant *)
  Theorem get_or_create_pure c pre mid k :
    cache_inv c -> get_or_create P generate c pre mid k = Some (generate k).
  Proof.
    intros Hinv. unfold get_or_create.
    destruct (schedule_sound pre c Hinv) as [H1 _].
    destruct (step_sound (fst (run_steps c pre)) (CRead k) H1) as [H2 H3].
    destruct (run_step (fst (run_steps c pre)) (CRead k)) as [c2 r] eqn:E. cbn [fst snd] in H2, H3.
    destruct r as [p|]; [rewrite (H3 p eq_refl); reflexivity|].
    destruct (schedule_sound mid c2 H2) as [H4 _].
    destruct (step_sound (fst (run_steps c2 mid)) (CWrite k) H4) as [_ H6].
    destruct (write_returns (fst (run_steps c2 mid)) k) as [p Hp]. rewrite Hp. rewrite (H6 p Hp). reflexivity.
  Qed.

  Lemma empty_inv n : cache_inv (empty_cache P n).
  Proof. constructor. Qed.
End CacheProofs.

(* ================================================================ (c) distance laws over an abstract float
   F stands for IEEE values; `fin` = finite input component, `nn` = not NaN and not negative
   (either zero counts), `isz` = a zero.  The interface facts (Variables below) are the IEEE-754 facts the
   laws rest on; they hold in particular for exact integer arithmetic (instance at the end), and for
   binary32/binary64 they are standard (sign symmetry of rounding, x - x = +0, 0 * 0 = +0, ...). *)
Section FloatLaws.
  Variable F : Type.
  Variable finit pzero : F.                (* the start value of `sum()` and +0.0 *)
  Variable fadd fsub fmul : F -> F -> F.
  Variable fabs fsqrt widen : F -> F.
  Variable fin nn isz : F -> Prop.

  Variable sq_sym : forall a b, fin a -> fin b -> sq_diff F fsub fmul a b = sq_diff F fsub fmul b a.
  Variable abs_sym : forall a b, fin a -> fin b -> fabs (widen (fsub a b)) = fabs (widen (fsub b a)).
  Variable mul_comm : forall a b, fin a -> fin b -> fmul (widen a) (widen b) = fmul (widen b) (widen a).

  Variable nn_init : nn finit.
  Variable nn_add : forall a b, nn a -> nn b -> nn (fadd a b).
  Variable nn_sq : forall a b, fin a -> fin b -> nn (sq_diff F fsub fmul a b).
  Variable nn_abs : forall a b, fin a -> fin b -> nn (fabs (widen (fsub a b))).
  Variable nn_widen : forall a, nn a -> nn (widen a).
  Variable nn_sqrt : forall a, nn a -> nn (fsqrt a).

  Variable isz_init : isz finit.
  Variable isz_add : forall a b, isz a -> isz b -> isz (fadd a b).
  Variable isz_sq : forall a, fin a -> isz (sq_diff F fsub fmul a a).
  Variable isz_abs : forall a, fin a -> isz (fabs (widen (fsub a a))).
  Variable isz_widen : forall a, isz a -> isz (widen a).
  Variable isz_sqrt : forall a, isz a -> isz (fsqrt a).

  Notation zipw := (zipw F).
  Notation fsum := (fsum F finit fadd).
  Notation euclid := (euclid F finit fadd fsub fmul fsqrt widen).
  Notation euclid_sq := (euclid_sq F finit fadd fsub fmul widen).
  Notation manhattan := (manhattan F finit fadd fsub fabs widen).
  Notation dotp := (dotp F finit fadd fmul widen).

  Lemma zipw_sym {A} (f : F -> F -> A) a : forall b,
    Forall fin a -> Forall fin b -> (forall x y, fin x -> fin y -> f x y = f y x) -> zipw f a b = zipw f b a.
  Proof.
    induction a as [|x a IH]; intros [|y b] Ha Hb Hf; cbn [VecOps.zipw]; try reflexivity.
    inversion Ha; inversion Hb; subst. rewrite Hf by assumption. f_equal. apply IH; assumption.
  Qed.

  Lemma zipw_forall {A} (Q : A -> Prop) (f : F -> F -> A) a : forall b,
    Forall fin a -> Forall fin b -> (forall x y, fin x -> fin y -> Q (f x y)) -> Forall Q (zipw f a b).
  Proof.
    induction a as [|x a IH]; intros [|y b] Ha Hb Hf; cbn [VecOps.zipw]; try constructor.
    - inversion Ha; inversion Hb; subst. apply Hf; assumption.
    - inversion Ha; inversion Hb; subst. apply IH; assumption.
  Qed.

  Lemma zipw_diag {A} (Q : A -> Prop) (f : F -> F -> A) a :
    Forall fin a -> (forall x, fin x -> Q (f x x)) -> Forall Q (zipw f a a).
  Proof.
    induction a as [|x a IH]; intros Ha Hf; cbn [VecOps.zipw]; constructor.
    - inversion Ha; subst. apply Hf; assumption.
    - inversion Ha; subst. apply IH; assumption.
  Qed.

  Lemma fsum_pres (Q : F -> Prop) l :
    Q finit -> (forall a b, Q a -> Q b -> Q (fadd a b)) -> Forall Q l -> Q (fsum l).
  Proof.
    intros Hi Ha. unfold VecOps.fsum. generalize finit Hi. induction l as [|x r IH]; intros acc Hacc Hl; cbn [fold_left]; [exact Hacc|].
    inversion Hl; subst. apply IH; [apply Ha; assumption | assumption].
  Qed.

  (* symmetry: d(a,b) and d(b,a) are the same value, bit for bit *)
  Theorem euclid_sym a b : Forall fin a -> Forall fin b -> euclid a b = euclid b a.
  Proof. intros Ha Hb. unfold VecOps.euclid, VecOps.euclid_sq. rewrite (zipw_sym _ a b Ha Hb sq_sym). reflexivity. Qed.
  Theorem euclid_sq_sym a b : Forall fin a -> Forall fin b -> euclid_sq a b = euclid_sq b a.
  Proof. intros Ha Hb. unfold VecOps.euclid_sq. rewrite (zipw_sym _ a b Ha Hb sq_sym). reflexivity. Qed.
  Theorem manhattan_sym a b : Forall fin a -> Forall fin b -> manhattan a b = manhattan b a.
  Proof. intros Ha Hb. unfold VecOps.manhattan. rewrite (zipw_sym _ a b Ha Hb abs_sym). reflexivity. Qed.
  Theorem dotp_sym a b : Forall fin a -> Forall fin b -> dotp a b = dotp b a.
  Proof. intros Ha Hb. unfold VecOps.dotp. rewrite (zipw_sym _ a b Ha Hb mul_comm). reflexivity. Qed.

  (* non-negativity *)
  Theorem euclid_nn a b : Forall fin a -> Forall fin b -> nn (euclid a b).
  Proof.
    intros Ha Hb. apply nn_sqrt, nn_widen, fsum_pres; [exact nn_init | exact nn_add|].
    apply zipw_forall; assumption.
  Qed.
  Theorem manhattan_nn a b : Forall fin a -> Forall fin b -> nn (manhattan a b).
  Proof.
    intros Ha Hb. unfold VecOps.manhattan. apply fsum_pres; [exact nn_init | exact nn_add|]. apply zipw_forall; assumption.
  Qed.

  (* zero on identical inputs *)
  Theorem euclid_self a : Forall fin a -> isz (euclid a a).
  Proof.
    intros Ha. apply isz_sqrt, isz_widen, fsum_pres; [exact isz_init | exact isz_add|].
    apply zipw_diag; assumption.
  Qed.
  Theorem manhattan_self a : Forall fin a -> isz (manhattan a a).
  Proof. intros Ha. unfold VecOps.manhattan. apply fsum_pres; [exact isz_init | exact isz_add|]. apply zipw_diag; assumption. Qed.
End FloatLaws.

(* the interface is satisfiable: exact integer arithmetic *)
Lemma Zinstance_sq_sym a b : sq_diff Z Z.sub Z.mul a b = sq_diff Z Z.sub Z.mul b a.
Proof. unfold sq_diff. nia. Qed.

(* hamming_distance: symmetric, zero on identical inputs (non-negativity is by type) *)
Lemma hamming_sym a b : hamming64 a b = hamming64 b a.
Proof. unfold hamming64. rewrite (Z.lxor_comm a b). reflexivity. Qed.
Lemma hamming_self a : hamming64 a a = 0%nat.
Proof. unfold hamming64. rewrite Z.lxor_nilpotent. reflexivity. Qed.

(* ================================================================ (d) quantisation error, exact arithmetic *)
Lemma round_div_err a b : 0 < b -> Z.abs (2 * b * round_div a b - 2 * a) <= b.
Proof.
  intros Hb. unfold round_div. destruct (Z.leb_spec 0 a).
  - pose proof (Z.div_mod (2 * a + b) (2 * b) ltac:(lia)) as E.
    pose proof (Z.mod_pos_bound (2 * a + b) (2 * b) ltac:(lia)) as B. lia.
  - pose proof (Z.div_mod (2 * (- a) + b) (2 * b) ltac:(lia)) as E.
    pose proof (Z.mod_pos_bound (2 * (- a) + b) (2 * b) ltac:(lia)) as B. lia.
Qed.

Lemma round_div_mono_bound a b n : 0 < b -> 0 <= n -> Z.abs a <= n * b -> Z.abs (round_div a b) <= n.
Proof.
  intros Hb Hn Ha. pose proof (round_div_err a b Hb) as E.
  destruct (Z_le_gt_dec (Z.abs (round_div a b)) n) as [|Hgt]; [assumption|]. exfalso.
  assert (n + 1 <= Z.abs (round_div a b)) by lia. nia.
Qed.

Lemma max_abs_ge v x : In x v -> Z.abs x <= max_abs v.
Proof.
  induction v as [|y r IH]; [intros []|]. cbn [max_abs fold_right In]. intros [<-|H]; [lia|].
  specialize (IH H). unfold max_abs in IH. lia.
Qed.

Lemma max_abs_nonneg v : 0 <= max_abs v.
Proof. induction v as [|y r IH]; cbn [max_abs fold_right]; [lia|]. unfold max_abs in IH. lia. Qed.

(* symmetric quantisation: q * (max_abs/127) is within one step max_abs/127 of x
   (stated without division: |q * max_abs - 127 x| <= max_abs); in fact within half a step *)
Theorem quant_sym_error v x :
  In x v -> 0 < max_abs v ->
  let q := clampZ (-127) 127 (round_div (x * 127) (max_abs v)) in
  -127 <= q <= 127 /\ Z.abs (q * max_abs v - 127 * x) <= max_abs v.
Proof.
  intros Hin Hm q. pose proof (max_abs_ge v x Hin) as Hx.
  pose proof (round_div_err (x * 127) (max_abs v) Hm) as E.
  pose proof (round_div_mono_bound (x * 127) (max_abs v) 127 Hm ltac:(lia) ltac:(lia)) as B.
  assert (Eq : q = round_div (x * 127) (max_abs v)) by (unfold q, clampZ; lia).
  rewrite Eq. split; [lia|]. set (r := round_div (x * 127) (max_abs v)) in *. nia.
Qed.

Lemma fold_min_le r : forall y x, In x (y :: r) -> fold_right Z.min y r <= x.
Proof.
  induction r as [|z r IH]; intros y x Hin; cbn [fold_right].
  - destruct Hin as [<-|[]]. lia.
  - destruct Hin as [<-|[<-|Hin]].
    + specialize (IH y y (or_introl eq_refl)). lia.
    + lia.
    + specialize (IH y x (or_intror Hin)). lia.
Qed.
Lemma fold_max_ge r : forall y x, In x (y :: r) -> x <= fold_right Z.max y r.
Proof.
  induction r as [|z r IH]; intros y x Hin; cbn [fold_right].
  - destruct Hin as [<-|[]]. lia.
  - destruct Hin as [<-|[<-|Hin]].
    + specialize (IH y y (or_introl eq_refl)). lia.
    + lia.
    + specialize (IH y x (or_intror Hin)). lia.
Qed.
Lemma min_of_le v x : In x v -> min_of v <= x.
Proof. destruct v as [|y r]; [intros []|]. apply fold_min_le. Qed.
Lemma max_of_ge v x : In x v -> x <= max_of v.
Proof. destruct v as [|y r]; [intros []|]. apply fold_max_ge. Qed.

(* linear quantisation: min + (q + 128) * range/255 is within one step range/255 of x *)
Theorem quant_lin_error v x :
  In x v -> let lo := min_of v in let range := max_of v - lo in 0 < range ->
  let q := clampZ (-128) 127 (round_div ((x - lo) * 255 - 128 * range) range) in
  -128 <= q <= 127 /\ Z.abs ((q + 128) * range - 255 * (x - lo)) <= range.
Proof.
  intros Hin lo range Hr q. pose proof (min_of_le v x Hin) as H1. pose proof (max_of_ge v x Hin) as H2.
  fold lo in H1. assert (Hx : 0 <= x - lo <= range) by (unfold range; lia).
  pose proof (round_div_err ((x - lo) * 255 - 128 * range) range Hr) as E.
  set (r := round_div ((x - lo) * 255 - 128 * range) range) in *.
  assert (B : -128 <= r <= 127) by nia.
  assert (Eq : q = r) by (unfold q, clampZ; fold r; lia).
  rewrite Eq. split; [lia | nia].
Qed.
