(* The perfect model does not depend on the order (or multiplicity) in which the clauses are written:
   full statement of C04's clause-order independence, for programs whose dependency order is valid. *)
From IL Require Import Model.Value Model.Datalog Proofs.ValueEq Proofs.DatalogMono Proofs.DatalogSpec
                       Proofs.DatalogMisc Proofs.DatalogEngine.
From Coq Require Import Lia Permutation.
Open Scope N_scope.

Lemma heads_of_sound p : forall seen h, In h (heads_of p seen) -> exists c, In c p /\ chead c = h.
Proof.
  induction p as [|c0 p IH]; intros seen h H; cbn in H; [destruct H|].
  destruct (existsb (N.eqb (chead c0)) seen).
  - destruct (IH seen h H) as [c [Hc E]]. exists c; split; [right; exact Hc|exact E].
  - destruct H as [<-|H]; [exists c0; split; [left; reflexivity|reflexivity]|].
    destruct (IH _ h H) as [c [Hc E]]. exists c; split; [right; exact Hc|exact E].
Qed.

Lemma heads_In p h : In h (heads p) <-> exists c, In c p /\ chead c = h.
Proof.
  split; [apply heads_of_sound|]. intros [c [Hc <-]]. apply heads_complete, Hc.
Qed.

(* "same clause set": every clause of one program occurs in the other (covers permutation AND repetition) *)
Definition same_clauses (p p' : program) : Prop := forall c, In c p <-> In c p'.

Lemma same_clauses_perm p p' : Permutation p p' -> same_clauses p p'.
Proof. intros H c; split; intros Hc; [eapply Permutation_in; eauto|eapply Permutation_in; [apply Permutation_sym; exact H|exact Hc]]. Qed.

Lemma same_clauses_sym p p' : same_clauses p p' -> same_clauses p' p.
Proof. intros H c; symmetry; apply H. Qed.

Lemma same_heads p p' h : same_clauses p p' -> (In h (heads p) <-> In h (heads p')).
Proof.
  intros H. rewrite !heads_In. split; intros [c [Hc E]]; exists c; (split; [apply H; exact Hc|exact E]).
Qed.

Lemma same_apply_head p p' d h : same_clauses p p' -> seq (apply_head p d h) (apply_head p' d h).
Proof.
  intros H. split; intros t Ht; unfold apply_head in *; apply (proj1 (dedup_tuples_In _ _)) in Ht;
    apply dedup_tuples_In; apply in_flat_map in Ht; destruct Ht as [c [Hc Ht]]; apply in_flat_map;
    exists c; (split; [|exact Ht]); apply clauses_of_In in Hc; apply clauses_of_In; destruct Hc as [H1 H2];
    (split; [apply H; exact H1|exact H2]).
Qed.

Lemma same_no_agg p p' : same_clauses p p' -> no_agg p -> no_agg p'.
Proof. intros H Ha c Hc. apply Ha, H, Hc. Qed.

Lemma same_fresh p p' edb : same_clauses p p' -> heads_fresh p edb = true -> heads_fresh p' edb = true.
Proof.
  intros H Hf. unfold heads_fresh in *. rewrite forallb_forall in *. intros h Hh.
  apply Hf. apply (same_heads p p' h H). exact Hh.
Qed.

Lemma topo_order_complete p h : In h (heads p) -> In h (topo_order p).
Proof.
  intros Hh. unfold topo_order.
  set (o := kahn (length (heads p)) p (heads p) []).
  assert (Ho' : In h (o ++ filter (fun x => negb (memN x o)) (heads p))).
  { apply in_or_app. destruct (memN h o) eqn:E; [left; apply memN_In; exact E|].
    right. apply filter_In. split; [exact Hh|rewrite E; reflexivity]. }
  destruct (rev (heads p)) as [|q r] eqn:Er.
  - exact Ho'.
  - apply in_or_app. destruct (N.eq_dec h q) as [->|Hne]; [right; left; reflexivity|].
    left. apply filter_In. split; [exact Ho'|]. apply negb_true_iff, N.eqb_neq, Hne.
Qed.

Section Perm.
  Variables p p' : program.
  Variable fuel : nat.
  Variable edb : db.
  Hypothesis Hsame : same_clauses p p'.
  Hypothesis Hagg : no_agg p.
  Hypothesis Hstrat : stratified p = true.
  Hypothesis Hstrat' : stratified p' = true.
  Hypothesis Hfresh : heads_fresh p edb = true.
  Variables M M' : db.
  Hypothesis HM : perfect_model fuel p edb = Some M.
  Hypothesis HM' : perfect_model fuel p' edb = Some M'.

  Let Hagg' : no_agg p' := same_no_agg p p' Hsame Hagg.
  Let Hfresh' : heads_fresh p' edb = true := same_fresh p p' edb Hsame Hfresh.

  Lemma step_agree done h : In h (heads p) ->
    (forall g, In g done -> seq (get M g) (get M' g)) ->
    forallb (fun g => memN g done) (deps p (heads p) h) = true ->
    seq (get M h) (get M' h).
  Proof.
    intros Hh Hdone Hd.
    assert (Hh' : In h (heads p')) by (apply (same_heads p p' h Hsame); exact Hh).
    (* everything h references, other than h itself, agrees in M and M' *)
    assert (R : forall r b, In (r, b) (head_refs p h) -> r <> h -> seq (get M r) (get M' r)).
    { intros r b Hr Hne. destruct (in_dec N.eq_dec r (heads p)) as [Hin|Hnin].
      - apply Hdone. rewrite forallb_forall in Hd. apply memN_In, Hd. unfold deps. apply filter_In. split.
        + apply nodupN_In. apply in_map_iff. exists (r, b). split; [reflexivity|exact Hr].
        + apply andb_true_iff. split; [apply memN_In; exact Hin|apply negb_true_iff, N.eqb_neq, Hne].
      - rewrite (M_nonhead p fuel edb Hstrat M HM r Hnin).
        assert (Hnin' : ~ In r (heads p')) by (intros X; apply Hnin, (same_heads p p' r Hsame), X).
        rewrite (M_nonhead p' fuel edb Hstrat' M' HM' r Hnin'). apply seq_refl. }
    split.
    - (* M h ⊆ M' h by leastness of M *)
      apply (M_least p fuel edb Hagg Hstrat Hfresh M HM h (get M' h) Hh).
      eapply incl_tran; [|apply (M_closed p' fuel edb Hagg' Hstrat' Hfresh' M' HM' h Hh')].
      eapply incl_tran; [|apply (proj1 (same_apply_head p p' M' h Hsame))].
      assert (A1 : agree_refs p h (set_rel M h (get M' h)) M').
      { intros r b Hr. rewrite get_set_rel. destruct (N.eqb r h) eqn:E; [apply N.eqb_eq in E; subst; apply seq_refl|].
        apply N.eqb_neq in E. exact (R r b Hr E). }
      apply (proj1 (apply_head_frame p h _ _ Hagg A1)).
    - (* M' h ⊆ M h by leastness of M' *)
      apply (M_least p' fuel edb Hagg' Hstrat' Hfresh' M' HM' h (get M h) Hh').
      eapply incl_tran; [|apply (M_closed p fuel edb Hagg Hstrat Hfresh M HM h Hh)].
      eapply incl_tran; [apply (proj2 (same_apply_head p p' (set_rel M' h (get M h)) h Hsame))|].
      assert (A2 : agree_refs p h (set_rel M' h (get M h)) M).
      { intros r b Hr. rewrite get_set_rel. destruct (N.eqb r h) eqn:E; [apply N.eqb_eq in E; subst; apply seq_refl|].
        apply N.eqb_neq in E. apply seq_sym. exact (R r b Hr E). }
      apply (proj1 (apply_head_frame p h _ _ Hagg A2)).
  Qed.

  Lemma order_agree : forall o done,
    (forall g, In g done -> seq (get M g) (get M' g)) ->
    order_okb p (heads p) done o = true ->
    forall h, In h o -> seq (get M h) (get M' h).
  Proof.
    induction o as [|x o IH]; intros done Hdone Ho h Hh; [destruct Hh|].
    cbn [order_okb] in Ho. apply andb_true_iff in Ho. destruct Ho as [Ho Ho3].
    apply andb_true_iff in Ho. destruct Ho as [Ho1 Ho2]. apply memN_In in Ho1.
    pose proof (step_agree done x Ho1 Hdone Ho2) as Hx.
    destruct Hh as [<-|Hh]; [exact Hx|].
    apply (IH (x :: done)); [|exact Ho3|exact Hh].
    intros g [<-|Hg]; [exact Hx|apply Hdone, Hg].
  Qed.

  Theorem perfect_model_same_clauses : order_ok p = true ->
    forall r, seq (get M r) (get M' r).
  Proof.
    intros Ho r. destruct (in_dec N.eq_dec r (heads p)) as [Hin|Hnin].
    - apply (order_agree (topo_order p) [] (fun g (F : In g []) => match F with end) Ho r).
      apply topo_order_complete, Hin.
    - rewrite (M_nonhead p fuel edb Hstrat M HM r Hnin).
      assert (Hnin' : ~ In r (heads p')) by (intros X; apply Hnin, (same_heads p p' r Hsame), X).
      rewrite (M_nonhead p' fuel edb Hstrat' M' HM' r Hnin'). apply seq_refl.
  Qed.
End Perm.
