(* Schema enforcement: the code's matching table equals the specification `conforms`, and the
   invariant "every stored tuple conforms to the declared schema" over all histories. *)
From IL Require Import Model.Value Proofs.ValueEq Model.Store Proofs.Store Model.StoreStmt Proofs.StoreStmt
  Model.StoreSchema.
Open Scope N_scope.

(* the generated table (SchemaType::matches) is the specification: all declared types x all values *)
Lemma matches_is_conforms t v : code_matches t v = conforms t v.
Proof. destruct t as [ | | | | | |[n|]| | ]; destruct v; reflexivity. Qed.

Lemma row_ok_ext f g sc t : (forall ty v, f ty v = g ty v) -> row_ok f sc t = row_ok g sc t.
Proof.
  intros H. revert t; induction sc as [|ty sr IH]; intros [|v tr]; cbn; try reflexivity.
  rewrite H, IH. reflexivity.
Qed.

Lemma forallb_ext' {A} (f g : A -> bool) l : (forall x, f x = g x) -> forallb f l = forallb g l.
Proof. intros H. induction l as [|x l IH]; cbn; [reflexivity | rewrite H, IH; reflexivity]. Qed.

Lemma validate_batch_spec sc ts : validate_batch sc ts = forallb (conforms_row sc) ts.
Proof.
  unfold validate_batch, conforms_row. apply forallb_ext'. intros t. apply row_ok_ext, matches_is_conforms.
Qed.

(* ---------------------------------------------------------------- where stored tuples come from *)

Lemma step_ins_incl s ts t : In t (live (fst (step_ins s ts))) -> In t (live s) \/ In t ts.
Proof.
  destruct (step_ins s ts) as [s' rep] eqn:E. cbn [fst]. destruct rep.
  - apply step_ins_ok in E. destruct E as [L _]. rewrite L. apply ins_mem_In.
  - destruct (step_ins_shape s ts) as [[n' [d H]]|H]; rewrite E in H; discriminate.
  - apply step_ins_err in E. subst. auto.
  - destruct (step_ins_shape s ts) as [[n' [d H]]|H]; rewrite E in H; discriminate.
Qed.

Lemma step_del_incl s ts t : In t (live (fst (step_del s ts))) -> In t (live s).
Proof.
  destruct (step_del s ts) as [s' rep] eqn:E. cbn [fst]. destruct rep.
  - destruct (step_del_shape s ts) as [[n' H]|H]; rewrite E in H; discriminate.
  - apply step_del_ok in E. destruct E as [L _]. rewrite L. intros H. apply del_mem_In in H. tauto.
  - apply step_del_err in E. subst. auto.
  - destruct (step_del_shape s ts) as [[n' H]|H]; rewrite E in H; discriminate.
Qed.

Lemma del_each_incl ds : forall s t, In t (live (fst (del_each s ds))) -> In t (live s).
Proof.
  induction ds as [|d r IH]; intros s t; cbn [del_each]; [auto|].
  pose proof (step_del_incl s [d] t) as H1. destruct (step_del s [d]) as [s1 rep]. cbn [fst] in H1.
  destruct rep; cbn [fst]; auto.
  specialize (IH s1 t). destruct (del_each s1 r) as [s2 m]. cbn [fst] in *. auto.
Qed.

Lemma ins_each_incl is : forall s t, In t (live (fst (ins_each s is))) -> In t (live s) \/ In t is.
Proof.
  induction is as [|i r IH]; intros s t; cbn [ins_each]; [auto|].
  pose proof (step_ins_incl s [i] t) as H1. destruct (step_ins s [i]) as [s1 rep]. cbn [fst] in H1.
  assert (G : In t (live s1) -> In t (live s) \/ In t (i :: r)).
  { intros H. destruct (H1 H) as [?|[->|[]]]; cbn; auto. }
  destruct rep; cbn [fst]; auto.
  specialize (IH s1 t). destruct (ins_each s1 r) as [s2 m]. cbn [fst] in *.
  intros H. destruct (IH H) as [H'|H']; [auto | cbn; auto].
Qed.

(* whatever a statement does (even when it fails half-way), every tuple stored afterwards was
   stored before or is one of the tuples the statement set out to store *)
Lemma exec_incl s q t :
  In t (live (fst (exec s q))) -> In t (live s) \/ In t (to_store q (live s)).
Proof.
  destruct q as [ts|u|ts|head c|dt it c]; cbn [exec to_store].
  - pose proof (step_ins_incl s ts t) as H. destruct (step_ins s ts) as [s1 r1]. destruct r1; exact H.
  - pose proof (step_del_incl s [u] t) as H. destruct (step_del s [u]) as [s1 r1]. destruct r1; cbn [fst] in *; auto.
  - pose proof (del_each_incl ts s t) as H. destruct (del_each s ts) as [s1 [n|]]; cbn [fst] in *; auto.
  - destruct (negb (cond_vars_bound c head)); [cbn; auto|].
    pose proof (del_each_incl (insts head (matches head c (live s))) s t) as H.
    destruct (del_each s _) as [s1 [n|]]; cbn [fst] in *; auto.
  - set (bs := matches [AX; AY] c (live s)).
    pose proof (del_each_incl (insts dt bs) s t) as H1. destruct (del_each s (insts dt bs)) as [s1 [d|]]; cbn [fst] in *; [|auto].
    pose proof (ins_each_incl (insts it bs) s1 t) as H2. destruct (ins_each s1 (insts it bs)) as [s2 [i|]]; cbn [fst] in *;
      intros H; destruct (H2 H); auto.
Qed.

(* ---------------------------------------------------------------- the schema invariant *)

Definition SInv (s : sst) : Prop :=
  Inv (base s) /\
  forall sc, decl s = Some sc -> forall t, In t (live (base s)) -> conforms_row sc t = true.

Lemma SInv_sst0 : SInv sst0.
Proof. split; [apply Inv_st0 | intros sc H; discriminate]. Qed.

Lemma sexec_SInv s q : SInv s -> SInv (fst (sexec s q)).
Proof.
  intros [I C]. destruct q as [sc|q]; cbn [sexec].
  - destruct (validate_batch sc (live (base s))) eqn:V; cbn [fst]; [|split; assumption].
    split; [exact I|]. cbn [decl base]. intros sc' [= <-] t Ht.
    rewrite validate_batch_spec, forallb_forall in V. apply V, Ht.
  - destruct (validate_opt (decl s) (to_store q (live (base s)))) eqn:V; cbn [fst]; [|split; assumption].
    pose proof (exec_Inv (base s) q I) as I'. pose proof (exec_incl (base s) q) as Hin.
    destruct (exec (base s) q) as [b r]. cbn [fst] in *. split; [exact I'|]. cbn [decl base].
    intros sc E t Ht. destruct (Hin t Ht) as [H|H]; [apply (C sc E t H)|].
    rewrite E in V. cbn [validate_opt] in V. rewrite validate_batch_spec, forallb_forall in V. apply V, H.
Qed.

Lemma srun_SInv h : forall s, SInv s -> SInv (srun s h).
Proof.
  unfold srun. induction h as [|q h IH]; intros s I; cbn [fold_left]; [exact I | apply IH, sexec_SInv, I].
Qed.
